/-
  C18 proofs.  Everything is about the definitions REGENERATED from pkg/op/session.go,
  server_legacy.go and server_http.go (Generated/Session.lean):

  * `uri_sound` / `uri_complete`        — ValidateEndSessionPostLogoutRedirectURI = "registered exactly or via an opted-in glob"
  * `hint_sound`                        — a hint the verifier lets through (valid or expired) is validly signed (C02) by the own issuer,
                                          under the key set CONFIGURED FOR HINTS
  * `c18_hint_keyset`                   — over the REGENERATED key-set wiring of `NewProvider` / `WithAccessTokenKeySet` /
                                          `WithIDTokenHintKeySet` / the verifier getters (Generated/SessionKeys.lean): for EVERY list of
                                          options the hint verifier's key set is the argument of the last `WithIDTokenHintKeySet`, else the
                                          storage-backed key set - whatever `WithAccessTokenKeySet` options the list contains
  * `c18_provider_configured`           — hence the provider `NewProvider` returns is configured as the statement assumes; the headline
                                          theorems (`c18_redirect_sound`, `c18_hint_rules`, …) are about THAT provider, for every option list
  * `validate_eq_ref`                   — bridge: ValidateEndSessionRequest is the three-step reference function
  * `c18_redirect_sound`                — a redirecting answer of either router satisfies the monitor (all clauses), for every
                                          URL parser: the target's own query text is kept as it is (`c18_query_kept`)
  * `c18_rejected`                      — a rejecting answer satisfies the monitor (valid logout requests are not rejected)
  * `c18_time_independent`              — the decision does not depend on the clock: an expired hint is as good as a fresh one
  * `c18_state_intact`                  — the appended state decodes unchanged (uses Proofs/Query.lean)
  For ALL requests, registrations, key sets, oracle behaviours (glob matcher, SessURL parser, token parser) and
  storage behaviours (`termOK`); no bounds.
-/
import OidcModel.Proofs.C18Char
import OidcModel.Proofs.Query
namespace C18
open Go Gen Hand

/-- soundness of the URI check: accepted ⇒ registered exactly or via an opted-in glob (from `refURI`, layer 1: `validateURI_char`) -/
theorem refURI_sound {o : SessOracles} {uri : String} {c : OPClient}
    (h : refURI o uri c = .ok ()) : registered o.pathMatch c uri = true := by
  unfold refURI at h
  by_cases hex : c.postLogoutURIs.contains uri = true
  · simp only [registered, Bool.or_eq_true]; left; exact hex
  · simp only [hex, Bool.false_eq_true, if_false] at h
    by_cases hopt : c.is_HasRedirectGlobs = true
    · simp only [hopt, if_true] at h
      cases hf : Go.forFirst c.PostLogoutRedirectURIGlobs (globStep o.pathMatch uri) with
      | none => simp [hf] at h
      | some r =>
        simp only [hf] at h
        subst h
        obtain ⟨g, hg, hfg⟩ := forFirst_some hf
        simp only [registered, Bool.or_eq_true, Bool.and_eq_true, List.any_eq_true]
        right
        refine ⟨by simpa [optedIn, OPClient.is_HasRedirectGlobs] using hopt, g, by simpa [plGlobs, OPClient.PostLogoutRedirectURIGlobs] using hg, ?_⟩
        unfold globStep at hfg
        cases hp : o.pathMatch g uri with
        | error x => simp [hp] at hfg
        | ok b => cases b <;> simp [hp, globMatches] at hfg ⊢
    · simp [hopt] at h

theorem uri_sound {now : Int} {o : SessOracles} {uri : String} {c : OPClient}
    (h : ValidateEndSessionPostLogoutRedirectURI now o uri c = .ok ()) : registered o.pathMatch c uri = true :=
  refURI_sound (by rw [← validateURI_char now]; exact h)

theorem acceptedOK_congr (algs : List String) (ks : KeySet) (t : Token) (c c' : Claims)
    (h : { c' with sigAlg := "" } = { c with sigAlg := "" }) : C02.acceptedOK algs ks t c' = C02.acceptedOK algs ks t c := by
  unfold C02.acceptedOK
  simp only [h]

/-- a hint the regenerated verifier lets through (valid OR expired) is proven in the sense of the statement -/
theorem hint_sound {now : Int} {t : Token} {v : Verifier} {out : HintOut} (cfg : Cfg)
    (hi : v.Issuer = cfg.issuer) (hk : v.KeySet = cfg.hintKeySet) (ha : v.SupportedSignAlgs = cfg.algs)
    (h : VerifyIDTokenHint now t v = .ok out) :
    ∃ c, hintProven cfg t = some c ∧ hintDefect cfg t = none ∧ (hintClaims out).sub = c.sub ∧ (hintClaims out).azp = c.azp := by
  obtain ⟨p, c0, hp, hiss, c1, hs, hc⟩ := hint_paths h
  obtain ⟨alg, halg⟩ := checkSignature_claims hs
  have hacc := C02.parse_and_signature_sound hp hs
  have hco := parseToken_claimsOf hp
  have hmon : C02.monitor cfg.algs cfg.hintKeySet t (some c0) = none := by
    have e : C02.acceptedOK cfg.algs cfg.hintKeySet t c0 = none := by
      rw [← ha, ← hk, ← acceptedOK_congr _ _ _ c0 c1 (by rw [halg]; rfl)]
      exact hacc.1
    have hamb : C02.ambiguous cfg.hintKeySet t = false := by rw [← hk]; exact hacc.2
    simp [C02.monitor, e, hamb]
  have hissuer : c0.iss = cfg.issuer := by rw [← hi]; exact checkIssuer_ok.mp hiss
  refine ⟨c0, ?_, ?_, ?_, ?_⟩
  · simp [hintProven, hco, hmon, hissuer]
  · simp [hintDefect, hco, hmon, hissuer]
  · rw [hc, halg]; rfl
  · rw [hc, halg]; rfl

theorem qvals_nil (k : String) : qvals [] k = [] := rfl

theorem qvals_cons (kv : String × List String) (rest : List (String × List String)) (k : String) :
    qvals (kv :: rest) k = if kv.1 == k then kv.2 else qvals rest k := by
  simp only [qvals, List.find?_cons]
  cases kv.1 == k <;> rfl

theorem qvals_insertSorted_same (q : List (String × List String)) (k : String) (vs : List String)
    (h : q.any (·.1 == k) = false) : qvals (insertSorted q (k, vs)) k = vs := by
  induction q with
  | nil => simp [insertSorted, qvals_cons]
  | cons kv rest ih =>
    simp only [List.any_cons, Bool.or_eq_false_iff] at h
    simp only [insertSorted]
    split
    · simp [qvals_cons]
    · rw [qvals_cons, h.1]; exact ih h.2

theorem qvals_insertSorted_other (q : List (String × List String)) (k k' : String) (vs : List String)
    (h : (k == k') = false) : qvals (insertSorted q (k, vs)) k' = qvals q k' := by
  induction q with
  | nil => simp [insertSorted, qvals_cons, h]
  | cons kv rest ih =>
    simp only [insertSorted]
    split
    · rw [qvals_cons]; simp [h]
    · rw [qvals_cons, qvals_cons, ih]

theorem qvals_none (q : List (String × List String)) (k : String) (h : q.any (·.1 == k) = false) : qvals q k = [] := by
  induction q with
  | nil => rfl
  | cons kv rest ih =>
    simp only [List.any_cons, Bool.or_eq_false_iff] at h
    rw [qvals_cons, h.1]; exact ih h.2

/-- append `v` to the values of every entry with key `k` -/
def bump (k v : String) (q : List (String × List String)) : List (String × List String) :=
  q.map fun kv => if kv.1 == k then (kv.1, kv.2 ++ [v]) else kv

theorem qvals_bump_same (q : List (String × List String)) (k v : String) (h : q.any (·.1 == k) = true) :
    qvals (bump k v q) k = qvals q k ++ [v] := by
  induction q with
  | nil => simp at h
  | cons kv rest ih =>
    simp only [bump, List.map_cons] at ih ⊢
    by_cases hk : (kv.1 == k) = true
    · rw [qvals_cons, qvals_cons]; simp [hk]
    · have hk' : (kv.1 == k) = false := by simpa using hk
      simp only [List.any_cons, hk', Bool.false_or] at h
      rw [qvals_cons, qvals_cons]
      simp only [hk', Bool.false_eq_true, if_false]
      exact ih h

theorem qvals_bump_other (q : List (String × List String)) (k v k' : String) (h : (k == k') = false) :
    qvals (bump k v q) k' = qvals q k' := by
  induction q with
  | nil => rfl
  | cons kv rest ih =>
    simp only [bump, List.map_cons] at ih ⊢
    by_cases hk : (kv.1 == k) = true
    · have e : kv.1 = k := by simpa using hk
      have hk2 : (kv.1 == k') = false := by rw [e]; exact h
      rw [qvals_cons, qvals_cons]
      simp only [hk, if_true, hk2, Bool.false_eq_true, if_false]
      exact ih
    · have hk' : (kv.1 == k) = false := by simpa using hk
      rw [qvals_cons, qvals_cons]
      simp only [hk', Bool.false_eq_true, if_false]
      rw [ih]

theorem qvals_addParam_same (q : List (String × List String)) (k v : String) :
    qvals (addParam q k v) k = qvals q k ++ [v] := by
  unfold addParam
  split
  · rename_i hany; exact qvals_bump_same q k v hany
  · rename_i hany
    have hany' : q.any (·.1 == k) = false := Bool.eq_false_iff.mpr hany
    rw [qvals_none q k hany', qvals_insertSorted_same _ _ _ hany']
    rfl

theorem qvals_addParam_other (q : List (String × List String)) (k v k' : String) (h : (k == k') = false) :
    qvals (addParam q k v) k' = qvals q k' := by
  unfold addParam
  split
  · exact qvals_bump_other q k v k' h
  · exact qvals_insertSorted_other _ _ _ _ h

/-- the query decoded from the redirect is the target's query plus exactly one more `state` value -/
theorem queryPlusState_addParam (q : List (String × List String)) (s : String) :
    queryPlusState q (addParam q "state" s) s = true := by
  unfold queryPlusState
  simp only [List.all_eq_true]
  intro k _
  by_cases hk : k = "state"
  · subst hk; simp [qvals_addParam_same]
  · have : ("state" == k) = false := by
      simp only [beq_eq_false_iff_ne, ne_eq]
      intro e; exact hk e.symm
    simp [qvals_addParam_other _ _ _ _ this, hk]

/-- the request as the statement sees it -/
def reqOf (o : SessOracles) (r : EndSessionReq) : Req :=
  { hint := if r.IdTokenHint != "" then some (o.tokenOf r.IdTokenHint) else none,
    clientID := r.ClientID, plu := r.PostLogoutRedirectURI, state := r.State }

def orcOf (o : SessOracles) : Orc := { pathMatch := o.pathMatch, urlParse := o.urlParse }

/-- the provider `e` is set up as the configuration `cfg` says -/
structure Configured (cfg : Cfg) (e : SessionEnder) : Prop where
  clients : e.store.clients = cfg.clients
  dflt : e.defaultLogoutURI = cfg.defaultURI
  issuer : e.hintVerifier.Issuer = cfg.issuer
  keys : e.hintVerifier.KeySet = cfg.hintKeySet     -- the key set configured for hints, NOT the access-token key set
  algs : e.hintVerifier.SupportedSignAlgs = cfg.algs

/-! ### which key set the verifiers of a constructed provider use (regenerated wiring, Generated/SessionKeys.lean) -/
section keysets
open SessKeys

/-- what ONE option does to the key-set fields (the regenerated option functions): `WithAccessTokenKeySet` writes
    the access-token field, `WithIDTokenHintKeySet` the hint field, no other option touches either -/
theorem applyOption_fields {α : Type} (own : α) (s : St α) (n : String) (a : α) :
    (applyOption GenSessKeys.optionEffects own s (n, a)).fields =
      if n = "WithAccessTokenKeySet" then ("accessTokenKeySet", some a) :: s.fields
      else if n = "WithIDTokenHintKeySet" then ("idTokenHinKeySet", some a) :: s.fields else s.fields := by
  by_cases h1 : n = "WithAccessTokenKeySet"
  · subst h1; rfl
  · by_cases h2 : n = "WithIDTokenHintKeySet"
    · subst h2; rfl
    · have e1 : ("WithAccessTokenKeySet" == n) = false := by simpa using fun e => h1 e.symm
      have e2 : ("WithIDTokenHintKeySet" == n) = false := by simpa using fun e => h2 e.symm
      simp [applyOption, GenSessKeys.optionEffects, effectsOf, e1, e2, h1, h2]

/-- the option loop: each field ends up with the argument of the LAST option that writes it, else keeps its content -/
theorem applyOptions_get {α : Type} (own : α) (opts : List (String × α)) (s : St α) :
    SessKeys.get (opts.foldl (applyOption GenSessKeys.optionEffects own) s).fields "idTokenHinKeySet" =
      (match lastArg "WithIDTokenHintKeySet" opts with | some a => some a | none => SessKeys.get s.fields "idTokenHinKeySet") ∧
    SessKeys.get (opts.foldl (applyOption GenSessKeys.optionEffects own) s).fields "accessTokenKeySet" =
      (match lastArg "WithAccessTokenKeySet" opts with | some a => some a | none => SessKeys.get s.fields "accessTokenKeySet") := by
  induction opts generalizing s with
  | nil => exact ⟨rfl, rfl⟩
  | cons o rest ih =>
    obtain ⟨n, a⟩ := o
    simp only [List.foldl_cons]
    obtain ⟨ih1, ih2⟩ := ih (applyOption GenSessKeys.optionEffects own s (n, a))
    rw [ih1, ih2, applyOption_fields]
    simp only [lastArg]
    constructor
    · cases lastArg "WithIDTokenHintKeySet" rest with
      | some b => rfl
      | none =>
        by_cases h1 : n = "WithAccessTokenKeySet"
        · subst h1; rfl
        · by_cases h2 : n = "WithIDTokenHintKeySet"
          · subst h2; rfl
          · simp [h1, h2]
    · cases lastArg "WithAccessTokenKeySet" rest with
      | some b => rfl
      | none =>
        by_cases h1 : n = "WithAccessTokenKeySet"
        · subst h1; rfl
        · by_cases h2 : n = "WithIDTokenHintKeySet"
          · subst h2; rfl
          · simp [h1, h2]

/-- C18, "a hint validly signed BY THE OP": for EVERY list of options passed to `NewProvider` (any order, repeats,
    other options in between) and every storage-backed key set `own`,
    * the verifier `Provider.IDTokenHintVerifier` builds verifies with the argument of the last `WithIDTokenHintKeySet`
      of the list, and without such an option with `own` (`&OpenIDKeySet{storage}`) — independently of every
      `WithAccessTokenKeySet` in the list;
    * that is the content of the field the regenerated getter `Gen.ProviderIDTokenHintVerifier` reads;
    * `Provider.AccessTokenVerifier` verifies with the last `WithAccessTokenKeySet` argument, else with `own`.
    About the REGENERATED `newProvider_keysets`, `optionEffects`, `verifierKeySets`. -/
theorem c18_hint_keyset {α : Type} (own : α) (opts : List (String × α)) :
    let s := run GenSessKeys.optionEffects own opts GenSessKeys.newProvider_keysets
    verifierKeySet GenSessKeys.verifierKeySets own s "IDTokenHintVerifier" = some ((lastArg "WithIDTokenHintKeySet" opts).getD own) ∧
    SessKeys.get s.fields "idTokenHinKeySet" = some ((lastArg "WithIDTokenHintKeySet" opts).getD own) ∧
    verifierKeySet GenSessKeys.verifierKeySets own s "AccessTokenVerifier" = some ((lastArg "WithAccessTokenKeySet" opts).getD own) := by
  intro s
  have hs : s = opts.foldl (applyOption GenSessKeys.optionEffects own)
      { locals := [("keySet", some own)], fields := [("idTokenHinKeySet", some own), ("accessTokenKeySet", some own)] } := rfl
  obtain ⟨h1, h2⟩ := applyOptions_get own opts
    { locals := [("keySet", some own)], fields := [("idTokenHinKeySet", some own), ("accessTokenKeySet", some own)] }
  rw [← hs] at h1 h2
  have g1 : SessKeys.get s.fields "idTokenHinKeySet" = some ((lastArg "WithIDTokenHintKeySet" opts).getD own) := by
    rw [h1]; cases lastArg "WithIDTokenHintKeySet" opts <;> rfl
  have g2 : SessKeys.get s.fields "accessTokenKeySet" = some ((lastArg "WithAccessTokenKeySet" opts).getD own) := by
    rw [h2]; cases lastArg "WithAccessTokenKeySet" opts <;> rfl
  exact ⟨g1, g1, g2⟩

/-- the same as a table: per option combination, the source of the key set of each verifier -/
theorem c18_keyset_table :
    SessKeys.table GenSessKeys.newProvider_keysets GenSessKeys.optionEffects GenSessKeys.verifierKeySets =
      [((false, false), [("IDTokenHintVerifier", some .storage), ("AccessTokenVerifier", some .storage)]),
       ((true, false), [("IDTokenHintVerifier", some .storage), ("AccessTokenVerifier", some .accessTokenOpt)]),
       ((false, true), [("IDTokenHintVerifier", some .idTokenHintOpt), ("AccessTokenVerifier", some .storage)]),
       ((true, true), [("IDTokenHintVerifier", some .idTokenHintOpt), ("AccessTokenVerifier", some .accessTokenOpt)])] := by
  decide

/-- the storage-backed key set takes its keys from `Storage.KeySet` (the keys the OP publishes and signs with) and nowhere else -/
theorem c18_openIDKeySet_storage : GenSessKeys.openIDKeySet_storageCalls = ["KeySet"] := by decide

end keysets

/-- the hint key set the configuration `cfg` names is what the option list `opts` asks for -/
def HintOpts (cfg : Cfg) (opts : List Sess.KeyOpt) : Prop :=
  SessKeys.lastArg "WithIDTokenHintKeySet" (opts.map Sess.KeyOpt.named) = cfg.hintKeys

/-- the provider `op.NewProvider` returns for the configuration `cfg` and the options `opts`, on a storage that
    behaves as `termOK` / `fromReq` say, serving a request addressed to `cfg.issuer` -/
def providerOf (now : Int) (cfg : Cfg) (opts : List Sess.KeyOpt) (termOK : String → String → Bool) (fromReq : Bool) : SessionEnder :=
  Sess.constructedEnder now cfg.issuer cfg.keys opts cfg.algs
    { clients := cfg.clients, termOK := termOK, is_CanTerminateSessionFromRequest := fromReq } cfg.defaultURI

/-- the hint verifier of that provider uses the key set configured for hints — whatever access-token key sets `opts` names -/
theorem providerOf_keySet (now : Int) (cfg : Cfg) (opts : List Sess.KeyOpt) (hopts : HintOpts cfg opts)
    (termOK : String → String → Bool) (fromReq : Bool) :
    (providerOf now cfg opts termOK fromReq).hintVerifier.KeySet = cfg.hintKeySet := by
  have h := (c18_hint_keyset cfg.keys (opts.map Sess.KeyOpt.named)).2.1
  simp only [providerOf, Sess.constructedEnder, Sess.providerEnder, providerVerifier_char, Sess.newProvider]
  unfold Sess.newProviderKeySets
  rw [h, hopts]
  rfl

/-- the provider of the real routers is configured as the statement assumes: its hint verifier is rebuilt for
    EVERY request from that request's issuer, the key set configured for hints (`c18_hint_keyset`) and the configured
    algorithms (regenerated `Provider.IDTokenHintVerifier`), for every list of options -/
theorem c18_provider_configured (now : Int) (cfg : Cfg) (opts : List Sess.KeyOpt) (hopts : HintOpts cfg opts)
    (termOK : String → String → Bool) (fromReq : Bool) :
    Configured cfg (providerOf now cfg opts termOK fromReq) :=
  ⟨rfl, rfl, by simp only [providerOf, Sess.constructedEnder, Sess.providerEnder, providerVerifier_char],
    providerOf_keySet now cfg opts hopts termOK fromReq,
    by simp only [providerOf, Sess.constructedEnder, Sess.providerEnder, providerVerifier_char, Sess.newProvider]⟩

/-- a hint the constructed provider's verifier lets through is validly signed under the key set configured for hints -/
theorem c18_hint_sound_provider {now : Int} {t : Token} {out : HintOut} (cfg : Cfg) (opts : List Sess.KeyOpt) (hopts : HintOpts cfg opts)
    (termOK : String → String → Bool) (fromReq : Bool)
    (h : VerifyIDTokenHint now t (providerOf now cfg opts termOK fromReq).hintVerifier = .ok out) :
    ∃ c, hintProven cfg t = some c ∧ hintDefect cfg t = none ∧ (hintClaims out).sub = c.sub ∧ (hintClaims out).azp = c.azp :=
  let hc := c18_provider_configured now cfg opts hopts termOK fromReq
  hint_sound cfg hc.issuer hc.keys hc.algs h

theorem identify_sound {cfg : Cfg} {e : SessionEnder} {now : Int} {o : SessOracles} {r : EndSessionReq}
    {uid cid : String} {cl : Claims} (hc : Configured cfg e) (h : refIdentify now o r e = .ok (uid, cid, cl)) :
    (reqOf o r).hint.bind (hintDefect cfg) = none ∧
    (∀ c, proven cfg (reqOf o r) = some c → (r.ClientID != "" && r.ClientID != c.azp) = false) ∧
    uid = ((proven cfg (reqOf o r)).map (·.sub)).getD "" ∧
    cid = provenClientID (reqOf o r) (proven cfg (reqOf o r)) := by
  unfold refIdentify at h
  split at h
  · rename_i hh
    split at h
    · simp at h
    · rename_i out hv
      split at h
      · simp at h
      · rename_i hcontra
        simp only [Except.ok.injEq, Prod.mk.injEq] at h
        obtain ⟨c, hp, hd, hsub, hazp⟩ := hint_sound cfg hc.issuer hc.keys hc.algs (by simpa [Hand.viaToken] using hv)
        have hhint : (reqOf o r).hint = some (o.tokenOf r.IdTokenHint) := by simp [reqOf, hh]
        have hprov : proven cfg (reqOf o r) = some c := by simp [proven, hhint, hp]
        refine ⟨by simp [hhint, hd], ?_, ?_, ?_⟩
        · intro c' hc'
          rw [hprov] at hc'; simp at hc'; subst hc'
          rw [← hazp]; simpa using hcontra
        · rw [hprov, ← h.1, hsub]; rfl
        · rw [hprov, ← h.2.1, hazp]; rfl
  · rename_i hh
    simp only [Except.ok.injEq, Prod.mk.injEq] at h
    have hhint : (reqOf o r).hint = none := by simp [reqOf, hh]
    have hprov : proven cfg (reqOf o r) = none := by simp [proven, hhint]
    refine ⟨by simp [hhint], by simp [hprov], by simp [hprov, ← h.1], by rw [hprov, ← h.2.1]; rfl⟩

theorem getClient_ok {s : SessStore} {id : String} {c : OPClient} (h : s.GetClientByClientID id = .ok c) :
    s.clients.find? (·.id == id) = some c ∧ c.id = id := by
  unfold SessStore.GetClientByClientID at h
  cases hf : s.clients.find? (·.id == id) with
  | none => by_cases hl : s.lookupOK id = true <;> simp [hf, hl] at h
  | some c' =>
    by_cases hl : s.lookupOK id = true
    · simp [hf, hl] at h; subst h
      exact ⟨rfl, by simpa using List.find?_some hf⟩
    · simp [hl] at h

theorem target_sound {cfg : Cfg} {e : SessionEnder} {now : Int} {o : SessOracles} {r : EndSessionReq}
    {cid scid target : String} (hc : Configured cfg e) (h : refTarget now o r e cid = .ok (scid, target)) :
    scid = cid ∧ target ∈ allowedTargets cfg (orcOf o) (reqOf o r) cid := by
  unfold refTarget at h
  split at h
  · rename_i hcid
    split at h
    · simp at h
    · rename_i client hg
      obtain ⟨hf, hid⟩ := getClient_ok hg
      have hl : lookup cfg cid = some client := by rw [lookup, ← hc.clients]; exact hf
      have hcid' : (cid == "") = false := by simpa using hcid
      split at h
      · rename_i hplu
        split at h
        · simp at h
        · rename_i hv
          simp only [Except.ok.injEq, Prod.mk.injEq] at h
          have hreg := refURI_sound hv
          refine ⟨by rw [← h.1, hid], ?_⟩
          simp only [allowedTargets, hcid', hl, reqOf, orcOf, hplu, hreg, Bool.false_eq_true, if_false, Bool.and_self, if_true]
          rw [← h.2]; simp
      · simp only [Except.ok.injEq, Prod.mk.injEq] at h
        refine ⟨by rw [← h.1, hid], ?_⟩
        rw [← h.2, hc.dflt]; simp [allowedTargets]
  · rename_i hcid
    simp only [Except.ok.injEq, Prod.mk.injEq] at h
    have : cid = "" := by simpa using hcid
    refine ⟨by rw [← h.1, this], ?_⟩
    rw [← h.2, hc.dflt]; simp [allowedTargets]

/-- the encoded `state` setting that is appended: `state=` and the query-escaped value -/
def stateSetting (st : String) : String := ofAscii (Query.encodePair (toBytes "state", toBytes st))

theorem encodeParams_state (st : String) : encodeParams [("state", [st])] = stateSetting st := by
  simp [encodeParams, stateSetting, flatten, addParam, insertSorted, pairBytes, Query.encode]

/-- the target `u` after `mergeQueryParams(u, {state})`, as a user agent reads the rendered string back (net/url as
    oracle for the split into parts): the query text is `u`'s own followed by the `state` setting, which decodes to
    one more `state` value (`c18_state_intact`); nothing else changes -/
def withState (u : SessURL) (st : String) : SessURL :=
  { u with rawQuery := joinQuery u.rawQuery (stateSetting st), query := addParam u.query "state" st }

theorem sessMerge_state (now : Int) (u : SessURL) (st : String) :
    sessMergeQueryParams now u [("state", [st])] = (withState u st).render := by
  simp [sessMergeQueryParams, encodeParams_state, withState, SessURL.render]

theorem state_sound {now : Int} {o : SessOracles} {r : EndSessionReq} {target loc : String}
    (h : refState now o r target = .ok loc) :
    (r.State = "" ∧ loc = target) ∨
    (r.State ≠ "" ∧ ∃ u, o.urlParse target = .ok u ∧ loc = (withState u r.State).render) := by
  unfold refState at h
  split at h
  · rename_i hs
    split at h
    · simp at h
    · rename_i u hu
      simp only [Except.ok.injEq] at h
      right
      exact ⟨by simpa using hs, u, hu, by rw [← h, sessMerge_state]⟩
  · rename_i hs
    simp only [Except.ok.injEq] at h
    left; exact ⟨by simpa using hs, h.symm⟩

/-- the answer of either router, read off the regenerated handlers: a malformed form, a validation
    error and a storage failure are error answers, otherwise the user is sent to the session's URI -/
theorem handle_eq (rt : Sess.Router) (now : Int) (o : SessOracles) (rq : Go.R EndSessionReq) (e : SessionEnder) :
    Sess.handle rt now o rq e =
      match rq with
      | .error _ => (match rt with | .provider => .error 500 "" | .legacy => .error 400 "invalid_request")
      | .ok r =>
        match ValidateEndSessionRequest now o r e with
        | .error err => (match rt with | .provider => (SessResp.requestError err).canon | .legacy => (SessResp.writeError err).canon)
        | .ok s =>
          if e.store.termOK s.UserID s.ClientID then .redirect s.RedirectURI
          else (match rt with | .provider => .error 400 "server_error" | .legacy => .error 500 "server_error") := by
  cases rt <;> cases rq with
  | error x =>
    simp only [Sess.handle, endSession_char, legacyHandler_char, refEndSession, refLegacyHandler]
    first | rfl | decide
  | ok r =>
    simp only [Sess.handle, endSession_char, legacyHandler_char, refEndSession, refLegacyHandler, refLegacy, refTerminate,
      SessStore.TerminateSession, SessStore.TerminateSessionFromRequest]
    cases hv : ValidateEndSessionRequest now o r e with
    | error err => rfl
    | ok s =>
      by_cases hcan : e.store.is_CanTerminateSessionFromRequest = true <;>
        by_cases ht : e.store.termOK s.UserID s.ClientID = true <;>
        simp only [hcan, ht, if_true, if_false, Bool.false_eq_true] <;>
        first | rfl | decide | (simp only [Hand.sessDefaultToServerError]; decide)

/-- `loc` is the rendering (`URL.String()`) of the SessURL `dec` a user agent is taken to decode from it
    (that the appended setting decodes to the `state` value and leaves the rest of the query alone is `c18_state_intact`) -/
def Rendered (loc : String) (dec : Go.R SessURL) : Prop := ∃ d, dec = .ok d ∧ loc = d.render

/-- what a user agent decodes from the model's redirect to `target` + state -/
def decodeOf (o : SessOracles) (target state : String) : Go.R SessURL :=
  match o.urlParse target with
  | .ok u => .ok (withState u state)
  | .error err => .error err

theorem verdict_exact {o : SessOracles} {r : EndSessionReq} {now : Int} {target loc : String}
    (h : refState now o r target = .ok loc) :
    targetVerdict (orcOf o) r.State loc (decodeOf o target r.State) target = .exact ∧
      (r.State ≠ "" → Rendered loc (decodeOf o target r.State)) := by
  rcases state_sound h with ⟨hs, hl⟩ | ⟨hs, u, hu, hl⟩
  · subst hl
    exact ⟨by simp [targetVerdict, hs], fun hne => absurd hs hne⟩
  · have hs' : (r.State == "") = false := by simpa using hs
    refine ⟨?_, fun _ => ⟨_, by simp only [decodeOf, hu], hl⟩⟩
    simp only [targetVerdict, hs', Bool.false_eq_true, if_false, orcOf, hu, decodeOf, withState,
      queryPlusState_addParam, beq_self_eq_true, Bool.and_self, if_true]

/-- SOUNDNESS, every clause of the monitor at once: whatever `ValidateEndSessionRequest` accepts, sending the
    user to the session's URI after terminating the session's (user, client) satisfies the monitor — for every
    URL parser, also for targets whose own query it does not fully accept. -/
theorem validate_monitor {cfg : Cfg} {e : SessionEnder} {now : Int} {o : SessOracles} {r : EndSessionReq} {s : EndSessionRequest}
    (hc : Configured cfg e)
    (h : ValidateEndSessionRequest now o r e = .ok s) :
    ∃ dec, (r.State ≠ "" → Rendered s.RedirectURI dec) ∧
      monitor cfg (orcOf o) (reqOf o r) (.redirect s.RedirectURI dec [(s.UserID, s.ClientID)]) = none := by
  rw [validate_eq_ref] at h
  unfold refValidate at h
  split at h
  · simp at h
  rename_i uid cid cl hI
  split at h
  · simp at h
  rename_i scid target hT
  split at h
  · simp at h
  rename_i loc hS
  simp only [Except.ok.injEq] at h
  subst h
  obtain ⟨hdef, hcontra, huid, hcid⟩ := identify_sound hc hI
  obtain ⟨hscid, hmem⟩ := target_sound hc hT
  obtain ⟨hexact, hrend⟩ := verdict_exact hS
  refine ⟨decodeOf o target r.State, hrend, ?_⟩
  have hmal : (reqOf o r).malformed = false := rfl
  have hcon : contradicts (proven cfg (reqOf o r)) (reqOf o r).clientID = false := by
    cases hp : proven cfg (reqOf o r) with
    | none => rfl
    | some c => exact hcontra c hp
  have hver : ((allowedTargets cfg (orcOf o) (reqOf o r) (provenClientID (reqOf o r) (proven cfg (reqOf o r)))).map
      (targetVerdict (orcOf o) (reqOf o r).state loc (decodeOf o target r.State))).contains .exact = true := by
    rw [← hcid]
    simp only [List.contains_eq_mem, List.mem_map, decide_eq_true_eq]
    exact ⟨target, hmem, hexact⟩
  simp only [monitor, hmal, hdef, hcon, hver, Bool.false_eq_true, if_false, Bool.not_true]
  simp [huid, hcid, hscid]

/-- completeness of the URI check: an exactly registered URI, or a glob match while no glob of the client
    breaks the matcher, is accepted (from `refURI`, layer 1: `validateURI_char`) -/
theorem refURI_complete {o : SessOracles} {uri : String} {c : OPClient}
    (h : c.postLogoutURIs.contains uri = true ∨ (globsClean o.pathMatch c uri = true ∧ registered o.pathMatch c uri = true)) :
    refURI o uri c = .ok () := by
  unfold refURI
  by_cases hex : c.postLogoutURIs.contains uri = true
  · rw [if_pos hex]
  · rcases h with h | ⟨hclean, hreg⟩
    · exact absurd h hex
    · have hreg' : optedIn c = true ∧ ∃ g ∈ plGlobs c, globMatches o.pathMatch g uri = true := by
        have hmem : ¬ uri ∈ c.postLogoutURIs := by simpa using hex
        simpa [registered, hmem] using hreg
      obtain ⟨hopt, g, hg, hm⟩ := hreg'
      have hopt' : c.is_HasRedirectGlobs = true := by simpa [optedIn, OPClient.is_HasRedirectGlobs] using hopt
      have hall : ∀ g' ∈ plGlobs c, (o.pathMatch g' uri).toBool = true := by
        simpa [globsClean, hopt] using hclean
      simp only [hex, Bool.false_eq_true, if_false, hopt', if_true]
      rw [forFirst_first (r := (.ok () : Go.R Unit))]
      · intro g' hg'
        have := hall g' (by simpa [plGlobs, OPClient.PostLogoutRedirectURIGlobs] using hg')
        unfold globStep
        cases hp : o.pathMatch g' uri with
        | error x => simp [hp, Except.toBool] at this
        | ok b => cases b <;> simp
      · refine ⟨g, by simpa [plGlobs, OPClient.PostLogoutRedirectURIGlobs] using hg, ?_⟩
        unfold globStep
        cases hp : o.pathMatch g uri with
        | error x => simp [globMatches, hp] at hm
        | ok b => simp [globMatches, hp] at hm; simp [hm]

theorem uri_complete {now : Int} {o : SessOracles} {uri : String} {c : OPClient}
    (h : c.postLogoutURIs.contains uri = true ∨ (globsClean o.pathMatch c uri = true ∧ registered o.pathMatch c uri = true)) :
    ValidateEndSessionPostLogoutRedirectURI now o uri c = .ok () := by
  rw [validateURI_char]; exact refURI_complete h

theorem identify_time_independent (now now' : Int) (o : SessOracles) (r : EndSessionReq) (e : SessionEnder) :
    refIdentify now o r e = refIdentify now' o r e := by
  unfold refIdentify
  split
  · have h := hint_time_independent now now' (o.tokenOf r.IdTokenHint) e.hintVerifier
    simp only [Hand.viaToken]
    cases h1 : VerifyIDTokenHint now (o.tokenOf r.IdTokenHint) e.hintVerifier <;>
      cases h2 : VerifyIDTokenHint now' (o.tokenOf r.IdTokenHint) e.hintVerifier <;>
      simp [h1, h2, Except.map] at h ⊢
    rw [h]
  · rfl

/-- "an expired but otherwise valid hint is still accepted for logout", in its strongest form: the whole
    decision (accept / reject, session, redirect) is the same at every instant -/
theorem c18_time_independent (now now' : Int) (o : SessOracles) (r : EndSessionReq) (e : SessionEnder) :
    ValidateEndSessionRequest now o r e = ValidateEndSessionRequest now' o r e := by
  rw [validate_eq_ref, validate_eq_ref]
  unfold refValidate
  rw [identify_time_independent now now']
  rfl

/-- key selection is complete for this verifier: a hint that is genuine in the sense of the statement is
    let through by `VerifyIDTokenHint` at SOME instant.  (C02 proves soundness of key selection only; with two
    published keys of the same key id the first one is tried and the second never, so this is a hypothesis.) -/
def HintComplete (cfg : Cfg) (v : Verifier) : Prop :=
  ∀ t c, hintProven cfg t = some c → ∃ now out, VerifyIDTokenHint now t v = .ok out


theorem identify_complete {cfg : Cfg} {e : SessionEnder} (now : Int) {o : SessOracles} {r : EndSessionReq}
    (hc : Configured cfg e) (hcomp : HintComplete cfg e.hintVerifier)
    (hh : ∀ t, (reqOf o r).hint = some t → (hintProven cfg t).isSome = true)
    (hcon : contradicts (proven cfg (reqOf o r)) r.ClientID = false) :
    ∃ uid cl, refIdentify now o r e = .ok (uid, provenClientID (reqOf o r) (proven cfg (reqOf o r)), cl) := by
  unfold refIdentify
  by_cases hhint : r.IdTokenHint = ""
  · have h1 : (reqOf o r).hint = none := by simp [reqOf, hhint]
    have h2 : proven cfg (reqOf o r) = none := by simp [proven, h1]
    refine ⟨"", default, ?_⟩
    rw [h2]
    simp [hhint, provenClientID, reqOf]
  · have hb : (r.IdTokenHint != "") = true := by simpa using hhint
    have h1 : (reqOf o r).hint = some (o.tokenOf r.IdTokenHint) := by simp [reqOf, hhint]
    have hsome := hh _ h1
    obtain ⟨c, hpc⟩ := Option.isSome_iff_exists.mp hsome
    have h2 : proven cfg (reqOf o r) = some c := by simp [proven, h1, hpc]
    obtain ⟨now0, out0, hv0⟩ := hcomp _ _ hpc
    have hti := hint_time_independent now0 now (o.tokenOf r.IdTokenHint) e.hintVerifier
    rw [hv0] at hti
    cases hv : VerifyIDTokenHint now (o.tokenOf r.IdTokenHint) e.hintVerifier with
    | error x => simp [hv, Except.map] at hti
    | ok out =>
      obtain ⟨c', hp', _, _, hazp⟩ := hint_sound cfg hc.issuer hc.keys hc.algs hv
      rw [hpc] at hp'
      simp only [Option.some.injEq] at hp'
      subst hp'
      rw [h2] at hcon
      have hcon' : (r.ClientID != "" && r.ClientID != c.azp) = false := hcon
      refine ⟨(hintClaims out).sub, hintClaims out, ?_⟩
      simp only [hb, if_true, Hand.viaToken, hv, Bool.false_eq_true, if_false, h2, provenClientID, hazp, hcon']

theorem getClient_complete {s : SessStore} {id : String} {c : OPClient} (hl : s.lookupOK id = true)
    (h : s.clients.find? (·.id == id) = some c) : s.GetClientByClientID id = .ok c := by
  simp [SessStore.GetClientByClientID, h, hl]

/-- COMPLETENESS: a logout request that fulfils every rule of the statement is accepted -/
theorem validate_complete {cfg : Cfg} {e : SessionEnder} (now : Int) {o : SessOracles} {r : EndSessionReq}
    (hc : Configured cfg e) (hcomp : HintComplete cfg e.hintVerifier) (hlook : ∀ id, e.store.lookupOK id = true)
    (hm : mustAccept cfg (orcOf o) (reqOf o r) = true) : ∃ s, ValidateEndSessionRequest now o r e = .ok s := by
  rw [validate_eq_ref]
  simp only [mustAccept, Bool.and_eq_true] at hm
  obtain ⟨⟨⟨_, hh⟩, hcon⟩, ht⟩ := hm
  have hh' : ∀ t, (reqOf o r).hint = some t → (hintProven cfg t).isSome = true := by
    intro t ht'; rw [ht'] at hh; exact hh
  have hcon' : contradicts (proven cfg (reqOf o r)) r.ClientID = false := by simpa [reqOf] using hcon
  obtain ⟨uid, cl, hI⟩ := identify_complete now hc hcomp hh' hcon'
  generalize hcid : provenClientID (reqOf o r) (proven cfg (reqOf o r)) = cid at hI ht
  -- the target
  have hT : ∃ scid target, refTarget now o r e cid = .ok (scid, target) ∧ ((reqOf o r).state = "" ∨ (o.urlParse target).toBool = true) := by
    unfold refTarget
    by_cases hc0 : cid = ""
    · subst hc0
      refine ⟨"", e.defaultLogoutURI, by simp, ?_⟩
      simpa [hc.dflt, orcOf] using ht
    · have hb : (cid != "") = true := by simpa using hc0
      have hbe : (cid == "") = false := by simpa using hc0
      simp only [hbe, Bool.false_eq_true, if_false] at ht
      cases hl : lookup cfg cid with
      | none => simp [hl] at ht
      | some c =>
        simp only [hl] at ht
        have hg : e.store.GetClientByClientID cid = .ok c := getClient_complete (hlook cid) (by rw [hc.clients]; exact hl)
        simp only [hb, if_true, hg]
        by_cases hplu : r.PostLogoutRedirectURI = ""
        · refine ⟨c.id, e.defaultLogoutURI, by simp [hplu], ?_⟩
          simpa [reqOf, hplu, hc.dflt, orcOf] using ht
        · have hpb : (r.PostLogoutRedirectURI != "") = true := by simpa using hplu
          have hpe : ((reqOf o r).plu == "") = false := by simpa [reqOf] using hplu
          simp only [hpe, Bool.false_eq_true, if_false] at ht
          by_cases hreg : (c.postLogoutURIs.contains r.PostLogoutRedirectURI ||
              globsClean o.pathMatch c r.PostLogoutRedirectURI && registered o.pathMatch c r.PostLogoutRedirectURI) = true
          · have hv : refURI o r.PostLogoutRedirectURI c = .ok () := by
              apply refURI_complete
              simpa using hreg
            have hreg' : (c.postLogoutURIs.contains (reqOf o r).plu || globsClean (orcOf o).pathMatch c (reqOf o r).plu &&
                registered (orcOf o).pathMatch c (reqOf o r).plu) = true := hreg
            rw [if_pos hreg'] at ht
            refine ⟨c.id, r.PostLogoutRedirectURI, by simp [hpb, hv], ?_⟩
            simpa [reqOf, orcOf] using ht
          · have hreg' : ¬ (c.postLogoutURIs.contains (reqOf o r).plu || globsClean (orcOf o).pathMatch c (reqOf o r).plu &&
                registered (orcOf o).pathMatch c (reqOf o r).plu) = true := hreg
            rw [if_neg hreg'] at ht
            simp at ht
  obtain ⟨scid, target, hT, hst⟩ := hT
  have hS : ∃ loc, refState now o r target = .ok loc := by
    unfold refState
    by_cases hs : r.State = ""
    · exact ⟨target, by simp [hs]⟩
    · have hb : (r.State != "") = true := by simpa using hs
      rcases hst with hst | hst
      · exact absurd hst (by simpa [reqOf] using hs)
      · cases hu : o.urlParse target with
        | error x => simp [hu, Except.toBool] at hst
        | ok u => exact ⟨sessMergeQueryParams now u [("state", [r.State])], by simp [hb]⟩
  obtain ⟨loc, hS⟩ := hS
  exact ⟨{ UserID := uid, ClientID := scid, IDTokenHintClaims := if r.IdTokenHint != "" then cl else default, RedirectURI := loc },
    by simp only [refValidate, hI, hT, hS]⟩

/-- everything an accepted request guarantees, clause by clause -/
theorem validate_facts {cfg : Cfg} {e : SessionEnder} {now : Int} {o : SessOracles} {r : EndSessionReq} {s : EndSessionRequest}
    (hc : Configured cfg e) (h : ValidateEndSessionRequest now o r e = .ok s) :
    (reqOf o r).hint.bind (hintDefect cfg) = none ∧
    contradicts (proven cfg (reqOf o r)) r.ClientID = false ∧
    s.UserID = ((proven cfg (reqOf o r)).map (·.sub)).getD "" ∧
    s.ClientID = provenClientID (reqOf o r) (proven cfg (reqOf o r)) ∧
    ∃ target ∈ allowedTargets cfg (orcOf o) (reqOf o r) (provenClientID (reqOf o r) (proven cfg (reqOf o r))),
      (r.State = "" ∧ s.RedirectURI = target) ∨
      (r.State ≠ "" ∧ ∃ u, o.urlParse target = .ok u ∧ s.RedirectURI = (withState u r.State).render) := by
  rw [validate_eq_ref] at h
  unfold refValidate at h
  split at h
  · simp at h
  rename_i uid cid cl hI
  split at h
  · simp at h
  rename_i scid target hT
  split at h
  · simp at h
  rename_i loc hS
  simp only [Except.ok.injEq] at h
  subst h
  obtain ⟨hdef, hcontra, huid, hcid⟩ := identify_sound hc hI
  obtain ⟨hscid, hmem⟩ := target_sound hc hT
  refine ⟨hdef, ?_, huid, by rw [hscid, hcid], target, by rw [← hcid]; exact hmem, state_sound hS⟩
  cases hp : proven cfg (reqOf o r) with
  | none => rfl
  | some c => exact hcontra c hp

/-- the request the monitor judges: a form that cannot be parsed is `malformed` -/
def monReq (o : SessOracles) (rq : Go.R EndSessionReq) : Req :=
  match rq with
  | .ok r => reqOf o r
  | .error _ => { hint := none, clientID := "", plu := "", state := "", malformed := true }

theorem handle_redirect {rt : Sess.Router} {now : Int} {o : SessOracles} {rq : Go.R EndSessionReq} {e : SessionEnder} {loc : String}
    (h : Sess.handle rt now o rq e = .redirect loc) :
    ∃ r s, rq = .ok r ∧ ValidateEndSessionRequest now o r e = .ok s ∧ e.store.termOK s.UserID s.ClientID = true ∧ loc = s.RedirectURI := by
  rw [handle_eq] at h
  cases rq with
  | error x => cases rt <;> simp at h
  | ok r =>
    simp only at h
    cases hv : ValidateEndSessionRequest now o r e with
    | error err => rw [hv] at h; cases rt <;> simp [SessResp.canon] at h
    | ok s =>
      rw [hv] at h
      simp only at h
      by_cases ht : e.store.termOK s.UserID s.ClientID = true
      · simp only [ht, if_true, SessCanon.redirect.injEq] at h
        exact ⟨r, s, rfl, hv, ht, h.symm⟩
      · simp only [ht] at h
        cases rt <;> simp at h

/-- C18, soundness, both routers, ALL URL-parser behaviours: every redirecting answer satisfies ALL clauses of the
    monitor, for the session (u, c) the storage was asked to terminate; since this holds for every storage
    behaviour `termOK`, the storage is asked exactly for the session the monitor demands. -/
theorem c18_redirect_sound_configured (rt : Sess.Router) {cfg : Cfg} {e : SessionEnder} {now : Int} {o : SessOracles}
    {rq : Go.R EndSessionReq} {loc : String} (hc : Configured cfg e)
    (h : Sess.handle rt now o rq e = .redirect loc) :
    ∃ u c dec, e.store.termOK u c = true ∧ ((monReq o rq).state ≠ "" → Rendered loc dec) ∧
      monitor cfg (orcOf o) (monReq o rq) (.redirect loc dec [(u, c)]) = none := by
  obtain ⟨r, s, rfl, hv, ht, rfl⟩ := handle_redirect h
  obtain ⟨dec, hr, hm⟩ := validate_monitor hc hv
  exact ⟨s.UserID, s.ClientID, dec, ht, hr, hm⟩

/-- C18 clause "redirect only to the default URI or a URI registered for the proven client", full strength -/
theorem c18_redirect_registered_configured (rt : Sess.Router) {cfg : Cfg} {e : SessionEnder} {now : Int} {o : SessOracles}
    {rq : Go.R EndSessionReq} {loc : String} (hc : Configured cfg e) (h : Sess.handle rt now o rq e = .redirect loc) :
    ∃ r, rq = .ok r ∧
      ∃ target ∈ allowedTargets cfg (orcOf o) (reqOf o r) (provenClientID (reqOf o r) (proven cfg (reqOf o r))),
        (r.State = "" ∧ loc = target) ∨
        (r.State ≠ "" ∧ ∃ u, o.urlParse target = .ok u ∧ loc = (withState u r.State).render) := by
  obtain ⟨r, s, rfl, hv, _, rfl⟩ := handle_redirect h
  exact ⟨r, rfl, (validate_facts hc hv).2.2.2.2⟩

/-- C18 clauses about the hint: a redirect happens only if the hint (when present) is validly signed by this
    issuer — expired or not — and the `client_id` parameter does not contradict it -/
theorem c18_hint_rules_configured (rt : Sess.Router) {cfg : Cfg} {e : SessionEnder} {now : Int} {o : SessOracles}
    {rq : Go.R EndSessionReq} {loc : String} (hc : Configured cfg e) (h : Sess.handle rt now o rq e = .redirect loc) :
    ∃ r, rq = .ok r ∧ (reqOf o r).hint.bind (hintDefect cfg) = none ∧ contradicts (proven cfg (reqOf o r)) r.ClientID = false := by
  obtain ⟨r, s, rfl, hv, _, rfl⟩ := handle_redirect h
  exact ⟨r, rfl, (validate_facts hc hv).1, (validate_facts hc hv).2.1⟩

/-- C18 clause "the session terminated is that of the hint's subject and client": for EVERY storage behaviour,
    a redirect implies that terminating exactly (hint subject or "", proven client or "") succeeded -/
theorem c18_session_identity_configured (rt : Sess.Router) {cfg : Cfg} {e : SessionEnder} {now : Int} {o : SessOracles}
    {rq : Go.R EndSessionReq} {loc : String} (hc : Configured cfg e) (h : Sess.handle rt now o rq e = .redirect loc) :
    ∃ r, rq = .ok r ∧
      e.store.termOK (((proven cfg (reqOf o r)).map (·.sub)).getD "") (provenClientID (reqOf o r) (proven cfg (reqOf o r))) = true := by
  obtain ⟨r, s, rfl, hv, ht, rfl⟩ := handle_redirect h
  obtain ⟨_, _, hu, hcid, _⟩ := validate_facts hc hv
  exact ⟨r, rfl, by rw [← hu, ← hcid]; exact ht⟩

/-- C18, completeness, both routers: a rejecting answer satisfies the monitor, i.e. a logout request that
    fulfils every rule (in particular one with an EXPIRED but genuine hint) is not rejected — as long as the
    storage terminates sessions and key selection is complete (`HintComplete`). -/
theorem c18_rejected_configured (rt : Sess.Router) {cfg : Cfg} {e : SessionEnder} {now : Int} {o : SessOracles}
    {rq : Go.R EndSessionReq} {st : Nat} {code : String} (hc : Configured cfg e) (hcomp : HintComplete cfg e.hintVerifier)
    (hterm : ∀ u c, e.store.termOK u c = true) (hlook : ∀ id, e.store.lookupOK id = true)
    (h : Sess.handle rt now o rq e = .error st code) :
    monitor cfg (orcOf o) (monReq o rq) (.rejected []) = none := by
  have hm : mustAccept cfg (orcOf o) (monReq o rq) = false := by
    cases rq with
    | error x => simp [monReq, mustAccept]
    | ok r =>
      cases hma : mustAccept cfg (orcOf o) (monReq o (.ok r)) with
      | false => rfl
      | true =>
        exfalso
        obtain ⟨s, hv⟩ := validate_complete now hc hcomp hlook (by simpa [monReq] using hma)
        rw [handle_eq] at h
        simp only [hv, hterm, if_true] at h
        exact absurd h (by simp)
  simp [monitor, hm]

/-- a rejection never terminates a session: with a storage that refuses every termination nobody is redirected,
    so a redirect always goes through a successful termination -/
theorem c18_no_redirect_without_termination (rt : Sess.Router) {now : Int} {o : SessOracles} {rq : Go.R EndSessionReq}
    {e : SessionEnder} {loc : String} (hnone : ∀ u c, e.store.termOK u c = false) : Sess.handle rt now o rq e ≠ .redirect loc := by
  intro h
  obtain ⟨_, s, _, _, ht, _⟩ := handle_redirect h
  rw [hnone] at ht; simp at ht

/-! ### the headline theorems, about the provider `op.NewProvider` returns, for EVERY list of key-set options
    (through `c18_provider_configured`, i.e. `c18_hint_keyset`: the hint verifier uses the key set configured for hints) -/

/-- C18, soundness, both routers, every option list: every redirecting answer satisfies ALL clauses of the monitor -/
theorem c18_redirect_sound (rt : Sess.Router) (cfg : Cfg) (opts : List Sess.KeyOpt) (hopts : HintOpts cfg opts)
    (termOK : String → String → Bool) (fromReq : Bool) {now : Int} {o : SessOracles} {rq : Go.R EndSessionReq} {loc : String}
    (h : Sess.handle rt now o rq (providerOf now cfg opts termOK fromReq) = .redirect loc) :
    ∃ u c dec, termOK u c = true ∧ ((monReq o rq).state ≠ "" → Rendered loc dec) ∧
      monitor cfg (orcOf o) (monReq o rq) (.redirect loc dec [(u, c)]) = none :=
  c18_redirect_sound_configured rt (c18_provider_configured now cfg opts hopts termOK fromReq) h

/-- C18 clause "redirect only to the default URI or a URI registered for the proven client" -/
theorem c18_redirect_registered (rt : Sess.Router) (cfg : Cfg) (opts : List Sess.KeyOpt) (hopts : HintOpts cfg opts)
    (termOK : String → String → Bool) (fromReq : Bool) {now : Int} {o : SessOracles} {rq : Go.R EndSessionReq} {loc : String}
    (h : Sess.handle rt now o rq (providerOf now cfg opts termOK fromReq) = .redirect loc) :
    ∃ r, rq = .ok r ∧
      ∃ target ∈ allowedTargets cfg (orcOf o) (reqOf o r) (provenClientID (reqOf o r) (proven cfg (reqOf o r))),
        (r.State = "" ∧ loc = target) ∨
        (r.State ≠ "" ∧ ∃ u, o.urlParse target = .ok u ∧ loc = (withState u r.State).render) :=
  c18_redirect_registered_configured rt (c18_provider_configured now cfg opts hopts termOK fromReq) h

/-- C18 clauses about the hint: a redirect happens only if the hint (when present) is validly signed — under the key
    set configured for hints, never merely under an access-token key set — by this issuer, expired or not, and the
    `client_id` parameter does not contradict it -/
theorem c18_hint_rules (rt : Sess.Router) (cfg : Cfg) (opts : List Sess.KeyOpt) (hopts : HintOpts cfg opts)
    (termOK : String → String → Bool) (fromReq : Bool) {now : Int} {o : SessOracles} {rq : Go.R EndSessionReq} {loc : String}
    (h : Sess.handle rt now o rq (providerOf now cfg opts termOK fromReq) = .redirect loc) :
    ∃ r, rq = .ok r ∧ (reqOf o r).hint.bind (hintDefect cfg) = none ∧ contradicts (proven cfg (reqOf o r)) r.ClientID = false :=
  c18_hint_rules_configured rt (c18_provider_configured now cfg opts hopts termOK fromReq) h

/-- C18 clause "the session terminated is that of the hint's subject and client" -/
theorem c18_session_identity (rt : Sess.Router) (cfg : Cfg) (opts : List Sess.KeyOpt) (hopts : HintOpts cfg opts)
    (termOK : String → String → Bool) (fromReq : Bool) {now : Int} {o : SessOracles} {rq : Go.R EndSessionReq} {loc : String}
    (h : Sess.handle rt now o rq (providerOf now cfg opts termOK fromReq) = .redirect loc) :
    ∃ r, rq = .ok r ∧
      termOK (((proven cfg (reqOf o r)).map (·.sub)).getD "") (provenClientID (reqOf o r) (proven cfg (reqOf o r))) = true :=
  c18_session_identity_configured rt (c18_provider_configured now cfg opts hopts termOK fromReq) h

/-- C18, completeness: a logout request that fulfils every rule (hint genuine under the key set configured for hints,
    expired or not) is not rejected, as long as the storage terminates sessions and key selection is complete -/
theorem c18_rejected (rt : Sess.Router) (cfg : Cfg) (opts : List Sess.KeyOpt) (hopts : HintOpts cfg opts) (fromReq : Bool)
    {now : Int} {o : SessOracles} {rq : Go.R EndSessionReq} {st : Nat} {code : String}
    (hcomp : HintComplete cfg (providerOf now cfg opts (fun _ _ => true) fromReq).hintVerifier)
    (h : Sess.handle rt now o rq (providerOf now cfg opts (fun _ _ => true) fromReq) = .error st code) :
    monitor cfg (orcOf o) (monReq o rq) (.rejected []) = none :=
  c18_rejected_configured rt (c18_provider_configured now cfg opts hopts (fun _ _ => true) fromReq) hcomp (fun _ _ => rfl) (fun _ => rfl) h

/-- the query text of the target stays as it is: the redirect's query text starts with it, whatever it contains -/
theorem c18_query_kept (u : SessURL) (s : String) :
    ∃ rest, (withState u s).rawQuery = u.rawQuery ++ rest ∧ (withState u s).base = u.base ∧ (withState u s).frag = u.frag
      ∧ (withState u s).unread = u.unread := by
  refine ⟨if u.rawQuery == "" then stateSetting s else if stateSetting s != "" then "&" ++ stateSetting s else "", ?_, rfl, rfl, rfl⟩
  simp only [withState, joinQuery]
  by_cases h1 : (u.rawQuery == "") = true
  · simp only [h1, if_true]
    rw [beq_iff_eq.mp h1]; simp
  · by_cases h2 : (stateSetting s != "") = true
    · simp [h1, h2, String.append_assoc]
    · simp [h1, h2]

/-- C18 clause "a supplied state is appended to the final redirect unchanged": the redirect is the rendering of the
    target with its own query text followed by `&` and the setting `state=<escaped state>`; decoding that query text
    (`url.ParseQuery`, on bytes, for EVERY existing query text — also one with settings the decoder rejects) gives the
    pairs of the target's own query exactly as before, followed by the pair (`state`, the state that was sent) -/
theorem c18_state_intact (now : Int) (u : SessURL) (s : String) (raw : List UInt8) :
    sessMergeQueryParams now u [("state", [s])] = (withState u s).render ∧
    (withState u s).rawQuery = joinQuery u.rawQuery (stateSetting s) ∧
    Query.parse (raw ++ 38 :: Query.encodePair (toBytes "state", toBytes s)) = Query.parse raw ++ [some (toBytes "state", toBytes s)] ∧
    Query.parse (Query.encodePair (toBytes "state", toBytes s)) = [some (toBytes "state", toBytes s)] ∧
    (qvals (withState u s).query "state").getLast? = some s := by
  have hp : Query.parse (Query.encodePair (toBytes "state", toBytes s)) = [some (toBytes "state", toBytes s)] := by
    have := Query.parse_encode [(toBytes "state", toBytes s)]
    simpa [Query.encode] using this
  refine ⟨sessMerge_state now u s, rfl, ?_, hp, ?_⟩
  · unfold Query.parse at hp ⊢
    rw [Query.splitOn_append_any, List.filter_append, List.map_append, hp]
  · simp only [withState]; rw [qvals_addParam_same]; simp

/-! ### the input of the repaired finding F-C18a: a registered URI whose own query Go's `ParseQuery` rejects in part -/
section formerWitness
def wURI := "https://rp.example/lo?a=1;b=2"
def wClient : OPClient := { id := "web", postLogoutURIs := [wURI] }
def wCfg : Cfg := { issuer := "https://op.example", keys := {}, clients := [wClient], defaultURI := "https://op.example/out" }
/-- what net/url answers for `wURI`: `ParseQuery` reads no parameter, the setting `a=1;b=2` is rejected -/
def wOrc : SessOracles :=
  { pathMatch := fun _ _ => .ok false,
    urlParse := fun s => if s == wURI then .ok { base := "https://rp.example/lo", rawQuery := "a=1;b=2", query := [], unread := ["a=1;b=2"] } else .error "parse",
    tokenOf := fun _ => default }
def wReq : EndSessionReq := { ClientID := "web", PostLogoutRedirectURI := wURI, State := "s" }
def wEnder : SessionEnder :=
  { store := { clients := [wClient] }, defaultLogoutURI := "https://op.example/out", hintVerifier := { Issuer := "https://op.example" } }

theorem wConfigured : Configured wCfg wEnder := ⟨rfl, rfl, rfl, rfl, rfl⟩

def wU : SessURL := { base := "https://rp.example/lo", rawQuery := "a=1;b=2", query := [], unread := ["a=1;b=2"] }

/-- the regenerated code accepts the request and redirects to the URI WITH its own query, the state appended -/
example : ValidateEndSessionRequest 0 wOrc wReq wEnder =
    .ok { UserID := "", ClientID := "web", RedirectURI := sessMergeQueryParams 0 wU [("state", ["s"])] } := by
  rfl
/-- … i.e. `https://rp.example/lo?a=1;b=2&state=s`: base, `?`, the query text as registered, `&`, the state setting
    (the compiled driver prints exactly this string for the case; the kernel does not evaluate `String` primitives) -/
example : sessMergeQueryParams 0 wU [("state", ["s"])]
    = "https://rp.example/lo" ++ (if false || joinQuery "a=1;b=2" (stateSetting "s") != "" then "?" ++ joinQuery "a=1;b=2" (stateSetting "s") else "") ++ "" := by
  rw [sessMerge_state]; rfl

/-- … which the monitor accepts; a redirect that lost the setting is flagged -/
example (loc : String) : monitor wCfg (orcOf wOrc) (reqOf wOrc wReq) (.redirect loc (decodeOf wOrc wURI "s") [("", "web")]) = none := by
  rfl
example (loc : String) : monitor wCfg (orcOf wOrc) (reqOf wOrc wReq)
    (.redirect loc (.ok { base := "https://rp.example/lo", rawQuery := "state=s", query := [("state", ["s"])] }) [("", "web")])
      = some "redirect:query-altered" := by
  rfl
end formerWitness

/-! ### non-vacuity: concrete accepted and rejected requests, on both routers -/
section examples
def xKey : JWK := { KeyID := "sig1", Use := "sig", kty := .rsa, keyNo := 0 }
def xKS : KeySet := { kind := .published, keys := [xKey] }
/-- a hint that expired long ago -/
def xClaims : Claims := { iss := "https://op.example", sub := "user1", aud := ["web"], azp := "web", exp := 1000, iat := 900 }
def xH : JHeader := { Algorithm := "RS256", KeyID := "sig1" }
def xTok (c : Claims) (bytes signer : Nat) : Token :=
  let p : Payload := { bytes := bytes, claims := some c }
  { segs := 3, middle := some p, jws := some { Signatures := [{ Header := xH, signer := some signer, signedAlg := "RS256", signedBytes := bytes, signedHdr := xH }], payload := p } }
def xWeb : OPClient := { id := "web", postLogoutURIs := ["https://rp.example/out"] }
def xGlob : OPClient := { id := "glob", globs := some ["https://*.rp.example/cb"], postLogoutGlobs := some ["https://glob.example/logout/*"] }
def xNoOpt : OPClient := { id := "noopt" }
def xOrc : SessOracles :=
  { pathMatch := fun g u => .ok (g == "https://glob.example/logout/*" && u == "https://glob.example/logout/done"),
    urlParse := fun s => .ok { base := s },
    tokenOf := fun s =>
      if s == "expired" then xTok xClaims 1 0
      else if s == "wrongkey" then xTok xClaims 1 7
      else if s == "foreign" then xTok { xClaims with iss := "https://other.example" } 2 0
      else default }
def xCfg : Cfg := { issuer := "https://op.example", keys := xKS, clients := [xWeb, xGlob, xNoOpt], defaultURI := "https://op.example/bye" }
def xEnder : SessionEnder :=
  { store := { clients := [xWeb, xGlob, xNoOpt] }, defaultLogoutURI := "https://op.example/bye",
    hintVerifier := { Issuer := "https://op.example", KeySet := xKS } }
def xNow : Int := 2000000000 * Go.second

example : Configured xCfg xEnder := ⟨rfl, rfl, rfl, rfl, rfl⟩
-- an EXPIRED but genuine hint logs out, on both routers, to the registered URI
example : Sess.handle .provider xNow xOrc (.ok { IdTokenHint := "expired", PostLogoutRedirectURI := "https://rp.example/out" }) xEnder
    = .redirect "https://rp.example/out" := by decide
example : Sess.handle .legacy xNow xOrc (.ok { IdTokenHint := "expired", ClientID := "web", PostLogoutRedirectURI := "https://rp.example/out" }) xEnder
    = .redirect "https://rp.example/out" := by decide
-- … and terminates exactly (user1, web): a storage that only allows that session is enough, any other refusal blocks
example : Sess.handle .provider xNow xOrc (.ok { IdTokenHint := "expired" })
    { xEnder with store := { xEnder.store with termOK := fun u c => u == "user1" && c == "web" } } = .redirect "https://op.example/bye" := by decide
example : Sess.handle .provider xNow xOrc (.ok { IdTokenHint := "expired" })
    { xEnder with store := { xEnder.store with termOK := fun u c => !(u == "user1" && c == "web") } } = .error 400 "server_error" := by decide
-- wrong key, foreign issuer, contradicting client_id, near-miss URI, unknown client: rejected
example : Sess.handle .provider xNow xOrc (.ok { IdTokenHint := "wrongkey" }) xEnder = .error 400 "invalid_request" := by decide
example : Sess.handle .legacy xNow xOrc (.ok { IdTokenHint := "foreign" }) xEnder = .error 400 "invalid_request" := by decide
example : Sess.handle .provider xNow xOrc (.ok { IdTokenHint := "expired", ClientID := "glob" }) xEnder = .error 400 "invalid_request" := by decide
example : Sess.handle .provider xNow xOrc (.ok { ClientID := "web", PostLogoutRedirectURI := "https://rp.example/out/" }) xEnder
    = .error 400 "invalid_request" := by decide
example : Sess.handle .provider xNow xOrc (.ok { ClientID := "nobody" }) xEnder = .error 400 "server_error" := by decide
example : Sess.handle .legacy xNow xOrc (.ok { ClientID := "nobody" }) xEnder = .error 500 "server_error" := by decide
-- globs: only for a client that opted in, only post-logout globs
example : Sess.handle .legacy xNow xOrc (.ok { ClientID := "glob", PostLogoutRedirectURI := "https://glob.example/logout/done" }) xEnder
    = .redirect "https://glob.example/logout/done" := by decide
example : Sess.handle .legacy xNow xOrc (.ok { ClientID := "noopt", PostLogoutRedirectURI := "https://glob.example/logout/done" }) xEnder
    = .error 400 "invalid_request" := by decide
-- a malformed form
example : Sess.handle .provider xNow xOrc (.error "bad form") xEnder = .error 500 "" := by decide
-- the monitor does flag wrong answers: unregistered target, somebody else's session, an untrusted hint, a needless rejection
example : monitor xCfg (orcOf xOrc) { hint := none, clientID := "web", plu := "https://evil.example/", state := "" }
    (.redirect "https://evil.example/" (.error "-") [("", "web")]) = some "redirect:unregistered-target" := by decide
example : monitor xCfg (orcOf xOrc) { hint := some (xTok xClaims 1 0), clientID := "", plu := "", state := "" }
    (.redirect "https://op.example/bye" (.error "-") [("user2", "web")]) = some "session:wrong-identity" := by decide
example : monitor xCfg (orcOf xOrc) { hint := some (xTok xClaims 1 7), clientID := "", plu := "", state := "" }
    (.redirect "https://op.example/bye" (.error "-") [("user1", "web")]) = some "hint:untrusted-signature" := by decide
example : monitor xCfg (orcOf xOrc) { hint := some (xTok xClaims 1 0), clientID := "", plu := "https://rp.example/out", state := "" }
    (.rejected []) = some "rejected:valid-logout-request" := by decide
example : monitor xCfg (orcOf xOrc) { hint := some (xTok xClaims 1 0), clientID := "", plu := "https://rp.example/out", state := "" }
    (.redirect "https://rp.example/out" (.error "-") [("user1", "web")]) = none := by decide

/-! #### key-set options: which signer counts under which option combination -/
def xKeyX : JWK := { KeyID := "x1", Use := "sig", kty := .rsa, keyNo := 1 }
def xKeyY : JWK := { KeyID := "y1", Use := "sig", kty := .rsa, keyNo := 3 }
def xKSX : KeySet := { kind := .published, keys := [xKeyX] }    -- a foreign key set, configured for ACCESS tokens
def xKSY : KeySet := { kind := .published, keys := [xKeyY] }    -- a foreign key set, configured for HINTS
def xTokBy (kid : String) (signer : Nat) : Token :=
  let h : JHeader := { Algorithm := "RS256", KeyID := kid }
  let p : Payload := { bytes := 1, claims := some xClaims }
  { segs := 3, middle := some p, jws := some { Signatures := [{ Header := h, signer := some signer, signedAlg := "RS256", signedBytes := 1, signedHdr := h }], payload := p } }
def xOrcK : SessOracles :=
  { xOrc with tokenOf := fun s => if s == "byOP" then xTokBy "sig1" 0 else if s == "byX" then xTokBy "x1" 1 else if s == "byY" then xTokBy "y1" 3 else default }
def xProv (opts : List Sess.KeyOpt) : SessionEnder := providerOf xNow xCfg opts (fun _ _ => true) false
def xLogout (h : String) : Go.R EndSessionReq := .ok { IdTokenHint := h, PostLogoutRedirectURI := "https://rp.example/out" }

example : HintOpts xCfg [] := rfl
example : HintOpts xCfg [.accessToken xKSX] := rfl
example : HintOpts { xCfg with hintKeys := some xKSY } [.idTokenHint xKSY, .accessToken xKSX] := rfl
example : HintOpts { xCfg with hintKeys := some xKSY } [.idTokenHint xKSX, .accessToken xKSX, .idTokenHint xKSY] := rfl
-- no option: the OP's own keys count, X's and Y's do not
example : Sess.handle .provider xNow xOrcK (xLogout "byOP") (xProv []) = .redirect "https://rp.example/out" := by decide
example : Sess.handle .provider xNow xOrcK (xLogout "byX") (xProv []) = .error 400 "invalid_request" := by decide
-- ONLY WithAccessTokenKeySet(X): still the OP's own keys for hints; a hint signed with a key of X is rejected (both routers)
example : Sess.handle .provider xNow xOrcK (xLogout "byOP") (xProv [.accessToken xKSX]) = .redirect "https://rp.example/out" := by decide
example : Sess.handle .legacy xNow xOrcK (xLogout "byOP") (xProv [.accessToken xKSX]) = .redirect "https://rp.example/out" := by decide
example : Sess.handle .provider xNow xOrcK (xLogout "byX") (xProv [.accessToken xKSX]) = .error 400 "invalid_request" := by decide
example : Sess.handle .legacy xNow xOrcK (xLogout "byX") (xProv [.accessToken xKSX]) = .error 400 "invalid_request" := by decide
-- WithIDTokenHintKeySet(Y): Y's keys count, the OP's own do not any more (that is what the deployment configured)
example : Sess.handle .provider xNow xOrcK (xLogout "byY") (xProv [.idTokenHint xKSY]) = .redirect "https://rp.example/out" := by decide
example : Sess.handle .provider xNow xOrcK (xLogout "byOP") (xProv [.idTokenHint xKSY]) = .error 400 "invalid_request" := by decide
-- both, in either order: Y for hints, X plays no part
example : Sess.handle .provider xNow xOrcK (xLogout "byY") (xProv [.accessToken xKSX, .idTokenHint xKSY]) = .redirect "https://rp.example/out" := by decide
example : Sess.handle .provider xNow xOrcK (xLogout "byX") (xProv [.idTokenHint xKSY, .accessToken xKSX]) = .error 400 "invalid_request" := by decide
-- the monitor: a hint that verifies only under the access-token key set must not be believed, an OP-signed one must be
example : monitor { xCfg with accessTokenKeys := some xKSX } (orcOf xOrcK) { hint := some (xTokBy "x1" 1), clientID := "", plu := "https://rp.example/out", state := "" }
    (.redirect "https://rp.example/out" (.error "-") [("user1", "web")]) = some "hint:trusted-only-by-access-token-keyset" := by decide
example : monitor { xCfg with accessTokenKeys := some xKSX } (orcOf xOrcK) { hint := some (xTokBy "sig1" 0), clientID := "", plu := "https://rp.example/out", state := "" }
    (.rejected []) = some "rejected:valid-logout-request" := by decide
example : monitor { xCfg with accessTokenKeys := some xKSX } (orcOf xOrcK) { hint := some (xTokBy "x1" 1), clientID := "", plu := "https://rp.example/out", state := "" }
    (.rejected []) = none := by decide
-- … unless the same set is ALSO configured for hints
example : monitor { xCfg with accessTokenKeys := some xKSX, hintKeys := some xKSX } (orcOf xOrcK) { hint := some (xTokBy "x1" 1), clientID := "", plu := "https://rp.example/out", state := "" }
    (.redirect "https://rp.example/out" (.error "-") [("user1", "web")]) = none := by decide
example : monitor { xCfg with hintKeys := some xKSY } (orcOf xOrcK) { hint := some (xTokBy "sig1" 0), clientID := "", plu := "", state := "" }
    (.redirect "https://op.example/bye" (.error "-") [("user1", "web")]) = some "hint:untrusted-signature" := by decide
-- a storage that refuses to terminate: rejecting is right, redirecting is not
example : monitor xCfg (orcOf xOrc) { hint := some (xTok xClaims 1 0), clientID := "", plu := "https://rp.example/out", state := "", termRefused := true }
    (.rejected []) = none := by decide
example : monitor xCfg (orcOf xOrc) { hint := some (xTok xClaims 1 0), clientID := "", plu := "https://rp.example/out", state := "", termRefused := true }
    (.redirect "https://rp.example/out" (.error "-") []) = some "session:not-terminated" := by decide
end examples

end C18
