/-
  C10 proofs.
  (1) Call-site facts (`Gen.storageCalls`, kept from the first version): every call pkg/op makes into the storage has its
      error examined by the statement that runs next.
  (2) The abstract core: a handler that is a sequence of storage calls whose errors are each propagated answers with an error
      whenever ANY one of them fails (Except monad, induction over the call list): `c10_fail_closed`.
  (3) The handlers themselves: factgen regenerates an error-flow tree for every function of pkg/op between an HTTP handler and
      the storage (`GenC10.fns`); `C10.Flow.drops` lists the paths on which the error of a failed call is dropped, and
      `C10.Flow.drops_sound` (Proofs/C10Flow.lean, induction over executions of ANY program) turns "no drops" into the
      property.  Here the analysis is evaluated on the regenerated trees, with a small hand-audited table of tolerated sites
      (`toleratedSites`, each with its justification) that is proved to be exactly the set of drop sites of the regenerated code:
      a new dropped-error path changes a regenerated definition and breaks `c10_flow_all_ok` / `c10_tolerated_audited`.
      `c10_fail_closed_handlers`: for every regenerated function, every execution, every failing storage call, every
      error kind: no success-building step and no further storage call follows and the function ends in the error class
      (error responder, or an error return its caller turns into one) - unless the failure arrived at an audited site or the
      same call is attempted again (bounded retry loops are unrolled by the translator; the last attempt must be examined).
      (F-C10a, revocation answering 200 when the key lookup failed, is fixed; no audited site is a finding any more.)
  (4) `c10_handlers_refine_abstract` ties (3) to (2); `c10_device_mapping`, `c10_unvalidated_redirect_guard` pin which error a
      failing storage call is answered with where the property depends on it.
-/
import OidcModel.Spec.C10
import OidcModel.Generated.StorageCalls
import OidcModel.Generated.C10Facts
import OidcModel.Proofs.C10Flow
import OidcModel.Proofs.C10Sched

namespace C10

/-- every storage call site of pkg/op examines the returned error (decided on the regenerated list) -/
theorem c10_all_call_sites_checked : Gen.storageCalls.all (·.checked) = true := by decide

/-- the list is not vacuous: the call sites of the token, code and session flows are in it -/
example : (Gen.storageCalls.any fun c => c.method == "DeleteAuthRequest" && c.func == "CreateTokenResponse") = true := by decide
example : (Gen.storageCalls.any fun c => c.method == "CreateAccessAndRefreshTokens") = true := by decide
example : (Gen.storageCalls.any fun c => c.method == "TerminateSession") = true := by decide
example : decide (Gen.storageCalls.length ≥ 40) = true := by decide

/-- a handler as a sequence of storage calls over some state; each call may fail -/
abbrev Call (σ : Type) := σ → Except String σ

/-- run the calls in order, stopping at the first error (what "every error is examined" means) -/
def runCalls {σ : Type} : List (Call σ) → σ → Except String σ
  | [], s => .ok s
  | c :: cs, s => match c s with
    | .error e => .error e
    | .ok s' => runCalls cs s'

/-- make the k-th call fail with error `e` -/
def inject {σ : Type} (calls : List (Call σ)) (k : Nat) (e : String) : List (Call σ) :=
  calls.mapIdx fun i c => if i == k then (fun _ => .error e) else c

theorem runCalls_error_of_fails {σ : Type} (calls : List (Call σ)) (s : σ)
    (h : ∃ i, i < calls.length ∧ ∀ s', ∃ e, calls[i]! s' = .error e) : ∃ e, runCalls calls s = .error e := by
  induction calls generalizing s with
  | nil => obtain ⟨i, hi, _⟩ := h; simp at hi
  | cons c cs ih =>
    obtain ⟨i, hi, hf⟩ := h
    simp only [runCalls]
    cases hc : c s with
    | error e => exact ⟨e, rfl⟩
    | ok s' =>
      simp only []
      cases i with
      | zero =>
        obtain ⟨e, he⟩ := hf s
        simp at he
        rw [he] at hc; cases hc
      | succ j =>
        apply ih
        refine ⟨j, by simpa using hi, ?_⟩
        intro s''
        obtain ⟨e, he⟩ := hf s''
        exact ⟨e, by simpa using he⟩

/-- C10 (abstract): whichever index k of whichever call sequence fails, with whatever error, from
    whatever state: the handler's result is an error - it never reaches the point where it builds
    a success response -/
theorem c10_fail_closed {σ : Type} (calls : List (Call σ)) (k : Nat) (hk : k < calls.length) (e : String) (s : σ) :
    ∃ e', runCalls (inject calls k e) s = .error e' := by
  apply runCalls_error_of_fails
  refine ⟨k, by simpa [inject] using hk, ?_⟩
  intro s'
  refine ⟨e, ?_⟩
  have hlen : k < (inject calls k e).length := by simpa [inject] using hk
  simp [inject, hk]

/-- and without a fault the payload is produced only if every call succeeded -/
theorem c10_success_needs_all {σ : Type} (calls : List (Call σ)) (s r : σ) (h : runCalls calls s = .ok r) :
    ∀ i, i < calls.length → ¬ (∀ s', ∃ e, calls[i]! s' = .error e) := by
  intro i hi hf
  obtain ⟨e, he⟩ := runCalls_error_of_fails calls s ⟨i, hi, hf⟩
  rw [he] at h; cases h

/-! ### the abstract core under an arbitrary FAULT SCHEDULE (call index ↦ optional error) -/

/-- apply a fault schedule to a call sequence: call i fails with `e` when the schedule says `some e` -/
def injectSched {σ : Type} (calls : List (Call σ)) (sch : Nat → Option String) : List (Call σ) :=
  calls.mapIdx fun i c => match sch i with | some e => (fun _ => .error e) | none => c

/-- C10 (abstract, schedules): whatever the schedule - one fault, the same call failing k times, faults at several indices,
    every call failing - as soon as it fails SOME call of the sequence the handler's result is an error -/
theorem c10_fail_closed_sched {σ : Type} (calls : List (Call σ)) (sch : Nat → Option String)
    (h : ∃ i, i < calls.length ∧ (sch i).isSome = true) (s : σ) : ∃ e', runCalls (injectSched calls sch) s = .error e' := by
  obtain ⟨i, hi, hs⟩ := h
  apply runCalls_error_of_fails
  refine ⟨i, by simpa [injectSched] using hi, ?_⟩
  intro s'
  obtain ⟨e, he⟩ := Option.isSome_iff_exists.mp hs
  exact ⟨e, by simp [injectSched, hi, he]⟩

/-- … and a schedule that fails none of the calls changes nothing -/
theorem c10_sched_no_fault_same {σ : Type} (calls : List (Call σ)) (sch : Nat → Option String)
    (h : ∀ i, i < calls.length → sch i = none) : injectSched calls sch = calls := by
  apply List.ext_getElem
  · simp [injectSched]
  · intro i h1 h2
    have hi : i < calls.length := by simpa [injectSched] using h1
    simp [injectSched, h i hi]

/-- single faults are schedules: `inject` is `injectSched` of the one-point schedule -/
theorem inject_eq_injectSched {σ : Type} (calls : List (Call σ)) (k : Nat) (e : String) :
    inject calls k e = injectSched calls (fun i => if i = k then some e else none) := by
  apply List.ext_getElem
  · simp [inject, injectSched]
  · intro i h1 h2
    by_cases hik : i = k <;> simp [inject, injectSched, hik]

/-! ## the regenerated handlers -/

open C10.Flow

/-- an audited sentinel: `errors.Is / errors.As` tests against it let the caller go on WITHOUT treating the error as a failure -/
structure Sentinel where
  name : String
  why : String

/-- ASSUMPTION (listed in the evidence): a failing storage call does not return an error that matches one of these -/
def benignSentinels : List Sentinel := [
  { name := "ErrNoClientCredentials", why := "ClientIDFromRequest: no Basic header / no assertion was sent, the next credential source is tried; produced only by ClientBasicAuth / ClientJWTAuth BEFORE any storage call (r.BasicAuth() not ok, empty assertion)" },
  { name := "ErrInvalidRefreshToken", why := "Revoke / LegacyServer.Revocation: the storage's documented answer 'this is not a refresh token' from GetRefreshTokenInfo; the token is then treated as an access token" },
  { name := "IDTokenHintExpiredError", why := "VerifyIDTokenHint: signature, issuer and ACR were verified, only the expiry checks failed; id_token_hint (authorize, end_session) may be an expired token" }]

/-- an audited call site whose failure is NOT turned into an error answer -/
structure Tolerated where
  fn : String
  callee : String
  allow : List String          -- the only success steps / calls that may follow the failure inside fn
  why : String
  finding : Option String := none

/-- the complete list (proved equal to the drop sites of the regenerated trees: `c10_tolerated_audited`) -/
def toleratedSites : List Tolerated := [
  { fn := "SigAlgorithms", callee := "Storage.SignatureAlgorithms", allow := [],
    why := "discovery document: a failing SignatureAlgorithms yields the document without the alg list (200); no secret, not a flow (DESIGN §4.21)" },
  { fn := "LegacyServer.Introspect", callee := "Storage.SetIntrospectionFromToken", allow := ["NewResponse"],
    why := "introspection answers 200 {\"active\":false}: `response.Active = true` is only assigned after the call succeeded (DESIGN §4.21; the monitor checks active is not true)" },
  { fn := "LegacyServer.Introspect", callee := "getTokenIDAndSubject", allow := ["NewResponse"],
    why := "introspection: an access token that cannot be read (incl. a failing KeySet lookup) is reported as not active" },
  { fn := "GetTokenIDAndSubjectFromToken", callee := "getTokenIDAndClaims", allow := ["Storage.VerifyExchangeActorToken", "Storage.VerifyExchangeSubjectToken"],
    why := "token exchange: a subject / actor token the provider cannot read is handed to the storage's own verifier (TokenExchangeTokensVerifierStorage), whose error ends the request; without that interface the request is refused" },
  { fn := "GetTokenIDAndSubjectFromToken", callee := "Storage.TokenRequestByRefreshToken", allow := ["Storage.VerifyExchangeActorToken", "Storage.VerifyExchangeSubjectToken"], why := "token exchange: as above (refresh token as subject / actor token)" },
  { fn := "GetTokenIDAndSubjectFromToken", callee := "VerifyIDTokenHint", allow := ["Storage.VerifyExchangeActorToken", "Storage.VerifyExchangeSubjectToken"], why := "token exchange: as above (ID token as subject / actor token)" },
  { fn := "Introspect", callee := "Storage.SetIntrospectionFromToken", allow := ["httphelper.MarshalJSON"], why := "as LegacyServer.Introspect" },
  { fn := "Introspect", callee := "getTokenIDAndSubject", allow := ["httphelper.MarshalJSON"], why := "as LegacyServer.Introspect" },
  { fn := "getTokenIDAndSubjectForRevocation", callee := "VerifyAccessToken", allow := [],
    why := "revocation: a JWT that does not verify is not one of the provider's tokens and is handed to RevokeToken as an opaque string (RFC 7009: an unknown token is answered with 200); whether the keys could be OBTAINED is reported separately (revocationKeySet records a keySetError, returned as the function's error and answered with server_error by Revoke / LegacyServer.Revocation) - that side channel is outside the tree, the stream checks it (fault at KeySet with JWT access tokens)" }]

/-- the `errors.Is / errors.As` tests on followed error variables, per function (proved equal to the regenerated ones) -/
def auditedSentinelTests : List (String × String) := [
  ("ValidateAuthReqIDTokenHint", "IDTokenHintExpiredError"),
  ("ClientIDFromRequest", "ErrNoClientCredentials"),
  ("CheckDeviceAuthorizationState", "context.DeadlineExceeded"),
  ("LegacyServer.Revocation", "ErrInvalidRefreshToken"),
  ("ValidateEndSessionRequest", "IDTokenHintExpiredError"),
  ("Revoke", "ErrInvalidRefreshToken")]

def audit : Audit := { benign := benignSentinels.map (·.name), tol := toleratedSites.map fun t => { fn := t.fn, callee := t.callee, allow := t.allow } }

set_option maxRecDepth 4096 in
/-- the regenerated program is closed: every callee index names a regenerated function -/
theorem c10_flow_callees_resolved : GenC10.fns.all (fun F => calleesIn GenC10.fns.length F.sk) = true := by decide

set_option maxRecDepth 4096 in
/-- THE check: with the audited tolerances no regenerated function has a path on which a failed call's error is dropped -/
theorem c10_flow_all_ok : GenC10.fns.all (fnOK GenC10.fns audit) = true := by decide

/-- functions without an error result (handlers, `SigAlgorithms`) yield nothing in the error position -/
theorem c10_flow_noerr_nil : GenC10.fns.all (fun F => !F.noErrResult || retsNil F.sk) = true := by decide

/-- the audited table is EXACTLY the list of drop sites of the regenerated trees (analysis without any tolerance):
    nothing is tolerated that is not a drop, and (with `c10_flow_all_ok`) every drop is in the table -/
theorem c10_tolerated_audited :
    (GenC10.fns.flatMap fun F => (rawDropSites GenC10.fns audit.benign F).map fun c => (F.name, c)) = toleratedSites.map (fun t => (t.fn, t.callee)) := by decide

/-- the sentinel tests of the regenerated trees are the audited ones: a new `errors.Is` escape hatch changes this list -/
theorem c10_sentinel_tests_audited :
    (GenC10.fns.flatMap fun F => (dedupStr (sentinelTests F.sk)).map fun s => (F.name, s)) = auditedSentinelTests := by decide

/-- every sentinel test is against an audited benign sentinel, except the device mapping's deadline test (which only selects
    between two error answers, `c10_device_mapping`) -/
theorem c10_sentinels_benign :
    (auditedSentinelTests.all fun t => audit.benign.contains t.2 || t == ("CheckDeviceAuthorizationState", "context.DeadlineExceeded")) = true := by
  decide

theorem c10_wf : WF GenC10.fns audit where
  ok g G h := by
    have := List.all_eq_true.mp c10_flow_all_ok G (List.mem_of_getElem? h)
    simpa [fnOK] using this
  retNil g G h hn := by
    have := List.all_eq_true.mp c10_flow_noerr_nil G (List.mem_of_getElem? h)
    simpa [hn] using this

/-- C10 for the regenerated handlers.  For EVERY function F regenerated from pkg/op (every HTTP handler and every helper between
    it and the storage), EVERY execution of it (any initial environment, any outcome of every call and condition, callees
    executed along their own regenerated trees), EVERY position i at which a call into the storage fails, with EVERY error kind:
    the events after the failure contain no success-building step and no further storage call, and the function ends in the
    error class - a handler has run an error responder, a helper returns a non-nil error (`false`) to its caller -
    or the failure arrived at one of the audited tolerated sites (by design, none of them a finding), or the same call site is
    called again later (the attempt was retried inside a bounded retry loop: the statement then applies to that later attempt,
    so the LAST attempt is the one that must be closed). -/
theorem c10_fail_closed_handlers :
    ∀ (f : Nat) (F : Fn), GenC10.fns[f]? = some F →
    ∀ (ρ : Env) (tr : List Ev) (x : CV), Run GenC10.fns audit f F.sk ρ tr x →
    ∀ (i g site : Nat) (kind : EKind), tr[i]? = some (.sfail g site kind) →
      hasAbs (tr.drop (i + 1)) = true ∨ retriedAt g site (tr.drop (i + 1)) = true ∨
      (noSucc (tr.drop (i + 1)) = true ∧ noFail (tr.drop (i + 1)) = true ∧ exitOK F.kind x (tr.drop (i + 1)) = true) := by
  intro f F hF ρ tr x hrun i g site kind hi
  have hg : Good F.kind x tr := fn_good c10_wf hF hrun
  have := goodW_get tr i _ hg hi rfl
  simpa [closedFor, Bool.or_eq_true, Bool.and_eq_true, and_assoc, or_assoc] using this

/-- for the HTTP handlers proper (no result): after a failing storage call an error responder runs and nothing is built -/
theorem c10_handlers_answer_with_error :
    ∀ (f : Nat) (F : Fn), GenC10.fns[f]? = some F → F.kind = .void →
    ∀ (ρ : Env) (tr : List Ev) (x : CV), Run GenC10.fns audit f F.sk ρ tr x →
    ∀ (i g site : Nat) (kind : EKind), tr[i]? = some (.sfail g site kind) →
      hasAbs (tr.drop (i + 1)) = false → retriedAt g site (tr.drop (i + 1)) = false →
      hasResp (tr.drop (i + 1)) = true ∧ noSucc (tr.drop (i + 1)) = true ∧ noFail (tr.drop (i + 1)) = true := by
  intro f F hF hk ρ tr x hrun i g site kind hi hna hnr
  rcases c10_fail_closed_handlers f F hF ρ tr x hrun i g site kind hi with h | h | ⟨h1, h2, h3⟩
  · rw [hna] at h; cases h
  · rw [hnr] at h; cases h
  · rw [hk] at h3; exact ⟨h3, h1, h2⟩

/-! ### fault SCHEDULES over the regenerated handlers -/

/-- C10 for arbitrary fault schedules.  For EVERY regenerated function F, EVERY schedule σ (a function from the index of a call
    into the storage - counted over the whole request, helpers included - to the error kind it fails with, if any: single faults,
    the same call failing k times in a row, faults at two or more indices, every call failing, with any mix of the kinds
    plain / deadline / canceled / oidc.Error / StatusError / any named sentinel) and EVERY execution that follows σ: each call
    the schedule fails and the execution makes is closed - no success step and no further failing call after it and the function
    ends in the error class, unless the failure arrived at an audited tolerated site or the same call site is called again
    (then the statement holds for that later attempt).  Every execution follows some schedule (`follows_schedOf`). -/
theorem c10_fail_closed_schedules :
    ∀ (f : Nat) (F : Fn), GenC10.fns[f]? = some F →
    ∀ (σ : Sched) (ρ : Env) (tr : List Ev) (x : CV), Run GenC10.fns audit f F.sk ρ tr x → Follows σ tr →
    ∀ (j : Nat) (kind : EKind), j < (callOutcomes tr).length → σ j = some kind →
      ∃ i g site, nthCall tr j = some (i, .sfail g site kind) ∧
        (hasAbs (tr.drop (i + 1)) = true ∨ retriedAt g site (tr.drop (i + 1)) = true ∨
         (noSucc (tr.drop (i + 1)) = true ∧ noFail (tr.drop (i + 1)) = true ∧ exitOK F.kind x (tr.drop (i + 1)) = true)) := by
  intro f F hF σ ρ tr x hrun hσ j kind hj hk
  obtain ⟨i, g, s, hn, hc⟩ := sched_fail_closed c10_wf hF hrun σ hσ j kind hj hk
  exact ⟨i, g, s, hn, by simpa [closedFor, Bool.or_eq_true, Bool.and_eq_true, and_assoc, or_assoc] using hc⟩

/-- REPEATED faults (the retry class, seeded C10-E / C10-M): if every call an execution makes at some call site fails - all k
    attempts, whatever the kinds - and nothing is absorbed, then after the LAST attempt no success step and no failing call
    follows and the function ends in the error class: an exhausted retry bound is answered with an error. -/
theorem c10_all_attempts_fail_closed :
    ∀ (f : Nat) (F : Fn), GenC10.fns[f]? = some F →
    ∀ (ρ : Env) (tr : List Ev) (x : CV), Run GenC10.fns audit f F.sk ρ tr x →
    ∀ (g site : Nat), retriedAt g site tr = true → allFailAt g site tr = true → hasAbs tr = false →
      ∃ i kind, tr[i]? = some (.sfail g site kind) ∧ retriedAt g site (tr.drop (i + 1)) = false ∧
        noSucc (tr.drop (i + 1)) = true ∧ noFail (tr.drop (i + 1)) = true ∧ exitOK F.kind x (tr.drop (i + 1)) = true := by
  intro f F hF ρ tr x hrun g site h1 h2 h3
  exact all_attempts_fail_closed (fn_good c10_wf hF hrun) g site h1 h2 h3

/-- faults at TWO indices of one request: the later failing call is only reached when the earlier failure was absorbed at an
    audited site or its call was attempted again - a handler never goes on to other storage calls after a failure -/
theorem c10_later_fault_needs_retry :
    ∀ (f : Nat) (F : Fn), GenC10.fns[f]? = some F →
    ∀ (ρ : Env) (tr : List Ev) (x : CV), Run GenC10.fns audit f F.sk ρ tr x →
    ∀ (i j g s g' s' : Nat) (k k' : EKind), tr[i]? = some (.sfail g s k) → tr[j]? = some (.sfail g' s' k') → i < j →
      hasAbs (tr.drop (i + 1)) = true ∨ retriedAt g s (tr.drop (i + 1)) = true := by
  intro f F hF ρ tr x hrun i j g s g' s' k k' hi hj hij
  exact later_fault_needs_retry (fn_good c10_wf hF hrun) hi hj hij

/-! ### connection with the abstract core -/

/-- the storage calls of an execution as a call sequence of the abstract model: a failed call is the failing step -/
def callsOf (tr : List Ev) : List (Call Unit) :=
  (tr.filter Ev.isCall).map fun e => if e.isFail then (fun _ => .error "storage failure") else (fun s => .ok s)

theorem callsOf_sfail (g s : Nat) (k : EKind) (t : List Ev) :
    callsOf (.sfail g s k :: t) = (fun _ => .error "storage failure") :: callsOf t := rfl
theorem callsOf_sok (g s : Nat) (t : List Ev) : callsOf (.sok g s :: t) = (fun s => .ok s) :: callsOf t := rfl
theorem callsOf_succ (n : String) (t : List Ev) : callsOf (.succ n :: t) = callsOf t := rfl
theorem callsOf_resp (n : String) (t : List Ev) : callsOf (.resp n :: t) = callsOf t := rfl
theorem callsOf_absorbed (g s : Nat) (t : List Ev) : callsOf (.absorbed g s :: t) = callsOf t := rfl

theorem runCalls_callsOf_error_iff (tr : List Ev) : (∃ e, runCalls (callsOf tr) () = .error e) ↔ noFail tr = false := by
  induction tr with
  | nil => simp [callsOf, runCalls, noFail]
  | cons a t ih =>
    cases a with
    | sfail g s k => rw [callsOf_sfail]; simp [runCalls, noFail, Ev.isFail]
    | sok g s =>
      rw [callsOf_sok]; simp only [runCalls]
      simpa [noFail, Ev.isFail] using ih
    | succ n => rw [callsOf_succ]; simpa [noFail, Ev.isFail] using ih
    | resp n => rw [callsOf_resp]; simpa [noFail, Ev.isFail] using ih
    | absorbed g s => rw [callsOf_absorbed]; simpa [noFail, Ev.isFail] using ih

/-- the abstract model applied to the storage calls of an execution predicts an error exactly when one of them failed -
    and then the regenerated function does end in the error class (or the failure was absorbed at an audited site, or retried):
    the Except-monad reading "a failed call ends the handler with an error" is what the concrete trees do. -/
theorem c10_handlers_refine_abstract :
    ∀ (f : Nat) (F : Fn), GenC10.fns[f]? = some F →
    ∀ (ρ : Env) (tr : List Ev) (x : CV), Run GenC10.fns audit f F.sk ρ tr x →
      ((∃ e, runCalls (callsOf tr) () = .error e) ↔ ∃ (i g site : Nat) (kind : EKind), tr[i]? = some (Ev.sfail g site kind)) ∧
      ((∃ e, runCalls (callsOf tr) () = .error e) → hasAbs tr = false →
        (∀ (i g site : Nat) (kind : EKind), tr[i]? = some (Ev.sfail g site kind) → retriedAt g site (tr.drop (i + 1)) = false) →
        exitOK F.kind x tr = true) := by
  intro f F hF ρ tr x hrun
  have hiff : noFail tr = false ↔ ∃ (i g site : Nat) (kind : EKind), tr[i]? = some (Ev.sfail g site kind) := by
    constructor
    · intro h
      simp only [noFail, List.all_eq_false, Bool.not_eq_true, Bool.not_eq_false'] at h
      obtain ⟨e, he, hf⟩ := h
      obtain ⟨i, hi, hget⟩ := List.getElem_of_mem he
      cases e with
      | sfail g s k => exact ⟨i, g, s, k, by simp [List.getElem?_eq_getElem hi, hget]⟩
      | sok g s => simp [Ev.isFail] at hf
      | succ n => simp [Ev.isFail] at hf
      | resp n => simp [Ev.isFail] at hf
      | absorbed g s => simp [Ev.isFail] at hf
    · rintro ⟨i, g, s, k, hi⟩
      simp only [noFail, List.all_eq_false, Bool.not_eq_true, Bool.not_eq_false']
      exact ⟨_, List.mem_of_getElem? hi, rfl⟩
  refine ⟨(runCalls_callsOf_error_iff tr).trans hiff, fun herr hna hnr => ?_⟩
  obtain ⟨i, g, s, k, hi⟩ := hiff.mp ((runCalls_callsOf_error_iff tr).mp herr)
  rcases c10_fail_closed_handlers f F hF ρ tr x hrun i g s k hi with h | h | ⟨_, _, h3⟩
  · exfalso
    have : hasAbs tr = true := by
      simp only [hasAbs, List.any_eq_true] at h ⊢
      obtain ⟨e, he, ha⟩ := h
      exact ⟨e, List.mem_of_mem_drop he, ha⟩
    rw [hna] at this; cases this
  · rw [hnr i g s k hi] at h; cases h
  · cases hk : F.kind <;> rw [hk] at h3 <;> simp only [exitOK] at h3 ⊢
    · simp only [hasResp, List.any_eq_true] at h3 ⊢
      obtain ⟨e, he, ha⟩ := h3
      exact ⟨e, List.mem_of_mem_drop he, ha⟩
    · exact h3
    · exact h3
    · exact h3

/-! ### which error a failing storage call is answered with -/

/-- device grant: a storage timeout while polling is answered with `slow_down`, any other storage failure with `access_denied` -/
theorem c10_device_mapping :
    failureWraps GenC10.fns audit.benign "CheckDeviceAuthorizationState" "GetDeviceAuthorizatonState" .deadline = ["oidc.ErrSlowDown"] ∧
    failureWraps GenC10.fns audit.benign "CheckDeviceAuthorizationState" "GetDeviceAuthorizatonState" .plain = ["oidc.ErrAccessDenied"] ∧
    failureWraps GenC10.fns audit.benign "CheckDeviceAuthorizationState" "GetDeviceAuthorizatonState" .oidc = ["oidc.ErrAccessDenied"] := by decide

/-- … and so are the further kinds: a cancelled context, a StatusError, a named sentinel (only a DEADLINE is `slow_down`) -/
theorem c10_device_mapping_kinds :
    ([EKind.canceled, .status, .named "ErrDuplicateUserCode", .named "ErrSignerCreationFailed"].all fun k =>
      failureWraps GenC10.fns audit.benign "CheckDeviceAuthorizationState" "GetDeviceAuthorizatonState" k == ["oidc.ErrAccessDenied"]) = true := by decide

/-- authorization endpoint of the Provider router: while the redirect URI is NOT yet validated (the client lookup itself fails)
    the error handed to AuthRequestError is the redirect-disabled `ErrInvalidRequestRedirectURI`, whatever the kind of failure -
    so the answer is never a redirect to the unvalidated URI -/
theorem c10_unvalidated_redirect_guard :
    ([EKind.plain, .deadline, .oidc, .canceled, .status, .named "ErrDuplicateUserCode"].all fun k =>
      failureWraps GenC10.fns audit.benign "Authorize.func1" "GetClientByClientID" k == ["oidc.ErrInvalidRequestRedirectURI"] &&
      failureWraps GenC10.fns audit.benign "ValidateAuthRequest" "GetClientByClientID" k == ["oidc.ErrInvalidRequestRedirectURI"]) = true := by decide

/-! ### non-vacuity (concrete executions of the regenerated handlers, whose scripts depend on the shape of the trees, are in
    Proofs/C10Examples.lean - outside this module, so that an `extract function` rewrite cannot break the property's proofs) -/

/-- the analysis is not vacuous: without the audited table the regenerated program does NOT pass … -/
example : GenC10.fns.all (fnOK GenC10.fns { audit with tol := [] }) = false := by decide
/-- … nor without the sentinel assumption (the credential fall-through of ClientIDFromRequest would count as a drop) -/
example : GenC10.fns.all (fnOK GenC10.fns { audit with benign := [] }) = false := by decide
set_option maxRecDepth 4096 in
example : decide (GenC10.fns.length ≥ 100) = true := by decide

/-- the shape of the seeded defect C10-D (the error of the Basic-auth attempt is only looked at on ONE branch, the other one
    returns the form's client_id without an error) is reported as a drop … -/
example : drops [] ["ErrNoClientCredentials"] [] [] .err
    (.call 0 (.storage "AuthorizeClientIDSecret") 0 (.ifErr 0 (.ite (.ifIs 0 "ErrNoClientCredentials" (.ret (.fresh [] "oidc.ErrInvalidClient")) (.ret (.var 0 [] ""))) (.ret .nil)) (.ret .nil)))
    [] (.clean none) = [(0, .retNotErr)] := by decide
/-- … the original shape is not -/
example : drops [] ["ErrNoClientCredentials"] [] [] .err
    (.call 0 (.storage "AuthorizeClientIDSecret") 0 (.ifErr 0 (.ifIs 0 "ErrNoClientCredentials" (.ite (.ret (.fresh [] "oidc.ErrInvalidClient")) (.ret .nil)) (.ret (.var 0 [] ""))) (.ret .nil)))
    [] (.clean none) = [] := by decide
/-- an error overwritten before it is examined (C10-A), a deferred call (C10-C), an error only recorded (C04-B) -/
example : drops [] [] [] [] .err (.call 0 (.storage "A") 0 (.ite (.call 1 (.storage "B") 0 (.ifErr 0 (.ret (.var 0 [] "")) (.ret .nil))) (.ifErr 0 (.ret (.var 0 [] "")) (.ret .nil)))) [] (.clean none)
    = [(0, .callAfter)] := by decide
example : drops [] [] [] [] .err (.call 0 (.storage "DeleteAuthRequest") 1 (.call 1 (.storage "CreateAccessToken") 0 (.ifErr 0 (.ret (.var 0 [] "")) (.ret .nil)))) [] (.clean none)
    = [(0, .callAfter)] := by decide
example : drops [] [] [] [] .err (.call 0 (.storage "DeleteAuthRequest") 0 (.ret .nil)) [] (.clean none) = [(0, .retNotErr)] := by decide

/-! ### bounded retry loops (unrolled by the translator: `.attempt i n`, then the statements after the loop) -/

/-- a CORRECT retry loop around a storage call - three attempts, `continue` on the retry sentinel, any other error returned,
    and the error of the LAST attempt examined after the loop - passes: re-calling the same site supersedes the failure -/
example : drops [] [] ["Storage.Store"] [] .err
    (.attempt 1 3 (.call 0 (.storage "Store") 0 (.ifIs 0 "ErrRetry"
      (.attempt 2 3 (.call 0 (.storage "Store") 0 (.ifIs 0 "ErrRetry"
        (.attempt 3 3 (.call 0 (.storage "Store") 0 (.ifIs 0 "ErrRetry"
          (.ifErr 0 (.ret (.var 0 [] "")) (.succ "build" (.ret .nil)))                      -- bound exhausted: the last error is examined
          (.ifErr 0 (.ret (.var 0 [] "")) (.ifErr 0 (.ret (.var 0 [] "")) (.succ "build" (.ret .nil)))))))
        (.ifErr 0 (.ret (.var 0 [] "")) (.ifErr 0 (.ret (.var 0 [] "")) (.succ "build" (.ret .nil)))))))
      (.ifErr 0 (.ret (.var 0 [] "")) (.ifErr 0 (.ret (.var 0 [] "")) (.succ "build" (.ret .nil)))))))
    [] (.clean none) = [] := by decide

/-- the distinct drops of a list -/
def dropSet (l : List (Nat × DropKind)) : List (Nat × DropKind) := l.foldr (fun d acc => if acc.contains d then acc else d :: acc) []

/-- the shape of the seeded defect C10-E - the same loop, but after the last attempt the code goes on to build the response -
    is reported as a dropped error AT THE STORAGE CALL SITE (site 0) -/
example : dropSet (drops [] [] ["Storage.Store"] [] .err
    (.attempt 1 3 (.call 0 (.storage "Store") 0 (.ifIs 0 "ErrRetry"
      (.attempt 2 3 (.call 0 (.storage "Store") 0 (.ifIs 0 "ErrRetry"
        (.attempt 3 3 (.call 0 (.storage "Store") 0 (.ifIs 0 "ErrRetry"
          (.succ "build" (.ret .nil))                                                      -- bound exhausted: nobody looks at the error
          (.ifErr 0 (.ret (.var 0 [] "")) (.succ "build" (.ret .nil))))))
        (.ifErr 0 (.ret (.var 0 [] "")) (.succ "build" (.ret .nil))))))
      (.ifErr 0 (.ret (.var 0 [] "")) (.succ "build" (.ret .nil))))))
    [] (.clean none)) = [(0, .succAfter)] := by decide

/-- a retry may only repeat the SAME storage call: calling something else while the failure is pending stays a drop -/
example : drops [] [] ["Storage.A", "Storage.B"] [] .err
    (.call 0 (.storage "A") 0 (.call 1 (.storage "B") 1 (.ifErr 1 (.ret (.var 1 [] "")) (.ret .nil)))) [] (.clean none) = [(0, .callAfter)] := by decide

/-- an execution of a two-attempt retry: the first attempt fails, the second succeeds, the response is built - the failure is
    followed by a call at the same site (`retriedAt`), which is the escape clause of `c10_fail_closed_handlers` -/
def retryDemo : List Fn :=
  [{ name := "f", file := "", kind := .err, handler := false, nvars := 1, sites := ["Storage.Store"], sk := .attempt 1 2 (.call 0 (.storage "Store") 0 (.ifErr 0 (.attempt 2 2 (.call 0 (.storage "Store") 0 (.ifErr 0 (.ret (.var 0 [] "")) (.succ "build" (.ret .nil))))) (.succ "build" (.ret .nil)))) }]

example : (execFn retryDemo { benign := [], tol := [] } "f" [.fail .plain, .ok]).map (fun r => (r.1, retriedAt 0 0 (r.1.drop 1))) =
    some ([.sfail 0 0 .plain, .sok 0 0, .succ "build"], true) := by decide

/-! ### coverage: every storage method, the probes, loops -/

/-- the storage methods called by the regenerated trees -/
def extractedMethods : List String := dedupStr (GenC10.fns.flatMap fun F => storageMethods F.sk)

/-- methods of the storage interfaces that no function of pkg/op between a handler and the storage calls (audited; the list is
    PROVED to be exactly the uncalled ones, so a new interface method the extractor's table does not know appears here) -/
def notCalledByHandlers : List (String × String) := []

set_option maxRecDepth 8192 in
/-- COVERAGE of the pluggable storage: every method with an error (ok) result of every storage interface declared in pkg/op
    (`GenC10.storageInterface`, regenerated from the interface declarations: AuthStorage, OPStorage, Storage.Health, KeyProvider,
    ClientCredentialsStorage, TokenExchangeStorage, TokenExchangeTokensVerifierStorage, DeviceAuthorizationStorage,
    JWTProfileTokenStorage / JWTProfileKeyStorage, DiscoverStorage, CanTerminateSessionFromRequest, CanSetUserinfoFromRequest,
    CanGetPrivateClaimsFromRequest) is a call site of some regenerated error-flow tree - hence under `c10_fail_closed_schedules` -/
theorem c10_storage_interface_covered :
    (dedupStr (GenC10.storageInterface.map (·.2))).filter (fun m => !extractedMethods.contains m) = notCalledByHandlers.map (·.1) := by decide

set_option maxRecDepth 8192 in
/-- … and conversely the extractor's table of storage methods names nothing that is not a declared interface method -/
theorem c10_extracted_methods_declared : extractedMethods.all (fun m => (GenC10.storageInterface.map (·.2)).contains m) = true := by decide

example : decide (GenC10.storageInterface.length ≥ 35) = true := by decide

/-- nothing is left out of the extracted program (the readiness probe loops are loop functions: Proofs/C10Examples.lean) -/
theorem c10_nothing_out_of_scope : GenC10.outOfScope = [] := by decide

/-- a loop that goes on to the next iteration while a failure is pending is NOT accepted (callAfter at the back edge) … -/
example : (let P : List Fn := [
      { name := "h", file := "", kind := .void, handler := true, nvars := 2, sites := ["h.loop1", "Storage.Get", "h.loop1"], sk := .call 2 (.op [1]) 1 (.ret .nil) },
      { name := "h.loop1", file := "", kind := .void, handler := true, nvars := 2, sites := ["h.loop1", "Storage.Get", "h.loop1"],
        sk := .ite (.call 1 (.storage "Get") 0 (.call 0 (.op [1]) 1 (.ret .nil))) (.succ "ok" (.ret .nil)) }]
    P.map fun F => dropSet (fnDrops P { benign := [], tol := [] } F)) = [[], [(1, .callAfter)]] := by decide

/-- … one that answers and leaves is -/
example : (let P : List Fn := [
      { name := "h", file := "", kind := .void, handler := true, nvars := 2, sites := ["h.loop1", "Storage.Get", "h.loop1"], sk := .call 2 (.op [1]) 1 (.ret .nil) },
      { name := "h.loop1", file := "", kind := .void, handler := true, nvars := 2, sites := ["h.loop1", "Storage.Get", "h.loop1"],
        sk := .ite (.call 1 (.storage "Get") 0 (.ifErr 0 (.resp "http.Error" (.ret .nil)) (.call 0 (.op [1]) 1 (.ret .nil)))) (.succ "ok" (.ret .nil)) }]
    P.all (fnOK P { benign := [], tol := [] })) = true := by decide

/-! ### fault schedules: non-vacuity -/

/-- the same call failing twice in a row (schedule `firstN 2`): the two-attempt retry ends with the error of the LAST attempt -/
example : (execFn retryDemo { benign := [], tol := [] } "f" [.fail .plain, .fail (.named "ErrRetry")]).map
      (fun r => (callOutcomes r.1, r.2, noSucc r.1, allFailAt 0 0 r.1)) =
    some ([some .plain, some (.named "ErrRetry")], .hard (.named "ErrRetry"), true, true) := by decide

example : Follows (Sched.firstN 2 .plain) [.sfail 0 0 .plain, .sfail 0 0 .plain] := by
  intro j o h
  match j with
  | 0 => simp [callOutcomes] at h; simp [Sched.firstN, ← h]
  | 1 => simp [callOutcomes] at h; simp [Sched.firstN, ← h]
  | j + 2 => simp [callOutcomes] at h

/-- the shape of seeded C10-M: three attempts, a NAMED kind makes `errors.Is(err, ErrDuplicateUserCode)` true on every attempt,
    after the last one the (shadowed, nil) outer error is returned and the caller builds the answer: the execution under the
    schedule "all three attempts fail with ErrDuplicateUserCode" reaches a success step - and the analysis reports the drop -/
def c10mShape : List Fn :=
  [{ name := "store", file := "", kind := .err, handler := false, nvars := 2, sites := ["Storage.StoreDeviceAuthorization"],
     sk := .attempt 1 3 (.call 0 (.storage "StoreDeviceAuthorization") 1 (.ifIs 1 "ErrDuplicateUserCode"
            (.attempt 2 3 (.call 0 (.storage "StoreDeviceAuthorization") 1 (.ifIs 1 "ErrDuplicateUserCode"
              (.attempt 3 3 (.call 0 (.storage "StoreDeviceAuthorization") 1 (.ifIs 1 "ErrDuplicateUserCode"
                (.ret (.var 0 [] "")) (.ret (.var 1 [] "")))))
              (.ret (.var 1 [] "")))))
            (.ret (.var 1 [] "")))) },
   { name := "create", file := "", kind := .err, handler := false, nvars := 1, sites := ["store"],
     sk := .call 0 (.op [0]) 0 (.ifErr 0 (.ret (.var 0 [] "NewStatusError")) (.succ "build" (.ret .nil))) }]

example : (execFn c10mShape { benign := [], tol := [] } "create"
      [.pick "store", .fail (.named "ErrDuplicateUserCode"), .fail (.named "ErrDuplicateUserCode"), .fail (.named "ErrDuplicateUserCode")]).map
      (fun r => (callOutcomes r.1, r.1.any Ev.isSucc, r.2)) =
    some ([some (.named "ErrDuplicateUserCode"), some (.named "ErrDuplicateUserCode"), some (.named "ErrDuplicateUserCode")], true, .nil) := by decide

example : (c10mShape.map fun F => dropSet (fnDrops c10mShape { benign := [], tol := [] } F)) = [[(0, .retNotErr)], []] := by decide

/-- a named kind is deterministic on its own sentinel, open on any other, and never matches an audited benign one -/
example : isMatch ["ErrNoClientCredentials"] "ErrDuplicateUserCode" (.hard (.named "ErrDuplicateUserCode")) = some true := by decide
example : isMatch ["ErrNoClientCredentials"] "ErrNoClientCredentials" (.hard (.named "ErrDuplicateUserCode")) = some false := by decide
example : isMatch [] "context.Canceled" (.hard .canceled) = some true := by decide
example : isMatch [] "context.DeadlineExceeded" (.hard .canceled) = some false := by decide

end C10
