/-
  C10 proofs.  (1) From the REGENERATED fact list `Gen.storageCalls` (every call pkg/op makes into the
  storage, with whether its error is examined before the handler goes on): all of them are checked.
  (2) The abstract consequence: a handler that is a sequence of storage calls whose errors are each
  propagated answers with an error whenever ANY one of them fails, whatever the index, the error and
  the state - and produces its payload only if all succeeded (induction over the call list).
-/
import OidcModel.Spec.C10
import OidcModel.Generated.StorageCalls

namespace C10

/-- every storage call site of pkg/op examines the returned error (decided on the regenerated list) -/
theorem c10_all_call_sites_checked : Gen.storageCalls.all (·.checked) = true := by decide

/-- the list is not vacuous: the call sites of the token, code and session flows are in it -/
example : (Gen.storageCalls.any fun c => c.method == "DeleteAuthRequest" && c.func == "CreateTokenResponse") = true := by decide
example : (Gen.storageCalls.any fun c => c.method == "CreateAccessAndRefreshTokens") = true := by decide
example : (Gen.storageCalls.any fun c => c.method == "TerminateSession") = true := by decide
example : decide (Gen.storageCalls.length ≥ 40) = true := by decide

/-- a handler as a sequence of storage calls over some state; each call may fail -/
abbrev Call (σ : Type) := σ → Except String σ

/-- run the calls in order, stopping at the first error (what "every error is examined" means) -/
def runCalls {σ : Type} : List (Call σ) → σ → Except String σ
  | [], s => .ok s
  | c :: cs, s => match c s with
    | .error e => .error e
    | .ok s' => runCalls cs s'

/-- make the k-th call fail with error `e` -/
def inject {σ : Type} (calls : List (Call σ)) (k : Nat) (e : String) : List (Call σ) :=
  calls.mapIdx fun i c => if i == k then (fun _ => .error e) else c

theorem runCalls_error_of_fails {σ : Type} (calls : List (Call σ)) (s : σ)
    (h : ∃ i, i < calls.length ∧ ∀ s', ∃ e, calls[i]! s' = .error e) : ∃ e, runCalls calls s = .error e := by
  induction calls generalizing s with
  | nil => obtain ⟨i, hi, _⟩ := h; simp at hi
  | cons c cs ih =>
    obtain ⟨i, hi, hf⟩ := h
    simp only [runCalls]
    cases hc : c s with
    | error e => exact ⟨e, rfl⟩
    | ok s' =>
      simp only []
      cases i with
      | zero =>
        obtain ⟨e, he⟩ := hf s
        simp at he
        rw [he] at hc; cases hc
      | succ j =>
        apply ih
        refine ⟨j, by simpa using hi, ?_⟩
        intro s''
        obtain ⟨e, he⟩ := hf s''
        exact ⟨e, by simpa using he⟩

/-- C10 (abstract): whichever index k of whichever call sequence fails, with whatever error, from
    whatever state: the handler's result is an error - it never reaches the point where it builds
    a success response -/
theorem c10_fail_closed {σ : Type} (calls : List (Call σ)) (k : Nat) (hk : k < calls.length) (e : String) (s : σ) :
    ∃ e', runCalls (inject calls k e) s = .error e' := by
  apply runCalls_error_of_fails
  refine ⟨k, by simpa [inject] using hk, ?_⟩
  intro s'
  refine ⟨e, ?_⟩
  have hlen : k < (inject calls k e).length := by simpa [inject] using hk
  simp [inject, List.getElem!_eq_getElem?_getD, List.getElem?_mapIdx, hk]

/-- and without a fault the payload is produced only if every call succeeded -/
theorem c10_success_needs_all {σ : Type} (calls : List (Call σ)) (s r : σ) (h : runCalls calls s = .ok r) :
    ∀ i, i < calls.length → ¬ (∀ s', ∃ e, calls[i]! s' = .error e) := by
  intro i hi hf
  obtain ⟨e, he⟩ := runCalls_error_of_fails calls s ⟨i, hi, hf⟩
  rw [he] at h; cases h

end C10
