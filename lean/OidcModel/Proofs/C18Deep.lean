/-
  C18, composed with the byte-level library of C11 and the key-selection theorems of C02; unusual registrations.

  * `c18_state_roundtrip_bytes` — "a supplied state is appended to the final redirect unchanged", on BYTES, for the
    byte-level translation of the Go function the logout code calls (`GenWire.mergeQueryParams`, regenerated from
    pkg/op/auth_request.go `mergeQueryParams`; Generated/AuthResponse.lean): for EVERY parsed target (existing query,
    `;` separators and malformed escapes in it, a fragment, a bare `?`) and EVERY state (any byte string), decoding
    the query of the Location yields under `state` the target's own `state` values followed by exactly the state that
    was sent, under every other name exactly the target's own values, the settings no decoder reads are still there,
    the target's query text is a prefix byte for byte, the part in front of the query and the fragment are untouched.
    (Finding F-C18a — the target's own query used to be decoded and re-encoded, dropping `a=1;b=2` — is fixed; this
    theorem keeps the demand.)
  * `c18_state_shapes`          — the same, evaluated on the registered-URI shapes the stream sends.
  * `c18_bad_signature_rejected`, `c18_foreign_issuer_rejected` — for every key set of every shape (published with
    duplicate / empty / colliding key ids, a per-client registry, a nil set), every allow-list, every instant, both
    routers: a hint that is not validly signed in C02's sense under the key set configured for hints, or names another
    issuer than the one addressed, is answered with an error and nothing is terminated.
  * `c18_accepted_hint_key`     — (C02 key-id consistency composed) whenever a request with a hint is redirected, the
    hint carries exactly one signature by a key of the hint key set that key selection was ENTITLED to pick
    (`C02.KeyConsistent`): a duplicate key id or an ambiguous kid-less match is never resolved by guessing.
  * `c18_expired_as_fresh`      — an expired-but-otherwise-valid hint gets the answer the same hint gets while fresh:
    for every instant, both routers, every storage behaviour.
  * registrations: `c18_exact_is_literal` (an EXACT registration is compared as a string, never as a pattern — whatever
    metacharacters it contains, whatever the matcher would say), `c18_empty_registration`, `c18_case_sensitive`,
    `c18_duplicates_irrelevant`.
-/
import OidcModel.Proofs.C18History
import OidcModel.Proofs.C11Url
namespace C18
open Go Gen Hand

/-! ### the state, byte for byte (composed with Proofs/C11Url.lean) -/
section bytes
open C11 UA

/-- `url.Values{"state": {st}}` -/
def stateValues (st : AR.Bytes) : AR.Values := ⟨[(ascii "state", [st])]⟩

theorem stateValues_distinct (st : AR.Bytes) : DistinctKeys (stateValues st).entries := by
  simp [DistinctKeys, stateValues]

theorem stateValues_get (st : AR.Bytes) (k : AR.Bytes) :
    (stateValues st).get k = if k = ascii "state" then [st] else [] := by
  unfold AR.Values.get stateValues
  by_cases h : k = ascii "state"
  · subst h; simp
  · have : (ascii "state" == k) = false := by simpa using fun e => h e.symm
    simp [this, h]

/-- **the supplied state is appended unchanged — all targets, all states, on bytes.** -/
theorem c18_state_roundtrip_bytes (now : Int) (u : AR.URL) (st : AR.Bytes) (hb : BaseOK u) (hq : ∀ b ∈ u.RawQuery, b ≠ 0x23) :
    let loc := GenWire.mergeQueryParams now u (stateValues st)
    valuesOf (ascii "state") (parseQuery (locationQuery loc)) = valuesOf (ascii "state") (parseQuery u.RawQuery) ++ [st] ∧
    (∀ k, k ≠ ascii "state" → valuesOf k (parseQuery (locationQuery loc)) = valuesOf k (parseQuery u.RawQuery)) ∧
    unread (locationQuery loc) = unread u.RawQuery ∧
    (∃ rest, locationQuery loc = u.RawQuery ++ rest) ∧
    locationBase loc = u.base := by
  intro loc
  refine ⟨?_, ?_, c11_query_unread_kept now u _ hb hq, c11_query_text_kept now u _ hb hq, c11_query_base now u _ hb hq⟩
  · have := c11_query_roundtrip now u (stateValues st) hb hq (stateValues_distinct st) (ascii "state")
    rw [stateValues_get] at this
    simpa using this
  · intro k hk
    have := c11_query_roundtrip now u (stateValues st) hb hq (stateValues_distinct st) k
    rw [stateValues_get] at this
    simpa [hk] using this

/-- the LAST `state` value a user agent (or the RP behind it) decodes is the one that was sent — also when the
    registered URI carries a `state` parameter of its own -/
theorem c18_state_last (now : Int) (u : AR.URL) (st : AR.Bytes) (hb : BaseOK u) (hq : ∀ b ∈ u.RawQuery, b ≠ 0x23) :
    (valuesOf (ascii "state") (parseQuery (locationQuery (GenWire.mergeQueryParams now u (stateValues st))))).getLast? = some st := by
  rw [(c18_state_roundtrip_bytes now u st hb hq).1]
  simp

/-- registered-URI shapes: plain, own query, own `state`, `;` separator, malformed escape, bare `?`, fragment, query + fragment -/
def shapeTargets : List AR.URL :=
  [ { base := ascii "https://rp.example/out" },
    { base := ascii "https://rp.example/out", RawQuery := ascii "tenant=a&x=1" },
    { base := ascii "https://rp.example/out", RawQuery := ascii "state=own" },
    { base := ascii "https://rp.example/lo", RawQuery := ascii "a=1;b=2" },
    { base := ascii "https://rp.example/lo", RawQuery := ascii "q=%zz&ok=1" },
    { base := ascii "https://rp.example/out", ForceQuery := true },
    { base := ascii "https://rp.example/out", Fragment := ascii "frag", RawFragment := ascii "frag" },
    { base := ascii "myapp://logout", RawQuery := ascii "k=v", Fragment := ascii "f", RawFragment := ascii "f" } ]

/-- a state with every byte class that matters: `& = ; # ? % +`, space, a non-ASCII byte -/
def shapeState : AR.Bytes := ascii "a&b=c;d#e?f%g+h i" ++ [0xC3, 0xA9]

/-- on every shape the sent state comes back as the last `state` value and the target's own settings are kept -/
theorem c18_state_shapes :
    shapeTargets.all (fun u =>
      let loc := GenWire.mergeQueryParams 0 u (stateValues shapeState)
      (valuesOf (ascii "state") (parseQuery (locationQuery loc))).getLast? == some shapeState &&
      unread (locationQuery loc) == unread u.RawQuery && locationBase loc == u.base) = true := by
  decide

end bytes

/-! ### hints under every key-set shape (composed with Proofs/C02.lean) -/

/-- both routers, every key set / allow-list / instant / storage: a hint that is NOT validly signed (C02) under the key
    set configured for hints is never followed by a redirect — the answer is an error, nothing is terminated -/
theorem c18_bad_signature_rejected (rt : Sess.Router) (cfg : Cfg) (opts : List Sess.KeyOpt) (hopts : HintOpts cfg opts)
    (termOK : String → String → Bool) (fromReq : Bool) (now : Int) (o : SessOracles) (r : EndSessionReq)
    (hh : r.IdTokenHint ≠ "")
    (hbad : ∀ c, claimsOf (o.tokenOf r.IdTokenHint) = some c →
      (C02.monitor cfg.algs cfg.hintKeySet (o.tokenOf r.IdTokenHint) (some c)).isSome = true) :
    ∃ st code, Sess.handle rt now o (.ok r) (providerOf now cfg opts termOK fromReq) = .error st code := by
  cases h : Sess.handle rt now o (.ok r) (providerOf now cfg opts termOK fromReq) with
  | error st code => exact ⟨st, code, rfl⟩
  | redirect loc =>
    exfalso
    obtain ⟨r', hr, hd, _⟩ := c18_hint_rules rt cfg opts hopts termOK fromReq h
    simp only [Except.ok.injEq] at hr; subst hr
    have hb : (r.IdTokenHint != "") = true := by simpa using hh
    simp only [reqOf, hb, if_true, Option.bind_some, hintDefect] at hd
    cases hc : claimsOf (o.tokenOf r.IdTokenHint) with
    | none => simp [hc] at hd
    | some c => simp [hc, hbad c hc] at hd

/-- … and so is a hint naming another issuer than the one the request is addressed to, however well it is signed -/
theorem c18_foreign_issuer_rejected (rt : Sess.Router) (cfg : Cfg) (opts : List Sess.KeyOpt) (hopts : HintOpts cfg opts)
    (termOK : String → String → Bool) (fromReq : Bool) (now : Int) (o : SessOracles) (r : EndSessionReq)
    (hh : r.IdTokenHint ≠ "")
    (hforeign : ∀ c, claimsOf (o.tokenOf r.IdTokenHint) = some c → c.iss ≠ cfg.issuer) :
    ∃ st code, Sess.handle rt now o (.ok r) (providerOf now cfg opts termOK fromReq) = .error st code := by
  cases h : Sess.handle rt now o (.ok r) (providerOf now cfg opts termOK fromReq) with
  | error st code => exact ⟨st, code, rfl⟩
  | redirect loc =>
    exfalso
    obtain ⟨r', hr, hd, _⟩ := c18_hint_rules rt cfg opts hopts termOK fromReq h
    simp only [Except.ok.injEq] at hr; subst hr
    have hb : (r.IdTokenHint != "") = true := by simpa using hh
    simp only [reqOf, hb, if_true, Option.bind_some, hintDefect] at hd
    cases hc : claimsOf (o.tokenOf r.IdTokenHint) with
    | none => simp [hc] at hd
    | some c =>
      have := hforeign c hc
      simp only [hc] at hd
      split at hd
      · simp at hd
      · simp [this] at hd

/-- key selection never guesses: behind every redirect of a request WITH a hint stands exactly one signature by a key
    of the key set configured for hints that selection was entitled to pick (C02's key-id consistency, for every
    key-set shape: duplicate key ids, kid-less keys, kid-less tokens, a per-client registry) -/
theorem c18_accepted_hint_key (rt : Sess.Router) (cfg : Cfg) (opts : List Sess.KeyOpt) (hopts : HintOpts cfg opts)
    (termOK : String → String → Bool) (fromReq : Bool) {now : Int} {o : SessOracles} {r : EndSessionReq} {loc : String}
    (hh : r.IdTokenHint ≠ "")
    (h : Sess.handle rt now o (.ok r) (providerOf now cfg opts termOK fromReq) = .redirect loc) :
    C02.KeyConsistent cfg.hintKeySet (o.tokenOf r.IdTokenHint) := by
  obtain ⟨r', s, hr, hv, _, _⟩ := handle_redirect h
  simp only [Except.ok.injEq] at hr; subst hr
  have hc := c18_provider_configured now cfg opts hopts termOK fromReq
  rw [validate_eq_ref] at hv
  unfold refValidate at hv
  cases hI : refIdentify now o r (providerOf now cfg opts termOK fromReq) with
  | error e => simp [hI] at hv
  | ok x =>
    unfold refIdentify at hI
    have hb : (r.IdTokenHint != "") = true := by simpa using hh
    simp only [hb, if_true, Hand.viaToken] at hI
    cases hver : VerifyIDTokenHint now (o.tokenOf r.IdTokenHint) (providerOf now cfg opts termOK fromReq).hintVerifier with
    | error e => simp [hver] at hI
    | ok out =>
      have := C02.c02_kid_consistent_idTokenHint hver
      rw [hc.keys] at this
      exact this

/-- "an expired but otherwise valid hint is still accepted": at EVERY instant a request gets the answer it gets at any
    other instant — so the expired hint gets exactly the answer it got while it was fresh; both routers, every storage -/
theorem c18_expired_as_fresh (rt : Sess.Router) (now now' : Int) (o : SessOracles) (rq : Go.R EndSessionReq) (e : SessionEnder) :
    Sess.handle rt now o rq e = Sess.handle rt now' o rq e := by
  rw [handle_eq, handle_eq]
  cases rq with
  | error x => rfl
  | ok r => simp only [c18_time_independent now now']

/-! ### unusual registrations -/

/-- an EXACT registration is a string, never a pattern: whatever metacharacters (`* ? [ ] \`) it contains and whatever
    `path.Match` would answer for it, a URI is accepted through the exact list only if it IS a member of it; a client
    that did not opt in to globs gets nothing but the exact list (seeded change C18-C breaks this) -/
theorem c18_exact_is_literal (now : Int) (o : SessOracles) (uri : String) (c : OPClient) (hno : optedIn c = false) :
    ValidateEndSessionPostLogoutRedirectURI now o uri c = .ok () ↔ uri ∈ c.postLogoutURIs := by
  rw [validateURI_char]
  unfold refURI
  have hopt : c.is_HasRedirectGlobs = false := by simpa [optedIn, OPClient.is_HasRedirectGlobs] using hno
  by_cases hex : c.postLogoutURIs.contains uri = true
  · simp only [if_true, true_iff, hex]; simpa using hex
  · have : ¬ uri ∈ c.postLogoutURIs := by simpa using hex
    simp [hex, hopt, this]

/-- … and for a client that DID opt in, the exact list is still literal: the matcher is consulted for the client's
    post-logout GLOBS only, never for an exact entry -/
theorem c18_exact_not_pattern (now : Int) (o : SessOracles) (uri : String) (c : OPClient)
    (hnoglob : ∀ g ∈ plGlobs c, globMatches o.pathMatch g uri = false) :
    ValidateEndSessionPostLogoutRedirectURI now o uri c = .ok () → uri ∈ c.postLogoutURIs := by
  intro h
  have hreg := uri_sound h
  simp only [registered, Bool.or_eq_true, Bool.and_eq_true, List.any_eq_true] at hreg
  rcases hreg with hreg | ⟨_, g, hg, hm⟩
  · simpa using hreg
  · rw [hnoglob g hg] at hm; simp at hm

/-- an empty registration (no exact URI, no glob list content): every requested URI is refused -/
theorem c18_empty_registration (now : Int) (o : SessOracles) (uri : String) (c : OPClient)
    (h1 : c.postLogoutURIs = []) (h2 : plGlobs c = []) :
    ValidateEndSessionPostLogoutRedirectURI now o uri c ≠ .ok () := by
  intro h
  have hreg := uri_sound h
  simp [registered, h1, h2] at hreg

/-- comparison is case sensitive and exact: a URI that differs from every registered one (in case, a trailing slash,
    anything) is refused for a client without globs -/
theorem c18_case_sensitive (now : Int) (o : SessOracles) (uri : String) (c : OPClient) (hno : optedIn c = false)
    (hdiff : ∀ reg ∈ c.postLogoutURIs, reg ≠ uri) : ValidateEndSessionPostLogoutRedirectURI now o uri c ≠ .ok () := by
  intro h
  have := (c18_exact_is_literal now o uri c hno).mp h
  exact hdiff uri this rfl

/-- duplicate entries and the order of the exact list do not matter -/
theorem c18_duplicates_irrelevant (now : Int) (o : SessOracles) (uri : String) (c : OPClient) (l : List String)
    (hsame : ∀ x, x ∈ l ↔ x ∈ c.postLogoutURIs) :
    ValidateEndSessionPostLogoutRedirectURI now o uri { c with postLogoutURIs := l } = ValidateEndSessionPostLogoutRedirectURI now o uri c := by
  rw [validateURI_char, validateURI_char]
  unfold refURI
  have : l.contains uri = c.postLogoutURIs.contains uri := by
    rw [Bool.eq_iff_iff]; simp [hsame uri]
  simp only [this]
  rfl

/-! non-vacuity -/
section examples
def mClient : OPClient := { id := "m", postLogoutURIs := ["https://rp.example/logout?tenant=a", "https://rp.example/[ab]/*", "https://RP.example/Out", "https://rp.example/logout?tenant=a"] }
/-- a matcher that reads `?`, `[ab]`, `*` as `path.Match` does (for the three strings of the example) -/
def mOrc : SessOracles :=
  { pathMatch := fun g u => .ok ((g == "https://rp.example/logout?tenant=a" && u == "https://rp.example/logoutXtenant=a") ||
      (g == "https://rp.example/[ab]/*" && u == "https://rp.example/a/x") || g == u),
    urlParse := fun s => .ok { base := s }, tokenOf := fun _ => default }
example : ValidateEndSessionPostLogoutRedirectURI 0 mOrc "https://rp.example/logout?tenant=a" mClient = .ok () := by rfl
example : ValidateEndSessionPostLogoutRedirectURI 0 mOrc "https://rp.example/logoutXtenant=a" mClient = .error "ErrInvalidRequest" := by rfl
example : ValidateEndSessionPostLogoutRedirectURI 0 mOrc "https://rp.example/a/x" mClient = .error "ErrInvalidRequest" := by rfl
example : ValidateEndSessionPostLogoutRedirectURI 0 mOrc "https://rp.example/[ab]/*" mClient = .ok () := by rfl
example : ValidateEndSessionPostLogoutRedirectURI 0 mOrc "https://rp.example/out" mClient = .error "ErrInvalidRequest" := by rfl
example : ValidateEndSessionPostLogoutRedirectURI 0 mOrc "https://RP.example/Out" mClient = .ok () := by rfl
example : ValidateEndSessionPostLogoutRedirectURI 0 mOrc "https://rp.example/x" { id := "e" } = .error "ErrInvalidRequest" := by rfl
end examples

end C18
