/-
  C02 (round 4): `op.NewProvider` wires into the provider, for EVERY option list, exactly the key set and the verifier option
  list the caller configured for each of the two derived verifiers (default: the storage's keys / the library's list), and the
  token readers of the endpoints believe a JWT only under the monitor's conditions for THAT configuration.

  Layer 1 (the only places where the regenerated `GenC02P.NewProvider` is unfolded): `newProvider_char`.
  Layer 2 uses `newProvider_char`, the option lemmas of Proofs/C02Verifiers.lean and the reader theorems.
-/
import OidcModel.Proofs.C02Verifiers
import OidcModel.Generated.ProviderC02
import OidcModel.Spec.C02Config
namespace C02
open Go Gen Hand

/-! ## the option loop -/

/-- the options of a list applied in order, stopping at the first error (Go: `for _, optFunc := range opOpts { if err := optFunc(o); err != nil { return nil, err } }`) -/
def applyOptions (opts : List C02Option) (p : C02Provider) : Go.R C02Provider :=
  match opts with
  | [] => .ok p
  | o :: os => match o p with
    | .error e => .error e
    | .ok p' => applyOptions os p'

/-- whatever the text of the loop body looks like: if it does, per option, what `applyOptions` does, the loop is `applyOptions` -/
theorem loopCtl_options (opts : List C02Option) (p : C02Provider)
    (f : C02Provider → C02Option → GoX.Ctl C02Provider (Go.R C02Provider))
    (hf : ∀ o opt, f o opt = match opt o with | .error e => GoX.Ctl.ret (.error e) | .ok o' => GoX.Ctl.next o') :
    GoX.loopCtl opts p f = match applyOptions opts p with | .error e => .inl (.error e) | .ok p' => .inr p' := by
  induction opts generalizing p with
  | nil => rfl
  | cons o os ih =>
    simp only [GoX.loopCtl, applyOptions, hf]
    cases o p with
    | error e => rfl
    | ok p' => exact ih p'

/-- what `NewProvider` does after the options ran, in the fields of the model type: the issuer function is taken from the
    `issuer` argument (an error of it fails the construction) and the crypto from the config; the four wired fields stay -/
def finishProvider (config : C02PConfig) (issuer : Bool → Go.R C02PIssuer) (o : C02Provider) : Go.R C02Provider :=
  match issuer o.insecure with
  | .error e => .error e
  | .ok i => .ok { o with issuer := i, crypto := Hand.c02pNewAESCrypto config.CryptoKey }

/-- the provider the options are applied to: both key sets are the storage's, both option lists empty -/
def initialProvider (storage : C02KeyStorage) : C02Provider :=
  { storage := storage, accessTokenKeySet := Hand.c02pOpenIDKeySet storage, idTokenHinKeySet := Hand.c02pOpenIDKeySet storage }

/-- CHARACTERISATION of the regenerated constructor (shape-independent script): the initial provider, the options in order, the finish -/
theorem newProvider_char (now : Int) (config : C02PConfig) (storage : C02KeyStorage) (issuer : Bool → Go.R C02PIssuer)
    (opts : List C02Option) :
    GenC02P.NewProvider now config storage issuer opts =
      match applyOptions opts (initialProvider storage) with
      | .error e => .error e
      | .ok o => finishProvider config issuer o := by
  unfold GenC02P.NewProvider
  simp only []
  rw [loopCtl_options _ _ _ (by intro o opt; go_leaf)]
  unfold finishProvider initialProvider
  go_leaf

/-! ## what the caller passed -/

/-- an option that leaves the four fields the derived verifiers are built from alone -/
structure FrameOpt where
  f : C02Option
  frame : ∀ p p', f p = .ok p' → p'.accessTokenKeySet = p.accessTokenKeySet ∧ p'.idTokenHinKeySet = p.idTokenHinKeySet ∧
    p'.accessTokenVerifierOpts = p.accessTokenVerifierOpts ∧ p'.idTokenHintVerifierOpts = p.idTokenHintVerifierOpts

/-- an element of the option list of a construction call: one of the four regenerated options that concern the verifiers
    (with ANY key set / ANY verifier option list), or any other option (which may fail) -/
inductive POpt
  | atKeySet (ks : KeySet)
  | hintKeySet (ks : KeySet)
  | atOpts (l : List C02VerifierOpt)
  | hintOpts (l : List C02VerifierOpt)
  | other (o : FrameOpt)

/-- the Go value of such an element: the REGENERATED option functions -/
def POpt.denote (now : Int) : POpt → C02Option
  | .atKeySet ks => GenC02.WithAccessTokenKeySet now ks
  | .hintKeySet ks => GenC02.WithIDTokenHintKeySet now ks
  | .atOpts l => GenC02.WithAccessTokenVerifierOpts now l
  | .hintOpts l => GenC02.WithIDTokenHintVerifierOpts now l
  | .other o => o.f

/-- the four settings a construction call asks for (last option wins, default: what `d` says) -/
def wantATKeySet (d : KeySet) (l : List POpt) : KeySet := l.foldl (fun acc o => match o with | .atKeySet ks => ks | _ => acc) d
def wantHintKeySet (d : KeySet) (l : List POpt) : KeySet := l.foldl (fun acc o => match o with | .hintKeySet ks => ks | _ => acc) d
def wantATOpts (d : List C02VerifierOpt) (l : List POpt) : List C02VerifierOpt := l.foldl (fun acc o => match o with | .atOpts x => x | _ => acc) d
def wantHintOpts (d : List C02VerifierOpt) (l : List POpt) : List C02VerifierOpt := l.foldl (fun acc o => match o with | .hintOpts x => x | _ => acc) d

/-- induction over the option list: from ANY provider, the options leave the four fields as the call asks for -/
theorem applyOptions_wires (now : Int) (l : List POpt) (p q : C02Provider)
    (h : applyOptions (l.map (POpt.denote now)) p = .ok q) :
    q.accessTokenKeySet = wantATKeySet p.accessTokenKeySet l ∧ q.idTokenHinKeySet = wantHintKeySet p.idTokenHinKeySet l ∧
    q.accessTokenVerifierOpts = wantATOpts p.accessTokenVerifierOpts l ∧ q.idTokenHintVerifierOpts = wantHintOpts p.idTokenHintVerifierOpts l := by
  induction l generalizing p with
  | nil =>
    simp only [List.map_nil, applyOptions, Except.ok.injEq] at h
    subst h
    exact ⟨rfl, rfl, rfl, rfl⟩
  | cons o os ih =>
    simp only [List.map_cons, applyOptions] at h
    cases o with
    | atKeySet ks =>
      simp only [POpt.denote, withAccessTokenKeySet_spec] at h
      simpa [wantATKeySet, wantHintKeySet, wantATOpts, wantHintOpts] using ih _ h
    | hintKeySet ks =>
      simp only [POpt.denote, withIDTokenHintKeySet_spec] at h
      simpa [wantATKeySet, wantHintKeySet, wantATOpts, wantHintOpts] using ih _ h
    | atOpts x =>
      simp only [POpt.denote, withAccessTokenVerifierOpts_spec] at h
      simpa [wantATKeySet, wantHintKeySet, wantATOpts, wantHintOpts] using ih _ h
    | hintOpts x =>
      simp only [POpt.denote, withIDTokenHintVerifierOpts_spec] at h
      simpa [wantATKeySet, wantHintKeySet, wantATOpts, wantHintOpts] using ih _ h
    | other fo =>
      simp only [POpt.denote] at h
      cases hf : fo.f p with
      | error e => simp [hf] at h
      | ok p' =>
        simp only [hf] at h
        have fr := fo.frame p p' hf
        have := ih p' h
        simpa [wantATKeySet, wantHintKeySet, wantATOpts, wantHintOpts, fr.1, fr.2.1, fr.2.2.1, fr.2.2.2] using this

/-- **wiring theorem**: for EVERY option list, a provider `NewProvider` hands out carries, for each derived verifier, the key set
    and the option list the caller configured for THAT verifier; default = the storage's keys, no verifier option -/
theorem c02_provider_wiring (now : Int) (config : C02PConfig) (storage : C02KeyStorage) (issuer : Bool → Go.R C02PIssuer)
    (l : List POpt) (p : C02Provider)
    (h : GenC02P.NewProvider now config storage issuer (l.map (POpt.denote now)) = .ok p) :
    p.accessTokenKeySet = wantATKeySet (Hand.c02pOpenIDKeySet storage) l ∧
    p.idTokenHinKeySet = wantHintKeySet (Hand.c02pOpenIDKeySet storage) l ∧
    p.accessTokenVerifierOpts = wantATOpts [] l ∧ p.idTokenHintVerifierOpts = wantHintOpts [] l := by
  rw [newProvider_char] at h
  cases ha : applyOptions (l.map (POpt.denote now)) (initialProvider storage) with
  | error e => simp [ha] at h
  | ok o =>
    simp only [ha, finishProvider] at h
    have w := applyOptions_wires now l _ o ha
    cases hi : issuer o.insecure with
    | error e => simp [hi] at h
    | ok i =>
      simp only [hi, Except.ok.injEq] at h
      subst h
      exact w

/-- the default configuration: no option concerns the verifiers → both verify with the storage's keys (one and the same set) -/
theorem c02_provider_default (now : Int) (config : C02PConfig) (storage : C02KeyStorage) (issuer : Bool → Go.R C02PIssuer) (p : C02Provider)
    (h : GenC02P.NewProvider now config storage issuer [] = .ok p) :
    p.accessTokenKeySet = Hand.c02pOpenIDKeySet storage ∧ p.idTokenHinKeySet = Hand.c02pOpenIDKeySet storage :=
  let w := c02_provider_wiring now config storage issuer [] p h
  ⟨w.1, w.2.1⟩

/-- `&OpenIDKeySet{storage}` as a model key set answers as the regenerated `OpenIDKeySet.VerifySignature` on that storage does -/
theorem c02pOpenIDKeySet_bridge (now : Int) (storage : C02KeyStorage) (j : JWS) :
    (GenC02.OpenIDKeySetVerifySignature now storage j).toOption = (KeySet.VerifySignature (Hand.c02pOpenIDKeySet storage) j).toOption := by
  rcases storage with ⟨ks⟩
  cases ks with
  | ok keys => exact openIDKeySet_bridge now keys j
  | error e =>
    rw [openIDKeySet_storage_error]
    cases hv : KeySet.VerifySignature (Hand.c02pOpenIDKeySet { keySet := .error e }) j with
    | error _ => rfl
    | ok pl =>
      obtain ⟨s, k, _, _, hj, _⟩ := verifySignature_sound hv
      simp [justifies, Hand.c02pOpenIDKeySet, selectedOK, publishedOK] at hj

/-! ## the statement's vocabulary (Spec/C02Config.lean) -/

/-- a construction call in the statement's vocabulary, as Go values -/
def CfgOpt.toP (now : Int) (frameOther : FrameOpt) : CfgOpt → POpt
  | .atKeySet ks => .atKeySet ks
  | .hintKeySet ks => .hintKeySet ks
  | .atAlgs ls => .atOpts (ls.map (GenC02.WithSupportedAccessTokenSigningAlgorithms now))
  | .hintAlgs ls => .hintOpts (ls.map (GenC02.WithSupportedIDTokenHintSigningAlgorithms now))
  | .other => .other frameOther

theorem applyOpts_at_algs (now : Int) (ls : List (List String)) (v : Verifier) :
    applyOpts (ls.map (GenC02.WithSupportedAccessTokenSigningAlgorithms now)) v =
      { v with SupportedSignAlgs := ls.foldl (fun _ l => l) v.SupportedSignAlgs } := by
  induction ls generalizing v with
  | nil => rfl
  | cons a as ih =>
    simp only [List.map_cons, applyOpts, List.foldl_cons] at ih ⊢
    rw [withSupportedAccessTokenSigningAlgorithms_spec, ih]

theorem applyOpts_hint_algs (now : Int) (ls : List (List String)) (v : Verifier) :
    applyOpts (ls.map (GenC02.WithSupportedIDTokenHintSigningAlgorithms now)) v =
      { v with SupportedSignAlgs := ls.foldl (fun _ l => l) v.SupportedSignAlgs } := by
  induction ls generalizing v with
  | nil => rfl
  | cons a as ih =>
    simp only [List.map_cons, applyOpts, List.foldl_cons] at ih ⊢
    rw [withSupportedIDTokenHintSigningAlgorithms_spec, ih]

/-- the access-token verifier the statement describes for a construction call -/
def cfgVerifierAT (iss : String) (storageKeys : KeySet) (l : List CfgOpt) : Verifier :=
  { Issuer := iss, KeySet := cfgKeySetAT storageKeys l, SupportedSignAlgs := cfgAlgsAT l }
def cfgVerifierHint (iss : String) (storageKeys : KeySet) (l : List CfgOpt) : Verifier :=
  { Issuer := iss, KeySet := cfgKeySetHint storageKeys l, SupportedSignAlgs := cfgAlgsHint l }

theorem wantATKeySet_cfg (now : Int) (fo : FrameOpt) (l : List CfgOpt) (d : KeySet) :
    wantATKeySet d (l.map (CfgOpt.toP now fo)) = cfgKeySetAT d l := by
  induction l generalizing d with
  | nil => rfl
  | cons o os ih => cases o <;> simpa [wantATKeySet, cfgKeySetAT, CfgOpt.toP] using ih _

theorem wantHintKeySet_cfg (now : Int) (fo : FrameOpt) (l : List CfgOpt) (d : KeySet) :
    wantHintKeySet d (l.map (CfgOpt.toP now fo)) = cfgKeySetHint d l := by
  induction l generalizing d with
  | nil => rfl
  | cons o os ih => cases o <;> simpa [wantHintKeySet, cfgKeySetHint, CfgOpt.toP] using ih _

theorem wantATOpts_cfg (now : Int) (fo : FrameOpt) (l : List CfgOpt) (v0 : Verifier) (a : List C02VerifierOpt) (acc : List String)
    (ha : applyOpts a v0 = { v0 with SupportedSignAlgs := acc }) (h0 : v0.SupportedSignAlgs = []) :
    applyOpts (wantATOpts a (l.map (CfgOpt.toP now fo))) v0 =
      { v0 with SupportedSignAlgs := l.foldl (fun acc o => match o with | .atAlgs ls => cfgLast ls | _ => acc) acc } := by
  induction l generalizing a acc with
  | nil => simpa [wantATOpts] using ha
  | cons o os ih =>
    cases o with
    | atAlgs ls =>
      simp only [List.map_cons, CfgOpt.toP, wantATOpts, List.foldl_cons] at ih ⊢
      exact ih _ _ (by rw [applyOpts_at_algs, h0]; rfl)
    | _ => simpa [wantATOpts, CfgOpt.toP] using ih _ _ ha

theorem wantHintOpts_cfg (now : Int) (fo : FrameOpt) (l : List CfgOpt) (v0 : Verifier) (a : List C02VerifierOpt) (acc : List String)
    (ha : applyOpts a v0 = { v0 with SupportedSignAlgs := acc }) (h0 : v0.SupportedSignAlgs = []) :
    applyOpts (wantHintOpts a (l.map (CfgOpt.toP now fo))) v0 =
      { v0 with SupportedSignAlgs := l.foldl (fun acc o => match o with | .hintAlgs ls => cfgLast ls | _ => acc) acc } := by
  induction l generalizing a acc with
  | nil => simpa [wantHintOpts] using ha
  | cons o os ih =>
    cases o with
    | hintAlgs ls =>
      simp only [List.map_cons, CfgOpt.toP, wantHintOpts, List.foldl_cons] at ih ⊢
      exact ih _ _ (by rw [applyOpts_hint_algs, h0]; rfl)
    | _ => simpa [wantHintOpts, CfgOpt.toP] using ih _ _ ha

/-- **each verifier gets the configuration the caller asked for**: a provider constructed from a storage and ANY list of options
    (every subset, order and repetition of the four verifier-related options, with any other options in between) builds, per
    request, the access-token verifier with the key set / allowed list configured for the ACCESS-TOKEN verifier and the
    id_token_hint verifier with those configured for the ID_TOKEN_HINT verifier - in the statement's own reading of the call
    (Spec/C02Config.lean), default: the storage's keys and the library's list.  The revocation endpoint's derived verifier too. -/
theorem c02_configured_verifiers (now : Int) (config : C02PConfig) (storage : C02KeyStorage) (issuer : Bool → Go.R C02PIssuer)
    (fo : FrameOpt) (l : List CfgOpt) (p : C02Provider) (iss : String) (k : C02RevocationKeySet)
    (h : GenC02P.NewProvider now config storage issuer ((l.map (CfgOpt.toP now fo)).map (POpt.denote now)) = .ok p) :
    GenC02.ProviderAccessTokenVerifier now iss p = cfgVerifierAT iss (Hand.c02pOpenIDKeySet storage) l ∧
    GenC02.ProviderIDTokenHintVerifier now iss p = cfgVerifierHint iss (Hand.c02pOpenIDKeySet storage) l ∧
    (GenC02.revocationKeySetVerifier now k (GenC02.ProviderAccessTokenVerifier now iss p)).1 = cfgVerifierAT iss (Hand.c02pOpenIDKeySet storage) l := by
  have w := c02_provider_wiring now config storage issuer _ p h
  have e := c02_endpoint_verifiers now iss p k
  have hat : configuredAT iss p = cfgVerifierAT iss (Hand.c02pOpenIDKeySet storage) l := by
    unfold configuredAT cfgVerifierAT cfgAlgsAT
    rw [w.1, w.2.2.1, wantATKeySet_cfg, wantATOpts_cfg now fo l _ [] [] rfl rfl]; rfl
  have hhint : configuredHint iss p = cfgVerifierHint iss (Hand.c02pOpenIDKeySet storage) l := by
    unfold configuredHint cfgVerifierHint cfgAlgsHint
    rw [w.2.1, w.2.2.2, wantHintKeySet_cfg, wantHintOpts_cfg now fo l _ [] [] rfl rfl]; rfl
  exact ⟨e.1.trans hat, e.2.1.trans hhint, e.2.2.trans hat⟩

/-- userinfo / introspection on a provider built by `NewProvider`: a JWT is believed only under the monitor's conditions for the
    allowed list and key set CONFIGURED FOR THE ACCESS-TOKEN VERIFIER in the construction call -/
theorem c02_cfg_reader_userinfo (now : Int) (config : C02PConfig) (storage : C02KeyStorage) (issuer : Bool → Go.R C02PIssuer)
    (fo : FrameOpt) (l : List CfgOpt) (p : C02Provider) (iss s e id sub : String)
    (h : GenC02P.NewProvider now config storage issuer ((l.map (CfgOpt.toP now fo)).map (POpt.denote now)) = .ok p)
    (hd : p.crypto.Decrypt s = .error e) (hb : GenC02.getTokenIDAndSubject now iss p s = (id, sub, true)) :
    ∃ c, monitor (cfgAlgsAT l) (cfgKeySetAT (Hand.c02pOpenIDKeySet storage) l) (p.tokenOf s) (some c) = none ∧ c.sub = sub := by
  obtain ⟨c, hm, hs, _⟩ := c02_reader_userinfo now iss p s e id sub hd hb
  have hv := (c02_configured_verifiers now config storage issuer fo l p iss default h).1
  rw [providerAccessTokenVerifier_configured] at hv
  rw [hv] at hm
  exact ⟨c, hm, hs⟩

/-- revocation -/
theorem c02_cfg_reader_revocation (now : Int) (config : C02PConfig) (storage : C02KeyStorage) (issuer : Bool → Go.R C02PIssuer)
    (fo : FrameOpt) (l : List CfgOpt) (p : C02Provider) (iss s e id sub : String)
    (h : GenC02P.NewProvider now config storage issuer ((l.map (CfgOpt.toP now fo)).map (POpt.denote now)) = .ok p)
    (hd : p.crypto.Decrypt s = .error e) (hb : GenC02.getTokenIDAndSubjectForRevocation now iss p s = .ok (id, sub, true)) :
    ∃ c, monitor (cfgAlgsAT l) (cfgKeySetAT (Hand.c02pOpenIDKeySet storage) l) (p.tokenOf s) (some c) = none ∧ c.sub = sub := by
  obtain ⟨c, hm, hs, _⟩ := c02_reader_revocation now iss p s e id sub hd hb
  have hv := (c02_configured_verifiers now config storage issuer fo l p iss default h).1
  rw [providerAccessTokenVerifier_configured] at hv
  rw [hv] at hm
  exact ⟨c, hm, hs⟩

/-- id_token_hint (authorize, end_session, token exchange with an id_token): whatever `VerifyIDTokenHint` accepts with the verifier
    such a provider derives satisfies the monitor for the key set / list CONFIGURED FOR THE ID_TOKEN_HINT VERIFIER - a key that is
    only in the access-token key set does not count -/
theorem c02_cfg_idTokenHint (now : Int) (config : C02PConfig) (storage : C02KeyStorage) (issuer : Bool → Go.R C02PIssuer)
    (fo : FrameOpt) (l : List CfgOpt) (p : C02Provider) (iss : String) (t : Token) (out : HintOut)
    (h : GenC02P.NewProvider now config storage issuer ((l.map (CfgOpt.toP now fo)).map (POpt.denote now)) = .ok p)
    (hv : Gen.VerifyIDTokenHint now t (GenC02.ProviderIDTokenHintVerifier now iss p) = .ok out) :
    monitor (cfgAlgsHint l) (cfgKeySetHint (Hand.c02pOpenIDKeySet storage) l) t (some out.claims) = none := by
  rw [(c02_configured_verifiers now config storage issuer fo l p iss default h).2.1] at hv
  have := c02_idTokenHint now t (cfgVerifierHint iss (Hand.c02pOpenIDKeySet storage) l)
  rw [hv] at this
  simpa [cfgVerifierHint, Except.toOption] using this

end C02

/-! ## non-vacuity: the configuration "only the access-token key set is passed" -/
namespace C02
def exStoreKey : JWK := { KeyID := "sig1", Use := "sig", kty := .rsa, keyNo := 0 }
def exATKey : JWK := { KeyID := "at1", Use := "sig", kty := .rsa, keyNo := 9 }
def exATSet : KeySet := { kind := .published, keys := [exATKey] }
def exStorage : C02KeyStorage := { keySet := .ok [exStoreKey] }
def exNewProvider (opts : List C02Option) : Option C02Provider :=
  (GenC02P.NewProvider 0 {} exStorage (fun _ => .ok id) opts).toOption

example : (exNewProvider [GenC02.WithAccessTokenKeySet 0 exATSet]).map (·.accessTokenKeySet) = some exATSet := by decide
example : (exNewProvider [GenC02.WithAccessTokenKeySet 0 exATSet]).map (·.idTokenHinKeySet) = some { kind := .published, keys := [exStoreKey] } := by decide
example : (exNewProvider [GenC02.WithIDTokenHintKeySet 0 exATSet, GenC02.WithAccessTokenKeySet 0 exATSet,
    GenC02.WithIDTokenHintKeySet 0 { kind := .published, keys := [] }]).map (·.idTokenHinKeySet) = some { kind := .published, keys := [] } := by decide
example : (exNewProvider []).map (fun p => (p.accessTokenKeySet, p.idTokenHinKeySet)) =
    some ({ kind := .published, keys := [exStoreKey] }, { kind := .published, keys := [exStoreKey] }) := by decide
/-- an option that fails: no provider -/
example : (exNewProvider [GenC02.WithAccessTokenKeySet 0 exATSet, fun _ => .error "boom"]).isNone = true := by decide
example : cfgKeySetHint { kind := .published, keys := [exStoreKey] } [.atKeySet exATSet] = { kind := .published, keys := [exStoreKey] } := by decide
end C02
