/-
  C11, "exactly the values the provider produced": NOTHING happens to the description (or the code) of the error between
  `oidc.DefaultToServerError` and `AuthResponseURL`.

  `GenErr.authRequestErrorProgram` / `GenErr.tryErrorRedirectProgram` (read from pkg/op/error.go on every run, c11errprog.go)
  list, in source order, every statement of `AuthRequestError` / `TryErrorRedirect` that touches the `*oidc.Error` they answer
  with: the copy, every `e.<field> = …`, every mutator method, the hand-over to `AuthResponseURL`.  `C11Par` reads these lists
  for ALIASING (which object); this file reads them for the VALUE: the only fields the functions assign are `State` and
  `SessionState`, so the error that reaches the encoder has the description and the code `DefaultToServerError` answered with —
  of whatever length and whatever bytes.  A helper that shortens, pads, trims or re-encodes the description on the way
  (`e.Description = redirectDescription(e.Description)`) shows up as `.set _ "Description"` in the regenerated list and
  `c11_error_only_request_fields_written` stops checking, naming the list.
-/
import OidcModel.Proofs.C11ErrVal
import OidcModel.Proofs.C11

namespace C11
namespace ErrVal
/-- the value of an error as the model of pkg/oidc has it -/
def ofErr (e : AR.OidcError) : EObj := { ty := AR.ascii e.ErrorType, desc := e.Description, state := e.State, sess := e.SessionState }

end ErrVal

/-- the lists next to the translated functions are the lists of Generated/AuthErrorProg.lean (one extractor, two files) -/
theorem errProg_same : GenErr.authRequestErrorProgram = GenErrProg.authRequestErrorProgram
    ∧ GenErr.tryErrorRedirectProgram = GenErrProg.tryErrorRedirectProgram := by decide

open ErrVal in
/-- **the description handed to the encoder is the error's own**: for both regenerated statement lists, every error value the
    function is handed (plain, OAuth error, OAuth error somewhere in the chain; any bytes, any LENGTH) and whatever values the
    statements assign: `AuthResponseURL` receives an error whose description is the description the failing component reported
    and whose code is its code — `DefaultToServerError(err, err.Error())` untouched. -/
theorem c11_error_description_handed_to_encoder (now : Int) (err : AR.GoErr) (v : Nat → EObj → EObj) :
    ∀ p ∈ [GenErr.authRequestErrorProgram, GenErr.tryErrorRedirectProgram],
      ∃ s, exec v p 0 (ofErr (GenErr.DefaultToServerError now err (AR.errText err))) none = some s
        ∧ s.desc = srcDesc err ∧ s.ty = AR.ascii (srcCode err) := by
  intro p hp
  obtain ⟨hd, hc⟩ := c11_error_description_verbatim now err
  have hall := c11_error_only_request_fields_written
  have hp' : onlyRequestFields p = true := by
    simp only [List.mem_cons, List.mem_nil_iff, or_false] at hp
    rcases hp with rfl | rfl
    · rw [errProg_same.1]; exact hall.1
    · rw [errProg_same.2]; exact hall.2
  obtain ⟨s, hs, hty, hdesc⟩ := exec_onlyRequestFields v p hp' (ofErr (GenErr.DefaultToServerError now err (AR.errText err)))
  refine ⟨s, hs, ?_, ?_⟩
  · rw [hdesc]; exact hd
  · rw [hty]; simp only [ofErr]; rw [hc]

open ErrVal in
/-- … in particular its LENGTH is the length of what was reported: nothing is cut off, nothing is appended -/
theorem c11_error_description_length_kept (now : Int) (err : AR.GoErr) (v : Nat → EObj → EObj) :
    ∀ p ∈ [GenErr.authRequestErrorProgram, GenErr.tryErrorRedirectProgram],
      ∀ s, exec v p 0 (ofErr (GenErr.DefaultToServerError now err (AR.errText err))) none = some s → s.desc.length = (srcDesc err).length := by
  intro p hp s hs
  obtain ⟨s', hs', hd, _⟩ := c11_error_description_handed_to_encoder now err v p hp
  rw [hs] at hs'; cases hs'; rw [hd]

namespace ErrVal
/-- non-vacuity: the list of a variant that cuts the description (`e.Description = redirectDescription(e.Description)`) is
    rejected by the condition, and on it the encoder does receive something else -/
def cutProgram : List ErrPar.Op := [.copy, .set .own "State", .set .own "SessionState", .set .own "Description", .encode .own]

example : onlyRequestFields cutProgram = false := by decide
example : exec (fun n o => if n = 3 then { o with desc := o.desc.take 2 } else o) cutProgram 0 { desc := [1, 2, 3] } none
    = some { desc := [1, 2] } := by decide
example : exec (fun _ o => { o with state := [7], sess := [8], desc := [9] }) [.copy, .set .own "SessionState", .set .own "State", .encode .own] 0
    { ty := [5], desc := [1, 2, 3] } none = some { ty := [5], desc := [1, 2, 3], state := [7], sess := [8] } := by decide
example : onlyRequestFields [.set .own "State", .set .own "SessionState"] = false := by decide   -- never handed to the encoder
example : onlyRequestFields [.copy, .set .own "WithDescription", .encode .own] = false := by decide
end ErrVal

end C11
