/-
  C04 at HISTORY level: the stateful model (Model/Flow.lean: `Flow.step` / `Flow.run` around the REGENERATED
  decision functions) never violates the reference monitor (Spec/C04.lean through the observer of
  Spec/FlowObs.lean) - for every list of operations, of any length, over any clients, requests, codes and
  tokens, on both routers, including the storage fault `exchangeDeleteFails`.

  Shape: `eventOf` reads one model step (state before / after, operation, output) as the event an onlooker
  sees; `runObs` runs the observer next to the model; `Inv04` relates the reference storage to the monitor
  state (codes ↔ issued, authorization requests ↔ accepted requests); `c04_history` is the induction.
-/
import OidcModel.Spec.FlowObs
import OidcModel.Proofs.C05
import Std.Data.String.ToNat
set_option linter.unusedSimpArgs false

namespace FlowObs
open Go Gen Hand Flow

/-! ## The model's own steps as events -/

/-- what a code-grant request shows of its sender (assertion present iff the assertion type is the JWT one) -/
def presentedCode (req : AccessTokenRequest) : C04.Presented :=
  { clientID := req.ClientID, secret := req.ClientSecret,
    assertion := if req.ClientAssertionType == Const.ClientAssertionTypeJWTAssertion then some req.ClientAssertion else none,
    code := req.Code, redirectURI := req.RedirectURI, verifier := req.CodeVerifier }

def presentedRefresh (req : RefreshTokenRequest) : C04.Presented :=
  { clientID := req.ClientID, secret := req.ClientSecret,
    assertion := if req.ClientAssertionType == Const.ClientAssertionTypeJWTAssertion then some req.ClientAssertion else none }

/-- a stored refresh token as the observer records it -/
def toRT (r : RefreshReq) : C07.RT :=
  { token := r.token, client := r.clientID, subject := r.subject, scopes := r.scopes, audience := r.audience,
    authTime := r.authTime, live := true }

/-- the record the storage holds for the refresh token of a response -/
def recOf (s' : Flow.St) (nr : Option String) : Option RefreshReq :=
  nr.bind fun tok => s'.store.refresh.find? (·.token == tok)

/-- the first refresh token the storage holds after a step and did not hold before it -/
def mintedIn (s s' : Flow.St) : Option C07.RT :=
  (s'.store.refresh.find? fun r => (s.store.refresh.find? (·.token == r.token)).isNone).map toRT

/-- the single tokens of a code-grant response, as the model issues them (deep3-C04): the ID token carries subject, azp and nonce
    of the request; the access token (JWT claims / the record an opaque token resolves to) subject and scopes of the request
    and the id of the authenticated client; the refresh token - if one is issued - what `createTokens` handed the storage for
    it: the request (`Flow.mintTokens`) -/
def carriedOf (a : AuthReq) (c : OPClient) (nr : Option String) : List C04.Carried :=
  [{ kind := "id_token", subject := some a.subject, client := some a.clientID, nonce := some a.nonce },
   { kind := "access_token", subject := some a.subject, client := some c.id, scopes := some a.scopes }] ++
  match nr with
  | some _ => [{ kind := "refresh_token", subject := some a.subject, client := some a.clientID, scopes := some a.scopes }]
  | none => []

def tokensOf (a : AuthReq) (c : OPClient) (nr : Option String) : C04.Tokens :=
  { subject := a.subject, client := c.id, scopes := a.scopes, nonce := a.nonce, carried := carriedOf a c nr }

/-- One step of the model (`s` before, `s'` after, operation, output) as the event an onlooker sees; `none`: nothing
    the monitors look at (a callback that ended in an error).  Tokens: what the response's tokens carry (`showOut`
    of the driver compares exactly these with the real response); refresh results: the record the storage holds for
    the new token. -/
def eventOf (s s' : Flow.St) : Flow.Op → Flow.Out → Option Event
  | .authorize _ _, .loginPage _ => s'.store.authReqs.getLast?.map .accepted      -- the request the storage created
  | .login id subject authTime, _ => some (.login id subject authTime)
  | .callback id _, .code c => some (.code id c)
  | .exchange _ req _, .issued (.code a c _) nr | .exchangeDeleteFails _ req _, .issued (.code a c _) nr =>
    some (.exchange (presentedCode req) (some (tokensOf a c nr))
      ((recOf s' nr).map toRT))
  | .exchange _ req _, .error _ | .exchangeDeleteFails _ req _, .error _ =>
    some (.exchange (presentedCode req) none (mintedIn s s'))
  | .refresh _ req _, .issued (.refresh _ _ cur) nr =>
    let rec' : RefreshReq := (recOf s' nr).getD {}
    some (.refresh (presentedRefresh req) req.RefreshToken req.Scopes
      (some { newRT := nr.getD "", scopes := rec'.scopes, client := rec'.clientID, subject := rec'.subject, audience := rec'.audience,
              authTime := rec'.authTime, handedOver := nr.isSome && cur == req.RefreshToken })
      "" (s'.nextRT != s.nextRT))
  | .refresh _ req _, .error e =>
    some (.refresh (presentedRefresh req) req.RefreshToken req.Scopes none (Flow.oauthCode e) (s'.nextRT != s.nextRT))
  | _, _ => none

/-- the observer run next to the model: every step's own event is judged -/
def stepObs (now : Int) (so : Flow.St × ObsState) (op : Flow.Op) : (Flow.St × ObsState) × (Flow.Out × Option String × Option String) :=
  let r := Flow.step now so.1 op
  match eventOf so.1 r.1 op r.2 with
  | none => ((r.1, so.2), (r.2, none, none))
  | some e => let v := observe now so.2 e; ((r.1, v.1), (r.2, v.2.1, v.2.2))

def runObs (now : Int) (so : Flow.St × ObsState) : List Flow.Op → (Flow.St × ObsState) × List (Flow.Out × Option String × Option String)
  | [] => (so, [])
  | op :: rest =>
    let r := stepObs now so op
    let rr := runObs now r.1 rest
    (rr.1, r.2 :: rr.2)

/-- `runObs` is `Flow.run` with the observer riding along: same final state, same outputs -/
theorem runObs_run (now : Int) (s : Flow.St) (o : ObsState) (ops : List Flow.Op) :
    (runObs now (s, o) ops).1.1 = (Flow.run now s ops).1 ∧ (runObs now (s, o) ops).2.map (·.1) = (Flow.run now s ops).2 := by
  induction ops generalizing s o with
  | nil => exact ⟨rfl, rfl⟩
  | cons op rest ih =>
    have h1 : (stepObs now (s, o) op).1.1 = (Flow.step now s op).1 := by
      simp only [stepObs]; cases eventOf s (Flow.step now s op).1 op (Flow.step now s op).2 <;> rfl
    have h2 : (stepObs now (s, o) op).2.1 = (Flow.step now s op).2 := by
      simp only [stepObs]; cases eventOf s (Flow.step now s op).1 op (Flow.step now s op).2 <;> rfl
    obtain ⟨i1, i2⟩ := ih (stepObs now (s, o) op).1.1 (stepObs now (s, o) op).1.2
    rw [h1] at i1 i2
    show (runObs now (stepObs now (s, o) op).1 rest).1.1 = _ ∧
      ((stepObs now (s, o) op).2 :: (runObs now (stepObs now (s, o) op).1 rest).2).map (·.1) = _
    have hrun : Flow.run now s (op :: rest) =
        ((Flow.run now (Flow.step now s op).1 rest).1, (Flow.step now s op).2 :: (Flow.run now (Flow.step now s op).1 rest).2) := rfl
    rw [hrun, List.map_cons, h2]
    have hpair : (stepObs now (s, o) op).1 = ((Flow.step now s op).1, (stepObs now (s, o) op).1.2) := by
      rw [← h1]
    rw [hpair]
    exact ⟨i1, by rw [i2]⟩

theorem runObs_append (now : Int) (so : Flow.St × ObsState) (l1 l2 : List Flow.Op) :
    runObs now so (l1 ++ l2) = ((runObs now (runObs now so l1).1 l2).1, (runObs now so l1).2 ++ (runObs now (runObs now so l1).1 l2).2) := by
  induction l1 generalizing so with
  | nil => rfl
  | cons op rest ih => simp only [List.cons_append, runObs, ih, List.cons_append]

/-! ## List facts -/

theorem find?_filter_of_imp {α : Type} {p q : α → Bool} {l : List α} (h : ∀ x, q x = true → p x = true) :
    (l.filter p).find? q = l.find? q := by
  induction l with
  | nil => rfl
  | cons x xs ih =>
    by_cases hq : q x = true
    · simp [List.filter, h x hq, hq]
    · by_cases hp : p x = true
      · simp [List.filter, hp, hq, ih]
      · simp [List.filter, hp, hq, ih]

theorem find?_filter_none {α : Type} {p q : α → Bool} {l : List α} (h : ∀ x, q x = true → p x = false) :
    (l.filter p).find? q = none := by
  rw [List.find?_eq_none]
  intro x hx
  have := List.mem_filter.1 hx
  intro hq
  rw [h x hq] at this
  exact absurd this.2 (by simp)

theorem find?_map_same {α : Type} {p : α → Bool} {f : α → α} {l : List α} (h : ∀ x, p (f x) = p x) :
    (l.map f).find? p = (l.find? p).map f := by
  rw [List.find?_map]
  congr 1
  exact congrArg (fun g => List.find? g l) (funext h)

theorem find?_map_fix {α : Type} {p : α → Bool} {f : α → α} {l : List α} (h : ∀ x, p (f x) = p x) (hfix : ∀ x, p x = true → f x = x) :
    (l.map f).find? p = l.find? p := by
  rw [find?_map_same h]
  cases hf : l.find? p with
  | none => rfl
  | some x => simp [hfix x (List.find?_some hf)]

theorem find?_mem_isSome {α : Type} {p : α → Bool} {l : List α} {x : α} (hx : x ∈ l) (hp : p x = true) : (l.find? p).isSome = true := by
  cases h : l.find? p with
  | some _ => rfl
  | none => exact absurd hp (List.find?_eq_none.1 h x hx)

/-! ## Fresh identifiers -/

theorem ar_inj {m n : Nat} (h : "ar" ++ toString m = "ar" ++ toString n) : m = n :=
  Nat.repr_inj.1 ((String.append_right_inj "ar").1 h)

theorem rt_inj {m n : Nat} (h : "rt" ++ toString m = "rt" ++ toString n) : m = n :=
  Nat.repr_inj.1 ((String.append_right_inj "rt").1 h)

end FlowObs

/-! ## Authentication: what the model's checks mean to the monitor's `callerIs` -/

namespace FlowObs
open Go Gen Hand Flow

/-- the observer knows the provider's registrations, issuer and assertion settings -/
def SameCfg (m : C04.MonState) (p : Provider) : Prop :=
  m.clients = p.store.clients ∧ m.issuer = p.issuer ∧ m.jwtMaxAgeIAT = p.jwtMaxAgeIAT ∧ m.jwtOffset = p.jwtOffset

/-- credentials (client id, secret, assertion type, assertion) authenticate - or, for a public client, identify -
    client `c` (the model-level reading; `C04.Authenticated` is this for a code-grant request) -/
def AuthAs (now : Int) (p : Provider) (id secret ty : String) (t : Token) (c : OPClient) : Prop :=
  (ty = Const.ClientAssertionTypeJWTAssertion ∧ p.pkjwtSupported = true ∧ p.is_JWTAuthorizationGrantExchanger = true ∧
      ∃ j, VerifyJWTAssertion now t p.JWTProfileVerifier = .ok j ∧
        p.store.GetClientByClientID j.iss = .ok c ∧ c.auth = Const.AuthMethodPrivateKeyJWT)
  ∨ (ty ≠ Const.ClientAssertionTypeJWTAssertion ∧ p.store.GetClientByClientID id = .ok c ∧
      (c.auth = Const.AuthMethodNone ∨
        (c.auth ≠ Const.AuthMethodPrivateKeyJWT ∧ (c.auth = Const.AuthMethodPost → p.postSupported = true) ∧
          p.store.AuthorizeClientIDSecret id secret = .ok ())))

theorem authenticated_iff {now p} {req : AccessTokenRequest} {c} :
    C04.Authenticated now p req c ↔ AuthAs now p req.ClientID req.ClientSecret req.ClientAssertionType req.ClientAssertion c := Iff.rfl

/-- the claims the code returns differ from the payload's at most in the recorded signature algorithm, which the
    spec does not look at -/
theorem assertionOK_congr {issuer : String} {ma off : Int} {b : Bool} {reg : List (String × JWK)} {t : Token} {now : Int} {j c : Claims}
    (h : { j with sigAlg := "" } = { c with sigAlg := "" }) :
    C14.assertionOK issuer ma off b reg t now j = C14.assertionOK issuer ma off b reg t now c := by
  cases j; cases c
  simp only [Claims.mk.injEq] at h
  obtain ⟨h1, h2, h3, h4, h5, h6, h7, h8, h9, h10, h11, h12, _, h14⟩ := h
  subst h1 h2 h3 h4 h5 h6 h7 h8 h9 h10 h11 h12 h14
  unfold C14.assertionOK C02.acceptedOK C14.claimClauses
  rfl

theorem acceptedOK_payload {algs : List String} {ks : KeySet} {t : Token} {j : Claims} (h : C02.acceptedOK algs ks t j = none) :
    ∃ c, t.middle.bind (·.claims) = some c ∧ { j with sigAlg := "" } = { c with sigAlg := "" } := by
  unfold C02.acceptedOK at h
  repeat' (split at h <;> try (simp at h))
  rename_i c hc
  refine ⟨c, ?_, by simpa using h⟩
  simp_all

/-- an assertion the code accepts proves (to the spec) the client it names as issuer -/
theorem provesClient_of_verify {now : Int} {t : Token} {p : Provider} {j : Claims}
    (h : VerifyJWTAssertion now t p.JWTProfileVerifier = .ok j) :
    C14.provesClient p.issuer p.jwtMaxAgeIAT p.jwtOffset p.store.keyRegistry t now = some j.iss := by
  have hs : C14.assertionOK p.issuer p.jwtMaxAgeIAT p.jwtOffset true p.store.keyRegistry t now j = none := by
    have := C14.c14_assertion_sound (v := p.JWTProfileVerifier) (by rfl) h
    simpa [Provider.JWTProfileVerifier] using this
  have hacc : C02.acceptedOK [] (C14.clientKeys p.store.keyRegistry j.iss) t j = none := by
    unfold C14.assertionOK at hs
    split at hs
    · simp at hs
    · assumption
  obtain ⟨c, hc, heq⟩ := acceptedOK_payload hacc
  have hiss : c.iss = j.iss := by
    have := congrArg Claims.iss heq
    simpa using this.symm
  unfold C14.provesClient
  rw [hc]
  simp only []
  rw [← assertionOK_congr heq, hs]
  simp [hiss]

theorem getClient_find {s : Store} {id : String} {c : OPClient} (h : s.GetClientByClientID id = .ok c) :
    s.clients.find? (·.id == c.id) = some c ∧ c.id = id := by
  obtain ⟨h1, h2⟩ := C05.getClient_ok h
  subst h2
  exact ⟨h1, rfl⟩

/-- the model's authentication implies the monitor's `callerIs` for the same client -/
theorem callerIs_of_authAs {now : Int} {p : Provider} {m : C04.MonState} {id secret ty : String} {t : Token} {c : OPClient}
    {pr : C04.Presented} (hm : SameCfg m p) (hid : pr.clientID = id) (hsec : pr.secret = secret)
    (hass : pr.assertion = if ty == Const.ClientAssertionTypeJWTAssertion then some t else none)
    (h : AuthAs now p id secret ty t c) : C04.callerIs m now c pr = true := by
  obtain ⟨hcl, hissuer, hmax, hoff⟩ := hm
  unfold C04.callerIs
  rcases h with ⟨hty, _, _, j, hv, hget, hauth⟩ | ⟨hty, hget, hrest⟩
  · have hne : (c.auth == "none") = false := by rw [hauth]; decide
    have hpk : (c.auth == "private_key_jwt") = true := by rw [hauth]; decide
    simp only [hne, hpk, hass, hty, beq_self_eq_true, if_true, Bool.false_eq_true, if_false]
    have := provesClient_of_verify hv
    obtain ⟨_, hcid⟩ := getClient_find hget
    rw [hissuer, hmax, hoff, hcl]
    show (C14.provesClient p.issuer p.jwtMaxAgeIAT p.jwtOffset p.store.keyRegistry t now == some c.id) = true
    rw [this, hcid]; simp
  · have hty' : (ty == Const.ClientAssertionTypeJWTAssertion) = false := by simpa using hty
    obtain ⟨_, hcid⟩ := getClient_find hget
    rcases hrest with hnone | ⟨hnpk, _, hsecret⟩
    · have : (c.auth == "none") = true := by rw [hnone]; decide
      simp [this, hass, hty', hid, hcid]
    · obtain ⟨c', hc', _, hs'⟩ := C05.secret_ok hsecret
      obtain ⟨hfind, _⟩ := C05.getClient_ok hget
      rw [hfind] at hc'
      cases hc'
      by_cases hn : (c.auth == "none") = true
      · simp [hn, hass, hty', hid, hcid]
      · have hpk : (c.auth == "private_key_jwt") = false := by
          simpa [Const.AuthMethodPrivateKeyJWT] using hnpk
        simp [hn, hpk, hass, hty', hid, hcid, hsec, hs']

/-! ### round 4b: the monitor's `callerIsCfg` (a provider whose JWTProfileVerifier may carry a custom subject check) -/

/-- an assertion that meets the clauses WITH `sub = iss` meets them without -/
theorem assertionOK_weaken {issuer : String} {ma off : Int} {b : Bool} {reg : List (String × JWK)} {t : Token} {now : Int} {j : Claims}
    (h : C14.assertionOK issuer ma off true reg t now j = none) : C14.assertionOK issuer ma off b reg t now j = none := by
  cases b
  · unfold C14.assertionOK at h ⊢
    split
    · rename_i cl hcl; rw [hcl] at h; simp at h
    · rename_i hacc
      rw [hacc] at h
      simp only [Option.map_eq_none_iff, List.find?_eq_none] at h ⊢
      intro x hx
      simp only [C14.claimClauses, List.mem_cons, List.mem_nil_iff, or_false] at hx
      rcases hx with rfl | rfl | rfl | rfl | rfl | rfl
      · exact h _ (by simp [C14.claimClauses])
      · exact h _ (by simp [C14.claimClauses])
      · exact h _ (by simp [C14.claimClauses])
      · exact h _ (by simp [C14.claimClauses])
      · exact h _ (by simp [C14.claimClauses])
      · simp
  · exact h

/-- whatever subject check the provider's verifier carries: an assertion the code accepts meets the spec's clauses for the client
    it names as ISSUER - signed with a key the storage holds for that client -, with `sub = iss` under the default check -/
theorem assertionOK_of_verify_check {now : Int} {t : Token} {p : Provider} {f : Option (Claims → Go.R Unit)} {j : Claims}
    (h : VerifyJWTAssertion now t { p.JWTProfileVerifier with CheckSubject := f } = .ok j) :
    C14.assertionOK p.issuer p.jwtMaxAgeIAT p.jwtOffset f.isNone p.store.keyRegistry t now j = none := by
  have := C14.c14_assertion_sound (v := { p.JWTProfileVerifier with CheckSubject := f }) (by rfl) h
  simpa [Provider.JWTProfileVerifier] using this

/-- ... hence proves that issuer to the monitor (`C04.provesIssuer`) -/
theorem provesIssuer_of_assertionOK {now : Int} {t : Token} {p : Provider} {m : C04.MonState} {j : Claims} (hm : SameCfg m p)
    (hs : C14.assertionOK p.issuer p.jwtMaxAgeIAT p.jwtOffset (!m.subjectCheckCustom) p.store.keyRegistry t now j = none) :
    C04.provesIssuer m t now = some j.iss := by
  obtain ⟨hcl, hissuer, hmax, hoff⟩ := hm
  have hacc : C02.acceptedOK [] (C14.clientKeys p.store.keyRegistry j.iss) t j = none := by
    unfold C14.assertionOK at hs
    split at hs
    · simp at hs
    · assumption
  obtain ⟨c, hc, heq⟩ := acceptedOK_payload hacc
  have hiss : c.iss = j.iss := by
    have := congrArg Claims.iss heq
    simpa using this.symm
  unfold C04.provesIssuer
  rw [hc]
  simp only []
  rw [hissuer, hmax, hoff, hcl]
  show (if (C14.assertionOK p.issuer p.jwtMaxAgeIAT p.jwtOffset (!m.subjectCheckCustom) p.store.keyRegistry t now c).isNone = true
      then some c.iss else none) = some j.iss
  rw [← assertionOK_congr heq, hs]
  simp [hiss]

/-- the model's authentication (default subject check) implies the monitor's `callerIsCfg` for the same client - whichever
    configuration the monitor was told: an assertion accepted under `sub = iss` proves its issuer under any reading -/
theorem callerIsCfg_of_authAs {now : Int} {p : Provider} {m : C04.MonState} {id secret ty : String} {t : Token} {c : OPClient}
    {pr : C04.Presented} (hm : SameCfg m p) (hid : pr.clientID = id) (hsec : pr.secret = secret)
    (hass : pr.assertion = if ty == Const.ClientAssertionTypeJWTAssertion then some t else none)
    (h : AuthAs now p id secret ty t c) : C04.callerIsCfg m now c pr = true := by
  unfold C04.callerIsCfg
  split
  · rename_i hcfg
    simp only [Bool.and_eq_true] at hcfg
    rcases h with ⟨hty, _, _, j, hv, hget, hauth⟩ | ⟨hty, hget, hrest⟩
    · have hs := assertionOK_weaken (b := !m.subjectCheckCustom)
        (by simpa using assertionOK_of_verify_check (f := none) (p := p) hv)
      have := provesIssuer_of_assertionOK hm hs
      obtain ⟨_, hcid⟩ := getClient_find hget
      simp [hass, hty, this, hcid]
    · -- a client that did not present an assertion is not registered for private_key_jwt
      exfalso
      have hpk : c.auth = "private_key_jwt" := by simpa using hcfg.2
      rcases hrest with hnone | ⟨hnpk, _, _⟩
      · rw [hpk] at hnone; exact absurd hnone (by decide)
      · exact hnpk hpk
  · exact callerIs_of_authAs hm hid hsec hass h

end FlowObs

/-! ## The token endpoint's code-grant and refresh-grant paths on both routers -/

namespace FlowObs
open Go Gen Hand Flow

theorem formGet_grant (g : String) : ({ kv := [("grant_type", g)] } : FormVals).Get "grant_type" = g := by
  simp [FormVals.Get]

/-- the credentials of a `ClientCredentials` record as the code-grant request that carries them (for `C04.authClientSpec`) -/
def ccAsReq (cc : ClientCredentials) : AccessTokenRequest :=
  { ClientID := cc.ClientID, ClientSecret := cc.ClientSecret, ClientAssertionType := cc.ClientAssertionType, ClientAssertion := cc.ClientAssertion }

/-- `LegacyServer.VerifyClient`, as a readable function: the client_credentials grant goes to the storage; every other grant
    authenticates exactly as the Provider router's `AuthorizeCodeClient` does (`C04.authClientSpec`, without the PKCE
    requirement for public clients, which `LegacyServer.CodeExchange` imposes itself) - characterisation lemma -/
theorem legacyVerifyClient_eq' {now : Int} {p : Provider} {F : FormVals} {cc : ClientCredentials} :
    LegacyVerifyClient now ⟨p⟩ { Form := F, Data := cc } =
      if F.Get "grant_type" = Const.GrantTypeClientCredentials then
        (if p.store.is_ClientCredentialsStorage = true then p.store.ClientCredentials cc.ClientID cc.ClientSecret else .error "ErrUnsupportedGrantType")
      else C04.authClientSpec now (ccAsReq cc) p true := by
  unfold LegacyVerifyClient C04.authClientSpec ccAsReq
  simp only [AuthorizeClientIDSecret, Provider.Storage, Provider.AuthMethodPrivateKeyJWTSupported, Provider.AuthMethodPostSupported,
    OPClient.AuthMethod, Go.ok]
  go_eq [Const.AuthMethodNone, Const.AuthMethodPrivateKeyJWT, Const.AuthMethodPost]

theorem legacyVerifyClient_eq {now : Int} {p : Provider} {g : String} {cc : ClientCredentials} :
    LegacyVerifyClient now ⟨p⟩ { Form := { kv := [("grant_type", g)] }, Data := cc } =
      if g = Const.GrantTypeClientCredentials then
        (if p.store.is_ClientCredentialsStorage = true then p.store.ClientCredentials cc.ClientID cc.ClientSecret else .error "ErrUnsupportedGrantType")
      else C04.authClientSpec now (ccAsReq cc) p true := by
  rw [legacyVerifyClient_eq', formGet_grant]

/-- Server router: `VerifyClient` for a grant other than client_credentials -/
theorem legacyVerifyClient_authAs {now : Int} {p : Provider} {g : String} {cc : ClientCredentials} {c : OPClient}
    (h : LegacyVerifyClient now ⟨p⟩ { Form := { kv := [("grant_type", g)] }, Data := cc } = .ok c)
    (hg : g ≠ Const.GrantTypeClientCredentials) :
    AuthAs now p cc.ClientID cc.ClientSecret cc.ClientAssertionType cc.ClientAssertion c := by
  rw [legacyVerifyClient_eq, if_neg hg] at h
  exact (C04.authClientSpec_ok h).1

theorem withClient_authAs {now : Int} {p : Provider} {g : String} {cc : ClientCredentials} {ha : Bool} {c : OPClient}
    (h : withClient now p g cc ha = .ok c) (hg : g ≠ Const.GrantTypeClientCredentials) (hg' : g ≠ "") :
    AuthAs now p cc.ClientID cc.ClientSecret cc.ClientAssertionType cc.ClientAssertion c ∧ g ∈ c.grants := by
  refine ⟨?_, C05.withClient_grant h hg'⟩
  unfold withClient at h
  split at h; · simp at h
  split at h; · simp at h
  rename_i c' hv
  split at h
  · simp at h
  · simp at h; subst h
    exact legacyVerifyClient_authAs hv hg

/-- what a code exchange that the token endpoint lets through has established - either router -/
theorem codeExchange_ok {now : Int} {rt : Router} {p : Provider} {req : AccessTokenRequest} {ha : Bool} {i : IssueFor}
    (h : codeExchange now rt p req ha = .ok i) :
    ∃ a c, i = .code a c req.Code ∧ p.store.AuthRequestByCode req.Code = .ok a ∧ c.id = a.clientID ∧
      Const.GrantTypeCode ∈ c.grants ∧ req.RedirectURI = a.redirectURI ∧
      (a.challenge ≠ none → req.CodeVerifier ≠ "" ∧ VerifyCodeChallenge now a.challenge req.CodeVerifier = true) ∧
      (c.auth = Const.AuthMethodNone → a.challenge ≠ none) ∧
      AuthAs now p req.ClientID req.ClientSecret req.ClientAssertionType req.ClientAssertion c := by
  cases rt with
  | provider =>
    simp only [codeExchange] at h
    split at h; · simp at h
    split at h; · simp at h
    rename_i a c hv
    simp only [issueForCode] at h
    cases h
    obtain ⟨h1, h2, h3, h4, h5, h6, h7⟩ := C04.validateAccessTokenRequest_ok hv
    exact ⟨a, c, rfl, h1, h2, h3, h4, h5, h6, h7⟩
  | legacy =>
    simp only [codeExchange] at h
    split at h; · simp at h
    rename_i client hw
    split at h; · simp at h
    split at h; · simp at h
    obtain ⟨a, hi, h1, h2, h4, h5, h6⟩ := C04.legacyCodeExchange_ok h
    obtain ⟨hauth, hgrant⟩ := withClient_authAs hw (by decide) (by decide)
    exact ⟨a, client, hi, h1, h2, hgrant, h4, h5, h6, hauth⟩

end FlowObs

/-! ## The invariant between reference storage and monitor state, and its preservation -/

namespace FlowObs
open Go Gen Hand Flow

/-- the part of the provider that no step changes, read off a state -/
def CfgEq (s s' : Flow.St) : Prop :=
  s'.p.store.clients = s.p.store.clients ∧ s'.p.issuer = s.p.issuer ∧ s'.p.jwtMaxAgeIAT = s.p.jwtMaxAgeIAT ∧
  s'.p.jwtOffset = s.p.jwtOffset ∧ s'.p.refreshSupported = s.p.refreshSupported ∧ s'.p.postSupported = s.p.postSupported ∧
  s'.p.pkjwtSupported = s.p.pkjwtSupported ∧ s'.p.is_JWTAuthorizationGrantExchanger = s.p.is_JWTAuthorizationGrantExchanger

theorem CfgEq.refl (s : Flow.St) : CfgEq s s := ⟨rfl, rfl, rfl, rfl, rfl, rfl, rfl, rfl⟩

theorem SameCfg.trans {m : C04.MonState} {s s' : Flow.St} (h : SameCfg m s.p) (c : CfgEq s s') : SameCfg m s'.p := by
  obtain ⟨h1, h2, h3, h4⟩ := h
  obtain ⟨c1, c2, c3, c4, _⟩ := c
  exact ⟨by rw [h1, c1], by rw [h2, c2], by rw [h3, c3], by rw [h4, c4]⟩

/-- the regenerated facts about `CreateTokenResponse` this proof rests on: on the code path the authorization request
    is deleted, and a failing deletion ends the request with an error (no response) -/
theorem deletes_authRequest : Flow.deletesAuthRequest = true := by decide
theorem delete_failure_fatal : Flow.deleteFailureFatal = true := by decide

/-- `createTokens` touches neither the authorization requests nor the codes nor the configuration -/
theorem mintTokens_auth (s : Flow.St) (i : IssueFor) :
    (mintTokens s i).store.authReqs = s.store.authReqs ∧ (mintTokens s i).store.codes = s.store.codes ∧
    (mintTokens s i).nextReq = s.nextReq ∧ CfgEq s (mintTokens s i) := by
  unfold mintTokens
  split
  · cases i <;> exact ⟨rfl, rfl, rfl, rfl, rfl, rfl, rfl, rfl, rfl, rfl, rfl⟩
  · exact ⟨rfl, rfl, rfl, CfgEq.refl s⟩

/-- regenerated `needsRefreshToken`: a refresh request always gets a new refresh token (rotation) -/
theorem wantsRefresh_refresh (r : RefreshReq) (c : OPClient) (cur : String) : wantsRefresh (.refresh r c cur) = true := rfl

/-- regenerated `needsRefreshToken`: a code exchange gets a refresh token iff the request asked for offline_access with
    response type code and the client is registered for the refresh grant -/
theorem wantsRefresh_code (a : AuthReq) (c : OPClient) (k : String) :
    wantsRefresh (.code a c k) = (a.scopes.contains "offline_access" && a.responseType == "code" && c.grants.contains "refresh_token") := by
  unfold wantsRefresh Gen.needsRefreshToken
  simp only [TokReq.as_AuthRequest, Go.contains, AuthReq.GetScopes, AuthReq.GetResponseType,
    Const.ScopeOfflineAccess, Const.ResponseTypeCode, Const.GrantTypeRefreshToken, C04.validateGrantType_eq]
  go_leaf

theorem applyIssue_code (s : Flow.St) (a : AuthReq) (c : OPClient) (k : String) :
    (applyIssue s (.code a c k)).store.authReqs = s.store.authReqs.filter (·.id != a.id) ∧
    (applyIssue s (.code a c k)).store.codes = s.store.codes.filter (·.2 != a.id) ∧
    (applyIssue s (.code a c k)).nextReq = s.nextReq ∧ CfgEq s (applyIssue s (.code a c k)) := by
  obtain ⟨h1, h2, h3, h4⟩ := mintTokens_auth s (.code a c k)
  simp only [applyIssue, deletes_authRequest, if_true, deleteAuthRequest, St.store, St.setStore] at *
  refine ⟨by rw [h1], by rw [h2], h3, ?_⟩
  obtain ⟨c1, c2, c3, c4, c5, c6, c7, c8⟩ := h4
  exact ⟨c1, c2, c3, c4, c5, c6, c7, c8⟩

theorem applyIssue_refresh (s : Flow.St) (r : RefreshReq) (c : OPClient) (k : String) :
    applyIssue s (.refresh r c k) = mintTokens s (.refresh r c k) := rfl

structure Inv04 (s : Flow.St) (o : ObsState) : Prop where
  cfg : SameCfg o.m04 s.p
  /-- every stored authorization request is known to the observer, exactly as stored -/
  reqs : ∀ a ∈ s.store.authReqs, o.reqs.find? (·.id == a.id) = some a
  /-- request ids are the provider's own fresh ones -/
  fresh : ∀ a ∈ o.reqs, ∃ k, k < s.nextReq ∧ a.id = "ar" ++ toString k
  /-- a code in the storage belongs to a stored request (a deleted request has no code) -/
  codesLive : ∀ c id, (c, id) ∈ s.store.codes → ∃ a ∈ s.store.authReqs, a.id = id
  /-- a code that still resolves was handed out for exactly this (completed) request and has not been used -/
  codes : ∀ c id a, (c, id) ∈ s.store.codes → s.store.authReqs.find? (·.id == id) = some a →
      a.done = true ∧ o.m04.issued.find? (·.code == c) = some { code := c, req := a, used := false }

/-- steps that leave requests, codes, the monitor's C04 state and the accepted requests alone -/
theorem Inv04.of_same {s s' : Flow.St} {o o' : ObsState} (h : Inv04 s o)
    (h1 : s'.store.authReqs = s.store.authReqs) (h2 : s'.store.codes = s.store.codes) (h3 : s'.nextReq = s.nextReq)
    (h4 : CfgEq s s') (h5 : o'.m04 = o.m04) (h6 : o'.reqs = o.reqs) : Inv04 s' o' := by
  refine ⟨?_, ?_, ?_, ?_, ?_⟩
  · rw [h5]; exact h.cfg.trans h4
  · rw [h1, h6]; exact h.reqs
  · rw [h3, h6]; exact h.fresh
  · rw [h1, h2]; exact h.codesLive
  · rw [h1, h2, h5]; exact h.codes

/-- the login update of a stored request -/
def loginUpd (id subject : String) (authTime : Int) (a : AuthReq) : AuthReq :=
  if a.id == id then { a with done := true, subject := subject, authTime := authTime } else a

theorem loginUpd_id (id subject : String) (authTime : Int) (a : AuthReq) : (loginUpd id subject authTime a).id = a.id := by
  unfold loginUpd; split <;> rfl

theorem storeLookup {s : Store} {code : String} {a : AuthReq} (h : s.AuthRequestByCode code = .ok a) :
    ∃ id, (code, id) ∈ s.codes ∧ s.authReqs.find? (·.id == id) = some a := by
  unfold Store.AuthRequestByCode at h
  split at h; · simp at h
  rename_i c id hc
  split at h
  · rename_i a' ha
    simp at h; subst h
    have hm := List.mem_of_find?_eq_some hc
    have hk := List.find?_some hc
    simp at hk; subst hk
    exact ⟨id, hm, ha⟩
  · simp at h

end FlowObs

namespace FlowObs
open Go Gen Hand Flow

theorem stepObs_eq {now : Int} {s : Flow.St} {o : ObsState} {op : Flow.Op} {s' : Flow.St} {out : Flow.Out}
    (hs : Flow.step now s op = (s', out)) :
    stepObs now (s, o) op = match eventOf s s' op out with
      | none => ((s', o), (out, none, none))
      | some e => ((s', (observe now o e).1), (out, (observe now o e).2.1, (observe now o e).2.2)) := by
  simp only [stepObs, hs]

/-- what one step must deliver for the C04 induction -/
def Good04 (now : Int) (s : Flow.St) (o : ObsState) (op : Flow.Op) : Prop :=
  Inv04 (stepObs now (s, o) op).1.1 (stepObs now (s, o) op).1.2 ∧ (stepObs now (s, o) op).2.2.1 = none

theorem step_authorize (now : Int) (s : Flow.St) (a : AuthReq) (hint : FlowHint) :
    Flow.step now s (.authorize a hint) =
      match GenFlow.ValidateAuthReqIDTokenHint now (fun _ => hint.token) hint.raw (hintVerifier s) with
      | .error e => (s, .error e)
      | .ok sub =>
        ({ (s.setStore { s.store with authReqs := s.store.authReqs ++ [{ a with id := "ar" ++ toString s.nextReq, done := false, subject := sub }] }) with
            nextReq := s.nextReq + 1 }, .loginPage ("ar" ++ toString s.nextReq)) := rfl

theorem good04_authorize {now : Int} {s : Flow.St} {o : ObsState} (h : Inv04 s o) (a : AuthReq) (hint : FlowHint) :
    Good04 now s o (.authorize a hint) := by
  unfold Good04
  cases hv : GenFlow.ValidateAuthReqIDTokenHint now (fun _ => hint.token) hint.raw (hintVerifier s) with
  | error e =>
    rw [stepObs_eq (s' := s) (out := .error e) (by rw [step_authorize, hv])]
    exact ⟨h, rfl⟩
  | ok sub =>
  rw [stepObs_eq (s' := _) (out := _) (by rw [step_authorize, hv])]
  simp only [eventOf, St.store, St.setStore, List.getLast?_append, List.getLast?_singleton, Option.some_or, Option.map_some, observe]
  refine ⟨⟨?_, ?_, ?_, ?_, ?_⟩, trivial⟩
  · exact h.cfg
  · intro x hx
    simp only [St.store, St.setStore, List.mem_append, List.mem_singleton] at hx
    rcases hx with hx | hx
    · simp only [List.find?_append, h.reqs x hx, Option.some_or]
    · subst hx
      have hnone : o.reqs.find? (fun y => y.id == "ar" ++ toString s.nextReq) = none := by
        rw [List.find?_eq_none]
        intro y hy hyid
        obtain ⟨k, hk, hid⟩ := h.fresh y hy
        have : "ar" ++ toString k = "ar" ++ toString s.nextReq := by rw [← hid]; simpa using hyid
        have := ar_inj this
        omega
      simp only [List.find?_append, hnone, Option.none_or]
      simp
  · intro x hx
    simp only [List.mem_append, List.mem_singleton] at hx
    rcases hx with hx | hx
    · obtain ⟨k, hk, hid⟩ := h.fresh x hx
      exact ⟨k, by show k < s.nextReq + 1; omega, hid⟩
    · subst hx
      exact ⟨s.nextReq, by show s.nextReq < s.nextReq + 1; omega, rfl⟩
  · intro c id hc
    obtain ⟨x, hx, hid⟩ := h.codesLive c id hc
    exact ⟨x, by simp only [St.store, St.setStore, List.mem_append]; exact Or.inl hx, hid⟩
  · intro c id x hc hf
    obtain ⟨y, hy, hid⟩ := h.codesLive c id hc
    have hsome : (s.store.authReqs.find? (·.id == id)).isSome = true := find?_mem_isSome hy (by simp [hid])
    simp only [St.store, St.setStore, List.find?_append] at hf hsome
    cases hold : s.p.store.authReqs.find? (·.id == id) with
    | none => rw [hold] at hsome; simp at hsome
    | some z =>
      rw [hold] at hf; simp only [Option.some_or, Option.some.injEq] at hf; subst hf
      exact h.codes c id z hc hold

theorem good04_login {now : Int} {s : Flow.St} {o : ObsState} (h : Inv04 s o) (id subject : String) (authTime : Int) :
    Good04 now s o (.login id subject authTime) := by
  unfold Good04
  rw [stepObs_eq (s' := _) (out := _) rfl]
  simp only [eventOf, observe]
  have hfun : (fun a : AuthReq => if a.id == id then { a with done := true, subject := subject, authTime := authTime } else a)
      = loginUpd id subject authTime := rfl
  refine ⟨⟨?_, ?_, ?_, ?_, ?_⟩, trivial⟩
  · exact h.cfg
  · intro x hx
    simp only [St.store, St.setStore, hfun, List.mem_map] at hx ⊢
    obtain ⟨y, hy, rfl⟩ := hx
    rw [loginUpd_id, find?_map_same (fun z => by simp only [loginUpd_id]), h.reqs y hy]
    rfl
  · intro x hx
    simp only [hfun, List.mem_map] at hx
    obtain ⟨y, hy, rfl⟩ := hx
    rw [loginUpd_id]
    exact h.fresh y hy
  · intro c id' hc
    obtain ⟨x, hx, hid⟩ := h.codesLive c id' hc
    refine ⟨loginUpd id subject authTime x, ?_, by rw [loginUpd_id]; exact hid⟩
    simp only [St.store, St.setStore, hfun, List.mem_map]
    exact ⟨x, hx, rfl⟩
  · intro c id' x hc hf
    simp only [St.store, St.setStore, hfun] at hf hc
    rw [find?_map_same (fun z => by simp only [loginUpd_id])] at hf
    cases hold : s.p.store.authReqs.find? (·.id == id') with
    | none => rw [hold] at hf; simp at hf
    | some y =>
      rw [hold] at hf; simp only [Option.map_some, Option.some.injEq] at hf; subst hf
      obtain ⟨hd, hi⟩ := h.codes c id' y hc hold
      refine ⟨?_, ?_⟩
      · unfold loginUpd; split
        · rfl
        · exact hd
      · simp only [C04.onLogin]
        rw [find?_map_same (p := fun i : C04.Issued => i.code == c) (fun z => by split <;> rfl), hi]
        simp only [Option.map_some, loginUpd]
        split <;> rfl

end FlowObs

namespace FlowObs
open Go Gen Hand Flow

/-- `AuthorizeCallback`, as a readable function (the response-writing call on the path taken): an `AuthResponse` only for a
    stored request that is `Done()` - characterisation lemma of the regenerated definition -/
def callbackSpec (id : String) (p : Provider) : List Go.HCall :=
  if id = "" then [Go.hcall "AuthRequestError" []] else
  match p.store.authReqs.find? (·.id == id) with
  | none => [Go.hcall "AuthRequestError" []]
  | some a => if a.done = true then [Go.hcall "AuthResponse" []] else [Go.hcall "AuthRequestError" ["ErrInteractionRequired"]]

theorem authorizeCallback_eq (now : Int) (id : String) (p : Provider) : GenFlow.AuthorizeCallback now { id := id } p = callbackSpec id p := by
  unfold GenFlow.AuthorizeCallback callbackSpec
  simp only [Hand.flowParseCallback, Provider.Storage, Store.AuthRequestByID, AuthReq.Done]
  go_eq []

/-- the callback step, spelled out: the REGENERATED guard of `AuthorizeCallback` hands out a code only for a stored
    request that is `Done()` -/
theorem step_callback (now : Int) (s : Flow.St) (id code : String) :
    Flow.step now s (.callback id code) =
      if id == "" then (s, .error "ErrInvalidRequest") else
      match s.store.authReqs.find? (·.id == id) with
      | none => (s, .error "ErrInvalidRequest")
      | some a =>
        if !a.done then (s, .error "ErrInteractionRequired")
        else (s.setStore { s.store with codes := (s.store.codes.filter (·.1 != code)) ++ [(code, id)] }, .code code) := by
  simp only [Flow.step, authorizeCallback_eq, callbackSpec, Go.hcall, saveCode, St.store]
  by_cases h0 : id = ""
  · simp [h0]
  · simp only [h0, if_false, beq_iff_eq]
    cases hf : s.p.store.authReqs.find? (·.id == id) with
    | none => simp
    | some a => by_cases hd : a.done = true <;> simp [hd]

/-- ... for a non-empty id (every id the provider hands out) -/
theorem step_callback' (now : Int) (s : Flow.St) {id : String} (code : String) (hid : id ≠ "") :
    Flow.step now s (.callback id code) =
      match s.store.authReqs.find? (·.id == id) with
      | none => (s, .error "ErrInvalidRequest")
      | some a =>
        if !a.done then (s, .error "ErrInteractionRequired")
        else (s.setStore { s.store with codes := (s.store.codes.filter (·.1 != code)) ++ [(code, id)] }, .code code) := by
  rw [step_callback]
  have : (id == "") = false := by simpa using hid
  simp only [this, Bool.false_eq_true, if_false]

/-- **The guard of the callback, as regenerated from `AuthorizeCallback`:** a code is handed out only for a stored
    authorization request that is `Done()` - whatever subject an id_token_hint may have put on it -/
theorem callback_guard (now : Int) (s : Flow.St) (id code c : String) (h : (Flow.step now s (.callback id code)).2 = .code c) :
    ∃ a, s.store.authReqs.find? (·.id == id) = some a ∧ a.done = true ∧ c = code := by
  rw [step_callback] at h
  split at h
  · simp at h
  · split at h
    · simp at h
    · rename_i a hf
      by_cases hd : a.done = true
      · simp [hd] at h; exact ⟨a, hf, hd, h.symm⟩
      · simp [hd] at h

/-- what an id_token_hint can do to the pending request, as regenerated from `ValidateAuthReqIDTokenHint`: a subject on a
    pending request always comes from a token `VerifyIDTokenHint` accepted (issuer, signature by the provider's own key) - as
    valid or as merely expired; without a hint there is no subject -/
theorem validateAuthReqIDTokenHint_eq (now : Int) (tokenOf : String → Token) (raw : String) (v : Verifier) :
    GenFlow.ValidateAuthReqIDTokenHint now tokenOf raw v =
      if raw = "" then .ok "" else
      match Gen.VerifyIDTokenHint now (tokenOf raw) v with
      | .error _ => .error "ErrLoginRequired"
      | .ok o => .ok (Hand.flowHintClaims o).sub := by
  unfold GenFlow.ValidateAuthReqIDTokenHint
  simp only [Hand.flowViaToken, Claims.GetSubject]
  go_eq []

theorem hint_subject_sound (now : Int) (tokenOf : String → Token) (raw : String) (v : Verifier) (sub : String)
    (h : GenFlow.ValidateAuthReqIDTokenHint now tokenOf raw v = .ok sub) (hsub : sub ≠ "") :
    raw ≠ "" ∧ ∃ c, c.sub = sub ∧
      (Gen.VerifyIDTokenHint now (tokenOf raw) v = .ok (.valid c) ∨ ∃ e, Gen.VerifyIDTokenHint now (tokenOf raw) v = .ok (.expired c e)) := by
  rw [validateAuthReqIDTokenHint_eq] at h
  split at h
  · simp at h; exact absurd h hsub
  · rename_i hraw
    refine ⟨hraw, ?_⟩
    cases hv : Gen.VerifyIDTokenHint now (tokenOf raw) v with
    | error e => rw [hv] at h; simp at h
    | ok o =>
      rw [hv] at h
      cases o with
      | valid c => exact ⟨c, by simpa [Hand.flowHintClaims] using h, Or.inl rfl⟩
      | expired c e => exact ⟨c, by simpa [Hand.flowHintClaims] using h, Or.inr ⟨e, rfl⟩⟩

theorem good04_callback {now : Int} {s : Flow.St} {o : ObsState} (h : Inv04 s o) (id code : String) :
    Good04 now s o (.callback id code) := by
  unfold Good04
  by_cases hid0 : id = ""
  · rw [stepObs_eq (s' := s) (out := .error "ErrInvalidRequest") (by rw [step_callback]; simp [hid0])]
    exact ⟨h, rfl⟩
  cases hf : s.store.authReqs.find? (·.id == id) with
  | none =>
    rw [stepObs_eq (s' := s) (out := .error "ErrInvalidRequest") (by rw [step_callback' now s code hid0, hf])]
    exact ⟨h, rfl⟩
  | some a =>
    by_cases hd : a.done = true
    · have hid : a.id = id := by simpa using List.find?_some hf
      have hmem := List.mem_of_find?_eq_some hf
      have hobs : o.reqs.find? (·.id == id) = some a := by rw [← hid]; exact h.reqs a hmem
      rw [stepObs_eq (s' := s.setStore { s.store with codes := (s.store.codes.filter (·.1 != code)) ++ [(code, id)] }) (out := .code code)
        (by rw [step_callback' now s code hid0, hf]; simp [hd])]
      simp only [eventOf, observe, hobs, hd, if_true]
      refine ⟨⟨h.cfg, h.reqs, h.fresh, ?_, ?_⟩, trivial⟩
      · intro c id' hc
        simp only [St.store, St.setStore, List.mem_append, List.mem_filter, List.mem_singleton, Prod.mk.injEq] at hc
        rcases hc with ⟨hc, _⟩ | ⟨_, rfl⟩
        · exact h.codesLive c id' hc
        · exact ⟨a, hmem, hid⟩
      · intro c id' x hc hx
        simp only [St.store, St.setStore, List.mem_append, List.mem_filter, List.mem_singleton, Prod.mk.injEq] at hc hx
        simp only [C04.onCallback, List.find?_append]
        rcases hc with ⟨hc, hne⟩ | ⟨rfl, rfl⟩
        · have hne' : c ≠ code := by simpa using hne
          obtain ⟨hdone, hi⟩ := h.codes c id' x hc hx
          refine ⟨hdone, ?_⟩
          rw [find?_filter_of_imp (l := o.m04.issued) (p := fun i => i.code != code) (q := fun i => i.code == c)
            (by intro i hi'; have : i.code = c := by simpa using hi'
                simp [this, hne']), hi]
          rfl
        · have hx' : s.store.authReqs.find? (·.id == id') = some x := hx
          rw [hf] at hx'; cases hx'
          refine ⟨hd, ?_⟩
          rw [find?_filter_none (l := o.m04.issued) (p := fun i => i.code != c) (q := fun i => i.code == c)
            (by intro i hi'; have : i.code = c := by simpa using hi'
                simp [this])]
          simp
    · rw [stepObs_eq (s' := s) (out := .error "ErrInteractionRequired") (by rw [step_callback' now s code hid0, hf]; simp [hd])]
      exact ⟨h, rfl⟩

theorem pkce_of_verify {now : Int} {ch : CodeChallenge} {v : String} (hv : v ≠ "")
    (h : VerifyCodeChallenge now (some ch) v = true) : C04.pkceOK ch v = true := by
  obtain ⟨c, hc, hch⟩ := C04.verifyCodeChallenge_iff.1 h
  cases hc
  have hv' : (v != "") = true := by simpa using hv
  simp only [C04.pkceOK, hv', Bool.true_and]
  by_cases hm : ch.Method = "S256"
  · simp only [hm, Const.CodeChallengeMethodS256, if_true, NewSHACodeChallenge] at hch
    simp [hm, hch]
  · have hm' : ¬ ch.Method = Const.CodeChallengeMethodS256 := hm
    simp only [hm', if_false] at hch
    simp [hm, hch]

/-- the monitor accepts every successful code exchange of the model -/
theorem judge_ok {now : Int} {s : Flow.St} {o : ObsState} (h : Inv04 s o) {req : AccessTokenRequest}
    {a : AuthReq} {c : OPClient} (hl : s.p.store.AuthRequestByCode req.Code = .ok a) (hcid : c.id = a.clientID)
    (hgrant : Const.GrantTypeCode ∈ c.grants) (hred : req.RedirectURI = a.redirectURI)
    (hpk1 : a.challenge ≠ none → req.CodeVerifier ≠ "" ∧ VerifyCodeChallenge now a.challenge req.CodeVerifier = true)
    (hpk2 : c.auth = Const.AuthMethodNone → a.challenge ≠ none)
    (hauth : AuthAs now s.p req.ClientID req.ClientSecret req.ClientAssertionType req.ClientAssertion c) :
    (∀ nr, C04.judge o.m04 now (presentedCode req) (some (tokensOf a c nr)) = none) ∧
    ∃ id, (req.Code, id) ∈ s.store.codes ∧ s.store.authReqs.find? (·.id == id) = some a := by
  obtain ⟨id, hmem, hfind⟩ := storeLookup hl
  refine ⟨?_, id, hmem, hfind⟩
  obtain ⟨hdone, hiss⟩ := h.codes req.Code id a hmem hfind
  obtain ⟨hcl, _, _, _⟩ := h.cfg
  have hclient : o.m04.clients.find? (·.id == a.clientID) = some c := by
    rcases hauth with ⟨_, _, _, j, _, hget, _⟩ | ⟨_, hget, _⟩
    · rw [hcl, ← hcid]; exact (getClient_find hget).1
    · rw [hcl, ← hcid]; exact (getClient_find hget).1
  have hcaller : C04.callerIsCfg o.m04 now c (presentedCode req) = true :=
    callerIsCfg_of_authAs (pr := presentedCode req) h.cfg rfl rfl rfl hauth
  have hgr : c.grants.contains "authorization_code" = true := by simpa [Const.GrantTypeCode] using hgrant
  have hredb : (req.RedirectURI != a.redirectURI) = false := by simp [hred]
  -- every single token of the response carries the request's values (the authenticated client IS the request's client)
  have hcar : ∀ nr, (carriedOf a c nr).findSome? (C04.carriedBad a) = none := by
    intro nr
    cases nr <;> simp [carriedOf, C04.carriedBad, hcid]
  intro nr
  unfold C04.judge
  simp only [presentedCode, tokensOf] at hcaller ⊢
  simp only [hiss, hdone, hclient, hgr, hredb, Bool.false_eq_true, if_false, Bool.not_true, bne_self_eq_false]
  rw [hcaller]
  simp only [Bool.not_true, Bool.false_eq_true, if_false, hcid, bne_self_eq_false, hcar]
  cases hch : a.challenge with
  | none =>
    have : c.auth ≠ Const.AuthMethodNone := fun hn => hpk2 hn hch
    have hb : (c.auth == "none") = false := by simpa [Const.AuthMethodNone] using this
    simp only [hb, Bool.false_eq_true, if_false]
  | some ch =>
    obtain ⟨hv, hver⟩ := hpk1 (by rw [hch]; simp)
    rw [hch] at hver
    simp only [pkce_of_verify hv hver, Bool.not_true, Bool.false_eq_true, if_false]

end FlowObs

namespace FlowObs
open Go Gen Hand Flow

theorem step_exchange (now : Int) (s : Flow.St) (rt : Router) (req : AccessTokenRequest) (ha : Bool) :
    Flow.step now s (.exchange rt req ha) =
      match codeExchange now rt s.p req ha with
      | .error e => (s, .error e)
      | .ok i => (applyIssue s i, .issued i (newRefresh s i)) := rfl

theorem step_exchangeDeleteFails (now : Int) (s : Flow.St) (rt : Router) (req : AccessTokenRequest) (ha : Bool) :
    Flow.step now s (.exchangeDeleteFails rt req ha) =
      match codeExchange now rt s.p req ha with
      | .error e => (s, .error e)
      | .ok i => (if tokensBeforeDelete then mintTokens s i else s, .error "ErrServerError") := by
  show (match codeExchange now rt s.p req ha with
      | .error e => (s, Out.error e)
      | .ok i => if !deletesAuthRequest then (applyIssue s i, Out.issued i (newRefresh s i))
                 else if deleteFailureFatal then (if tokensBeforeDelete then mintTokens s i else s, Out.error "ErrServerError")
                 else (mintTokens s i, Out.issued i (newRefresh s i))) = _
  simp only [deletes_authRequest, delete_failure_fatal, Bool.not_true, Bool.false_eq_true, if_false, if_true]

theorem step_refresh (now : Int) (s : Flow.St) (rt : Router) (req : RefreshTokenRequest) (ha : Bool) :
    Flow.step now s (.refresh rt req ha) =
      match refreshExchange now rt s.p req ha with
      | .error e => (s, .error e)
      | .ok i => (applyIssue s i, .issued i (newRefresh s i)) := rfl

theorem mintedIn_self (s : Flow.St) : mintedIn s s = none := by
  unfold mintedIn
  rw [Option.map_eq_none_iff, List.find?_eq_none]
  intro r hr
  have : (s.store.refresh.find? (·.token == r.token)).isSome = true := find?_mem_isSome hr (by simp)
  cases hf : s.store.refresh.find? (·.token == r.token) with
  | none => rw [hf] at this; simp at this
  | some _ => simp

theorem judge_none (m : C04.MonState) (now : Int) (p : C04.Presented) : C04.judge m now p none = none := rfl

/-- a code exchange that was refused (or failed) leaves the C04 side alone -/
theorem good04_refused {now : Int} {s s' : Flow.St} {o : ObsState} (h : Inv04 s o) {op : Flow.Op} {e : String} {p : C04.Presented}
    {minted : Option C07.RT}
    (hs : Flow.step now s op = (s', .error e)) (hev : eventOf s s' op (.error e) = some (.exchange p none minted))
    (h1 : s'.store.authReqs = s.store.authReqs) (h2 : s'.store.codes = s.store.codes) (h3 : s'.nextReq = s.nextReq)
    (h4 : CfgEq s s') : Good04 now s o op := by
  unfold Good04
  rw [stepObs_eq hs, hev]
  simp only [observe, judge_none, and_true]
  exact h.of_same h1 h2 h3 h4 rfl rfl

theorem good04_exchange {now : Int} {s : Flow.St} {o : ObsState} (h : Inv04 s o) (rt : Router) (req : AccessTokenRequest) (ha : Bool) :
    Good04 now s o (.exchange rt req ha) := by
  cases hce : codeExchange now rt s.p req ha with
  | error e =>
    exact good04_refused h (s' := s) (e := e) (by rw [step_exchange, hce]) rfl rfl rfl rfl (CfgEq.refl s)
  | ok i =>
    obtain ⟨a, c, hi, hl, hcid, hgrant, hred, hpk1, hpk2, hauth⟩ := codeExchange_ok hce
    subst hi
    obtain ⟨hjudge, id0, hmem0, hfind0⟩ := judge_ok h hl hcid hgrant hred hpk1 hpk2 hauth
    obtain ⟨hA, hC, hN, hcfg⟩ := applyIssue_code s a c req.Code
    unfold Good04
    rw [stepObs_eq (s' := applyIssue s (.code a c req.Code)) (out := .issued (.code a c req.Code) (newRefresh s (.code a c req.Code)))
      (by rw [step_exchange, hce])]
    simp only [eventOf, observe, hjudge, and_true]
    refine ⟨h.cfg.trans hcfg, ?_, ?_, ?_, ?_⟩
    · intro x hx
      rw [hA] at hx
      exact h.reqs x (List.mem_filter.1 hx).1
    · intro x hx
      rw [hN]; exact h.fresh x hx
    · intro c' id' hc'
      rw [hC] at hc'
      obtain ⟨hc', hne⟩ := List.mem_filter.1 hc'
      obtain ⟨x, hx, hxid⟩ := h.codesLive c' id' hc'
      refine ⟨x, ?_, hxid⟩
      rw [hA]
      exact List.mem_filter.2 ⟨hx, by rw [hxid]; exact hne⟩
    · intro c' id' x hc' hx
      rw [hC] at hc'
      rw [hA] at hx
      obtain ⟨hc', hne⟩ := List.mem_filter.1 hc'
      have hne' : id' ≠ a.id := by simpa using hne
      rw [find?_filter_of_imp (l := s.store.authReqs) (p := fun y => y.id != a.id) (q := fun y => y.id == id')
        (by intro y hy; have : y.id = id' := by simpa using hy
            simp [this, hne'])] at hx
      obtain ⟨hdone, hiss⟩ := h.codes c' id' x hc' hx
      refine ⟨hdone, ?_⟩
      have hxid : x.id = id' := by simpa using List.find?_some hx
      have hcne : (c' == req.Code) = false := by
        apply Bool.eq_false_iff.2
        intro hc
        have hc : c' = req.Code := by simpa using hc
        subst hc
        have h0 := (h.codes req.Code id0 a hmem0 hfind0).2
        rw [hiss] at h0
        have : x = a := by simpa using h0
        exact hne' (by rw [← hxid, this])
      simp only [C04.onExchange, presentedCode]
      rw [find?_map_same (p := fun i : C04.Issued => i.code == c')
        (fun z => by by_cases hz : (z.code == req.Code) = true <;> simp [hz]), hiss]
      have hcne' : ¬ c' = req.Code := by simpa using hcne
      simp [hcne']

theorem good04_exchangeDeleteFails {now : Int} {s : Flow.St} {o : ObsState} (h : Inv04 s o) (rt : Router) (req : AccessTokenRequest) (ha : Bool) :
    Good04 now s o (.exchangeDeleteFails rt req ha) := by
  cases hce : codeExchange now rt s.p req ha with
  | error e =>
    exact good04_refused h (s' := s) (e := e) (by rw [step_exchangeDeleteFails, hce]) rfl rfl rfl rfl (CfgEq.refl s)
  | ok i =>
    obtain ⟨m1, m2, m3, m4⟩ := mintTokens_auth s i
    by_cases hb : tokensBeforeDelete = true
    · exact good04_refused h (s' := mintTokens s i) (e := "ErrServerError") (by rw [step_exchangeDeleteFails, hce]; simp [hb]) rfl m1 m2 m3 m4
    · exact good04_refused h (s' := s) (e := "ErrServerError") (by rw [step_exchangeDeleteFails, hce]; simp [hb]) rfl rfl rfl rfl (CfgEq.refl s)

end FlowObs

namespace FlowObs
open Go Gen Hand Flow

/-- Provider router: what `AuthorizeRefreshClient` establishes about the caller (derived from its characterisation
    `C07.authorizeRefreshClient_eq`; no regenerated definition is unfolded here) -/
theorem authorizeRefreshSpec_authAs {now : Int} {req : RefreshTokenRequest} {p : Provider} {r : RefreshReq} {c : OPClient}
    (h : C07.authorizeRefreshSpec now req p = .ok (r, c)) :
    p.store.TokenRequestByRefreshToken req.RefreshToken = .ok r ∧ Const.GrantTypeRefreshToken ∈ c.grants ∧
    AuthAs now p req.ClientID req.ClientSecret req.ClientAssertionType req.ClientAssertion c := by
  obtain ⟨h1, h2, h3⟩ := C07.authorizeRefreshSpec_ok h
  refine ⟨h1, (C04.validateGrantType_iff (now := now)).1 h2, ?_⟩
  rcases h3 with ⟨hty, hj, hpk, hk⟩ | ⟨hty, hget, hnpk, hrest⟩
  · obtain ⟨j, hj', hc, hauth, _⟩ := C14.c14_private_key_client (now := now) (t := req.ClientAssertion) (p := p) hk
    exact Or.inl ⟨hty, hpk, hj, j, hj', hc, hauth⟩
  · refine Or.inr ⟨hty, hget, ?_⟩
    rcases hrest with hn | ⟨hpost, hsec⟩
    · exact Or.inl hn
    · exact Or.inr ⟨hnpk, hpost, hsec⟩

theorem authorizeRefreshClient_authAs {now : Int} {req : RefreshTokenRequest} {p : Provider} {r : RefreshReq} {c : OPClient}
    (h : AuthorizeRefreshClient now req p = .ok (r, c)) :
    p.store.TokenRequestByRefreshToken req.RefreshToken = .ok r ∧ Const.GrantTypeRefreshToken ∈ c.grants ∧
    AuthAs now p req.ClientID req.ClientSecret req.ClientAssertionType req.ClientAssertion c := by
  rw [C07.authorizeRefreshClient_eq] at h
  exact authorizeRefreshSpec_authAs h

/-- what a refresh that the token endpoint lets through has established - either router -/
theorem refreshExchange_ok {now : Int} {rt : Router} {p : Provider} {req : RefreshTokenRequest} {ha : Bool} {i : IssueFor}
    (h : refreshExchange now rt p req ha = .ok i) :
    ∃ r0 r1 c, i = .refresh r1 c req.RefreshToken ∧ p.refreshSupported = true ∧ req.RefreshToken ≠ "" ∧
      p.store.TokenRequestByRefreshToken req.RefreshToken = .ok r0 ∧ c.id = r0.clientID ∧
      Const.GrantTypeRefreshToken ∈ c.grants ∧ ValidateRefreshTokenScopes now req.Scopes r0 = .ok r1 ∧
      AuthAs now p req.ClientID req.ClientSecret req.ClientAssertionType req.ClientAssertion c := by
  have hcur : Gen.refreshHandlerCurrent = "presented" := by decide
  cases rt with
  | provider =>
    simp only [refreshExchange, C07.validateRefreshTokenRequest_eq, issueForRefresh, hcur] at h
    by_cases hsup : p.refreshSupported = true
    · simp only [hsup, Bool.not_true, Bool.false_eq_true, if_false] at h
      cases hv : C07.validateRefreshSpec now req p with
      | error e => simp only [hv] at h; cases h
      | ok rc =>
        obtain ⟨r1, c⟩ := rc
        simp only [hv] at h
        cases h
        obtain ⟨r0, htok, hauth, hid, hsc⟩ := C07.validateRefreshSpec_ok hv
        obtain ⟨h1, h2, h3⟩ := authorizeRefreshSpec_authAs hauth
        exact ⟨r0, r1, c, rfl, hsup, htok, h1, hid, h2, by rw [C07.validateRefreshTokenScopes_eq]; exact hsc, h3⟩
    · simp [hsup] at h
  | legacy =>
    simp only [refreshExchange] at h
    split at h; · simp at h
    rename_i client hw
    split at h; · simp at h
    rename_i htok
    obtain ⟨hauth, hgrant⟩ := withClient_authAs hw (by decide) (by decide)
    rw [C07.legacyRefreshToken_eq] at h
    obtain ⟨r0, r1, hi, hsup, hlook, hid, hsc⟩ := C07.legacyRefreshSpec_ok h
    exact ⟨r0, r1, client, hi, hsup, by simpa using htok, hlook, hid, hgrant, by rw [C07.validateRefreshTokenScopes_eq]; exact hsc, hauth⟩

end FlowObs

namespace FlowObs
open Go Gen Hand Flow

theorem good04_refresh {now : Int} {s : Flow.St} {o : ObsState} (h : Inv04 s o) (rt : Router) (req : RefreshTokenRequest) (ha : Bool) :
    Good04 now s o (.refresh rt req ha) := by
  unfold Good04
  cases hre : refreshExchange now rt s.p req ha with
  | error e =>
    rw [stepObs_eq (s' := s) (out := .error e) (by rw [step_refresh, hre])]
    simp only [eventOf, observe, and_true]
    exact h.of_same rfl rfl rfl (CfgEq.refl s) rfl rfl
  | ok i =>
    obtain ⟨r0, r1, c, hi, _⟩ := refreshExchange_ok hre
    subst hi
    obtain ⟨m1, m2, m3, m4⟩ := mintTokens_auth s (.refresh r1 c req.RefreshToken)
    rw [stepObs_eq (s' := mintTokens s (.refresh r1 c req.RefreshToken))
      (out := .issued (.refresh r1 c req.RefreshToken) (newRefresh s (.refresh r1 c req.RefreshToken)))
      (by rw [step_refresh, hre]; rfl)]
    simp only [eventOf, observe, and_true]
    exact h.of_same m1 m2 m3 m4 rfl rfl

/-- one step: the invariant is kept and the C04 monitor has nothing to object -/
theorem good04_step (now : Int) {s : Flow.St} {o : ObsState} (h : Inv04 s o) (op : Flow.Op) : Good04 now s o op := by
  cases op with
  | authorize a hint => exact good04_authorize h a hint
  | login id subject authTime => exact good04_login h id subject authTime
  | callback id code => exact good04_callback h id code
  | exchange rt req ha => exact good04_exchange h rt req ha
  | exchangeDeleteFails rt req ha => exact good04_exchangeDeleteFails h rt req ha
  | refresh rt req ha => exact good04_refresh h rt req ha

theorem inv04_run (now : Int) {s : Flow.St} {o : ObsState} (h : Inv04 s o) (ops : List Flow.Op) :
    Inv04 (runObs now (s, o) ops).1.1 (runObs now (s, o) ops).1.2 ∧ ∀ x ∈ (runObs now (s, o) ops).2, x.2.1 = none := by
  induction ops generalizing s o with
  | nil => exact ⟨h, by intro x hx; cases hx⟩
  | cons op rest ih =>
    obtain ⟨hinv, hv⟩ := good04_step now h op
    obtain ⟨i1, i2⟩ := ih hinv
    refine ⟨i1, ?_⟩
    intro x hx
    simp only [runObs, List.mem_cons] at hx
    rcases hx with rfl | hx
    · exact hv
    · exact i2 x hx

/-- an initial situation: nothing is stored yet, and the observer knows the provider's registrations, issuer,
    assertion settings and whether refresh is enabled -/
structure Init (s : Flow.St) (o : ObsState) : Prop where
  cfg04 : SameCfg o.m04 s.p
  cfg07 : SameCfg o.m07.base s.p
  refreshFlag : o.m07.refreshEnabled = s.p.refreshSupported
  noReqs : s.store.authReqs = []
  noCodes : s.store.codes = []
  noRefresh : s.store.refresh = []
  obsReqs : o.reqs = []
  obsIssued : o.m04.issued = []
  obsRts : o.m07.rts = []

/-- the observer that knows exactly the configuration of `s` and nothing else -/
def obsOf (s : Flow.St) : ObsState :=
  let base : C04.MonState := { issuer := s.p.issuer, clients := s.p.store.clients, jwtMaxAgeIAT := s.p.jwtMaxAgeIAT, jwtOffset := s.p.jwtOffset }
  { m04 := base, m07 := { base := base, refreshEnabled := s.p.refreshSupported } }

theorem init_obsOf {s : Flow.St} (h1 : s.store.authReqs = []) (h2 : s.store.codes = []) (h3 : s.store.refresh = []) : Init s (obsOf s) :=
  ⟨⟨rfl, rfl, rfl, rfl⟩, ⟨rfl, rfl, rfl, rfl⟩, rfl, h1, h2, h3, rfl, rfl, rfl⟩

theorem Init.inv04 {s : Flow.St} {o : ObsState} (h : Init s o) : Inv04 s o := by
  refine ⟨h.cfg04, ?_, ?_, ?_, ?_⟩
  · rw [h.noReqs]; intro a ha; cases ha
  · rw [h.obsReqs]; intro a ha; cases ha
  · rw [h.noCodes]; intro c id hc; cases hc
  · rw [h.noCodes]; intro c id a hc; cases hc

end FlowObs

namespace C04
open FlowObs Flow

/-- **C04 over histories.**  From an initial situation (empty storage; the observer knows the same clients, issuer and
    assertion settings), for EVERY list of operations - authorize / login / callback / code exchange / code exchange with a
    failing `DeleteAuthRequest` / refresh, on either router, in any order and number - the reference monitor has nothing
    to object to any step of the model: no tokens for a code that was never handed out, was already used (single use),
    belongs to a request that is not completed, or to another client than the authenticated (public: identified) caller;
    the code grant is registered, redirect_uri equal, PKCE verified whenever the request carried a challenge and demanded
    of public clients; the tokens carry subject, client, scopes and nonce of the request; no code is handed out for an
    unknown or uncompleted request. -/
theorem c04_history (now : Int) (s : Flow.St) (o : ObsState) (h0 : Init s o) (ops : List Flow.Op) :
    ∀ x ∈ (runObs now (s, o) ops).2, x.2.1 = none :=
  (inv04_run now h0.inv04 ops).2

/-- the same from any state the invariant holds in (in particular: any state reached by a history) -/
theorem c04_history_from (now : Int) (s : Flow.St) (o : ObsState) (h : Inv04 s o) (ops : List Flow.Op) :
    Inv04 (runObs now (s, o) ops).1.1 (runObs now (s, o) ops).1.2 ∧ ∀ x ∈ (runObs now (s, o) ops).2, x.2.1 = none :=
  inv04_run now h ops

end C04

namespace FlowObs
open Go Gen Hand Flow

/-! ## Non-vacuity: concrete histories -/

def demoWeb : OPClient :=
  { id := "web", secret := "s3cret", auth := "client_secret_basic", grants := ["authorization_code", "refresh_token"],
    redirectURIs := ["https://rp.example/cb"], respTypes := ["code"] }
def demoPub : OPClient :=
  { id := "pub", auth := "none", app := 2, grants := ["authorization_code", "refresh_token"],
    redirectURIs := ["https://rp.example/cb"], respTypes := ["code"] }

def demoState : Flow.St :=
  { p := { store := { clients := [demoWeb, demoPub] }, issuer := "https://op.example", refreshSupported := true, postSupported := true } }

def demoAuthorize : Flow.Op :=
  .authorize { clientID := "web", redirectURI := "https://rp.example/cb", scopes := ["openid", "email", "offline_access"], nonce := "n-1" } {}
def demoExchange (rt : Router) : Flow.Op :=
  .exchange rt { Code := "c1", RedirectURI := "https://rp.example/cb", ClientID := "web", ClientSecret := "s3cret" } false
def demoRefresh (rt : Router) (tok : String) (scopes : List String) : Flow.Op :=
  .refresh rt { RefreshToken := tok, Scopes := scopes, ClientID := "web", ClientSecret := "s3cret" } false

/-- authorize, login, callback, a correct exchange, a narrowing refresh, and a replay of the code -/
def demoOps (rt : Router) : List Flow.Op :=
  [demoAuthorize, .login "ar1" "user1" 1000, .callback "ar1" "c1", demoExchange rt, demoRefresh rt "rt1" ["openid", "email"], demoExchange rt]

/-- the kind of an output, without identifiers -/
def outKind : Flow.Out → String
  | .loginPage _ => "login"
  | .done => "done"
  | .code _ => "code"
  | .issued (.code _ _ _) _ => "tokens"
  | .issued (.refresh _ _ _) _ => "refreshed"
  | .error e => "error:" ++ e

def showOutShort : Flow.Out → String
  | .loginPage id => "login:" ++ id
  | .done => "done"
  | .code c => "code:" ++ c
  | .issued (.code a c _) nr => "tokens:" ++ a.subject ++ ":" ++ c.id ++ ":" ++ nr.getD "-"
  | .issued (.refresh r c _) nr => "refreshed:" ++ r.subject ++ ":" ++ c.id ++ ":" ++ " ".intercalate r.scopes ++ ":" ++ nr.getD "-"
  | .error e => "error:" ++ e

end FlowObs

/-! ## Single use -/

namespace FlowObs
open Go Gen Hand Flow

/-- the monitor regards `code` as spent: whatever it remembers about it is marked used -/
def Spent (m : C04.MonState) (code : String) : Prop :=
  ∀ i, m.issued.find? (·.code == code) = some i → i.used = true

theorem spent_onExchange (m : C04.MonState) (p : C04.Presented) (tk : C04.Tokens) : Spent (C04.onExchange m p (some tk)) p.code := by
  intro i hi
  simp only [C04.onExchange] at hi
  rw [find?_map_same (p := fun i : C04.Issued => i.code == p.code)
    (fun z => by by_cases hz : (z.code == p.code) = true <;> simp [hz])] at hi
  cases hf : m.issued.find? (·.code == p.code) with
  | none => rw [hf] at hi; simp at hi
  | some j =>
    rw [hf] at hi
    have hj := List.find?_some hf
    simp only [Option.map_some, Option.some.injEq] at hi
    subst hi
    simp [hj]

/-- only handing out `code` again un-spends it -/
theorem spent_observe {now : Int} {o : ObsState} {code : String} (h : Spent o.m04 code) (e : Event)
    (hne : ∀ id, e ≠ .code id code) : Spent (observe now o e).1.m04 code := by
  cases e with
  | accepted a => exact h
  | login id subject authTime =>
    intro i hi
    simp only [observe, C04.onLogin] at hi
    rw [find?_map_same (p := fun i : C04.Issued => i.code == code) (fun z => by split <;> rfl)] at hi
    cases hf : o.m04.issued.find? (·.code == code) with
    | none => rw [hf] at hi; simp at hi
    | some j =>
      rw [hf] at hi
      simp only [Option.map_some, Option.some.injEq] at hi
      subst hi
      have := h j hf
      split <;> simpa using this
  | code id c =>
    have hc : c ≠ code := fun hc => hne id (by rw [hc])
    simp only [observe]
    split
    · intro i hi
      simp only [C04.onCallback, List.find?_append] at hi
      rw [find?_filter_of_imp (l := o.m04.issued) (p := fun i => i.code != c) (q := fun i => i.code == code)
        (by intro z hz; have : z.code = code := by simpa using hz
            simp [this, Ne.symm hc])] at hi
      cases hf : o.m04.issued.find? (·.code == code) with
      | none =>
        rw [hf] at hi
        have : (c == code) = false := by simpa using hc
        simp [this] at hi
      | some j =>
        rw [hf] at hi
        simp only [Option.some_or, Option.some.injEq] at hi
        subst hi; exact h j hf
    · exact h
  | exchange p obs minted =>
    cases obs with
    | none => exact h
    | some tk =>
      intro i hi
      simp only [observe, C04.onExchange] at hi
      rw [find?_map_same (p := fun i : C04.Issued => i.code == code)
        (fun z => by by_cases hz : (z.code == p.code) = true <;> simp [hz])] at hi
      cases hf : o.m04.issued.find? (·.code == code) with
      | none => rw [hf] at hi; simp at hi
      | some j =>
        rw [hf] at hi
        simp only [Option.map_some, Option.some.injEq] at hi
        subst hi
        have := h j hf
        split <;> simp [this]
  | refresh p rt requested obs err created => exact h

/-- the events of the model name the code of the operation: a `.code` event for `code` needs a `callback … code` -/
theorem eventOf_code {s : Flow.St} {op : Flow.Op} {now : Int} {id code : String}
    (h : eventOf s (Flow.step now s op).1 op (Flow.step now s op).2 = some (.code id code)) :
    op = .callback id code := by
  cases op with
  | callback id' code' =>
    rw [step_callback] at h
    split at h
    · simp [eventOf] at h
    · split at h
      · simp [eventOf] at h
      · split at h
        · simp [eventOf] at h
        · simp only [eventOf, Option.some.injEq, Event.code.injEq] at h
          rw [h.1, h.2]
  | authorize a hint =>
    rw [step_authorize] at h
    split at h
    · simp [eventOf] at h
    · simp [eventOf] at h
  | login a b c => simp [eventOf] at h
  | exchange rt req ha =>
    rw [step_exchange] at h
    split at h
    · simp [eventOf] at h
    · rename_i i _
      cases i <;> simp [eventOf] at h
  | exchangeDeleteFails rt req ha =>
    rw [step_exchangeDeleteFails] at h
    split at h <;> simp [eventOf] at h
  | refresh rt req ha =>
    rw [step_refresh] at h
    split at h
    · simp [eventOf] at h
    · rename_i i _
      cases i <;> simp [eventOf] at h

theorem spent_run {now : Int} {code : String} (ops : List Flow.Op) (hno : ∀ id, Flow.Op.callback id code ∉ ops)
    {s : Flow.St} {o : ObsState} (h : Spent o.m04 code) : Spent (runObs now (s, o) ops).1.2.m04 code := by
  induction ops generalizing s o with
  | nil => exact h
  | cons op rest ih =>
    have hrest : ∀ id, Flow.Op.callback id code ∉ rest := fun id hm => hno id (List.mem_cons_of_mem _ hm)
    have hstep : Spent (stepObs now (s, o) op).1.2.m04 code := by
      simp only [stepObs]
      cases hev : eventOf s (Flow.step now s op).1 op (Flow.step now s op).2 with
      | none => exact h
      | some e =>
        apply spent_observe h e
        intro id he
        subst he
        have := eventOf_code hev
        exact hno id (by rw [this]; exact List.mem_cons_self)
    exact ih hrest hstep

end FlowObs

namespace C04
open FlowObs Flow

/-- after a successful exchange the code is consumed: it no longer resolves in the storage, and the monitor
    regards it as spent -/
theorem c04_consumed (now : Int) {s : Flow.St} {o : ObsState} (h : Inv04 s o) (rt : Router) (req : AccessTokenRequest) (ha : Bool)
    (i : IssueFor) (nr : Option String) (hok : (Flow.step now s (.exchange rt req ha)).2 = .issued i nr) :
    (∃ e, (Flow.step now s (.exchange rt req ha)).1.p.store.AuthRequestByCode req.Code = .error e) ∧
    Spent (stepObs now (s, o) (.exchange rt req ha)).1.2.m04 req.Code := by
  rw [step_exchange] at hok ⊢
  cases hce : codeExchange now rt s.p req ha with
  | error e => rw [hce] at hok; simp at hok
  | ok i' =>
    obtain ⟨a, c, hi, hl, hcid, hgrant, hred, hpk1, hpk2, hauth⟩ := codeExchange_ok hce
    subst hi
    obtain ⟨_, id0, hmem0, hfind0⟩ := judge_ok h hl hcid hgrant hred hpk1 hpk2 hauth
    obtain ⟨hA, hC, _, _⟩ := applyIssue_code s a c req.Code
    constructor
    · simp only []
      have hA' : (applyIssue s (.code a c req.Code)).p.store.authReqs = s.store.authReqs.filter (·.id != a.id) := hA
      have hC' : (applyIssue s (.code a c req.Code)).p.store.codes = s.store.codes.filter (·.2 != a.id) := hC
      unfold Store.AuthRequestByCode
      rw [hA', hC']
      cases hf : (s.store.codes.filter (·.2 != a.id)).find? (·.1 == req.Code) with
      | none => exact ⟨_, rfl⟩
      | some ci =>
        obtain ⟨c', id'⟩ := ci
        have hm := List.mem_filter.1 (List.mem_of_find?_eq_some hf)
        have hc' : c' = req.Code := by simpa using List.find?_some hf
        subst hc'
        have hne : id' ≠ a.id := by simpa using hm.2
        simp only []
        rw [find?_filter_of_imp (l := s.store.authReqs) (p := fun y => y.id != a.id) (q := fun y => y.id == id')
          (by intro y hy; have : y.id = id' := by simpa using hy
              simp [this, hne])]
        cases hx : s.store.authReqs.find? (·.id == id') with
        | none => exact ⟨_, rfl⟩
        | some x =>
          exfalso
          have h1 := (h.codes req.Code id' x hm.1 hx).2
          have h0 := (h.codes req.Code id0 a hmem0 hfind0).2
          rw [h1] at h0
          have hxa : x = a := by simpa using h0
          have hxid : x.id = id' := by simpa using List.find?_some hx
          exact hne (by rw [← hxid, hxa])
    · rw [stepObs_eq (s' := applyIssue s (.code a c req.Code)) (out := .issued (.code a c req.Code) (newRefresh s (.code a c req.Code)))
        (by rw [step_exchange, hce])]
      simp only [eventOf, observe]
      exact spent_onExchange o.m04 (presentedCode req) _

/-- **Single use.**  In any history, two successful exchanges of the same code string are separated by a callback that
    hands out that code (again): `pre`, a successful exchange of `req1.Code`, `mid`, a successful exchange of the same code
    string - then `mid` contains a `callback … code`. -/
theorem c04_single_use (now : Int) (s : Flow.St) (hr : s.store.authReqs = []) (hc : s.store.codes = []) (hrt : s.store.refresh = [])
    (pre mid : List Flow.Op) (rt1 rt2 : Router) (req1 req2 : AccessTokenRequest) (ha1 ha2 : Bool) (i1 i2 : IssueFor) (n1 n2 : Option String)
    (h1 : (Flow.step now (Flow.run now s pre).1 (.exchange rt1 req1 ha1)).2 = .issued i1 n1)
    (h2 : (Flow.step now (Flow.run now (Flow.step now (Flow.run now s pre).1 (.exchange rt1 req1 ha1)).1 mid).1 (.exchange rt2 req2 ha2)).2 = .issued i2 n2)
    (hcode : req2.Code = req1.Code) :
    ∃ id, Flow.Op.callback id req1.Code ∈ mid := by
  apply Classical.byContradiction
  intro hno
  have hno' : ∀ id, Flow.Op.callback id req1.Code ∉ mid := fun id hm => hno ⟨id, hm⟩
  -- run the observer alongside
  have hinit := (init_obsOf hr hc hrt).inv04
  obtain ⟨hinv1, _⟩ := inv04_run now hinit pre
  rw [(runObs_run now s (obsOf s) pre).1] at hinv1
  obtain ⟨_, hspent⟩ := c04_consumed now hinv1 rt1 req1 ha1 i1 n1 h1
  obtain ⟨hinv2, _⟩ := good04_step now hinv1 (.exchange rt1 req1 ha1)
  have e2 : ∀ (s1 : Flow.St) (o1 : ObsState) (op : Flow.Op), (stepObs now (s1, o1) op).1.1 = (Flow.step now s1 op).1 := by
    intro s1 o1 op
    simp only [stepObs]; cases eventOf s1 (Flow.step now s1 op).1 op (Flow.step now s1 op).2 <;> rfl
  rw [e2] at hinv2
  have hspent3 := spent_run (now := now) mid hno' (s := (Flow.step now (Flow.run now s pre).1 (.exchange rt1 req1 ha1)).1) hspent
  obtain ⟨hinv3, _⟩ := inv04_run now hinv2 mid
  rw [(runObs_run now _ _ mid).1] at hinv3
  -- the second exchange succeeds: the monitor must find the code issued and unused
  rw [step_exchange] at h2
  cases hce : codeExchange now rt2 (Flow.run now (Flow.step now (Flow.run now s pre).1 (.exchange rt1 req1 ha1)).1 mid).1.p req2 ha2 with
  | error e => rw [hce] at h2; simp at h2
  | ok i' =>
    obtain ⟨a, c, hi, hl, hcid, hgrant, hred, hpk1, hpk2, hauth⟩ := codeExchange_ok hce
    obtain ⟨_, id0, hmem0, hfind0⟩ := judge_ok hinv3 hl hcid hgrant hred hpk1 hpk2 hauth
    have := (hinv3.codes req2.Code id0 a hmem0 hfind0).2
    rw [hcode] at this
    have hu := hspent3 _ this
    simp at hu

end C04

namespace FlowObs
open Go Gen Hand Flow

/-- every step of the model is an event for the observer, except the two that hand out nothing: a callback that ended in an
    error and an authorization request that was refused (invalid id_token_hint): the history theorems do not skip anything -/
theorem eventOf_complete (now : Int) (s : Flow.St) (op : Flow.Op)
    (h : eventOf s (Flow.step now s op).1 op (Flow.step now s op).2 = none) :
    (∃ e, (Flow.step now s op).2 = .error e) ∧ ((∃ id code, op = .callback id code) ∨ (∃ a hint, op = .authorize a hint)) := by
  cases op with
  | callback id code =>
    refine ⟨?_, Or.inl ⟨id, code, rfl⟩⟩
    by_cases hid0 : id = ""
    · rw [step_callback]; simp [hid0]
    · rw [step_callback' now s code hid0] at h ⊢
      cases hf : s.store.authReqs.find? (·.id == id) with
      | none => exact ⟨_, rfl⟩
      | some a =>
        rw [hf] at h
        by_cases hd : a.done = true
        · simp [hd, eventOf] at h
        · simp [hd]
  | authorize a hint =>
    refine ⟨?_, Or.inr ⟨a, hint, rfl⟩⟩
    rw [step_authorize] at h ⊢
    split
    · exact ⟨_, rfl⟩
    · rename_i sub hv
      rw [hv] at h
      simp [eventOf, St.store, St.setStore] at h
  | login a b c => simp [eventOf] at h
  | exchange rt req ha =>
    rw [step_exchange] at h
    cases hce : codeExchange now rt s.p req ha with
    | error e => rw [hce] at h; simp [eventOf] at h
    | ok i =>
      obtain ⟨a, c, hi, _⟩ := codeExchange_ok hce
      subst hi; rw [hce] at h; simp [eventOf] at h
  | exchangeDeleteFails rt req ha =>
    rw [step_exchangeDeleteFails] at h
    split at h <;> simp [eventOf] at h
  | refresh rt req ha =>
    rw [step_refresh] at h
    cases hre : refreshExchange now rt s.p req ha with
    | error e => rw [hre] at h; simp [eventOf] at h
    | ok i =>
      obtain ⟨r0, r1, c, hi, _⟩ := refreshExchange_ok hre
      subst hi; rw [hre] at h; simp [eventOf] at h

end FlowObs

namespace C04
open FlowObs Flow

/-! Non-vacuity: a concrete history (both routers) with a successful exchange and a successful narrowing refresh that the
    observer accepts, followed by a replay of the code that is refused - and the premises of `c04_history` hold for it. -/
example : Init demoState (obsOf demoState) := init_obsOf rfl rfl rfl

example : ((runObs 0 (demoState, obsOf demoState) (demoOps .provider)).2.map fun x => (showOutShort x.1, x.2.1, x.2.2)) =
  [("login:ar1", none, none), ("done", none, none), ("code:c1", none, none), ("tokens:user1:web:rt1", none, none),
   ("refreshed:user1:web:openid email:rt2", none, none), ("error:ErrInvalidGrant", none, none)] := by decide

example : ((runObs 0 (demoState, obsOf demoState) (demoOps .legacy)).2.map fun x => (showOutShort x.1, x.2.1, x.2.2)) =
  [("login:ar1", none, none), ("done", none, none), ("code:c1", none, none), ("tokens:user1:web:rt1", none, none),
   ("refreshed:user1:web:openid email:rt2", none, none), ("error:ErrInvalidGrant", none, none)] := by decide

/-- the monitor is not trivially silent: had the provider answered the replay with tokens, it would object -/
example :
    let o := (runObs 0 (demoState, obsOf demoState) ((demoOps .provider).take 4)).1.2
    (observe 0 o (.exchange { clientID := "web", secret := "s3cret", code := "c1", redirectURI := "https://rp.example/cb" }
      (some { subject := "user1", client := "web", scopes := ["openid", "email", "offline_access"], nonce := "n-1" }) none)).2.1
      = some "code-replayed" := by decide

/-- ... and tokens for another client than the code's are flagged -/
example :
    let o := (runObs 0 (demoState, obsOf demoState) ((demoOps .provider).take 3)).1.2
    (observe 0 o (.exchange { clientID := "pub", code := "c1", redirectURI := "https://rp.example/cb" }
      (some { subject := "user1", client := "pub", scopes := ["openid", "email", "offline_access"], nonce := "n-1" }) none)).2.1
      = some "caller-is-not-the-code's-client" := by decide

/-- a login AFTER the code was handed out: the tokens carry the later subject, and the observer follows the request -/
example : ((runObs 0 (demoState, obsOf demoState)
      [demoAuthorize, .login "ar1" "user1" 1000, .callback "ar1" "c1", .login "ar1" "user2" 2000, demoExchange .provider]).2.map
      fun x => (showOutShort x.1, x.2.1)) =
  [("login:ar1", none), ("done", none), ("code:c1", none), ("done", none), ("tokens:user2:web:rt1", none)] := by decide

/-- the storage fault: no tokens, the code survives, a later exchange succeeds - once (whichever refresh-token number the
    storage is at by then: that depends on whether it had created tokens before the deletion failed) -/
example : ((runObs 0 (demoState, obsOf demoState)
      [demoAuthorize, .login "ar1" "user1" 1000, .callback "ar1" "c1",
       .exchangeDeleteFails .legacy { Code := "c1", RedirectURI := "https://rp.example/cb", ClientID := "web", ClientSecret := "s3cret" } false,
       demoExchange .legacy, demoExchange .legacy]).2.map fun x => (outKind x.1, x.2.1, x.2.2)) =
  [("login", none, none), ("done", none, none), ("code", none, none), ("error:ErrServerError", none, none),
   ("tokens", none, none), ("error:ErrInvalidGrant", none, none)] := by decide

/-! Hinted requests: an `id_token_hint` puts its subject on the pending request (valid and expired alike), and the callback
    still refuses the request until somebody logged in. -/

def demoOPKey : JWK := { KeyID := "sig1", Use := "sig", kty := .rsa, keyNo := 0 }
def demoHintState : Flow.St := { demoState with hintKeys := { kind := .published, keys := [demoOPKey] } }
/-- an ID token of this provider for user `victim`, signed by key pair `signer` -/
def demoHintTok (signer : Nat) (exp iat : Int) : Token :=
  let p : Payload := { bytes := 1, claims := some { iss := "https://op.example", sub := "victim", aud := ["web"], azp := "web", exp := exp, iat := iat } }
  let hdr : JHeader := { Algorithm := "RS256", KeyID := "sig1" }
  { segs := 3, middle := some p, jws := some { Signatures := [{ Header := hdr, signer := some signer, signedAlg := "RS256", signedBytes := 1, signedHdr := hdr }], payload := p } }
def demoNow : Int := 2000000100 * Go.second
def demoAuthorizeHinted (t : Token) : Flow.Op :=
  .authorize { clientID := "web", redirectURI := "https://rp.example/cb", scopes := ["openid"], nonce := "n-1" } { raw := "hint", token := t }
def demoExchangeAt (rt : Router) : Flow.Op :=
  .exchange rt { Code := "c1", RedirectURI := "https://rp.example/cb", ClientID := "web", ClientSecret := "s3cret" } false

/-- a VALID hint, no login: the request carries the victim's subject, the callback is refused, no code exists, the exchange
    fails - on both routers; the observer has nothing to object -/
example : ∀ rt : Router,
    let r := runObs demoNow (demoHintState, obsOf demoHintState)
      [demoAuthorizeHinted (demoHintTok 0 2000003600 2000000000), .callback "ar1" "c1", demoExchangeAt rt]
    r.2.map (fun x => (showOutShort x.1, x.2.1)) =
      [("login:ar1", none), ("error:ErrInteractionRequired", none), ("error:ErrInvalidGrant", none)] ∧
    r.1.1.store.authReqs.map (fun a => (a.subject, a.done)) = [("victim", false)] := by
  intro rt; cases rt <;> decide

/-- an EXPIRED hint: whatever the provider makes of it (the code that exists accepts it and stores the subject), no code
    is handed out without a login and the observer has nothing to object -/
example :
    let r := runObs demoNow (demoHintState, obsOf demoHintState) [demoAuthorizeHinted (demoHintTok 0 1000003600 1000000000), .callback "ar1" "c1"]
    r.2.map (fun x => (outKind x.1 == "code", x.2.1)) = [(false, none), (false, none)] ∧
    r.1.1.store.authReqs.all (fun a => !a.done) = true := by decide

/-- a hint signed with another key refuses the request (login_required); nothing is stored -/
example :
    let r := runObs demoNow (demoHintState, obsOf demoHintState) [demoAuthorizeHinted (demoHintTok 5 2000003600 2000000000), .callback "ar1" "c1"]
    r.2.map (fun x => (showOutShort x.1, x.2.1)) = [("error:ErrLoginRequired", none), ("error:ErrInvalidRequest", none)] ∧
    r.1.1.store.authReqs = [] := by decide

/-- after the login the hinted request completes, and the tokens carry the subject that logged in -/
example : ((runObs demoNow (demoHintState, obsOf demoHintState)
      [demoAuthorizeHinted (demoHintTok 0 2000003600 2000000000), .callback "ar1" "c1", .login "ar1" "user1" 1000, .callback "ar1" "c1",
       demoExchangeAt .legacy]).2.map fun x => (showOutShort x.1, x.2.1)) =
    [("login:ar1", none), ("error:ErrInteractionRequired", none), ("done", none), ("code:c1", none), ("tokens:user1:web:-", none)] := by decide

/-- the monitor is not silent about it: a code handed out for the hinted request nobody logged in on, and tokens for it, are flagged -/
example :
    let o := (runObs demoNow (demoHintState, obsOf demoHintState) [demoAuthorizeHinted (demoHintTok 0 2000003600 2000000000)]).1.2
    (observe demoNow o (.code "ar1" "c1")).2.1 = some "code-for-uncompleted-request" ∧
    (observe demoNow (observe demoNow o (.code "ar1" "c1")).1
      (.exchange { clientID := "web", secret := "s3cret", code := "c1", redirectURI := "https://rp.example/cb" }
        (some { subject := "victim", client := "web", scopes := ["openid"], nonce := "n-1" }) none)).2.1 = some "request-not-completed" := by decide

/-! An unusual but legal registration: application type WEB with auth method NONE.  It is a public client for the token
    endpoint: a code of a request without challenge is not redeemable with the bare client_id, on either router. -/
def demoSpa : OPClient :=
  { id := "spa", auth := "none", app := 0, grants := ["authorization_code"], redirectURIs := ["https://rp.example/cb"], respTypes := ["code"] }
def demoSpaState : Flow.St := { demoState with p := { demoState.p with store := { clients := [demoWeb, demoPub, demoSpa] } } }

example : ∀ rt : Router, ((runObs 0 (demoSpaState, obsOf demoSpaState)
      [.authorize { clientID := "spa", redirectURI := "https://rp.example/cb", scopes := ["openid"] } {}, .login "ar1" "user1" 1000, .callback "ar1" "c1",
       .exchange rt { Code := "c1", RedirectURI := "https://rp.example/cb", ClientID := "spa" } false]).2.map fun x => (showOutShort x.1, x.2.1)) =
    [("login:ar1", none), ("done", none), ("code:c1", none), ("error:ErrInvalidRequest", none)] := by
  intro rt; cases rt <;> decide

/-- ... and the monitor would object to tokens for it -/
example :
    let o := (runObs 0 (demoSpaState, obsOf demoSpaState)
      [.authorize { clientID := "spa", redirectURI := "https://rp.example/cb", scopes := ["openid"] } {}, .login "ar1" "user1" 1000, .callback "ar1" "c1"]).1.2
    (observe 0 o (.exchange { clientID := "spa", code := "c1", redirectURI := "https://rp.example/cb" }
      (some { subject := "user1", client := "spa", scopes := ["openid"], nonce := "" }) none)).2.1 = some "pkce" := by decide

end C04
