/-
  C11, the statement lists of AuthRequestError / TryErrorRedirect read for the VALUE of the error (see Proofs/C11Len.lean for the
  composition with DefaultToServerError).  This file imports NO translated function: only the model of the statement lists
  (Model/ErrPar.lean) and the regenerated lists themselves (Generated/AuthErrorProg.lean), so `c11_error_only_request_fields_written`
  is checked - and fails by name - also when the functional translation of the two functions does not build.
-/
import OidcModel.Model.C11ErrVal
import OidcModel.Generated.AuthErrorProg

namespace C11
namespace ErrVal
open ErrPar (Op)

theorem setF_keeps (f : String) (v : EObj → EObj) (o : EObj) (h : (f = "State" || f = "SessionState") = true) :
    (setF f v o).ty = o.ty ∧ (setF f v o).desc = o.desc := by
  unfold setF
  by_cases h1 : f = "State"
  · simp [h1]
  · by_cases h2 : f = "SessionState"
    · simp [h2]
    · simp [h1, h2] at h

/-- **induction over the statement list**: as long as only request fields are written, whatever is handed to the encoder has
    the code and the description the object had at the start — for every list, every start object, all assigned values -/
theorem exec_keeps (v : Nat → EObj → EObj) (e0 : EObj) :
    ∀ (p : List Op) (n : Nat) (cur : EObj) (sent : Option EObj), p.all requestFieldOp = true →
      (cur.ty = e0.ty ∧ cur.desc = e0.desc) → (∀ s, sent = some s → s.ty = e0.ty ∧ s.desc = e0.desc) →
      ∀ s, exec v p n cur sent = some s → s.ty = e0.ty ∧ s.desc = e0.desc := by
  intro p
  induction p with
  | nil => intro n cur sent _ _ hs s h; exact hs s h
  | cons o r ih =>
    intro n cur sent hp hc hs s h
    simp only [List.all_cons, Bool.and_eq_true] at hp
    obtain ⟨ho, hr⟩ := hp
    cases o with
    | copy => exact ih (n + 1) cur sent hr hc hs s h
    | fresh => simp [requestFieldOp] at ho
    | unsupported src => simp [requestFieldOp] at ho
    | set t f =>
      have hk := setF_keeps f (v n) cur (by simpa [requestFieldOp] using ho)
      exact ih (n + 1) (setF f (v n) cur) sent hr ⟨hk.1.trans hc.1, hk.2.trans hc.2⟩ hs s h
    | encode t =>
      refine ih (n + 1) cur (some cur) hr hc ?_ s h
      intro s' hs'; cases hs'; exact hc

/-- a list that hands the error to the encoder does answer -/
theorem exec_sends (v : Nat → EObj → EObj) :
    ∀ (p : List Op) (n : Nat) (cur : EObj) (sent : Option EObj),
      (p.any (fun o => match o with | .encode _ => true | _ => false) = true ∨ sent.isSome = true) →
      (exec v p n cur sent).isSome = true := by
  intro p
  induction p with
  | nil =>
    intro n cur sent h
    rcases h with h | h
    · simp at h
    · simpa [exec] using h
  | cons o r ih =>
    intro n cur sent h
    cases o with
    | copy => exact ih _ _ _ (by simpa using h)
    | fresh => exact ih _ _ _ (by simpa using h)
    | unsupported src => exact ih _ _ _ (by simpa using h)
    | set t f => exact ih _ _ _ (by simpa using h)
    | encode t => exact ih (n + 1) cur (some cur) (Or.inr rfl)

/-- every list that writes request fields only: the encoder receives an error with the code and description of the start object -/
theorem exec_onlyRequestFields (v : Nat → EObj → EObj) (p : List Op) (h : onlyRequestFields p = true) (e0 : EObj) :
    ∃ s, exec v p 0 e0 none = some s ∧ s.ty = e0.ty ∧ s.desc = e0.desc := by
  simp only [onlyRequestFields, Bool.and_eq_true] at h
  have hs := exec_sends v p 0 e0 none (Or.inl h.2)
  cases hx : exec v p 0 e0 none with
  | none => simp [hx] at hs
  | some s => exact ⟨s, rfl, exec_keeps v e0 p 0 e0 none h.1 ⟨rfl, rfl⟩ (by intro s' hs'; cases hs') s hx⟩

end ErrVal

open ErrVal in
/-- **regenerated fact**: between `DefaultToServerError` and `AuthResponseURL` both functions assign `State` and `SessionState`
    and nothing else (no `Description`, no `ErrorType`, no mutator method, no statement factgen does not understand), and they do
    hand the error to the encoder.  FALSE for a variant that passes the description through a helper first
    (`e.Description = redirectDescription(e.Description)` is `.set _ "Description"` in the list). -/
theorem c11_error_only_request_fields_written :
    onlyRequestFields GenErrProg.authRequestErrorProgram = true ∧ onlyRequestFields GenErrProg.tryErrorRedirectProgram = true := by
  decide

end C11
