/-
  C06 (round 4) — ONE fetch of the signing key per token, with the storage as a state-passing oracle.
-/
import OidcModel.Proofs.C06Keys
import OidcModel.Generated.IssueC06O

set_option linter.unusedSimpArgs false

namespace C06

/-- the one-value-per-method storage that answers every call of `CreateIDToken` the way the oracle `s` answers it AT THE MOMENT
    THE CALL IS MADE: the signing key is the answer to the first call; the userinfo setters are asked after it -/
def idView (s : IssOStorage) : IssStorage :=
  { is_TokenExchangeStorage := s.is_TokenExchangeStorage,
    is_CanSetUserinfoFromRequest := s.is_CanSetUserinfoFromRequest,
    is_CanGetPrivateClaimsFromRequest := s.is_CanGetPrivateClaimsFromRequest,
    SigningKey := s.signingKeyAt s.log,
    SetUserinfoFromTokenExchangeRequest := s.setUserinfoFromTokenExchangeRequestAt (s.log ++ ["SigningKey"]),
    SetUserinfoFromScopes := s.setUserinfoFromScopesAt (s.log ++ ["SigningKey"]),
    SetUserinfoFromRequest := s.setUserinfoFromRequestAt (s.log ++ ["SigningKey"] ++ ["SetUserinfoFromScopes"]) }

theorem c06o_id_token_bridge (now : Int) (issuer : String) (request : IssRequest) (validity : Int) (accessToken code : String)
    (s : IssOStorage) (client : IssClient) :
    GenC06O.CreateIDToken now issuer request validity accessToken code s client
      = GenC06.CreateIDToken now issuer request validity accessToken code (idView s) client := by
  unfold GenC06O.CreateIDToken GenC06.CreateIDToken
  simp only [IssOStorage.SigningKey, IssOStorage.SetUserinfoFromScopes, IssOStorage.SetUserinfoFromRequest,
    IssOStorage.SetUserinfoFromTokenExchangeRequest, IssOStorage.answer, idView, Hand.issSignAny]
  generalize Hand.issNewIDTokenClaims _ _ _ _ _ _ _ _ _ _ _ = c0
  generalize (if request.is_TokenActorRequest = true then _ else c0) = c1
  cases hk : s.signingKeyAt s.log with
  | error e => rfl
  | ok k =>
    simp only [IssOStorage.stepped_log, IssOStorage.stepped_te, IssOStorage.stepped_uireq, IssOStorage.stepped_key,
      IssOStorage.stepped_uis, IssOStorage.stepped_uir, IssOStorage.stepped_uite]
    generalize (if (accessToken != "") = true then _ else _ : Go.R (IssIDTokenClaims × List String)) = X
    rcases X with e | ⟨claims, scopes⟩
    · rfl
    · simp only []
      by_cases hA : (request.is_TokenExchangeRequest && s.is_TokenExchangeStorage) = true
      · simp only [hA, ↓reduceIte]
        generalize s.setUserinfoFromTokenExchangeRequestAt _ _ _ = r
        cases r <;> rfl
      · simp only [hA, ↓reduceIte]
        by_cases hS : decide (Go.len scopes > 0) = true
        · simp only [hS, ↓reduceIte]
          generalize s.setUserinfoFromScopesAt _ _ _ _ _ = r
          cases r with
          | error e => rfl
          | ok u =>
            simp only [IssOStorage.stepped_log, IssOStorage.stepped_uireq, IssOStorage.stepped_uir, List.append_assoc, List.cons_append, List.nil_append]
            by_cases hR : s.is_CanSetUserinfoFromRequest = true
            · simp only [hR, ↓reduceIte]
              generalize s.setUserinfoFromRequestAt _ _ _ _ = r
              cases r <;> rfl
            · simp only [hR, ↓reduceIte]
              rfl
        · simp only [hS, ↓reduceIte]
          rfl

/-- which private-claims method `CreateJWT` asks for this request and storage -/
def privMethod (s : IssOStorage) (request : IssRequest) : String :=
  if (request.is_TokenExchangeRequest && s.is_TokenExchangeStorage) = true then "GetPrivateClaimsFromTokenExchangeRequest"
  else if s.is_CanGetPrivateClaimsFromRequest = true then "GetPrivateClaimsFromRequest" else "GetPrivateClaimsFromScopes"

/-- the one-value-per-method storage that answers every call of `CreateJWT` the way the oracle answers it at the moment the call
    is made: the private claims first (if there is a client), the signing key LAST -/
def jwtView (s : IssOStorage) (client : IssClient) (request : IssRequest) : IssStorage :=
  { is_TokenExchangeStorage := s.is_TokenExchangeStorage,
    is_CanSetUserinfoFromRequest := s.is_CanSetUserinfoFromRequest,
    is_CanGetPrivateClaimsFromRequest := s.is_CanGetPrivateClaimsFromRequest,
    GetPrivateClaimsFromTokenExchangeRequest := s.getPrivateClaimsFromTokenExchangeRequestAt s.log,
    GetPrivateClaimsFromRequest := s.getPrivateClaimsFromRequestAt s.log,
    GetPrivateClaimsFromScopes := s.getPrivateClaimsFromScopesAt s.log,
    SigningKey := s.signingKeyAt (if Go.notNil client = true then s.log ++ [privMethod s request] else s.log) }

theorem c06o_jwt_bridge (now : Int) (issuer : String) (request : IssRequest) (exp : Int) (id : String) (client : IssClient) (s : IssOStorage) :
    GenC06O.CreateJWT now issuer request exp id client s = GenC06.CreateJWT now issuer request exp id client (jwtView s client request) := by
  unfold GenC06O.CreateJWT GenC06.CreateJWT
  simp only [IssOStorage.SigningKey, IssOStorage.GetPrivateClaimsFromScopes, IssOStorage.GetPrivateClaimsFromRequest,
    IssOStorage.GetPrivateClaimsFromTokenExchangeRequest, IssOStorage.answer, jwtView, privMethod, Hand.issSignAny]
  generalize Hand.issNewAccessTokenClaims _ _ _ _ _ _ _ _ = c0
  by_cases hn : Go.notNil client = true
  · simp only [hn, ↓reduceIte, Bool.false_eq_true]
    by_cases hA : (request.is_TokenExchangeRequest && s.is_TokenExchangeStorage) = true
    · simp only [hA, ↓reduceIte, Bool.false_eq_true]
      generalize s.getPrivateClaimsFromTokenExchangeRequestAt _ _ = r
      cases r with
      | error e => rfl
      | ok p => simp only [IssOStorage.stepped_log, IssOStorage.stepped_key]; cases s.signingKeyAt _ <;> rfl
    · simp only [hA, ↓reduceIte, Bool.false_eq_true]
      by_cases hR : s.is_CanGetPrivateClaimsFromRequest = true
      · simp only [hR, ↓reduceIte, Bool.false_eq_true]
        generalize s.getPrivateClaimsFromRequestAt _ _ _ = r
        cases r with
        | error e => rfl
        | ok p => simp only [IssOStorage.stepped_log, IssOStorage.stepped_key]; cases s.signingKeyAt _ <;> rfl
      · simp only [hR, ↓reduceIte, Bool.false_eq_true]
        generalize s.getPrivateClaimsFromScopesAt _ _ _ _ = r
        cases r with
        | error e => rfl
        | ok p => simp only [IssOStorage.stepped_log, IssOStorage.stepped_key]; cases s.signingKeyAt _ <;> rfl
  · simp only [hn, ↓reduceIte, Bool.false_eq_true]
    cases s.signingKeyAt _ <;> rfl

/-! ### what the bridges mean: ONE fetch of the signing key per token -/

/-- ONE KEY PER ID TOKEN, whatever the storage answers to later calls: a token that `CreateIDToken` returns is signed by the answer
    `key` of ONE `SigningKey` call (the first storage call of the function, made when the history was `s.log`), and at_hash /
    c_hash are the claim hashes of the access token / code under THAT key's algorithm. -/
theorem c06o_id_token_one_key (now : Int) (issuer : String) (request : IssRequest) (validity : Int) (accessToken code : String)
    (s : IssOStorage) (client : IssClient) (tok : String)
    (h : GenC06O.CreateIDToken now issuer request validity accessToken code s client = .ok tok) :
    ∃ key c, s.signingKeyAt s.log = .ok key ∧ key.signerOK = true ∧ key.signID c = .ok tok ∧
      ((accessToken = "" ∧ c.AccessTokenHash = "") ∨ (accessToken ≠ "" ∧ Gen.ClaimHash now accessToken key.SignatureAlgorithm = .ok c.AccessTokenHash)) ∧
      ((code = "" ∧ c.CodeHash = "") ∨ (code ≠ "" ∧ Gen.ClaimHash now code key.SignatureAlgorithm = .ok c.CodeHash)) := by
  rw [c06o_id_token_bridge] at h
  obtain ⟨key, c, hk, hok, hs, hat, hc, _⟩ := c06_id_token_claims _ _ _ _ _ _ _ _ _ h
  exact ⟨key, c, hk, hok, hs, hat, hc⟩

/-- SINGLE FETCH: the ID token does not depend on what the storage would answer to a `SigningKey` call at any other moment
    (a second fetch would make it depend on the answer at a later history) -/
theorem c06o_id_token_single_fetch (now : Int) (issuer : String) (request : IssRequest) (validity : Int) (accessToken code : String)
    (s : IssOStorage) (client : IssClient) (f : List String → Go.R IssSigningKey) (hf : f s.log = s.signingKeyAt s.log) :
    GenC06O.CreateIDToken now issuer request validity accessToken code { s with signingKeyAt := f } client
      = GenC06O.CreateIDToken now issuer request validity accessToken code s client := by
  rw [c06o_id_token_bridge, c06o_id_token_bridge]
  simp only [idView, hf]

/-- the same for the JWT access token: signed by the answer of ONE `SigningKey` call, the LAST storage call of `CreateJWT` -/
theorem c06o_jwt_one_key (now : Int) (issuer : String) (request : IssRequest) (exp : Int) (id : String) (client : IssClient) (s : IssOStorage)
    (tok : String) (h : GenC06O.CreateJWT now issuer request exp id client s = .ok tok) :
    ∃ key c, s.signingKeyAt (if Go.notNil client = true then s.log ++ [privMethod s request] else s.log) = .ok key ∧
      key.signerOK = true ∧ key.signAT c = .ok tok := by
  rw [c06o_jwt_bridge] at h
  exact c06_jwt_signed _ _ _ _ _ _ _ _ h

theorem c06o_jwt_single_fetch (now : Int) (issuer : String) (request : IssRequest) (exp : Int) (id : String) (client : IssClient) (s : IssOStorage)
    (f : List String → Go.R IssSigningKey)
    (hf : f (if Go.notNil client = true then s.log ++ [privMethod s request] else s.log)
      = s.signingKeyAt (if Go.notNil client = true then s.log ++ [privMethod s request] else s.log)) :
    GenC06O.CreateJWT now issuer request exp id client { s with signingKeyAt := f } = GenC06O.CreateJWT now issuer request exp id client s := by
  rw [c06o_jwt_bridge, c06o_jwt_bridge]
  simp only [jwtView, privMethod] at hf ⊢
  simp only [hf]

/-! ### key-change events BETWEEN ANY TWO STORAGE CALLS -/

/-- a schedule of key changes at the granularity of storage calls: `(n, k)` = from the n-th storage call of the process on
    (0-based, counting the calls of ALL methods) the storage returns `k`; later entries win -/
def keyAtCall (init : IssSigningKey) (changes : List (Nat × IssSigningKey)) (n : Nat) : IssSigningKey :=
  changes.foldl (fun cur ch => if ch.1 ≤ n then ch.2 else cur) init

/-- the storage `s` with its signing key following such a schedule -/
def scheduledKey (s : IssOStorage) (init : IssSigningKey) (changes : List (Nat × IssSigningKey)) : IssOStorage :=
  { s with signingKeyAt := fun log => .ok (keyAtCall init changes log.length) }

/-- KEY-HISTORY THEOREM at call granularity (lifts `c06_key_history`, whose events fall between issuances): for EVERY schedule of
    key changes - any number of them, between any two storage calls, in particular between the calls of one token response -
    the ID token is signed with the key that was current at the moment of its (one) fetch, its at_hash / c_hash are hashes under
    that same key's algorithm, and changes scheduled for later calls have no influence. -/
theorem c06o_key_schedule (now : Int) (issuer : String) (request : IssRequest) (validity : Int) (accessToken code : String)
    (s : IssOStorage) (client : IssClient) (init : IssSigningKey) (changes : List (Nat × IssSigningKey)) (tok : String)
    (h : GenC06O.CreateIDToken now issuer request validity accessToken code (scheduledKey s init changes) client = .ok tok) :
    let key := keyAtCall init changes s.log.length
    key.signerOK = true ∧ ∃ c, key.signID c = .ok tok ∧
      ((accessToken = "" ∧ c.AccessTokenHash = "") ∨ (accessToken ≠ "" ∧ Gen.ClaimHash now accessToken key.SignatureAlgorithm = .ok c.AccessTokenHash)) ∧
      ((code = "" ∧ c.CodeHash = "") ∨ (code ≠ "" ∧ Gen.ClaimHash now code key.SignatureAlgorithm = .ok c.CodeHash)) := by
  obtain ⟨key, c, hk, hok, hs, hat, hc⟩ := c06o_id_token_one_key _ _ _ _ _ _ _ _ _ h
  simp only [scheduledKey, Except.ok.injEq] at hk
  subst hk
  exact ⟨hok, c, hs, hat, hc⟩

/-- ... and a change scheduled AFTER the fetch (between the fetch and the userinfo calls, or later) does not alter the token -/
theorem c06o_later_change_irrelevant (now : Int) (issuer : String) (request : IssRequest) (validity : Int) (accessToken code : String)
    (s : IssOStorage) (client : IssClient) (init k' : IssSigningKey) (changes : List (Nat × IssSigningKey)) (n : Nat) (hn : s.log.length < n) :
    GenC06O.CreateIDToken now issuer request validity accessToken code (scheduledKey s init (changes ++ [(n, k')])) client
      = GenC06O.CreateIDToken now issuer request validity accessToken code (scheduledKey s init changes) client := by
  have h1 : scheduledKey s init (changes ++ [(n, k')])
      = { scheduledKey s init changes with signingKeyAt := fun log => .ok (keyAtCall init (changes ++ [(n, k')]) log.length) } := rfl
  rw [h1]
  apply c06o_id_token_single_fetch
  simp only [scheduledKey, keyAtCall, List.foldl_append, List.foldl_cons, List.foldl_nil]
  have : ¬ n ≤ s.log.length := by omega
  simp only [this, if_false]
  first | rfl | (congr; funext cur ch; split <;> rfl)

/-! ### non-vacuity: a rotation RS256 -> ES384 between the fetch and the userinfo call -/

def exKeyRS : IssSigningKey :=
  { SignatureAlgorithm := "RS256", ID := "sig1", signID := fun c => .ok ("RS256/sig1:at_hash=" ++ c.AccessTokenHash ++ ";c_hash=" ++ c.CodeHash) }
def exKeyES : IssSigningKey :=
  { SignatureAlgorithm := "ES384", ID := "sig2", signID := fun c => .ok ("ES384/sig2:at_hash=" ++ c.AccessTokenHash ++ ";c_hash=" ++ c.CodeHash) }

/-- the key rotates right after the first storage call: the token is entirely the OLD key's (signature and both hashes) -/
example : GenC06O.CreateIDToken 2000000000000000000 "https://op" exRequest (3600 * Go.second) "AT" "CODE"
    (scheduledKey {} exKeyRS [(1, exKeyES)]) exClient = .ok "RS256/sig1:at_hash=H(sha256/2,AT);c_hash=H(sha256/2,CODE)" := by decide
/-- the key rotated before the request: entirely the NEW key's -/
example : GenC06O.CreateIDToken 2000000000000000000 "https://op" exRequest (3600 * Go.second) "AT" "CODE"
    (scheduledKey {} exKeyRS [(0, exKeyES)]) exClient = .ok "ES384/sig2:at_hash=H(sha384/2,AT);c_hash=H(sha384/2,CODE)" := by decide

end C06
