/-
  C12, part 3: theorems about the REGENERATED JSON wrapper methods of the claims / response types
  (Generated/CodecWrap.lean, namespace `GenCodecW`, rewritten by factgen from pkg/oidc/token.go, userinfo.go, introspection.go,
  token_request.go and types.go on every run).  Per type: a registered claim that is set wins, custom claims survive, nothing is
  invented (`marshalOK` on the produced document, for EVERY registered encoding and EVERY custom map, colliding names included);
  the round trip through the type's own UnmarshalJSON is lossless; decode -> modify registered fields -> encode emits the
  modified fields; for JWTTokenRequest (whose MarshalJSON changes the receiver) the same along every history of
  decode / assign / encode steps; IntrospectionResponse's `username` fallback acts only when `username` is empty.
-/
import OidcModel.Proofs.C12
import OidcModel.Generated.CodecWrap
import OidcModel.GoTac
set_option linter.unusedSimpArgs false

namespace C12
open Codec Cdc

/-! ### objects: keys, lookups, the monitor from lookup facts -/

theorem keys_contains_iff_lookup (o : Codec.Obj) (k : String) : (keys o).contains k = (lookup o k).isSome := by
  cases h : (keys o).contains k
  · rw [lookup_none_of_not_key o k h]; rfl
  · rw [lookup_isSome_of_key o k h]

/-- the marshal monitor follows from the two lookup facts: registered keys carry the registered value, every other key the
    custom value -/
theorem marshalOK_of_lookup (r c m : Codec.Obj)
    (h1 : ∀ k, (keys r).contains k = true → lookup m k = lookup r k)
    (h2 : ∀ k, (keys r).contains k = false → lookup m k = lookup c k) : marshalOK r c m = none := by
  unfold marshalOK
  have c1 : (keys r).all (fun k => lookup m k == lookup r k) = true := by
    simp only [List.all_eq_true, beq_iff_eq]
    intro k hk
    exact h1 k (by simpa using hk)
  have c2 : (keys c).all (fun k => (keys r).contains k || lookup m k == lookup c k) = true := by
    simp only [List.all_eq_true, Bool.or_eq_true, beq_iff_eq]
    intro k _
    cases hr : (keys r).contains k
    · right; exact h2 k hr
    · left; rfl
  have c3 : (keys m).all (fun k => (keys r).contains k || (keys c).contains k) = true := by
    simp only [List.all_eq_true, Bool.or_eq_true]
    intro k hk
    cases hr : (keys r).contains k
    · right
      have hm : (keys m).contains k = true := by simpa using hk
      rw [keys_contains_iff_lookup, h2 k hr, ← keys_contains_iff_lookup] at hm
      exact hm
    · left; rfl
  simp only [c1, c2, c3, Bool.not_true, Bool.false_eq_true, if_false]

/-- the monitor only looks at lookups: two registered objects with the same lookups are judged alike -/
theorem marshalOK_of_lookup_eq (r r' c m : Codec.Obj) (h : ∀ k, lookup r k = lookup r' k)
    (h1 : ∀ k, (keys r').contains k = true → lookup m k = lookup r' k)
    (h2 : ∀ k, (keys r').contains k = false → lookup m k = lookup c k) : marshalOK r c m = none := by
  apply marshalOK_of_lookup
  · intro k hk
    rw [keys_contains_iff_lookup, h k, ← keys_contains_iff_lookup] at hk
    rw [h k]; exact h1 k hk
  · intro k hk
    rw [keys_contains_iff_lookup, h k, ← keys_contains_iff_lookup] at hk
    exact h2 k hk

theorem keys_mapSet_nodup (m : Codec.Obj) (h : (keys m).Nodup) (k v : String) : (keys (GoX.mapSet m k v)).Nodup := by
  unfold GoX.mapSet
  split
  · have : keys (m.map fun kv => if (kv.1 == k) = true then (k, v) else kv) = keys m := by
      unfold keys
      rw [List.map_map]
      apply List.map_congr_left
      intro x _
      by_cases hx : (x.1 == k) = true
      · have : x.1 = k := by simpa using hx
        simp [this]
      · have hne : ¬ x.1 = k := by simpa using hx
        simp [hne]
    rw [this]; exact h
  · rename_i hany
    have hk : k ∉ keys m := by
      intro hmem
      apply hany
      simp only [keys, List.mem_map] at hmem
      rcases hmem with ⟨x, hx, rfl⟩
      simp only [List.any_eq_true]
      exact ⟨x, hx, by simp⟩
    simp only [keys, List.map_append, List.map_cons, List.map_nil]
    rw [List.nodup_append]
    refine ⟨h, by simp, ?_⟩
    intro a ha b hb
    simp at hb
    subst hb
    intro e; subst e; exact hk ha

theorem keys_storeOver_nodup (d m : Codec.Obj) (h : (keys m).Nodup) : (keys (Cdw.storeOver d m)).Nodup := by
  unfold Cdw.storeOver GoX.foldKV
  induction d generalizing m with
  | nil => exact h
  | cons x xs ih => rw [List.foldl_cons]; exact ih _ (keys_mapSet_nodup m h x.1 x.2)

theorem lookup_storeOver (d m : Codec.Obj) (hd : (keys d).Nodup) (k : String) :
    lookup (Cdw.storeOver d m) k = (lookup d k).or (lookup m k) := lookup_foldKV_set d hd m k

theorem lookup_storeOver_nil (d : Codec.Obj) (hd : (keys d).Nodup) (k : String) : lookup (Cdw.storeOver d []) k = lookup d k := by
  rw [lookup_storeOver d [] hd]; simp [lookup]

theorem lookup_restrict (names : List String) (d : Codec.Obj) (k : String) :
    lookup (Cdw.restrict names d) k = if names.contains k = true then lookup d k else none := by
  unfold Cdw.restrict
  induction d with
  | nil => simp [lookup]
  | cons x xs ih =>
    rw [List.filter_cons]
    by_cases hx : names.contains x.1 = true
    · simp only [hx, if_true]
      rw [lookup_cons, lookup_cons, ih]
      by_cases hk : (x.1 == k) = true
      · have : x.1 = k := by simpa using hk
        have hx' : x.1 ∈ names := by simpa using hx
        subst this; simp [hx']
      · simp [hk]
    · simp only [hx, Bool.false_eq_true, if_false]
      rw [ih, lookup_cons]
      by_cases hk : (x.1 == k) = true
      · have : x.1 = k := by simpa using hk
        have hx' : x.1 ∉ names := by simpa using hx
        subst this; simp [hx']
      · simp [hk]

theorem mergedMap_nodup (r c : Codec.Obj) : (keys (mergedMap r c)).Nodup := by
  unfold mergedMap
  exact keys_storeOver_nodup r _ (keys_storeOver_nodup c [] (by simp [keys]))

/-! ### the six plain merge wrappers -/

/-- `MarshalJSON` is `mergeAndMarshalClaims(alias, Claims)` -/
def IsMergeWrapper (f : Int → Oracles → Cdw.ClaimsVal → Go.R (List Codec.Obj)) : Prop :=
  ∀ now o v, f now o v = (GenCodec.mergeAndMarshalClaims now o v.alias v.Claims).2
/-- `UnmarshalJSON` is `unmarshalJSONMulti(data, alias, &Claims)` -/
def IsMultiWrapper (f : Int → Oracles → Cdw.ClaimsVal → String → Go.R Unit) : Prop :=
  ∀ now o v data, f now o v data = GenCodec.unmarshalJSONMulti now o data [0, 1]

def marshalWrappers : List (Int → Oracles → Cdw.ClaimsVal → Go.R (List Codec.Obj)) :=
  [GenCodecW.AccessTokenClaimsMarshalJSON, GenCodecW.IDTokenClaimsMarshalJSON, GenCodecW.ActorClaimsMarshalJSON,
   GenCodecW.JWTProfileAssertionClaimsMarshalJSON, GenCodecW.LogoutTokenClaimsMarshalJSON, GenCodecW.UserInfoMarshalJSON]
def unmarshalWrappers : List (Int → Oracles → Cdw.ClaimsVal → String → Go.R Unit) :=
  [GenCodecW.AccessTokenClaimsUnmarshalJSON, GenCodecW.IDTokenClaimsUnmarshalJSON, GenCodecW.ActorClaimsUnmarshalJSON,
   GenCodecW.JWTProfileAssertionClaimsUnmarshalJSON, GenCodecW.LogoutTokenClaimsUnmarshalJSON, GenCodecW.UserInfoUnmarshalJSON]

/-! characterisation lemmas, one per regenerated wrapper (closed by the shape-independent `go_leaf`) -/
theorem c12w_AccessTokenClaims_marshal_char : IsMergeWrapper GenCodecW.AccessTokenClaimsMarshalJSON := by
  intro now o v
  unfold GenCodecW.AccessTokenClaimsMarshalJSON Cdw.mmc
  go_leaf
theorem c12w_AccessTokenClaims_unmarshal_char : IsMultiWrapper GenCodecW.AccessTokenClaimsUnmarshalJSON := by
  intro now o v data
  unfold GenCodecW.AccessTokenClaimsUnmarshalJSON Cdw.multi2 Cdw.aliasDst Cdw.claimsDst
  go_leaf [Go.ok]
theorem c12w_IDTokenClaims_marshal_char : IsMergeWrapper GenCodecW.IDTokenClaimsMarshalJSON := by
  intro now o v
  unfold GenCodecW.IDTokenClaimsMarshalJSON Cdw.mmc
  go_leaf
theorem c12w_IDTokenClaims_unmarshal_char : IsMultiWrapper GenCodecW.IDTokenClaimsUnmarshalJSON := by
  intro now o v data
  unfold GenCodecW.IDTokenClaimsUnmarshalJSON Cdw.multi2 Cdw.aliasDst Cdw.claimsDst
  go_leaf [Go.ok]
theorem c12w_ActorClaims_marshal_char : IsMergeWrapper GenCodecW.ActorClaimsMarshalJSON := by
  intro now o v
  unfold GenCodecW.ActorClaimsMarshalJSON Cdw.mmc
  go_leaf
theorem c12w_ActorClaims_unmarshal_char : IsMultiWrapper GenCodecW.ActorClaimsUnmarshalJSON := by
  intro now o v data
  unfold GenCodecW.ActorClaimsUnmarshalJSON Cdw.multi2 Cdw.aliasDst Cdw.claimsDst
  go_leaf [Go.ok]
theorem c12w_JWTProfileAssertionClaims_marshal_char : IsMergeWrapper GenCodecW.JWTProfileAssertionClaimsMarshalJSON := by
  intro now o v
  unfold GenCodecW.JWTProfileAssertionClaimsMarshalJSON Cdw.mmc
  go_leaf
theorem c12w_JWTProfileAssertionClaims_unmarshal_char : IsMultiWrapper GenCodecW.JWTProfileAssertionClaimsUnmarshalJSON := by
  intro now o v data
  unfold GenCodecW.JWTProfileAssertionClaimsUnmarshalJSON Cdw.multi2 Cdw.aliasDst Cdw.claimsDst
  go_leaf [Go.ok]
theorem c12w_LogoutTokenClaims_marshal_char : IsMergeWrapper GenCodecW.LogoutTokenClaimsMarshalJSON := by
  intro now o v
  unfold GenCodecW.LogoutTokenClaimsMarshalJSON Cdw.mmc
  go_leaf
theorem c12w_LogoutTokenClaims_unmarshal_char : IsMultiWrapper GenCodecW.LogoutTokenClaimsUnmarshalJSON := by
  intro now o v data
  unfold GenCodecW.LogoutTokenClaimsUnmarshalJSON Cdw.multi2 Cdw.aliasDst Cdw.claimsDst
  go_leaf [Go.ok]
theorem c12w_UserInfo_marshal_char : IsMergeWrapper GenCodecW.UserInfoMarshalJSON := by
  intro now o v
  unfold GenCodecW.UserInfoMarshalJSON Cdw.mmc
  go_leaf
theorem c12w_UserInfo_unmarshal_char : IsMultiWrapper GenCodecW.UserInfoUnmarshalJSON := by
  intro now o v data
  unfold GenCodecW.UserInfoUnmarshalJSON Cdw.multi2 Cdw.aliasDst Cdw.claimsDst
  go_leaf [Go.ok]

/-- every regenerated MarshalJSON of the six types hands its alias and its OWN custom map to the merge, in this order -/
theorem c12w_marshal_wrappers : ∀ f ∈ marshalWrappers, IsMergeWrapper f := by
  intro f hf
  simp only [marshalWrappers, List.mem_cons, List.not_mem_nil, or_false] at hf
  rcases hf with rfl | rfl | rfl | rfl | rfl | rfl
  · exact c12w_AccessTokenClaims_marshal_char
  · exact c12w_IDTokenClaims_marshal_char
  · exact c12w_ActorClaims_marshal_char
  · exact c12w_JWTProfileAssertionClaims_marshal_char
  · exact c12w_LogoutTokenClaims_marshal_char
  · exact c12w_UserInfo_marshal_char

/-- every regenerated UnmarshalJSON of the six types decodes the SAME data into the alias and into the custom map -/
theorem c12w_unmarshal_wrappers : ∀ f ∈ unmarshalWrappers, IsMultiWrapper f := by
  intro f hf
  simp only [unmarshalWrappers, List.mem_cons, List.not_mem_nil, or_false] at hf
  rcases hf with rfl | rfl | rfl | rfl | rfl | rfl
  · exact c12w_AccessTokenClaims_unmarshal_char
  · exact c12w_IDTokenClaims_unmarshal_char
  · exact c12w_ActorClaims_unmarshal_char
  · exact c12w_JWTProfileAssertionClaims_unmarshal_char
  · exact c12w_LogoutTokenClaims_unmarshal_char
  · exact c12w_UserInfo_unmarshal_char

/-- REGISTERED WINS / CUSTOM SURVIVES / NOTHING INVENTED, per type: for every value of the type (any registered encoding `r`,
    any custom map - colliding names, stale copies of registered members included), the document the regenerated MarshalJSON
    produces satisfies the marshal monitor -/
theorem c12w_marshal_monitor (f : Int → Oracles → Cdw.ClaimsVal → Go.R (List Codec.Obj)) (hf : f ∈ marshalWrappers)
    (now : Int) (o : Oracles) (v : Cdw.ClaimsVal) (r : Codec.Obj) (hreg : v.alias.enc = .ok r)
    (hr : (keys r).Nodup) (hc : (keys v.Claims).Nodup) (henc : o.mapEncodable (mergedMap r v.Claims) = true) :
    ∃ m, f now o v = .ok [m] ∧ marshalOK r v.Claims m = none ∧ (keys m).Nodup ∧
      (∀ k, (keys r).contains k = true → lookup m k = lookup r k) ∧
      (∀ k, (keys r).contains k = false → lookup m k = lookup v.Claims k) := by
  obtain ⟨m, hm, h1, h2⟩ := c12_registered_wins_gen now o v.alias r v.Claims hreg hr hc henc
  refine ⟨m, ?_, marshalOK_of_lookup r v.Claims m h1 h2, ?_, h1, h2⟩
  · rw [c12w_marshal_wrappers f hf now o v]; exact hm
  · have hex := c12_merge_exact now o v.alias v.Claims
    rw [hreg] at hex
    rw [hm] at hex
    by_cases he : v.Claims.isEmpty = true
    · simp only [he, if_true] at hex
      have : m = r := by injection hex with h; simpa using h
      rw [this]; exact hr
    · simp only [he, Bool.false_eq_true, if_false, henc, if_true] at hex
      have : m = mergedMap r v.Claims := by injection hex with h; simpa using h
      rw [this]; exact mergedMap_nodup r v.Claims

/-! ### the decoding wrappers; round trip; decode -> modify -> encode -/

/-- encoding/json's contract for the status oracle of `unmarshalJSONMulti`'s destinations: a destination fails exactly when
    storing into it fails -/
def storeCoherent (o : Oracles) (data : String) : Prop :=
  ∀ (v : Cdw.ClaimsVal) (d : Dst), (o.unmarshalInto data d).isOk = (v.store o data d).isOk

/-- the regenerated UnmarshalJSON succeeds exactly when storing into the alias and then into the custom map succeeds -/
theorem c12w_unmarshal_sem (f : Int → Oracles → Cdw.ClaimsVal → String → Go.R Unit) (hf : f ∈ unmarshalWrappers)
    (now : Int) (o : Oracles) (v : Cdw.ClaimsVal) (data : String) (hco : storeCoherent o data) :
    (f now o v data).isOk = (Cdw.ClaimsVal.storeAll o data v [0, 1]).2.isOk := by
  rw [c12w_unmarshal_wrappers f hf now o v data, c12_multi_exact]
  simp only [List.all_cons, List.all_nil, Bool.and_true]
  rw [hco v 0]
  cases h0 : v.store o data 0 with
  | error e => simp [Cdw.ClaimsVal.storeAll, h0, Except.isOk, Except.toBool]
  | ok v' =>
    rw [hco v' 1]
    cases h1 : v'.store o data 1 with
    | error e => simp [Cdw.ClaimsVal.storeAll, h0, h1, Except.isOk, Except.toBool]
    | ok v'' => simp [Cdw.ClaimsVal.storeAll, h0, h1, Except.isOk, Except.toBool]

theorem roundTripOK_of_lookup (r c reg2 c2 : Codec.Obj)
    (h1 : ∀ k, (keys r).contains k = true → lookup reg2 k = lookup r k)
    (h2 : ∀ k, (keys reg2).contains k = true → (keys r).contains k = true ∨ (keys c).contains k = true)
    (h3 : ∀ k, (keys r).contains k = false → lookup c2 k = lookup c k) : roundTripOK r c reg2 c2 = none := by
  unfold roundTripOK
  have c1 : (keys r).all (fun k => lookup reg2 k == lookup r k) = true := by
    simp only [List.all_eq_true, beq_iff_eq]
    intro k hk; exact h1 k (by simpa using hk)
  have c2' : (keys reg2).all (fun k => (keys r).contains k || (keys c).contains k) = true := by
    simp only [List.all_eq_true, Bool.or_eq_true]
    intro k hk; exact h2 k (by simpa using hk)
  have c3 : (keys c).all (fun k => (keys r).contains k || lookup c2 k == lookup c k) = true := by
    simp only [List.all_eq_true, Bool.or_eq_true, beq_iff_eq]
    intro k _
    cases hr : (keys r).contains k
    · right; exact h3 k hr
    · left; rfl
  simp only [c1, c2', c3, Bool.not_true, Bool.false_eq_true, if_false]

/-- ROUND TRIP, per type: the document the regenerated MarshalJSON produces for a value (registered encoding `r` with names among
    the type's registered `names`, any custom map), stored into a fresh value the way the regenerated UnmarshalJSON stores it
    (alias, then custom map), gives back every registered member with its value and every custom claim that does not collide.
    `hdec` is encoding/json's part: the typed alias picks the members with its names out of the document. -/
theorem c12w_roundtrip (f : Int → Oracles → Cdw.ClaimsVal → Go.R (List Codec.Obj)) (hf : f ∈ marshalWrappers)
    (now : Int) (o : Oracles) (v : Cdw.ClaimsVal) (r : Codec.Obj) (names : List String) (hreg : v.alias.enc = .ok r)
    (hr : (keys r).Nodup) (hc : (keys v.Claims).Nodup) (henc : o.mapEncodable (mergedMap r v.Claims) = true)
    (hsub : ∀ k, (keys r).contains k = true → names.contains k = true)
    (data : String) (z : Cdw.ClaimsVal) (hz : z.Claims = []) (m : Codec.Obj) (hm : f now o v = .ok [m]) (hparse : o.parseObj data = .ok m)
    (a : Reg) (hdec : o.decodeAlias m z.alias = .ok a) (ha : a.enc = .ok (Cdw.restrict names m)) :
    ∃ v2, Cdw.ClaimsVal.storeAll o data z [0, 1] = (v2, .ok ()) ∧ v2.alias.enc = .ok (Cdw.restrict names m) ∧
      roundTripOK r v.Claims (Cdw.restrict names m) v2.Claims = none := by
  obtain ⟨m', hm', _, hnd, h1, h2⟩ := c12w_marshal_monitor f hf now o v r hreg hr hc henc
  have hmm : m = m' := by rw [hm] at hm'; injection hm' with h; simpa using h
  subst hmm
  refine ⟨{ alias := a, Claims := Cdw.storeOver m [] }, ?_, ha, ?_⟩
  · simp [Cdw.ClaimsVal.storeAll, Cdw.ClaimsVal.store, hparse, hdec, hz]
  · apply roundTripOK_of_lookup
    · intro k hk
      rw [lookup_restrict, hsub k hk]; simp only [if_true]; exact h1 k hk
    · intro k hk
      rw [keys_contains_iff_lookup, lookup_restrict] at hk
      cases hr' : (keys r).contains k
      · right
        by_cases hn : names.contains k = true
        · simp only [hn, if_true] at hk
          rw [h2 k hr', ← keys_contains_iff_lookup] at hk; exact hk
        · have hn' : names.contains k = false := by simpa using hn
          rw [hn'] at hk; simp at hk
      · left; rfl
    · intro k hk
      show lookup (Cdw.storeOver m []) k = lookup v.Claims k
      rw [lookup_storeOver_nil m hnd, h2 k hk]

/-- DECODE -> MODIFY -> ENCODE, per type: a value whose custom map was filled by decoding ANY document `d` (so it holds a copy of
    every member, registered names included) and whose registered fields were assigned afterwards (any registered encoding `r'`)
    is encoded with the ASSIGNED fields; the stale copies never come back; members without a registered field are the document's -/
theorem c12w_decode_modify_encode (f : Int → Oracles → Cdw.ClaimsVal → Go.R (List Codec.Obj)) (hf : f ∈ marshalWrappers)
    (now : Int) (o : Oracles) (d : Codec.Obj) (hd : (keys d).Nodup) (a' : Reg) (r' : Codec.Obj) (ha : a'.enc = .ok r') (hr : (keys r').Nodup)
    (henc : o.mapEncodable (mergedMap r' (Cdw.storeOver d [])) = true) :
    ∃ m, f now o { alias := a', Claims := Cdw.storeOver d [] } = .ok [m] ∧ marshalOK r' d m = none ∧
      (∀ k, (keys r').contains k = true → lookup m k = lookup r' k) ∧
      (∀ k, (keys r').contains k = false → lookup m k = lookup d k) := by
  obtain ⟨m, hm, _, _, h1, h2⟩ := c12w_marshal_monitor f hf now o { alias := a', Claims := Cdw.storeOver d [] } r' ha hr
    (keys_storeOver_nodup d [] (by simp [keys])) henc
  have h2' : ∀ k, (keys r').contains k = false → lookup m k = lookup d k := by
    intro k hk; rw [h2 k hk]; exact lookup_storeOver_nil d hd k
  exact ⟨m, hm, marshalOK_of_lookup r' d m h1 h2', h1, h2'⟩

/-! ### JWTTokenRequest: the merge goes through the unexported `private` map and stays in the receiver -/

/-- CHARACTERISATION of the regenerated `JWTTokenRequest.MarshalJSON` (the only place where the shape of the Go text matters;
    closed by the shape-independent `go_leaf`) -/
theorem c12w_jwtreq_marshal_exact (now : Int) (o : Oracles) (j : Cdw.JwtReq) :
    GenCodecW.JWTTokenRequestMarshalJSON now o j =
      match j.alias.enc with
      | .error e => (j, .error e)
      | .ok r =>
        if j.priv.isEmpty = true then (j, .ok r) else
        ({ j with priv := Cdw.storeOver r j.priv },
          if o.mapEncodable (Cdw.storeOver r j.priv) = true then .ok (Cdw.storeOver r j.priv) else .error "json.UnsupportedValueError") := by
  unfold GenCodecW.JWTTokenRequestMarshalJSON Cdw.jsonMarshal Cdw.jsonUnmarshal
  simp only [len_beq_zero, len_bne_zero, Cdw.JMarshal.marshal, Cdw.JDoc.members, Cdw.JDest.store]
  go_leaf

theorem c12w_jwtreq_unmarshal_exact (now : Int) (o : Oracles) (j : Cdw.JwtReq) (data : String) :
    GenCodecW.JWTTokenRequestUnmarshalJSON now o j data =
      match o.parseObj data with
      | .error e => .error e
      | .ok d =>
        match o.decodeAlias d j.alias with
        | .error e => .error e
        | .ok a => .ok { alias := a, priv := Cdw.storeOver d j.priv } := by
  unfold GenCodecW.JWTTokenRequestUnmarshalJSON Cdw.jsonUnmarshal
  simp only [Cdw.JDoc.members, Cdw.JDest.store]
  go_leaf

/-- REGISTERED WINS for JWTTokenRequest: whatever the private map holds (it holds a copy of EVERY member of the last decoded
    document, iss / sub / aud / iat / exp included), the produced document carries the registered fields as they are NOW;
    the other private claims survive; the receiver keeps its registered fields and loses no custom claim -/
theorem c12w_jwtreq_monitor (now : Int) (o : Oracles) (j : Cdw.JwtReq) (r : Codec.Obj) (hreg : j.alias.enc = .ok r)
    (hr : (keys r).Nodup) (hp : (keys j.priv).Nodup) (henc : o.mapEncodable (Cdw.storeOver r j.priv) = true) :
    ∃ m, (GenCodecW.JWTTokenRequestMarshalJSON now o j).2 = .ok m ∧ marshalOK r j.priv m = none ∧
      (∀ k, (keys r).contains k = true → lookup m k = lookup r k) ∧
      (∀ k, (keys r).contains k = false → lookup m k = lookup j.priv k) ∧
      (GenCodecW.JWTTokenRequestMarshalJSON now o j).1.alias = j.alias ∧
      (keys (GenCodecW.JWTTokenRequestMarshalJSON now o j).1.priv).Nodup ∧
      customKeptOK r j.priv (GenCodecW.JWTTokenRequestMarshalJSON now o j).1.priv = none := by
  have hex := c12w_jwtreq_marshal_exact now o j
  rw [hreg] at hex
  by_cases he : j.priv.isEmpty = true
  · have hnil : j.priv = [] := by cases h : j.priv <;> simp_all
    simp only [he, if_true] at hex
    rw [hex]
    have h1 : ∀ k, (keys r).contains k = true → lookup r k = lookup r k := fun _ _ => rfl
    have h2 : ∀ k, (keys r).contains k = false → lookup r k = lookup j.priv k := by
      intro k hk; rw [lookup_none_of_not_key r k hk, hnil]; rfl
    refine ⟨r, rfl, marshalOK_of_lookup r j.priv r h1 h2, h1, h2, rfl, hp, ?_⟩
    simp [customKeptOK, hnil, keys]
  · simp only [he, Bool.false_eq_true, if_false, henc, if_true] at hex
    rw [hex]
    have h1 : ∀ k, (keys r).contains k = true → lookup (Cdw.storeOver r j.priv) k = lookup r k := by
      intro k hk
      rw [lookup_storeOver r j.priv hr]
      have := lookup_isSome_of_key r k hk
      cases hl : lookup r k <;> simp_all
    have h2 : ∀ k, (keys r).contains k = false → lookup (Cdw.storeOver r j.priv) k = lookup j.priv k := by
      intro k hk
      rw [lookup_storeOver r j.priv hr, lookup_none_of_not_key r k hk]; simp
    refine ⟨_, rfl, marshalOK_of_lookup r j.priv _ h1 h2, h1, h2, rfl, keys_storeOver_nodup r j.priv hp, ?_⟩
    show customKeptOK r j.priv (Cdw.storeOver r j.priv) = none
    unfold customKeptOK
    have : (keys j.priv).all (fun k => (keys r).contains k || lookup (Cdw.storeOver r j.priv) k == lookup j.priv k) = true := by
      simp only [List.all_eq_true, Bool.or_eq_true, beq_iff_eq]
      intro k _
      cases hk : (keys r).contains k
      · right; exact h2 k hk
      · left; rfl
    simp only [this, if_true]

/-- one step in the life of a JWTTokenRequest: decode a document into it, assign its registered fields, encode it -/
inductive JOp
  | decode (data : String)
  | assign (a : Reg)
  | encode

/-- the value after the step and, for `encode`, the value BEFORE it with what MarshalJSON returned (a failed decode leaves the
    value as it was) -/
def jstep (now : Int) (o : Oracles) (j : Cdw.JwtReq) : JOp → Cdw.JwtReq × Option (Cdw.JwtReq × Go.R Codec.Obj)
  | .decode data => (match GenCodecW.JWTTokenRequestUnmarshalJSON now o j data with | .ok j' => j' | .error _ => j, none)
  | .assign a => ({ j with alias := a }, none)
  | .encode => ((GenCodecW.JWTTokenRequestMarshalJSON now o j).1, some (j, (GenCodecW.JWTTokenRequestMarshalJSON now o j).2))

def jrun (now : Int) (o : Oracles) : Cdw.JwtReq → List JOp → List (Cdw.JwtReq × Go.R Codec.Obj)
  | _, [] => []
  | j, op :: ops =>
    match (jstep now o j op).2 with
    | none => jrun now o (jstep now o j op).1 ops
    | some out => out :: jrun now o (jstep now o j op).1 ops

theorem jstep_nodup (now : Int) (o : Oracles) (j : Cdw.JwtReq) (op : JOp) (h : (keys j.priv).Nodup) :
    (keys (jstep now o j op).1.priv).Nodup := by
  cases op with
  | decode data =>
    have hex := c12w_jwtreq_unmarshal_exact now o j data
    simp only [jstep]
    cases hp : o.parseObj data with
    | error e => simp only [hp] at hex; rw [hex]; exact h
    | ok d =>
      cases ha : o.decodeAlias d j.alias with
      | error e => simp only [hp, ha] at hex; rw [hex]; exact h
      | ok a => simp only [hp, ha] at hex; rw [hex]; exact keys_storeOver_nodup d j.priv h
  | assign a => exact h
  | encode =>
    have hex := c12w_jwtreq_marshal_exact now o j
    simp only [jstep]
    cases hr : j.alias.enc with
    | error e => simp only [hr] at hex; rw [hex]; exact h
    | ok r =>
      by_cases he : j.priv.isEmpty = true
      · simp only [hr, he, if_true] at hex; rw [hex]; exact h
      · simp only [hr, he, Bool.false_eq_true, if_false] at hex; rw [hex]; exact keys_storeOver_nodup r j.priv h

/-- HISTORY: along EVERY sequence of decode / assign / encode steps on one JWTTokenRequest (MarshalJSON itself writes into the
    private map, so later encodings depend on earlier ones), every encoding carries the registered fields the value has at that
    moment, and satisfies the marshal monitor w.r.t. the private map of that moment -/
theorem c12w_jwtreq_history (now : Int) (o : Oracles) (hall : ∀ m, o.mapEncodable m = true) (ops : List JOp) :
    ∀ (j0 : Cdw.JwtReq), (keys j0.priv).Nodup → ∀ out ∈ jrun now o j0 ops, ∀ r, out.1.alias.enc = .ok r → (keys r).Nodup →
      ∃ m, out.2 = .ok m ∧ marshalOK r out.1.priv m = none ∧ ∀ k, (keys r).contains k = true → lookup m k = lookup r k := by
  induction ops with
  | nil => intro j0 _ out hout; simp [jrun] at hout
  | cons op ops ih =>
    intro j0 h0 out hout r hr hnd
    have hnext := jstep_nodup now o j0 op h0
    unfold jrun at hout
    cases hs : (jstep now o j0 op).2 with
    | none => rw [hs] at hout; exact ih _ hnext out hout r hr hnd
    | some o' =>
      rw [hs] at hout
      simp only [List.mem_cons] at hout
      rcases hout with rfl | hout
      · cases op with
        | decode d => simp [jstep] at hs
        | assign a => simp [jstep] at hs
        | encode =>
          simp only [jstep, Option.some.injEq] at hs
          subst hs
          obtain ⟨m, hm, hmon, h1, _⟩ := c12w_jwtreq_monitor now o j0 r hr hnd h0 (hall _)
          exact ⟨m, hm, hmon, h1⟩
      · exact ih _ hnext out hout r hr hnd

/-! ### IntrospectionResponse: `username` falls back to `preferred_username` - only when it is empty -/

/-- what MarshalJSON does to the receiver before the merge -/
def introFallback (i : Cdw.IntroVal) : Cdw.IntroVal :=
  if (i.Username == "") = true then { i with Username := i.PreferredUsername } else i

theorem c12w_intro_marshal_exact (now : Int) (o : Oracles) (i : Cdw.IntroVal) :
    GenCodecW.IntrospectionResponseMarshalJSON now o i =
      (introFallback i, (GenCodec.mergeAndMarshalClaims now o (Cdw.introAlias o (introFallback i)) (introFallback i).Claims).2) := by
  unfold GenCodecW.IntrospectionResponseMarshalJSON introFallback Cdw.mmc
  go_leaf

/-- a `username` that is set is left alone: the receiver is unchanged -/
theorem c12w_intro_username_kept (i : Cdw.IntroVal) (h : i.Username ≠ "") : introFallback i = i := by
  unfold introFallback
  have : (i.Username == "") = false := by simpa using h
  simp [this]

def memberOf (k s t : String) : Codec.Obj := if (s == "") = true then [] else [(k, t)]

/-- the registered encoding of an IntrospectionResponse: the other members, then `username`, then `preferred_username`
    (`q` = encoding/json on a string) -/
def introReg (q : String → String) (r : Codec.Obj) (i : Cdw.IntroVal) : Codec.Obj :=
  r ++ memberOf "username" i.Username (q i.Username) ++ memberOf "preferred_username" i.PreferredUsername (q i.PreferredUsername)

theorem introAlias_enc (o : Oracles) (q : String → String) (hq : ∀ s, o.marshalString s = .ok (q s)) (i : Cdw.IntroVal) (r : Codec.Obj)
    (hrest : i.rest = .ok r) : (Cdw.introAlias o i).enc = .ok (introReg q r i) := by
  unfold Cdw.introAlias Cdw.strMember introReg memberOf
  simp only [hrest, hq]
  by_cases hu : (i.Username == "") = true <;> by_cases hp : (i.PreferredUsername == "") = true <;> simp [hu, hp]

theorem lookup_single (k t k' : String) : lookup [(k, t)] k' = if k = k' then some t else none := by
  by_cases h : k = k' <;> simp [lookup, h]

theorem introReg_nodup (q : String → String) (r : Codec.Obj) (i : Cdw.IntroVal) (hr : (keys r).Nodup)
    (hu : (keys r).contains "username" = false) (hp : (keys r).contains "preferred_username" = false) : (keys (introReg q r i)).Nodup := by
  have hu' : "username" ∉ keys r := by simpa using hu
  have hp' : "preferred_username" ∉ keys r := by simpa using hp
  unfold introReg memberOf
  by_cases h1 : (i.Username == "") = true <;> by_cases h2 : (i.PreferredUsername == "") = true <;>
    simp [h1, h2, keys, List.nodup_append] <;> simp [keys] at hr hu' hp' <;> grind

/-- both orders of the two members look alike to every lookup -/
theorem lookup_swap_members (r : Codec.Obj) (tu tp : String) (k : String) :
    lookup (r ++ [("preferred_username", tp)] ++ [("username", tu)]) k = lookup (r ++ [("username", tu)] ++ [("preferred_username", tp)]) k := by
  simp only [lookup_append, lookup_single]
  by_cases h1 : "username" = k
  · subst h1; simp
  · by_cases h2 : "preferred_username" = k
    · subst h2; simp
    · simp [h1, h2]

/-- IntrospectionResponse, for every value (username / preferred_username both set and different included) and every custom map:
    the produced document satisfies the marshal monitor with the fallback allowance of `introMarshalOK`; the receiver's Username is
    only ever filled when it was empty; and a `username` that is SET is emitted as it is and left as it is -/
theorem c12w_intro_monitor (now : Int) (o : Oracles) (q : String → String) (hq : ∀ s, o.marshalString s = .ok (q s))
    (i : Cdw.IntroVal) (r : Codec.Obj) (hrest : i.rest = .ok r) (hr : (keys r).Nodup)
    (hu : (keys r).contains "username" = false) (hp : (keys r).contains "preferred_username" = false)
    (hc : (keys i.Claims).Nodup) (hall : ∀ m, o.mapEncodable m = true) :
    ∃ m, (GenCodecW.IntrospectionResponseMarshalJSON now o i).2 = .ok [m] ∧
      introMarshalOK (introReg q r i) i.Claims m = none ∧
      introRecvOK i.Username i.PreferredUsername (GenCodecW.IntrospectionResponseMarshalJSON now o i).1.Username = none ∧
      (i.Username ≠ "" → lookup m "username" = some (q i.Username) ∧ (GenCodecW.IntrospectionResponseMarshalJSON now o i).1 = i) := by
  rw [c12w_intro_marshal_exact]
  have hrest' : (introFallback i).rest = .ok r := by unfold introFallback; split <;> simp [hrest]
  have hcl : (introFallback i).Claims = i.Claims := by unfold introFallback; split <;> rfl
  have henc' := introAlias_enc o q hq (introFallback i) r hrest'
  have hnd' := introReg_nodup q r (introFallback i) hr hu hp
  obtain ⟨m, hm, h1, h2⟩ := c12_registered_wins_gen now o (Cdw.introAlias o (introFallback i)) (introReg q r (introFallback i)) (introFallback i).Claims
    henc' hnd' (by rw [hcl]; exact hc) (hall _)
  rw [hcl] at h2
  refine ⟨m, hm, ?_, ?_, ?_⟩
  · -- the monitor
    by_cases hne : i.Username = ""
    · by_cases hpe : i.PreferredUsername = ""
      · -- nothing to fall back to: the encoding is the one of `i`
        have : introReg q r (introFallback i) = introReg q r i := by
          unfold introFallback introReg memberOf; simp [hne, hpe]
        rw [this] at h1 h2
        simp [introMarshalOK, marshalOK_of_lookup _ _ _ h1 h2]
      · -- the fallback acts: `username` = `preferred_username`
        have hU : (i.Username == "") = true := by simp [hne]
        have hP : (i.PreferredUsername == "") = false := by simpa using hpe
        have hreg' : introReg q r (introFallback i) = r ++ [("username", q i.PreferredUsername)] ++ [("preferred_username", q i.PreferredUsername)] := by
          unfold introFallback introReg memberOf; simp [hU, hP]
        have hreg : introReg q r i = r ++ [("preferred_username", q i.PreferredUsername)] := by
          unfold introReg memberOf; simp [hU, hP]
        have hfb : withUsernameFallback (introReg q r i) = r ++ [("preferred_username", q i.PreferredUsername)] ++ [("username", q i.PreferredUsername)] := by
          rw [hreg]
          unfold withUsernameFallback
          have hk : (keys (r ++ [("preferred_username", q i.PreferredUsername)])).contains "username" = false := by
            have hu' : "username" ∉ keys r := by simpa using hu
            simp [keys] at hu' ⊢; exact hu'
          have hl : lookup (r ++ [("preferred_username", q i.PreferredUsername)]) "preferred_username" = some (q i.PreferredUsername) := by
            rw [lookup_append, lookup_none_of_not_key r _ hp, lookup_single]; simp
          simp only [hk, Bool.false_eq_true, if_false, hl]
        rw [hreg'] at h1 h2
        unfold introMarshalOK
        have := marshalOK_of_lookup_eq (withUsernameFallback (introReg q r i)) _ i.Claims m
          (by intro k; rw [hfb]; exact lookup_swap_members r _ _ k) h1 h2
        rw [this]
        cases marshalOK (introReg q r i) i.Claims m <;> rfl
    · have := c12w_intro_username_kept i hne
      rw [this] at h1 h2
      simp [introMarshalOK, marshalOK_of_lookup _ _ _ h1 h2]
  · -- the receiver
    unfold introRecvOK introFallback
    by_cases hne : (i.Username == "") = true
    · have : i.Username = "" := by simpa using hne
      simp [this]
    · simp [hne]
  · intro hne
    have hk := c12w_intro_username_kept i hne
    refine ⟨?_, by rw [hk]⟩
    rw [hk] at h1
    have hU : (i.Username == "") = false := by simpa using hne
    have hin : (keys (introReg q r i)).contains "username" = true := by
      unfold introReg memberOf; simp [hU, keys]
    rw [h1 _ hin]
    unfold introReg memberOf
    simp only [hU, Bool.false_eq_true, if_false]
    rw [lookup_append, lookup_append, lookup_none_of_not_key r _ hu, lookup_single]; simp

/-! ### oidc.Time <-> time.Time (pkg/oidc/types.go): the hand-written twins used by every slice ARE the regenerated functions -/

theorem c12w_fromTime (now tt : Int) : GenCodecW.FromTime now tt = Go.fromTime tt := by
  unfold GenCodecW.FromTime Go.fromTime
  go_leaf
theorem c12w_asTime (now ts : Int) : GenCodecW.TimeAsTime now ts = Go.asTime ts := by
  unfold GenCodecW.TimeAsTime Go.asTime Cdw.timeUnix
  go_leaf
/-- seconds survive the conversion to time.Time and back - except the one value whose time.Time is the zero time -/
theorem c12w_time_roundtrip (now ts : Int) (h : ts ≠ -62135596800) : GenCodecW.FromTime now (GenCodecW.TimeAsTime now ts) = ts := by
  rw [c12w_fromTime, c12w_asTime]
  unfold Go.fromTime Go.asTime Go.tIsZero Go.tUnix Go.tToUnix Go.zeroTime Go.second
  by_cases h0 : ts = 0
  · subst h0; simp
  · have hb : (ts == 0) = false := by simpa using h0
    simp only [hb, Bool.false_eq_true, if_false]
    have hz : (ts * 1000000000 == -62135596800000000000) = false := by
      simp only [beq_eq_false_iff_ne, ne_eq]; omega
    simp only [hz, Bool.false_eq_true, if_false]
    omega

/-! ### the registered names (struct tags, regenerated): table checks -/

/-- iss, sub, aud, exp, iat are registered members of every token / assertion type: a custom claim of that name can only be seen
    when the field is not set (table check over the regenerated `regFields`) -/
theorem c12w_protected_names :
    ∀ t ∈ ["AccessTokenClaims", "IDTokenClaims", "LogoutTokenClaims", "JWTProfileAssertionClaims", "JWTTokenRequest", "IntrospectionResponse"],
      ∀ n ∈ ["iss", "sub", "aud", "exp", "iat"], (GenCodecW.regNames t).contains n = true := by decide
/-- … and for the two assertion types they are ALWAYS set (no omitempty), so they always win -/
theorem c12w_assertion_always_set :
    ∀ t ∈ ["JWTProfileAssertionClaims", "JWTTokenRequest"], ∀ n ∈ ["iss", "sub", "aud", "exp", "iat"],
      (GenCodecW.regFields t).contains (n, false) = true := by decide
theorem c12w_intro_names : (GenCodecW.regNames "IntrospectionResponse").contains "username" = true ∧
    (GenCodecW.regNames "IntrospectionResponse").contains "preferred_username" = true ∧
    (GenCodecW.regNames "ActorClaims") = ["act", "iss", "sub"] := by decide

/-! ### non-vacuity -/

/-- a decoded JWTTokenRequest (private holds the OLD iss and exp) whose Issuer / ExpiresAt were assigned afterwards -/
def jDemo : Cdw.JwtReq :=
  { alias := { enc := .ok [("iss", "\"gateway\""), ("sub", "\"c\""), ("aud", "[\"op\"]"), ("iat", "10"), ("exp", "0")] },
    priv := [("iss", "\"client\""), ("sub", "\"c\""), ("aud", "[\"op\"]"), ("iat", "10"), ("exp", "99"), ("role", "\"x\"")] }
example : (GenCodecW.JWTTokenRequestMarshalJSON 0 {} jDemo).2.toOption.bind (fun m => lookup m "iss") = some "\"gateway\"" := by decide
example : (GenCodecW.JWTTokenRequestMarshalJSON 0 {} jDemo).2.toOption.bind (fun m => lookup m "exp") = some "0" := by decide
example : (GenCodecW.JWTTokenRequestMarshalJSON 0 {} jDemo).2.toOption.bind (fun m => lookup m "role") = some "\"x\"" := by decide
example : marshalOK [("iss", "\"gateway\"")] [("iss", "\"client\"")] [("iss", "\"client\"")] = some "registered-claim-lost-or-overridden" := by decide
/-- two encodings in a row with an assignment in between: the second one carries the new issuer although the first one left the
    old one in the private map -/
example : (jrun 0 {} jDemo [.encode, .assign { enc := .ok [("iss", "\"third\"")] }, .encode]).map
    (fun out => out.2.toOption.bind (fun m => lookup m "iss")) = [some "\"gateway\"", some "\"third\""] := by decide

def oQuote : Oracles := { marshalString := fun s => .ok ("\"" ++ s ++ "\"") }
def iDemo : Cdw.IntroVal := { Username := "svc-17", PreferredUsername := "alice", rest := .ok [("active", "true")], Claims := [("username", "\"evil\"")] }
example : ((GenCodecW.IntrospectionResponseMarshalJSON 0 oQuote iDemo).2.toOption.bind List.head?).bind (fun m => lookup m "username") = some "\"svc-17\"" := by decide
example : (GenCodecW.IntrospectionResponseMarshalJSON 0 oQuote iDemo).1.Username = "svc-17" := by decide
example : ((GenCodecW.IntrospectionResponseMarshalJSON 0 oQuote { iDemo with Username := "" }).2.toOption.bind List.head?).bind (fun m => lookup m "username")
    = some "\"alice\"" := by decide
example : introMarshalOK [("active", "true"), ("username", "\"svc-17\""), ("preferred_username", "\"alice\"")] []
    [("active", "true"), ("username", "\"alice\""), ("preferred_username", "\"alice\"")] = some "registered-claim-lost-or-overridden" := by decide
example : introMarshalOK [("active", "true"), ("preferred_username", "\"alice\"")] []
    [("active", "true"), ("username", "\"alice\""), ("preferred_username", "\"alice\"")] = none := by decide
example : GenCodecW.FromTime 0 (GenCodecW.TimeAsTime 0 (-62135596800)) = 0 := by decide

end C12
