/-
  C17 (round 4): the keys of the cookie handler.

  The property speaks about "a cookie minted under another key".  Which key a handler verifies with is decided where the
  handler is CONSTRUCTED: `NewCookieHandler(hashKey, encryptKey, opts…)` (pkg/http/cookie.go) and its functional options.
  They are regenerated here (Generated/RPCookieNew.lean); `securecookie.New` is `Hand.securecookieNew`, which holds exactly the
  byte strings it is handed.  A helper the library applies to a key before that call is part of the regenerated definition
  (or makes it UNSUPPORTED), and the characterisation lemma `newCookieHandler_eq` stops checking.

  * `newCookieHandler_keys`: for EVERY list of the library's options, in any order, the handler's MAC key is exactly the
    configured hash key and its cipher key exactly the configured encrypt key.
  * `c17_other_key_rejected` / `c17_cross_handler_rejected`: for all keys (k1, b1) ≠ (k2, b2) AS BYTE STRINGS - of any length, sharing
    any prefix, one a prefix of the other, differing in the last byte only - a cookie minted under (k1, b1), e.g. by the `SetCookie` of
    a handler constructed with them, is never accepted by a handler constructed with (k2, b2).
  * `c17_other_name_rejected`: nor is a cookie the same handler minted for another cookie name (prefixes included: names are
    compared as whole strings).
  * `c17_callback_holds_configured`: `c17_callback_holds` with the monitor told the CONFIGURED keys instead of the keys read off the
    handler; `c17_foreign_cookie_unauthorized`: the state cookie of another handler at the callback: unauthorized handler, no request.
-/
import OidcModel.Proofs.C17
import OidcModel.Generated.RPCookieNew
import OidcModel.GoTac

namespace C17Keys
open C17 RPBrowser Gen Go Hand

/-! ### characterisation lemmas (the only place where the shape of the Go text matters) -/

theorem withUnsecure_eq (now : Int) (c : CookieHandler) : WithUnsecure now c = { c with secureOnly := false } := by
  go_char WithUnsecure

theorem withSameSite_eq (now : Int) (n : Int) (c : CookieHandler) : WithSameSite now n c = { c with sameSite := n } := by
  go_char WithSameSite

theorem withMaxAge_eq (now : Int) (n : Int) (c : CookieHandler) :
    WithMaxAge now n c = { c with maxAge := n, securecookie := { c.securecookie with maxAge := n } } := by
  go_char WithMaxAge SecureCookie.MaxAge

theorem withDomain_eq (now : Int) (d : String) (c : CookieHandler) : WithDomain now d c = { c with domain := d } := by
  go_char WithDomain

theorem withPath_eq (now : Int) (p : String) (c : CookieHandler) : WithPath now p c = { c with path := p } := by
  go_char WithPath

/-- the handler before its options: the codec `securecookie.New` builds from EXACTLY the configured byte strings -/
def baseHandler (hashKey encryptKey : CookieKey) : CookieHandler :=
  { securecookie := { hashKey := hashKey, blockKey := encryptKey }, secureOnly := true, sameSite := 2, path := "/" }

theorem newCookieHandler_eq (now : Int) (hk ek : CookieKey) (opts : List CookieHandlerOpt) :
    NewCookieHandler now hk ek opts = opts.foldl (fun c o => o c) (baseHandler hk ek) := by
  go_char NewCookieHandler GoX.foldList Hand.securecookieNew baseHandler Http.SameSiteLaxMode

/-! ### the options of the library, as data -/

/-- the functional options pkg/http/cookie.go offers -/
inductive ChOpt
  | unsecure
  | sameSite (n : Int)
  | maxAge (n : Int)
  | domain (d : String)
  | path (p : String)
  deriving Repr, DecidableEq

def ChOpt.denote (now : Int) : ChOpt → CookieHandlerOpt
  | .unsecure => WithUnsecure now
  | .sameSite n => WithSameSite now n
  | .maxAge n => WithMaxAge now n
  | .domain d => WithDomain now d
  | .path p => WithPath now p

/-- an option that leaves the keys alone -/
def KeyPreserving (o : CookieHandlerOpt) : Prop :=
  ∀ c, (o c).securecookie.hashKey = c.securecookie.hashKey ∧ (o c).securecookie.blockKey = c.securecookie.blockKey

theorem denote_keyPreserving (now : Int) (d : ChOpt) : KeyPreserving (d.denote now) := by
  intro c
  cases d <;> simp [ChOpt.denote, withUnsecure_eq, withSameSite_eq, withMaxAge_eq, withDomain_eq, withPath_eq]

theorem foldl_keys (opts : List CookieHandlerOpt) (h : ∀ o ∈ opts, KeyPreserving o) (c : CookieHandler) :
    (opts.foldl (fun c o => o c) c).securecookie.hashKey = c.securecookie.hashKey ∧
    (opts.foldl (fun c o => o c) c).securecookie.blockKey = c.securecookie.blockKey := by
  induction opts generalizing c with
  | nil => exact ⟨rfl, rfl⟩
  | cons o os ih =>
    simp only [List.foldl_cons]
    have h1 := ih (fun o' ho' => h o' (List.mem_cons_of_mem _ ho')) (o c)
    have h2 := h o (List.mem_cons_self ..) c
    exact ⟨h1.1.trans h2.1, h1.2.trans h2.2⟩

/-- THE key fact: whatever key-preserving options are applied, in whatever order, the handler's MAC key is exactly the configured
    hash key and its cipher key exactly the configured encrypt key (byte for byte, any length) -/
theorem newCookieHandler_keys_of (now : Int) (hk ek : CookieKey) (opts : List CookieHandlerOpt) (h : ∀ o ∈ opts, KeyPreserving o) :
    (NewCookieHandler now hk ek opts).securecookie.hashKey = hk ∧ (NewCookieHandler now hk ek opts).securecookie.blockKey = ek := by
  rw [newCookieHandler_eq]
  exact foldl_keys opts h (baseHandler hk ek)

/-- … in particular for every list of the library's own options -/
theorem newCookieHandler_keys (now : Int) (hk ek : CookieKey) (ds : List ChOpt) :
    (NewCookieHandler now hk ek (ds.map (ChOpt.denote now))).securecookie.hashKey = hk ∧
    (NewCookieHandler now hk ek (ds.map (ChOpt.denote now))).securecookie.blockKey = ek := by
  apply newCookieHandler_keys_of
  intro o ho
  obtain ⟨d, _, rfl⟩ := List.mem_map.1 ho
  exact denote_keyPreserving now d

/-! ### cookies under other keys / for other names -/

/-- the first cookie called `name` was minted under (k1, b1) for the cookie name `n` -/
def Presents (r : HttpReq) (name : String) (k1 b1 : CookieKey) (n value : String) : Prop :=
  ∃ c, r.cookies.find? (·.Name == name) = some c ∧ c.Value = .minted k1 b1 n value

theorem checkCookie_ok_iff (now : Int) (ch : CookieHandler) (r : HttpReq) (name v : String) :
    CheckCookie now ch r name = .ok v ↔
      ∃ c, r.cookies.find? (·.Name == name) = some c ∧
        c.Value = .minted ch.securecookie.hashKey ch.securecookie.blockKey name v := by
  unfold CheckCookie HttpReq.Cookie
  cases h : r.cookies.find? (·.Name == name) with
  | none => simp
  | some c =>
    simp only [SecureCookie.Decode]
    cases hv : c.Value with
    | plain s => simp [hv]
    | minted hk bk n val =>
      by_cases hc : (hk == ch.securecookie.hashKey && bk == ch.securecookie.blockKey && n == name) = true
      · simp only [hc, if_true]
        simp only [Bool.and_eq_true, beq_iff_eq] at hc
        obtain ⟨⟨h1, h2⟩, h3⟩ := hc
        constructor
        · intro e; cases e; exact ⟨c, rfl, by rw [hv, h1, h2, h3]⟩
        · rintro ⟨c', hc', hv'⟩
          cases hc'
          rw [hv] at hv'
          cases hv'; rfl
      · simp only [hc]
        constructor
        · intro e; cases e
        · rintro ⟨c', hc', hv'⟩
          cases hc'
          rw [hv] at hv'
          cases hv'
          simp at hc

/-- for ALL byte strings (k1, b1) ≠ (k2, b2): a cookie minted under (k1, b1) is refused by a handler CONSTRUCTED with (k2, b2),
    whatever options it was given, whatever cookie name it is presented under and whatever it was minted for -/
theorem c17_other_key_rejected (now : Int) (k1 b1 k2 b2 : CookieKey) (hne : k1 ≠ k2 ∨ b1 ≠ b2)
    (opts : List CookieHandlerOpt) (hopts : ∀ o ∈ opts, KeyPreserving o)
    (r : HttpReq) (name n value : String) (hp : Presents r name k1 b1 n value) :
    ∀ v, CheckCookie now (NewCookieHandler now k2 b2 opts) r name ≠ .ok v := by
  intro v hok
  obtain ⟨c, hc, hv⟩ := (checkCookie_ok_iff now _ r name v).1 hok
  obtain ⟨c', hc', hv'⟩ := hp
  rw [hc] at hc'
  cases hc'
  rw [hv] at hv'
  obtain ⟨h1, h2⟩ := newCookieHandler_keys_of now k2 b2 opts hopts
  rw [h1, h2] at hv'
  cases hv'
  rcases hne with h | h <;> exact h rfl

/-- a cookie minted for another cookie name is refused (the names are compared as whole strings: `stat`, `states`, `STATE`
    are other names than `state`), also under the right keys -/
theorem c17_other_name_rejected (now : Int) (ch : CookieHandler) (k1 b1 : CookieKey) (r : HttpReq) (name n value : String)
    (hn : n ≠ name) (hp : Presents r name k1 b1 n value) :
    ∀ v, CheckCookie now ch r name ≠ .ok v := by
  intro v hok
  obtain ⟨c, hc, hv⟩ := (checkCookie_ok_iff now _ r name v).1 hok
  obtain ⟨c', hc', hv'⟩ := hp
  rw [hc] at hc'
  cases hc'
  rw [hv] at hv'
  cases hv'
  exact hn rfl

/-- what `SetCookie` of a handler leaves in the response is minted under that handler's keys for that name -/
theorem setCookie_minted (now : Int) (ch : CookieHandler) (w : World) (name value : String) (c : Http.Cookie)
    (hc : c ∈ setCookiesOf (SetCookie now ch w name value).1) :
    c ∈ setCookiesOf w ∨ (c.Name = name ∧ c.Value = .minted ch.securecookie.hashKey ch.securecookie.blockKey name value) := by
  unfold SetCookie SecureCookie.Encode at hc
  by_cases he : ch.securecookie.encodable name value = true
  · simp only [he, if_true, Http.SetCookie, setCookiesOf, List.filterMap_append, List.mem_append] at hc
    rcases hc with hc | hc
    · exact Or.inl hc
    · simp only [List.filterMap_cons, List.filterMap_nil, List.mem_singleton] at hc
      exact Or.inr (by rw [hc]; exact ⟨rfl, rfl⟩)
  · simp only [he] at hc
    exact Or.inl hc

/-- handler A (constructed with k1, b1) sets a cookie, the browser presents it to handler B (constructed with other bytes): refused -/
theorem c17_cross_handler_rejected (now : Int) (k1 b1 k2 b2 : CookieKey) (hne : k1 ≠ k2 ∨ b1 ≠ b2)
    (optsA optsB : List CookieHandlerOpt) (hA : ∀ o ∈ optsA, KeyPreserving o) (hB : ∀ o ∈ optsB, KeyPreserving o)
    (nameA value : String) (c : Http.Cookie)
    (hc : c ∈ setCookiesOf (SetCookie now (NewCookieHandler now k1 b1 optsA) [] nameA value).1)
    (r : HttpReq) (name : String) (hr : r.cookies.find? (·.Name == name) = some { Name := name, Value := c.Value }) :
    ∀ v, CheckCookie now (NewCookieHandler now k2 b2 optsB) r name ≠ .ok v := by
  rcases setCookie_minted now _ [] nameA value c hc with h | ⟨_, hv⟩
  · simp [setCookiesOf] at h
  · obtain ⟨h1, h2⟩ := newCookieHandler_keys_of now k1 b1 optsA hA
    rw [h1, h2] at hv
    exact c17_other_key_rejected now k1 b1 k2 b2 hne optsB hB r name nameA value ⟨_, hr, hv⟩

/-! ### lifted to the callback handler -/

/-- the monitor's configuration when it is told the keys the application CONFIGURED -/
def cfgConfigured (rp : RP) (hk ek : CookieKey) : Cfg :=
  { hashKey := hk, blockKey := ek, clientID := rp.oauthConfig.ClientID, redirectURI := rp.oauthConfig.RedirectURL,
    scopes := rp.oauthConfig.Scopes, pkce := rp.pkce }

theorem cfgOf_constructed (now : Int) (rp : RP) (hk ek : CookieKey) (opts : List CookieHandlerOpt)
    (hopts : ∀ o ∈ opts, KeyPreserving o) :
    cfgOf rp (NewCookieHandler now hk ek opts) = cfgConfigured rp hk ek := by
  obtain ⟨h1, h2⟩ := newCookieHandler_keys_of now hk ek opts hopts
  simp [cfgOf, cfgConfigured, h1, h2]

/-- `c17_callback_holds` for an RP whose cookie handler is what `NewCookieHandler` builds from the configured keys: the monitor -
    which knows the CONFIGURED byte strings, not the handler's inside - accepts every run of the callback handler -/
theorem c17_callback_holds_configured (now : Int) (rp : RP) (hk ek : CookieKey) (opts : List CookieHandlerOpt)
    (hopts : ∀ o ∈ opts, KeyPreserving o) (h : rp.cookieHandler = some (NewCookieHandler now hk ek opts))
    (urlParam : List UrlOpt) (r : HttpReq) :
    judgeCallback (cfgConfigured rp hk ek) r.cookies r.form
      (observeCallback (CodeExchangeHandler now rp urlParam [] r)) = none := by
  rw [← cfgOf_constructed now rp hk ek opts hopts]
  exact c17_callback_holds now rp _ h urlParam r

/-- the same for the login handler -/
theorem c17_login_holds_configured (now : Int) (state rnd : String) (rp : RP) (hk ek : CookieKey) (opts : List CookieHandlerOpt)
    (hopts : ∀ o ∈ opts, KeyPreserving o) (h : rp.cookieHandler = some (NewCookieHandler now hk ek opts))
    (hage : 0 ≤ (NewCookieHandler now hk ek opts).maxAge) (urlParam : List UrlOpt) (hres : NoReserved urlParam) (r : HttpReq) :
    judgeLogin (cfgConfigured rp hk ek) (observeLogin (AuthURLHandler now state rnd rp urlParam [] r)) = none := by
  rw [← cfgOf_constructed now rp hk ek opts hopts]
  exact c17_login_holds now state rnd rp _ h hage urlParam hres r

/-- the state cookie of a handler with OTHER configured bytes (another tenant, the key before a rotation, a key that shares its
    first 16 / 24 / 32 / 64 bytes, a prefix or an extension of this RP's key) at this RP's callback, with whatever state parameter:
    the unauthorized handler runs, nothing is sent to the provider, the application callback does not run -/
theorem c17_foreign_cookie_unauthorized (now : Int) (rp : RP) (k1 b1 k2 b2 : CookieKey) (hne : k1 ≠ k2 ∨ b1 ≠ b2)
    (opts : List CookieHandlerOpt) (hopts : ∀ o ∈ opts, KeyPreserving o)
    (h : rp.cookieHandler = some (NewCookieHandler now k2 b2 opts))
    (urlParam : List UrlOpt) (r : HttpReq) (n value : String) (hp : Presents r "state" k1 b1 n value) :
    let obs := observeCallback (CodeExchangeHandler now rp urlParam [] r)
    obs.tokenRequests = [] ∧ obs.callback = none ∧ obs.unauthorized = true := by
  apply c17_no_request_without_state now rp _ h urlParam r
  rw [← checkCookie_spec now rp]
  cases hcc : CheckCookie now (NewCookieHandler now k2 b2 opts) r "state" with
  | error e => simp [toOpt]
  | ok v => exact absurd hcc (c17_other_key_rejected now k1 b1 k2 b2 hne opts hopts r "state" n value hp v)

/-! ### non-vacuity (closed terms, evaluated by the kernel) -/

/-- a 64-byte master secret -/
def master : CookieKey := List.replicate 64 7
def tenantA : CookieKey := master ++ [58, 97]   -- master ++ ":a"
def tenantB : CookieKey := master ++ [58, 98]   -- master ++ ":b"

def rpB : RP :=
  { exRP with cookieHandler := some (NewCookieHandler 0 tenantB [] [WithUnsecure 0, WithMaxAge 0 600]) }

/-- tenant A's cookies at tenant B's callback (keys share their first 64 bytes): unauthorized, no token request -/
example : observeCallback (CodeExchangeHandler 0 rpB [] []
    { cookies := [{ Name := "state", Value := .minted tenantA [] "state" "s1" }, { Name := "pkce", Value := .minted tenantA [] "pkce" "v1" }],
      form := exQuery }) = { unauthorized := true } := by decide

/-- tenant B's own cookies: exchanged -/
example : (observeCallback (CodeExchangeHandler 0 rpB [] []
    { cookies := [{ Name := "state", Value := .minted tenantB [] "state" "s1" }, { Name := "pkce", Value := .minted tenantB [] "pkce" "v1" }],
      form := exQuery })).callback = some "s1" := by decide

/-- a key that is a proper prefix of the configured one, and one that differs in the last byte only -/
example : observeCallback (CodeExchangeHandler 0 rpB [] []
    { cookies := [{ Name := "state", Value := .minted master [] "state" "s1" }], form := exQuery }) = { unauthorized := true } ∧
  observeCallback (CodeExchangeHandler 0 rpB [] []
    { cookies := [{ Name := "state", Value := .minted (master ++ [58, 99]) [] "state" "s1" }], form := exQuery }) = { unauthorized := true } := by
  decide

/-- cookie names that are prefixes / extensions of `state`: a cookie CALLED `states` is not read, a cookie minted FOR `stat` is refused -/
example : observeCallback (CodeExchangeHandler 0 rpB [] []
    { cookies := [{ Name := "states", Value := .minted tenantB [] "state" "s1" }], form := exQuery }) = { unauthorized := true } ∧
  observeCallback (CodeExchangeHandler 0 rpB [] []
    { cookies := [{ Name := "state", Value := .minted tenantB [] "stat" "s1" }], form := exQuery }) = { unauthorized := true } := by
  decide

/-- the options do what their names say and leave the keys alone -/
example : (NewCookieHandler 0 tenantB [1, 2] [WithUnsecure 0, WithPath 0 "/app", WithDomain 0 "rp.local", WithSameSite 0 3, WithMaxAge 0 600]).securecookie.hashKey = tenantB := by
  decide

end C17Keys
