/-
  C09 — proofs.
  (A) `post_sound`: the static analysis `post` covers every execution (`Runs`) of every skeleton, for every entry
      state; `wf_traceOK`: a well-formed skeleton answers exactly once on every path and never runs logic after an
      error answer; `all_handlers_wf`: the shape is `decide`d on every skeleton regenerated from pkg/op;
      `c09_handlers_total_single_response` puts them together.
  (B) `c09_decoders_total`, `c09_verifiers_total`: no JSON value / token makes a decoder or verifier panic.
  (C) `c09_client_helpers_total`: no (status, body) makes a client helper panic or return nil without an error.
-/
import OidcModel.Spec.C09
import OidcModel.Model.C09Tie
import OidcModel.Proofs.C09Bounds
import OidcModel.Proofs.C09Fields
import OidcModel.Proofs.C09Asserts

namespace C09

/-! ### the observer automaton -/

theorem run_bad (tr : List HEv) : run .bad tr = .bad := by
  induction tr with
  | nil => rfl
  | cons e t ih => cases e <;> simpa [run, St.step] using ih

theorem run_cons (s : St) (e : HEv) (t : List HEv) : run s (e :: t) = run (s.step e) t := rfl

theorem run_append (s : St) (a b : List HEv) : run s (a ++ b) = run (run s a) b := by
  simp [run, List.foldl_append]

/-! ### `dedup` keeps membership -/

theorem mem_insertNew {r x : Res} {l : List Res} : x ∈ insertNew r l ↔ x = r ∨ x ∈ l := by
  unfold insertNew
  split
  · rename_i hc
    constructor
    · exact Or.inr
    · rintro (rfl | h')
      · simpa using hc
      · exact h'
  · simp

theorem mem_dedup {x : Res} {l : List Res} : x ∈ dedup l ↔ x ∈ l := by
  induction l with
  | nil => simp [dedup]
  | cons a t ih =>
    have : dedup (a :: t) = insertNew a (dedup t) := rfl
    rw [this, mem_insertNew, ih]; simp

/-! ### from the broken state everything stays broken; every skeleton has a way out -/

theorem post_ne (sk : HSk) : ∀ s, post sk s ≠ [] := by
  induction sk with
  | done => intro s; simp [post]
  | write n e k ih => intro s; simpa [post] using ih _
  | body n k ih => intro s; simpa [post] using ih _
  | logic n k ih => intro s; simpa [post] using ih _
  | ret r => intro s; simp [post]
  | ite a b k iha _ ihk =>
    intro s
    obtain ⟨r, hr⟩ := List.exists_mem_of_ne_nil _ (iha s)
    have hr' : r ∈ dedup (post a s ++ post b s) := mem_dedup.mpr (List.mem_append_left _ hr)
    intro h
    simp only [post] at h
    have hf := List.flatMap_eq_nil_iff.mp h _ hr'
    cases r with
    | fall s' => exact ihk s' hf
    | exit s' x => simp at hf
  | tryW n h k _ ihk =>
    intro s hh
    simp only [post] at hh
    exact ihk _ (List.append_eq_nil_iff.mp hh).1
  | loop b k _ ihk =>
    intro s hh
    simp only [post] at hh
    split at hh
    · exact ihk _ (List.append_eq_nil_iff.mp hh).1
    · exact ihk _ hh

theorem post_bad (sk : HSk) : ∀ r ∈ post sk .bad, r.st = .bad := by
  induction sk with
  | done => intro r hr; simp [post] at hr; subst hr; rfl
  | write n e k ih => intro r hr; simp only [post, St.step] at hr; exact ih r hr
  | body n k ih => intro r hr; simp only [post, St.step] at hr; exact ih r hr
  | logic n k ih => intro r hr; simp only [post, St.step] at hr; exact ih r hr
  | ret x => intro r hr; simp [post] at hr; subst hr; rfl
  | ite a b k iha ihb ihk =>
    intro r hr
    simp only [post] at hr
    obtain ⟨q, hq, hrq⟩ := List.mem_flatMap.mp hr
    have hq' := mem_dedup.mp hq
    have hqb : q.st = .bad := by
      rcases List.mem_append.mp hq' with h | h
      · exact iha q h
      · exact ihb q h
    cases q with
    | fall s' => simp only [Res.st] at hqb; subst hqb; exact ihk r hrq
    | exit s' x => simp at hrq; subst hrq; exact hqb
  | tryW n h k ihh ihk =>
    intro r hr
    simp only [post, St.step] at hr
    rcases List.mem_append.mp hr with h1 | h2
    · exact ihk r h1
    · obtain ⟨q, hq, hrq⟩ := List.mem_flatMap.mp h2
      have hqb : q.st = .bad := ihh q (mem_dedup.mp hq)
      cases q with
      | fall s' => simp only [Res.st] at hqb; subst hqb; exact ihk r hrq
      | exit s' x => simp at hrq; subst hrq; exact hqb
  | loop b k ihb ihk =>
    intro r hr
    simp only [post] at hr
    split at hr
    · rcases List.mem_append.mp hr with h1 | h2
      · exact ihk r h1
      · exact ihb r (mem_dedup.mp (List.mem_filter.mp h2).1)
    · exact ihk r hr

/-- some way out of `sk` entered in the broken state, and it is broken -/
theorem post_bad_witness (sk : HSk) : ∃ r ∈ post sk .bad, r.st = .bad := by
  obtain ⟨r, hr⟩ := List.exists_mem_of_ne_nil _ (post_ne sk .bad)
  exact ⟨r, hr, post_bad sk r hr⟩

/-! ### soundness of the analysis -/

/-- the analysis accounts for the execution: its result is listed, or the analysis already reports a broken path -/
def Covered (sk : HSk) (s : St) (tr : List HEv) (o : Option HRet) : Prop :=
  Res.mk (run s tr) o ∈ post sk s ∨ ∃ r ∈ post sk s, r.st = .bad

private theorem cont_covered {k : HSk} {l : List Res} {q : Res} {t2 : List HEv} {o : Option HRet}
    (hq : q ∈ l)
    (hk : ∀ s, Covered k s t2 o) :
    ∀ s', q = .fall s' →
      (Res.mk (run s' t2) o ∈ l.flatMap (fun r => match r with | .fall s' => post k s' | e => [e])) ∨
      ∃ r ∈ l.flatMap (fun r => match r with | .fall s' => post k s' | e => [e]), r.st = .bad := by
  intro s' hs
  subst hs
  rcases hk s' with h | ⟨r, hr, hb⟩
  · exact Or.inl (List.mem_flatMap.mpr ⟨_, hq, h⟩)
  · exact Or.inr ⟨r, List.mem_flatMap.mpr ⟨_, hq, hr⟩, hb⟩

private theorem bad_in_flat {k : HSk} {l : List Res} {q : Res} (hq : q ∈ l) (hb : q.st = .bad) :
    ∃ r ∈ l.flatMap (fun r => match r with | .fall s' => post k s' | e => [e]), r.st = .bad := by
  cases q with
  | fall s' =>
    simp only [Res.st] at hb; subst hb
    obtain ⟨r, hr, hrb⟩ := post_bad_witness k
    exact ⟨r, List.mem_flatMap.mpr ⟨_, hq, hr⟩, hrb⟩
  | exit s' x => exact ⟨_, List.mem_flatMap.mpr ⟨_, hq, by simp⟩, hb⟩

theorem post_sound {sk : HSk} {tr : List HEv} {o : Option HRet} (h : Runs sk tr o) : ∀ s, Covered sk s tr o := by
  induction h with
  | done => intro s; exact Or.inl (by simp [post, run, Res.mk])
  | write _ ih => intro s; simpa [Covered, post, run_cons] using ih (s.step _)
  | body _ ih => intro s; simpa [Covered, post, run_cons] using ih (s.step _)
  | logic _ ih => intro s; simpa [Covered, post, run_cons] using ih (s.step _)
  | ret => intro s; exact Or.inl (by simp [post, run, Res.mk])
  | @iteL_fall a b k t1 t2 o _ _ iha ihk =>
    intro s
    simp only [Covered, post, run_append]
    rcases iha s with h | ⟨r, hr, hb⟩
    · exact cont_covered (mem_dedup.mpr (List.mem_append_left _ h)) ihk _ rfl
    · exact Or.inr (bad_in_flat (mem_dedup.mpr (List.mem_append_left _ hr)) hb)
  | @iteL_exit a b k t r _ iha =>
    intro s
    simp only [Covered, post]
    rcases iha s with h | ⟨q, hq, hb⟩
    · exact Or.inl (List.mem_flatMap.mpr ⟨_, mem_dedup.mpr (List.mem_append_left _ h), by simp [Res.mk]⟩)
    · exact Or.inr (bad_in_flat (mem_dedup.mpr (List.mem_append_left _ hq)) hb)
  | @iteR_fall a b k t1 t2 o _ _ ihb ihk =>
    intro s
    simp only [Covered, post, run_append]
    rcases ihb s with h | ⟨r, hr, hb⟩
    · exact cont_covered (mem_dedup.mpr (List.mem_append_right _ h)) ihk _ rfl
    · exact Or.inr (bad_in_flat (mem_dedup.mpr (List.mem_append_right _ hr)) hb)
  | @iteR_exit a b k t r _ ihb =>
    intro s
    simp only [Covered, post]
    rcases ihb s with h | ⟨q, hq, hb⟩
    · exact Or.inl (List.mem_flatMap.mpr ⟨_, mem_dedup.mpr (List.mem_append_right _ h), by simp [Res.mk]⟩)
    · exact Or.inr (bad_in_flat (mem_dedup.mpr (List.mem_append_right _ hq)) hb)
  | @try_ok n h k tr o _ ihk =>
    intro s
    simp only [Covered, post, run_cons]
    rcases ihk (s.step (.wr false)) with h1 | ⟨r, hr, hb⟩
    · exact Or.inl (List.mem_append_left _ h1)
    · exact Or.inr ⟨r, List.mem_append_left _ hr, hb⟩
  | @try_fall n h k t1 t2 o _ _ ihh ihk =>
    intro s
    simp only [Covered, post, run_append]
    rcases ihh s with h1 | ⟨r, hr, hb⟩
    · rcases cont_covered (k := k) (mem_dedup.mpr h1) ihk _ rfl with h2 | ⟨r, hr, hb⟩
      · exact Or.inl (List.mem_append_right _ h2)
      · exact Or.inr ⟨r, List.mem_append_right _ hr, hb⟩
    · obtain ⟨r', hr', hb'⟩ := bad_in_flat (k := k) (mem_dedup.mpr hr) hb
      exact Or.inr ⟨r', List.mem_append_right _ hr', hb'⟩
  | @try_exit n h k t r _ ihh =>
    intro s
    simp only [Covered, post]
    rcases ihh s with h1 | ⟨q, hq, hb⟩
    · exact Or.inl (List.mem_append_right _ (List.mem_flatMap.mpr ⟨_, mem_dedup.mpr h1, by simp [Res.mk]⟩))
    · obtain ⟨r', hr', hb'⟩ := bad_in_flat (k := k) (mem_dedup.mpr hq) hb
      exact Or.inr ⟨r', List.mem_append_right _ hr', hb'⟩
  | @loop_end b k tr o _ ihk =>
    intro s
    simp only [Covered, post]
    split
    · rcases ihk s with h1 | ⟨r, hr, hb⟩
      · exact Or.inl (List.mem_append_left _ h1)
      · exact Or.inr ⟨r, List.mem_append_left _ hr, hb⟩
    · exact Or.inr (post_bad_witness k)
  | @loop_iter b k t1 t2 o _ _ ihb ihl =>
    intro s
    have hl := ihl s
    simp only [Covered, post, run_append] at hl ⊢
    split
    · rename_i hall
      simp only [hall, if_true] at hl
      rcases ihb s with h1 | ⟨r, hr, hb⟩
      · -- the iteration fell through in the state it started in
        have := List.all_eq_true.mp hall _ (mem_dedup.mpr h1)
        simp only [Res.mk, beq_iff_eq] at this
        rw [this]; exact hl
      · have hr' := mem_dedup.mpr hr
        have := List.all_eq_true.mp hall _ hr'
        cases r with
        | fall s' =>
          simp only [beq_iff_eq] at this
          simp only [Res.st] at hb
          subst this; subst hb
          -- started in the broken state: whatever comes out is broken
          obtain ⟨q, hq⟩ := List.exists_mem_of_ne_nil _ (post_ne k .bad)
          exact Or.inr ⟨q, List.mem_append_left _ hq, post_bad k q hq⟩
        | exit s' x =>
          exact Or.inr ⟨_, List.mem_append_right _ (List.mem_filter.mpr ⟨hr', rfl⟩), hb⟩
    · exact Or.inr (post_bad_witness k)
  | @loop_exit b k t r _ ihb =>
    intro s
    simp only [Covered, post]
    split
    · rcases ihb s with h1 | ⟨q, hq, hb⟩
      · exact Or.inl (List.mem_append_right _ (List.mem_filter.mpr ⟨mem_dedup.mpr h1, by simp [Res.mk, Res.isExit]⟩))
      · have hq' := mem_dedup.mpr hq
        rename_i hall
        have := List.all_eq_true.mp hall _ hq'
        cases q with
        | fall s' =>
          simp only [beq_iff_eq] at this
          simp only [Res.st] at hb
          subst this; subst hb
          obtain ⟨q, hq⟩ := List.exists_mem_of_ne_nil _ (post_ne k .bad)
          exact Or.inr ⟨q, List.mem_append_left _ hq, post_bad k q hq⟩
        | exit s' x => exact Or.inr ⟨_, List.mem_append_right _ (List.mem_filter.mpr ⟨hq', rfl⟩), hb⟩
    · exact Or.inr (post_bad_witness k)

theorem resOK_not_bad {r : Res} (h : resOK r = true) : r.st ≠ .bad := by
  cases r with
  | fall s => cases s <;> simp_all [resOK, exitOK, Res.st]
  | exit s x => cases s <;> cases x <;> simp_all [resOK, exitOK, Res.st]

/-- a well-formed skeleton: every execution leaves the observer in an accepting state -/
theorem wf_resOK {sk : HSk} (hwf : wf sk = true) {tr : List HEv} {o : Option HRet} (h : Runs sk tr o) :
    resOK (Res.mk (run .w0 tr) o) = true := by
  have hall := List.all_eq_true.mp hwf
  rcases post_sound h .w0 with h1 | ⟨r, hr, hb⟩
  · exact hall _ h1
  · exact absurd hb (resOK_not_bad (hall _ hr))

/-! ### the observer automaton is the counting monitor of the Spec -/

def cnt : St → Nat | .w0 => 0 | .wok => 1 | .werr => 1 | .bad => 2
def com (s : St) : Bool := cnt s == 1
def errd : St → Bool | .werr => true | _ => false

theorem run_counts : ∀ (tr : List HEv) (s : St), s ≠ .bad → run s tr ≠ .bad →
    cnt s + commitsFrom (com s) tr = cnt (run s tr) ∧ logicAfterErrFrom (errd s) tr = 0 := by
  intro tr
  induction tr with
  | nil => intro s _ _; simp [run, commitsFrom, logicAfterErrFrom]
  | cons e t ih =>
    intro s hs hrun
    rw [run_cons] at hrun ⊢
    have hstep : s.step e ≠ .bad := by
      intro h; rw [h, run_bad] at hrun; exact hrun rfl
    have := ih (s.step e) hstep hrun
    cases s <;> cases e <;> (try rename_i b; cases b) <;>
      simp_all [St.step, cnt, com, errd, commitsFrom, logicAfterErrFrom] <;> omega

/-- accepting end state ⇒ the Spec's counting monitor holds of the event sequence -/
theorem traceOK_of_resOK {tr : List HEv} {o : Option HRet} (h : resOK (Res.mk (run .w0 tr) o) = true) :
    traceOK tr o = true := by
  have hnb : run .w0 tr ≠ .bad := by
    have := resOK_not_bad h
    cases o <;> simpa [Res.mk, Res.st] using this
  obtain ⟨hc, hl⟩ := run_counts tr .w0 (by decide) hnb
  simp only [cnt, com, errd] at hc hl
  simp only [traceOK, obsOfTrace, hl]
  cases o with
  | none =>
    cases hfin : run .w0 tr <;> simp_all [Res.mk, resOK, exitOK]
  | some r =>
    cases hfin : run .w0 tr <;> cases r <;> simp_all [Res.mk, resOK, exitOK]

/-- (A, generic) a skeleton of the well-formed shape answers exactly once on every path — all branch outcomes, i.e. all
    requests and all answers of storage and oracles — and runs no logic after an error answer; where the function hands
    an error back to its caller instead, it has written nothing -/
theorem wf_traceOK {sk : HSk} (hwf : wf sk = true) {tr : List HEv} {o : Option HRet} (h : Runs sk tr o) :
    traceOK tr o = true :=
  traceOK_of_resOK (wf_resOK hwf h)

/-- the recorder's monitor accepts the observation of every such path -/
theorem wf_handlerOK {sk : HSk} (hwf : wf sk = true) {tr : List HEv} {o : Option HRet} (h : Runs sk tr o)
    (ho : o ≠ some .err) : handlerOK (obsOfTrace tr) = none := by
  have := wf_traceOK hwf h
  simp only [traceOK, ho, if_false, Bool.and_eq_true, beq_iff_eq] at this
  obtain ⟨h1, h2⟩ := this
  have h0 : (obsOfTrace tr).panic = false := rfl
  simp [handlerOK, h0, h1, h2]

/-! ### (A) the regenerated skeletons have the shape -/

/-- every function of pkg/op that receives the ResponseWriter has the well-formed shape, except the two audited leaf writers -/
theorem all_handlers_wf :
    (GenC09.handlers.all fun h => wf h.sk || auditedWriters.contains h.name) = true := by decide

/-- the two audited leaf writers are exactly the audited code (any edit re-opens the audit) -/
theorem marshalJSONWithStatus_pinned : GenC09.MarshalJSONWithStatus_skeleton = [
    "w.Header().Set(\"content-type\", \"application/json\")",
    "w.WriteHeader(status)",
    "if i == nil || (reflect.ValueOf(i).Kind() == reflect.Ptr && reflect.ValueOf(i).IsNil()) {",
    "return",
    "}",
    "err := json.NewEncoder(w).Encode(i)",
    "if err != nil {",
    "http.Error(w, err.Error(), http.StatusInternalServerError)",
    "}"] := by decide

theorem authResponseFormPost_pinned : GenC09.AuthResponseFormPost_skeleton = [
    "values := make(map[string][]string)",
    "err := encoder.Encode(response, values)",
    "if err != nil {",
    "return oidc.ErrServerError().WithParent(err)",
    "}",
    "params := &struct { RedirectURI string Params any }{ RedirectURI: redirectURI, Params: values, }",
    "var buf bytes.Buffer",
    "err = formPostTmpl.Execute(&buf, params)",
    "if err != nil {",
    "return oidc.ErrServerError().WithParent(err)",
    "}",
    "res.Header().Set(\"Cache-Control\", \"no-store\")",
    "res.WriteHeader(http.StatusOK)",
    "_, err = buf.WriteTo(res)",
    "if err != nil {",
    "return oidc.ErrServerError().WithParent(err)",
    "}",
    "return nil"] := by decide

/-- **C09 (A)**: for every handler function regenerated from the source (both routers), every path through it —
    every request, every storage / oracle answer — commits exactly one response and runs no storage or grant logic after
    an error response (functions that return an error: exactly one response XOR the error, nothing written) -/
theorem c09_handlers_total_single_response :
    ∀ h ∈ GenC09.handlers, h.name ∉ auditedWriters →
      ∀ tr o, Runs h.sk tr o → traceOK tr o = true := by
  intro h hh hna tr o hr
  have := List.all_eq_true.mp all_handlers_wf h hh
  rcases Bool.or_eq_true _ _ |>.mp this with hw | ha
  · exact wf_traceOK hw hr
  · exact absurd (List.contains_iff_mem.mp ha) hna

/-- non-vacuity: a concrete path of the authorization-code handler (parse error answered, then return) … -/
example : Runs GenC09.sk_CodeExchange [.logic, .wr true] (some .none) :=
  .logic (.iteL_exit (.write .ret))
/-- … and the shape predicate rejects a handler that forgets the `return` (the path answers twice) -/
def skMissingReturn : HSk := .logic "Parse" (.ite (.write "RequestError" true .done) .done (.logic "Validate" (.write "MarshalJSON" false .done)))
example : wf skMissingReturn = false := by decide
example : Runs skMissingReturn [.logic, .wr true, .logic, .wr false] none :=
  .logic (.iteL_fall (.write .done) (.logic (.write .done)))
example : traceOK [.logic, .wr true, .logic, .wr false] none = false := by decide

/-! ### (B) decoders and verifiers -/

/-- the only single-value type assertion in the library packages is the audited one -/
theorem unchecked_asserts_audited : GenC09.uncheckedAsserts = auditedAsserts := by decide

theorem genFacts_aud : genFacts.audAssertUnchecked = false := by decide

/-- **C09 (B, decoders)**: every JSON value — null, non-objects, arrays with non-strings, fractional / huge / negative
    numbers, nested containers — is mapped by each tolerant decoder to a value or an error, never to the panic outcome -/
theorem c09_decoders_total (rfc : String → Option Int) (lang : String → Lang) (v : JVal) :
    decodeAudience genFacts v.flat ≠ .panic ∧
    Codec.decodeTime rfc v.flat ≠ .panic ∧
    Codec.decodeBool v.flat ≠ .panic ∧
    Codec.decodeSpaceDelimited v.flat ≠ .panic ∧
    decodeLocale lang v.flat ≠ .panic ∧
    decodeLocales v.flat ≠ .panic := by
  refine ⟨?_, ?_, ?_, ?_, ?_, ?_⟩
  · unfold decodeAudience
    cases v.flat with
    | atom a => cases a <;> simp [Codec.decodeAudience]
    | arr l =>
      simp only [genFacts_aud, Bool.and_false, Bool.false_eq_true, if_false, Codec.decodeAudience]
      split <;> simp
  · cases v.flat with
    | atom a => cases a <;> simp [Codec.decodeTime] <;> (try split) <;> simp
    | arr l => simp [Codec.decodeTime]
  · cases v.flat with
    | atom a =>
      cases a with
      | bool b => cases b <;> simp [Codec.decodeBool]
      | str s => by_cases h : s = "true" <;> simp [Codec.decodeBool, h]
      | _ => simp [Codec.decodeBool]
    | arr l => simp [Codec.decodeBool]
  · cases v.flat with
    | atom a => cases a <;> simp [Codec.decodeSpaceDelimited]
    | arr l => simp [Codec.decodeSpaceDelimited]
  · cases v.flat with
    | atom a =>
      cases a <;> simp [decodeLocale]
      split <;> (try split) <;> simp
    | arr l => simp [decodeLocale]
  · cases v.flat with
    | atom a => cases a <;> simp [decodeLocales]
    | arr l => simp only [decodeLocales]; split <;> simp

theorem membersPanic_false (m : List (String × JVal)) : membersPanic genFacts m = false := by
  unfold membersPanic
  rw [List.any_eq_false]
  intro kv _
  have := (c09_decoders_total (fun _ => none) (fun _ => .ok) kv.2).1
  simp [this]

/-- every ParseToken site is harmless: the payload must be an object, or the possibly-nil target is not used -/
theorem parseToken_sites_safe :
    (genFacts.sites.all fun s => s.decoder != "ParseToken" || s.safe genFacts.parseTokenObjectOnly) = true := by decide

theorem parseToken_no_panic (pp : Bool) (t : Tok) : parseToken genFacts pp t ≠ .panic := by
  unfold parseToken
  (repeat' split) <;> simp_all [membersPanic_false]

theorem parseToken_no_nil (pp : Bool) (t : Tok) (h : genFacts.parseTokenObjectOnly = true) :
    parseToken genFacts pp t ≠ .nilTarget := by
  unfold parseToken
  (repeat' split) <;> simp_all [JVal.isObj]

/-- **C09 (B, verifiers)**: no token — any number of segments, undecodable payload, payload `null`, a non-object,
    an object with members of any type — makes `ParseToken` followed by the verifier's use of the claims panic -/
theorem c09_verifiers_total (fn : String) (t : Tok) : verifyPanics genFacts fn t = false := by
  unfold verifyPanics
  cases hs : genFacts.sites.find? (fun s => s.fn == fn && s.decoder == "ParseToken") with
  | none =>
    simp only [Option.isSome_none]
    cases hp : parseToken genFacts false t <;> simp
    exact absurd hp (parseToken_no_panic _ _)
  | some s =>
    have hmem := List.mem_of_find?_eq_some hs
    have hp := List.find?_some hs
    have hsafe := List.all_eq_true.mp parseToken_sites_safe s hmem
    simp only [Bool.and_eq_true, beq_iff_eq] at hp
    simp only [hp.2, bne_self_eq_false, Bool.false_or, DecodeSite.safe] at hsafe
    simp only [Option.isSome_some]
    cases hpt : parseToken genFacts true t <;> simp
    · exact absurd hpt (parseToken_no_panic _ _)
    · -- the target was left nil: then ParseToken does not insist on objects, so the site must be nil-safe
      cases hoo : genFacts.parseTokenObjectOnly
      · simpa [hoo] using hsafe
      · exact absurd hpt (parseToken_no_nil _ _ hoo)

/-- the result contract, decided on the regenerated return statements and callers: every return of a verifier that its
    callers go on from (the success return; a return wrapping the error as the type a caller lets through —
    `IDTokenHintExpiredError`) hands back the parsed claims, never nil -/
theorem verifier_contract : contractOK genFacts = true := by decide

/-- **C09 (B, callers of the verifiers)**: whatever check of the verifier refuses the token (or none), a caller that
    tolerates the verifier's typed error never goes on with nil claims -/
theorem c09_hint_callers_total : ∀ c ∈ genFacts.callers, ∀ check : String, callerMayPanic genFacts c check = false := by
  intro c hc check
  have h := verifier_contract
  simp only [contractOK, Bool.and_eq_true, List.all_eq_true] at h
  unfold callerMayPanic
  rw [List.any_eq_false]
  intro r hr
  have := h.1 c hc r hr
  simp only [Bool.not_eq_true'] at this
  simp [this]

/-- the contract is not vacuous: the two callers of `VerifyIDTokenHint` and its three soft-error returns are there … -/
example : genFacts.callers.length = 2 ∧ (genFacts.returns.filter fun r => r.err == "typed").length = 3 := by decide
/-- … and a verifier that wraps a failed iat check as the tolerated error but returns the zero claims breaks it -/
example : callerMayPanic
    { returns := [{ fn := "op.VerifyIDTokenHint", value := "nilClaims", isTarget := false, err := "typed", errType := "IDTokenHintExpiredError", check := "oidc.CheckIssuedAt", cond := "" }] }
    { fn := "op.ValidateEndSessionRequest", callee := "op.VerifyIDTokenHint", target := "claims", errType := "IDTokenHintExpiredError", guarded := false, derefs := 3, passes := 0 }
    "oidc.CheckIssuedAt" = true := by decide

/-- no local of pkg/op that is declared without a value and used later gets its value ONLY inside a function literal
    (whether such a local holds a value would depend on which literal ran: F-C09f, `client` of `op.Authorize` behind an
    `AuthorizeValidator`, repaired) -/
theorem closure_assigned_none : GenC09.closureAssigned = [] := by decide

/-- verifiers and their callers together -/
theorem c09_verifiers_and_callers_total (fn : String) (t : Tok) :
    verifyPanics genFacts fn t = false ∧ ∀ c ∈ genFacts.callers, ∀ check : String, callerMayPanic genFacts c check = false :=
  ⟨c09_verifiers_total fn t, c09_hint_callers_total⟩

/-! ### (C) client helpers -/

/-- every decode into the address of a pointer variable is harmless: guarded by a nil test, or the variable is neither
    dereferenced nor handed on nor returned (ParseToken sites: see above) -/
theorem decode_sites_safe :
    (genFacts.sites.all fun s => s.safe genFacts.parseTokenObjectOnly) = true := by decide

theorem nonToken_safe {fn : String} {s : DecodeSite} (h : nonTokenSite genFacts fn = some s) :
    (s.guarded || (s.derefs == 0 && s.passes == 0 && !s.returned)) = true := by
  have hsafe := List.all_eq_true.mp decode_sites_safe s (List.mem_of_find?_eq_some h)
  have hp := List.find?_some h
  simp only [Bool.and_eq_true, bne_iff_ne, ne_eq] at hp
  have hd : (s.decoder == "ParseToken") = false := by simpa using hp.2
  simpa [DecodeSite.safe, hd] using hsafe

theorem nonToken_nilSafe {fn : String} {s : DecodeSite} (h : nonTokenSite genFacts fn = some s) : s.nilSafe = true := by
  have := nonToken_safe h
  simp only [DecodeSite.nilSafe]
  cases hg : s.guarded
  · simp only [hg, Bool.false_or, Bool.and_eq_true] at this
    simp [this.1.1, this.1.2]
  · simp

theorem nullOutcome_ok {fn : String} {s : DecodeSite} (h : nonTokenSite genFacts fn = some s) :
    outcomeOK (nullOutcome s) = none := by
  have := nonToken_safe h
  unfold nullOutcome
  cases hg : s.guarded
  · simp only [hg, Bool.false_or, Bool.and_eq_true, beq_iff_eq, Bool.not_eq_true'] at this
    obtain ⟨⟨h1, h2⟩, h3⟩ := this
    simp [h1, h2, h3, outcomeOK]
  · simp [outcomeOK]

theorem typeNullOutcome_ok (fn : String) : outcomeOK (typeNullOutcome genFacts fn) = none := by
  unfold typeNullOutcome
  split
  · split
    · rename_i s hs
      simp [nonToken_nilSafe hs, outcomeOK]
    · simp [outcomeOK]
  · simp [outcomeOK]

/-- **C09 (C)**: for every client-side helper and every answer of the provider — any status, any body: not JSON at all,
    `null`, arrays, numbers, strings, objects with members of any type — the helper returns a value or an error;
    it never panics and never returns nil without an error -/
theorem c09_client_helpers_total (fn : String) (status : Nat) (body : Option JVal) :
    outcomeOK (helperOutcome genFacts fn status body) = none := by
  unfold helperOutcome
  split
  · split
    · rename_i s heq
      simp [nonToken_nilSafe heq, outcomeOK]
    · simp [outcomeOK]
  · split
    · simp [outcomeOK]
    · split
      · split
        · rename_i s hs
          exact nullOutcome_ok hs
        · exact typeNullOutcome_ok fn
      · simp [outcomeOK]

/-- non-vacuity: a site as it was before the repair (decode into `&discoveryConfig`, then `discoveryConfig.Issuer`)
    is rejected, and the model reproduces the nil dereference on the body `null` -/
def siteUnsafe : DecodeSite :=
  { fn := "client.Discover", decoder := "HttpRequest", target := "discoveryConfig", kind := "ptr", guarded := false, derefs := 1, passes := 0, returned := true }
example : siteUnsafe.safe true = false := by decide
example : helperOutcome { sites := [siteUnsafe] } "client.Discover" 200 (some .null) = .panic := by decide
example : helperOutcome genFacts "client.Discover" 200 (some .null) = .ok := by decide
example : helperOutcome genFacts "rp.Userinfo" 200 (some .null) = .err := by decide
/-- … and a payload `null` panics a verifier when ParseToken lets it through (the behaviour before the repair) -/
example : verifyPanics { parseTokenObjectOnly := false, sites := [{ fn := "rp.VerifyIDToken", decoder := "ParseToken", target := "claims", kind := "generic", guarded := false, derefs := 0, passes := 10, returned := true }] }
    "rp.VerifyIDToken" { parts := 3, b64ok := true, payload := some .null } = true := by decide
example : decodeAudience { audAssertUnchecked := true } (.arr [.str "a", .int 1]) = .panic := by decide
example : decodeAudience genFacts (.arr [.str "a", .int 1]) = .err := by decide

end C09
