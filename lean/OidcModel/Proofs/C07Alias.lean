/-
  C07 (deep5) - the provider does not write into the slices it gets from the request getters.

  Regenerated facts (Generated/C07Alias.lean, from the current source of pkg/op and pkg/oidc): what every function does with a value
  obtained from `GetAudience()` / `GetScopes()` / `GetAMR()` and with its own slice parameters.  Model/C07Alias.lean: the heap
  model (a slice the storage owns, a borrower's writes into the shared backing array).

  * `refresh_path_never_writes_getter_slices` - no function reachable from the refresh handlers of either router applies an
    in-place operation (index assignment, copy, clear, slices.Insert / Delete / Replace / Sort* / Reverse / Compact*, sort.*, an
    append to a re-slice) to such a value, directly or through the chain of parameters it is handed on to.  A plain `append`
    is allowed: it writes at or behind the owner's length, or reallocates.  When it stops checking, the `#eval` in front of it
    fails with the offending site (holder, getter call, function, line, operation).
  * `view_run` - heap model: writes at or behind the owner's length leave the owner's view of the slice unchanged.
  * `c07_storage_slices_unchanged` - whatever operations the refresh path applies to a getter value, in whatever order and
    however often (any list of the regenerated touches, each with any write its kind of operation allows), the storage's view
    of its own record is the same afterwards: the grant's audience / scopes / amr recorded with a refresh token are not changed
    behind the storage's back.  This is the premise under which the immutable values of the flow model (Model/Flow.lean) stand
    for the storage's records.
-/
import OidcModel.Model.C07Alias
import OidcModel.Generated.C07Alias

namespace C07
open C07Alias

-- names the site when the theorem below fails
#eval show IO Unit from do
  let v := violations GenC07A.facts
  unless v.isEmpty do
    let sites := v.map fun t => s!"{t.fn} line {t.line} ({reprStr t.op}) on {t.src} obtained in {t.holder}"
    throw (IO.userError s!"C07 aliasing: the refresh path writes through a slice obtained from a request getter: {sites}")

/-- **regenerated fact**: no function reachable from the refresh handlers writes through a slice obtained from the request
    getters -/
theorem refresh_path_never_writes_getter_slices : violations GenC07A.facts = [] := by decide +kernel

/-- non-vacuity: the analysis reaches getter values on the refresh path (the client id is appended to the audience of the
    ID token and of a JWT access token) -/
theorem refresh_path_touches_getter_slices : (touches GenC07A.facts).isEmpty = false := by decide +kernel

theorem touch_not_inPlace (t : Touch) (h : t ∈ touches GenC07A.facts) : t.op.inPlace = false := by
  have hv := refresh_path_never_writes_getter_slices
  unfold violations at hv
  rw [List.filter_eq_nil_iff] at hv
  have := hv t h
  simpa using this

theorem take_set_behind (l : List String) (n i : Nat) (v : String) (h : n ≤ i) : (l.set i v).take n = l.take n := by
  induction l generalizing n i with
  | nil => simp
  | cons a l ih =>
    cases n with
    | zero => simp
    | succ n =>
      cases i with
      | zero => omega
      | succ i => simp [List.set, ih n i (by omega)]

theorem view_apply (o : Owned) (w : Write) (h : o.len ≤ w.i) : (o.apply w).view = o.view := by
  simp [Owned.view, Owned.apply, take_set_behind _ _ _ _ h]

theorem len_apply (o : Owned) (w : Write) : (o.apply w).len = o.len := rfl

/-- heap model: writes at or behind the owner's length leave the owner's view unchanged -/
theorem view_run (o : Owned) (ws : List Write) (h : ∀ w ∈ ws, o.len ≤ w.i) : (o.run ws).view = o.view := by
  induction ws generalizing o with
  | nil => rfl
  | cons w ws ih =>
    simp only [Owned.run]
    rw [ih (o.apply w) (fun x hx => by rw [len_apply]; exact h x (List.mem_cons_of_mem _ hx))]
    exact view_apply o w (h w List.mem_cons_self)

/-- **C07, the storage's records**: any run of the operations the refresh path applies to a slice obtained from a request
    getter - any number, any order, each with any write its kind of operation can make - leaves the storage's view of that
    slice (its own grant record) as it was. -/
theorem c07_storage_slices_unchanged (o : Owned) (tr : List (Touch × Write))
    (h : ∀ p ∈ tr, p.1 ∈ touches GenC07A.facts ∧ allowed p.1.op o p.2) :
    (o.run (tr.map (·.2))).view = o.view := by
  apply view_run
  intro w hw
  obtain ⟨p, hp, rfl⟩ := List.mem_map.mp hw
  exact (h p hp).2 (touch_not_inPlace p.1 (h p hp).1)

/-- the heap model is not vacuous: an in-place insertion in front (what `slices.Insert(s, 0, x)` does when the slice has
    spare capacity) changes the owner's view; an append into the spare capacity does not -/
example : ({ arr := ["rs1", "rs2", "", ""], len := 2 } : Owned).view = ["rs1", "rs2"] := by decide
example : (({ arr := ["rs1", "rs2", "", ""], len := 2 } : Owned).run [⟨2, "rs2"⟩, ⟨1, "rs1"⟩, ⟨0, "web"⟩]).view = ["web", "rs1"] := by decide
example : (({ arr := ["rs1", "rs2", "", ""], len := 2 } : Owned).run [⟨2, "web"⟩]).view = ["rs1", "rs2"] := by decide
/-- a table with an in-place operation on the path is flagged, the same table with a plain append is not -/
def demoPass : GetterPass := { fid := 0, fn := "h", line := 1, src := "r.GetAudience()", callee := 1, calleeName := "f", pidx := 0 }
def demoSite (op : SliceOp) : ParamSite := { fid := 1, fn := "f", pidx := 0, param := "a", line := 2, op := op }
def demoFacts (op : SliceOp) : Facts := { roots := [0], calls := [[1], []], getterPasses := [demoPass], paramSites := [demoSite op] }
example : (violations (demoFacts .insert)).map (fun t => (t.holder, t.fn, t.line)) = [("h", "f", 2)] := by decide
example : violations (demoFacts .append) = [] := by decide

end C07
