/-
  C07 proofs (function level) over the REGENERATED refresh-token functions of both routers: client
  binding, registered grant, scope only narrowed - and, by induction over any chain, never grows.

  Two layers (robustness against harmless rewrites of the Go text): per translated function ONE characterisation lemma
  `Gen.f args = <hand-readable spec function>` proved with the shape-independent `go_leaf` / `go_char` (GoTac.lean);
  everything else is derived from the spec functions and never unfolds a regenerated definition.
-/
import OidcModel.Spec.C07
import OidcModel.Proofs.C04
import OidcModel.GoTac
namespace C07
open Go Gen Hand Flow

def sub (a b : List String) : Prop := ∀ s, s ∈ a → s ∈ b

/-! ## hand-readable meaning of the translated functions -/

/-- `ValidateRefreshTokenScopes`: no scope parameter keeps the grant; otherwise every requested scope must be granted, and the
    grant is narrowed to the request -/
def scopesSpec (req : List String) (r : RefreshReq) : Go.R RefreshReq :=
  if req = [] then .ok r
  else if ∃ s ∈ req, s ∉ r.scopes then .error "ErrInvalidScope"
  else .ok { r with scopes := req }

/-- `RefreshTokenRequestByRefreshToken`: a token the storage does not resolve is invalid_grant -/
def byTokenSpec (st : Store) (tok : String) : Go.R RefreshReq :=
  match st.TokenRequestByRefreshToken tok with
  | .error _ => .error "ErrInvalidGrant"
  | .ok r => .ok r

/-- `LegacyServer.RefreshToken` (the client was verified by `withClient`) -/
def legacyRefreshSpec (s : LegacyServer) (r : ClientRequest RefreshTokenRequest) : Go.R IssueFor :=
  if s.provider.refreshSupported = false then .error "ErrUnsupportedGrantType"
  else match byTokenSpec s.provider.store r.Data.RefreshToken with
    | .error e => .error e
    | .ok r0 =>
      if r.Client.id ≠ r0.clientID then .error "ErrInvalidGrant"
      else match scopesSpec r.Data.Scopes r0 with
        | .error e => .error e
        | .ok r1 => .ok (.refresh r1 r.Client r.Data.RefreshToken)

/-- `AuthorizeRefreshClient` (Provider router): who the caller is, that its registration contains the refresh grant, and the
    grant behind the presented token -/
def authorizeRefreshSpec (now : Int) (req : RefreshTokenRequest) (p : Provider) : Go.R (RefreshReq × OPClient) :=
  if req.ClientAssertionType = Const.ClientAssertionTypeJWTAssertion then
    if p.is_JWTAuthorizationGrantExchanger = false ∨ p.pkjwtSupported = false then .error "error:auth_method private_key_jwt not supported"
    else match AuthorizePrivateJWTKey now req.ClientAssertion p with
      | .error e => .error e
      | .ok c =>
        if ValidateGrantType now c Const.GrantTypeRefreshToken = false then .error "ErrUnauthorizedClient"
        else match byTokenSpec p.store req.RefreshToken with
          | .error e => .error e
          | .ok r => .ok (r, c)
  else match p.store.GetClientByClientID req.ClientID with
    | .error e => .error e
    | .ok c =>
      if ValidateGrantType now c Const.GrantTypeRefreshToken = false then .error "ErrUnauthorizedClient"
      else if c.auth = Const.AuthMethodPrivateKeyJWT then .error "ErrInvalidClient"
      else if c.auth = Const.AuthMethodNone then
        (match byTokenSpec p.store req.RefreshToken with
         | .error e => .error e
         | .ok r => .ok (r, c))
      else if c.auth = Const.AuthMethodPost ∧ p.postSupported = false then .error "ErrInvalidClient"
      else match p.store.AuthorizeClientIDSecret req.ClientID req.ClientSecret with
        | .error _ => .error "ErrInvalidClient"
        | .ok _ =>
          match byTokenSpec p.store req.RefreshToken with
          | .error e => .error e
          | .ok r => .ok (r, c)

/-- `LegacyServer.VerifyClient` (Server router): who the caller is -/
def legacyVerifySpec (now : Int) (s : LegacyServer) (r : Request ClientCredentials) : Go.R OPClient :=
  if r.Form.Get "grant_type" = Const.GrantTypeClientCredentials then
    if s.provider.store.is_ClientCredentialsStorage = false then .error "ErrUnsupportedGrantType"
    else s.provider.store.ClientCredentials r.Data.ClientID r.Data.ClientSecret
  else if r.Data.ClientAssertionType = Const.ClientAssertionTypeJWTAssertion then
    if s.provider.is_JWTAuthorizationGrantExchanger = false ∨ s.provider.pkjwtSupported = false then .error "ErrInvalidClient"
    else AuthorizePrivateJWTKey now r.Data.ClientAssertion s.provider
  else match s.provider.store.GetClientByClientID r.Data.ClientID with
    | .error _ => .error "ErrInvalidClient"
    | .ok c =>
      if c.auth = Const.AuthMethodNone then .ok c
      else if c.auth = Const.AuthMethodPrivateKeyJWT then .error "ErrInvalidClient"
      else if c.auth = Const.AuthMethodPost ∧ s.provider.postSupported = false then .error "ErrInvalidClient"
      else match s.provider.store.AuthorizeClientIDSecret r.Data.ClientID r.Data.ClientSecret with
        | .error _ => .error "ErrInvalidClient"
        | .ok _ => .ok c

/-- `ValidateRefreshTokenRequest` (Provider router) -/
def validateRefreshSpec (now : Int) (req : RefreshTokenRequest) (p : Provider) : Go.R (RefreshReq × OPClient) :=
  if req.RefreshToken = "" then .error "ErrInvalidRequest"
  else match authorizeRefreshSpec now req p with
    | .error e => .error e
    | .ok (r, c) =>
      if c.id ≠ r.clientID then .error "ErrInvalidGrant"
      else match scopesSpec req.Scopes r with
        | .error e => .error e
        | .ok r1 => .ok (r1, c)

/-! ## Layer 1: characterisation lemmas (the only place where regenerated definitions are unfolded) -/

theorem len_zero (l : List String) : ((Go.len l) == (0 : Int)) = decide (l = []) := by
  cases l <;> simp [Go.len, HasLen.len] <;> omega

theorem any_not_contains (req granted : List String) :
    Go.any req (fun scope => !Go.contains granted scope) = decide (∃ s ∈ req, s ∉ granted) := by
  unfold Go.any Go.contains
  rw [Bool.eq_iff_iff]
  simp

theorem validateRefreshTokenScopes_eq (now : Int) (req : List String) (r : RefreshReq) :
    ValidateRefreshTokenScopes now req r = scopesSpec req r := by
  unfold ValidateRefreshTokenScopes scopesSpec
  simp only [len_zero, any_not_contains, RefreshReq.GetScopes, RefreshReq.SetCurrentScopes]
  go_leaf

theorem refreshByToken_eq (now : Int) (st : Store) (tok : String) :
    RefreshTokenRequestByRefreshToken now st tok = byTokenSpec st tok := by
  unfold RefreshTokenRequestByRefreshToken byTokenSpec
  go_leaf

theorem legacyRefreshToken_eq (now : Int) (s : LegacyServer) (r : ClientRequest RefreshTokenRequest) :
    LegacyRefreshToken now s r = legacyRefreshSpec s r := by
  unfold LegacyRefreshToken legacyRefreshSpec issueForRefresh NewResponse Hand.unimplementedGrantError
  simp only [validateRefreshTokenScopes_eq, refreshByToken_eq, Provider.Storage, Provider.GrantTypeRefreshTokenSupported, OPClient.GetID,
    RefreshReq.GetClientID]
  go_leaf

theorem authorizeRefreshClient_eq (now : Int) (req : RefreshTokenRequest) (p : Provider) :
    AuthorizeRefreshClient now req p = authorizeRefreshSpec now req p := by
  unfold AuthorizeRefreshClient AuthorizeClientIDSecret authorizeRefreshSpec Go.ok
  simp only [refreshByToken_eq, Provider.Storage, Provider.AuthMethodPrivateKeyJWTSupported, Provider.AuthMethodPostSupported, OPClient.AuthMethod]
  go_leaf

theorem legacyVerifyClient_eq (now : Int) (s : LegacyServer) (r : Request ClientCredentials) :
    LegacyVerifyClient now s r = legacyVerifySpec now s r := by
  unfold LegacyVerifyClient AuthorizeClientIDSecret legacyVerifySpec Go.ok
  simp only [Provider.Storage, Provider.AuthMethodPrivateKeyJWTSupported, Provider.AuthMethodPostSupported, OPClient.AuthMethod]
  go_leaf

theorem validateRefreshTokenRequest_eq (now : Int) (req : RefreshTokenRequest) (p : Provider) :
    ValidateRefreshTokenRequest now req p = validateRefreshSpec now req p := by
  unfold ValidateRefreshTokenRequest validateRefreshSpec
  simp only [validateRefreshTokenScopes_eq, authorizeRefreshClient_eq, OPClient.GetID, RefreshReq.GetClientID]
  go_leaf

/-! ## Layer 2: consequences (no regenerated definition is unfolded below) -/

theorem scopesSpec_ok {req : List String} {r r' : RefreshReq} (h : scopesSpec req r = .ok r') :
    sub r'.scopes r.scopes ∧ r'.clientID = r.clientID ∧ r'.subject = r.subject ∧ r'.audience = r.audience ∧ r'.authTime = r.authTime ∧
      r'.scopes = (if req.isEmpty then r.scopes else req) := by
  unfold scopesSpec at h
  by_cases h0 : req = []
  · subst h0
    simp only [if_true] at h
    cases h
    exact ⟨fun _ hs => hs, rfl, rfl, rfl, rfl, rfl⟩
  · simp only [h0, if_false] at h
    by_cases h1 : ∃ s ∈ req, s ∉ r.scopes
    · simp only [h1, if_true] at h; cases h
    · simp only [h1, if_false] at h
      cases h
      have hne : req.isEmpty = false := by cases req <;> simp_all
      refine ⟨?_, rfl, rfl, rfl, rfl, by simp [hne]⟩
      intro s hs
      apply Classical.byContradiction
      intro hn
      exact h1 ⟨s, hs, hn⟩

/-- scope validation only ever narrows: the result's scopes are the requested ones (a subset of the
    original) or, for an empty request, the original ones -/
theorem validateRefreshTokenScopes_ok {now req r r'} (h : ValidateRefreshTokenScopes now req r = .ok r') :
    sub r'.scopes r.scopes ∧ r'.clientID = r.clientID ∧ r'.subject = r.subject ∧ r'.audience = r.audience ∧ r'.authTime = r.authTime ∧
      r'.scopes = (if req.isEmpty then r.scopes else req) := by
  rw [validateRefreshTokenScopes_eq] at h
  exact scopesSpec_ok h

/-- a scope parameter that is not within the grant is refused -/
theorem scopesSpec_widening {req : List String} {r : RefreshReq} (h : subset req r.scopes = false) :
    scopesSpec req r = .error "ErrInvalidScope" := by
  unfold scopesSpec
  have hne : req ≠ [] := by intro he; subst he; simp [subset] at h
  have hex : ∃ s ∈ req, s ∉ r.scopes := by
    simp only [subset] at h
    rw [← Bool.not_eq_true, List.all_eq_true] at h
    apply Classical.byContradiction
    intro hno
    apply h
    intro x hx
    simp only [List.contains_eq_mem, decide_eq_true_eq]
    apply Classical.byContradiction
    intro hc
    exact hno ⟨x, hx, hc⟩
  simp only [hne, if_false, hex, if_true]

theorem byTokenSpec_ok {st : Store} {tok : String} {r : RefreshReq} (h : byTokenSpec st tok = .ok r) :
    st.TokenRequestByRefreshToken tok = .ok r := by
  unfold byTokenSpec at h
  split at h
  · cases h
  · rename_i r' hr; cases h; exact hr

theorem refreshByToken_ok {now : Int} {st : Store} {tok : String} {r : RefreshReq}
    (h : RefreshTokenRequestByRefreshToken now st tok = .ok r) : st.TokenRequestByRefreshToken tok = .ok r := by
  rw [refreshByToken_eq] at h
  exact byTokenSpec_ok h

/-- LegacyServer.RefreshToken: bound to the verified client, scopes only narrowed, old token handed over -/
theorem legacyRefreshToken_ok {now s r i} (h : LegacyRefreshToken now s r = .ok i) :
    ∃ r0 r1, i = .refresh r1 r.Client r.Data.RefreshToken ∧ s.provider.refreshSupported = true ∧
      s.provider.store.TokenRequestByRefreshToken r.Data.RefreshToken = .ok r0 ∧ r.Client.id = r0.clientID ∧
      sub r1.scopes r0.scopes ∧ r1.subject = r0.subject ∧ r1.audience = r0.audience ∧ r1.authTime = r0.authTime := by
  rw [legacyRefreshToken_eq] at h
  unfold legacyRefreshSpec at h
  by_cases hsup : s.provider.refreshSupported = false
  · simp only [hsup, if_true] at h; cases h
  · simp only [hsup] at h
    cases hr0 : byTokenSpec s.provider.store r.Data.RefreshToken with
    | error e => simp only [hr0] at h; cases h
    | ok r0 =>
      simp only [hr0] at h
      by_cases hid : r.Client.id ≠ r0.clientID
      · rw [if_pos hid] at h; cases h
      · rw [if_neg hid] at h
        cases hr1 : scopesSpec r.Data.Scopes r0 with
        | error e => simp only [hr1] at h; cases h
        | ok r1 =>
          simp only [hr1] at h
          cases h
          obtain ⟨h1, _, h3, h4, h5, _⟩ := scopesSpec_ok hr1
          exact ⟨r0, r1, rfl, by simpa using hsup, byTokenSpec_ok hr0, by simpa using hid, h1, h3, h4, h5⟩

theorem legacyRefreshSpec_ok {s : LegacyServer} {r : ClientRequest RefreshTokenRequest} {i : IssueFor} (h : legacyRefreshSpec s r = .ok i) :
    ∃ r0 r1, i = .refresh r1 r.Client r.Data.RefreshToken ∧ s.provider.refreshSupported = true ∧
      s.provider.store.TokenRequestByRefreshToken r.Data.RefreshToken = .ok r0 ∧ r.Client.id = r0.clientID ∧
      scopesSpec r.Data.Scopes r0 = .ok r1 := by
  unfold legacyRefreshSpec at h
  by_cases hsup : s.provider.refreshSupported = false
  · simp only [hsup, if_true] at h; cases h
  · simp only [hsup] at h
    cases hr0 : byTokenSpec s.provider.store r.Data.RefreshToken with
    | error e => simp only [hr0] at h; cases h
    | ok r0 =>
      simp only [hr0] at h
      by_cases hid : r.Client.id ≠ r0.clientID
      · rw [if_pos hid] at h; cases h
      · rw [if_neg hid] at h
        cases hr1 : scopesSpec r.Data.Scopes r0 with
        | error e => simp only [hr1] at h; cases h
        | ok r1 =>
          simp only [hr1] at h
          cases h
          exact ⟨r0, r1, rfl, by simpa using hsup, byTokenSpec_ok hr0, by simpa using hid, hr1⟩

/-- what the spec of `AuthorizeRefreshClient` establishes: the grant behind the token, the registered refresh grant, and HOW the
    caller was recognised (one of the four ways) -/
theorem authorizeRefreshSpec_ok {now : Int} {req : RefreshTokenRequest} {p : Provider} {r : RefreshReq} {c : OPClient}
    (h : authorizeRefreshSpec now req p = .ok (r, c)) :
    p.store.TokenRequestByRefreshToken req.RefreshToken = .ok r ∧ ValidateGrantType now c Const.GrantTypeRefreshToken = true ∧
    ((req.ClientAssertionType = Const.ClientAssertionTypeJWTAssertion ∧ p.is_JWTAuthorizationGrantExchanger = true ∧ p.pkjwtSupported = true ∧
        AuthorizePrivateJWTKey now req.ClientAssertion p = .ok c) ∨
     (req.ClientAssertionType ≠ Const.ClientAssertionTypeJWTAssertion ∧ p.store.GetClientByClientID req.ClientID = .ok c ∧
        c.auth ≠ Const.AuthMethodPrivateKeyJWT ∧
        (c.auth = Const.AuthMethodNone ∨
          ((c.auth = Const.AuthMethodPost → p.postSupported = true) ∧ p.store.AuthorizeClientIDSecret req.ClientID req.ClientSecret = .ok ())))) := by
  unfold authorizeRefreshSpec at h
  by_cases hty : req.ClientAssertionType = Const.ClientAssertionTypeJWTAssertion
  · simp only [hty, if_true] at h
    by_cases hsw : p.is_JWTAuthorizationGrantExchanger = false ∨ p.pkjwtSupported = false
    · simp only [hsw, if_true] at h; cases h
    · simp only [hsw, if_false] at h
      cases hk : AuthorizePrivateJWTKey now req.ClientAssertion p with
      | error e => simp only [hk] at h; cases h
      | ok c' =>
        simp only [hk] at h
        by_cases hg : ValidateGrantType now c' Const.GrantTypeRefreshToken = false
        · simp only [hg, if_true] at h; cases h
        · simp only [hg] at h
          cases hb : byTokenSpec p.store req.RefreshToken with
          | error e => simp only [hb] at h; cases h
          | ok r' =>
            simp only [hb] at h
            cases h
            have h1 : p.is_JWTAuthorizationGrantExchanger = true ∧ p.pkjwtSupported = true := by
              cases h1 : p.is_JWTAuthorizationGrantExchanger <;> cases h2 : p.pkjwtSupported <;> simp_all
            exact ⟨byTokenSpec_ok hb, by simpa using hg, Or.inl ⟨hty, h1.1, h1.2, rfl⟩⟩
  · simp only [hty, if_false] at h
    cases hget : p.store.GetClientByClientID req.ClientID with
    | error e => simp only [hget] at h; cases h
    | ok c' =>
      simp only [hget] at h
      by_cases hg : ValidateGrantType now c' Const.GrantTypeRefreshToken = false
      · simp only [hg, if_true] at h; cases h
      · simp only [hg] at h
        by_cases hpk : c'.auth = Const.AuthMethodPrivateKeyJWT
        · simp only [hpk, if_true] at h; cases h
        · simp only [hpk, if_false] at h
          by_cases hn : c'.auth = Const.AuthMethodNone
          · simp only [hn, if_true] at h
            cases hb : byTokenSpec p.store req.RefreshToken with
            | error e => simp only [hb] at h; cases h
            | ok r' =>
              simp only [hb] at h
              cases h
              exact ⟨byTokenSpec_ok hb, by simpa using hg, Or.inr ⟨hty, rfl, hpk, Or.inl hn⟩⟩
          · simp only [hn, if_false] at h
            by_cases hpo : c'.auth = Const.AuthMethodPost ∧ p.postSupported = false
            · simp only [hpo, and_self, if_true] at h; cases h
            · simp only [hpo, if_false] at h
              cases hs : p.store.AuthorizeClientIDSecret req.ClientID req.ClientSecret with
              | error e => simp only [hs] at h; cases h
              | ok u =>
                simp only [hs] at h
                cases hb : byTokenSpec p.store req.RefreshToken with
                | error e => simp only [hb] at h; cases h
                | ok r' =>
                  simp only [hb] at h
                  cases h
                  refine ⟨byTokenSpec_ok hb, by simpa using hg, Or.inr ⟨hty, rfl, hpk, Or.inr ⟨?_, rfl⟩⟩⟩
                  intro hp
                  cases hps : p.postSupported with
                  | true => rfl
                  | false => exact absurd ⟨hp, hps⟩ hpo

theorem authorizeRefreshClient_ok {now req p r c} (h : AuthorizeRefreshClient now req p = .ok (r, c)) :
    p.store.TokenRequestByRefreshToken req.RefreshToken = .ok r ∧ Const.GrantTypeRefreshToken ∈ c.grants := by
  rw [authorizeRefreshClient_eq] at h
  obtain ⟨h1, h2, _⟩ := authorizeRefreshSpec_ok h
  exact ⟨h1, (C04.validateGrantType_iff (now := now)).1 h2⟩

theorem validateRefreshSpec_ok {now : Int} {req : RefreshTokenRequest} {p : Provider} {r' : RefreshReq} {c : OPClient}
    (h : validateRefreshSpec now req p = .ok (r', c)) :
    ∃ r, req.RefreshToken ≠ "" ∧ authorizeRefreshSpec now req p = .ok (r, c) ∧ c.id = r.clientID ∧ scopesSpec req.Scopes r = .ok r' := by
  unfold validateRefreshSpec at h
  by_cases ht : req.RefreshToken = ""
  · simp only [ht, if_true] at h; cases h
  · simp only [ht, if_false] at h
    cases ha : authorizeRefreshSpec now req p with
    | error e => simp only [ha] at h; cases h
    | ok rc =>
      obtain ⟨r, c'⟩ := rc
      simp only [ha] at h
      by_cases hid : c'.id ≠ r.clientID
      · rw [if_pos hid] at h; cases h
      · rw [if_neg hid] at h
        cases hv : scopesSpec req.Scopes r with
        | error e => simp only [hv] at h; cases h
        | ok r1 =>
          simp only [hv] at h
          cases h
          exact ⟨r, ht, rfl, by simpa using hid, hv⟩

/-- Provider router: a refresh goes through only for the token's own client, registered for the grant,
    and only narrows the scope -/
theorem validateRefreshTokenRequest_ok {now req p r' c} (h : ValidateRefreshTokenRequest now req p = .ok (r', c)) :
    ∃ r, p.store.TokenRequestByRefreshToken req.RefreshToken = .ok r ∧ c.id = r.clientID ∧
      Const.GrantTypeRefreshToken ∈ c.grants ∧ sub r'.scopes r.scopes ∧ r'.subject = r.subject ∧
      r'.audience = r.audience ∧ r'.authTime = r.authTime := by
  rw [validateRefreshTokenRequest_eq] at h
  obtain ⟨r, _, ha, hid, hv⟩ := validateRefreshSpec_ok h
  obtain ⟨h1, h2, _⟩ := authorizeRefreshSpec_ok ha
  obtain ⟨s1, _, s3, s4, s5, _⟩ := scopesSpec_ok hv
  exact ⟨r, h1, hid, (C04.validateGrantType_iff (now := now)).1 h2, s1, s3, s4, s5⟩

/-- over ANY chain of scope requests the granted scope never grows -/
theorem scope_chain_narrows (now : Int) (reqs : List (List String)) (r0 : RefreshReq) :
    ∀ r, (reqs.foldlM (fun (r : RefreshReq) req => ValidateRefreshTokenScopes now req r) r0 : Go.R RefreshReq) = .ok r →
      sub r.scopes r0.scopes := by
  induction reqs generalizing r0 with
  | nil => intro r h; simp [List.foldlM, pure, Except.pure] at h; subst h; exact fun _ hs => hs
  | cons q qs ih =>
    intro r h
    simp only [List.foldlM, bind, Except.bind] at h
    split at h
    · simp at h
    · rename_i r1 hr1
      have h1 := (validateRefreshTokenScopes_ok hr1).1
      have h2 := ih r1 r h
      exact fun s hs => h1 s (h2 s hs)

end C07
