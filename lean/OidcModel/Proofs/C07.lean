/-
  C07 proofs (function level) over the REGENERATED refresh-token functions of both routers: client
  binding, registered grant, scope only narrowed - and, by induction over any chain, never grows.
-/
import OidcModel.Spec.C07
import OidcModel.Proofs.C04
namespace C07
open Go Gen Hand Flow

def sub (a b : List String) : Prop := ∀ s, s ∈ a → s ∈ b

/-- scope validation only ever narrows: the result's scopes are the requested ones (a subset of the
    original) or, for an empty request, the original ones -/
theorem validateRefreshTokenScopes_ok {now req r r'} (h : ValidateRefreshTokenScopes now req r = .ok r') :
    sub r'.scopes r.scopes ∧ r'.clientID = r.clientID ∧ r'.subject = r.subject ∧ r'.audience = r.audience ∧ r'.authTime = r.authTime ∧
      r'.scopes = (if req.isEmpty then r.scopes else req) := by
  unfold ValidateRefreshTokenScopes at h
  split at h
  · rename_i h0
    simp at h; subst h
    have : req = [] := by
      simp [Go.len, HasLen.len] at h0; exact h0
    subst this
    exact ⟨fun _ hs => hs, rfl, rfl, rfl, rfl, rfl⟩
  · rename_i h0
    split at h
    · simp at h
    · rename_i hany
      simp at h; subst h
      have hne : req.isEmpty = false := by
        cases req <;> simp_all [Go.len, HasLen.len]
      refine ⟨?_, rfl, rfl, rfl, rfl, by simp [RefreshReq.SetCurrentScopes, hne]⟩
      intro s hs
      simp only [RefreshReq.SetCurrentScopes] at hs
      simp only [Go.any, RefreshReq.GetScopes, Go.contains, Bool.not_eq_true, List.any_eq_false, Bool.not_eq_true',
        List.contains_eq_mem, decide_eq_false_iff_not, Decidable.not_not, List.any_eq_true, not_exists, not_and] at hany
      have := hany s hs
      simpa using this

theorem refreshByToken_ok {now : Int} {st : Store} {tok : String} {r : RefreshReq}
    (h : RefreshTokenRequestByRefreshToken now st tok = .ok r) : st.TokenRequestByRefreshToken tok = .ok r := by
  unfold RefreshTokenRequestByRefreshToken at h
  split at h <;> simp_all

/-- LegacyServer.RefreshToken: bound to the verified client, scopes only narrowed, old token handed over -/
theorem legacyRefreshToken_ok {now s r i} (h : LegacyRefreshToken now s r = .ok i) :
    ∃ r0 r1, i = .refresh r1 r.Client r.Data.RefreshToken ∧ s.provider.refreshSupported = true ∧
      s.provider.store.TokenRequestByRefreshToken r.Data.RefreshToken = .ok r0 ∧ r.Client.id = r0.clientID ∧
      sub r1.scopes r0.scopes ∧ r1.subject = r0.subject ∧ r1.audience = r0.audience ∧ r1.authTime = r0.authTime := by
  unfold LegacyRefreshToken issueForRefresh NewResponse at h
  simp only [Provider.Storage, Provider.GrantTypeRefreshTokenSupported, OPClient.GetID, RefreshReq.GetClientID] at h
  by_cases hsup : s.provider.refreshSupported = true
  · simp only [hsup, Bool.not_true, Bool.false_eq_true, if_false] at h
    cases hr0 : RefreshTokenRequestByRefreshToken now s.provider.store r.Data.RefreshToken with
    | error e => simp [hr0] at h
    | ok r0 =>
      simp only [hr0] at h
      by_cases hid : (r.Client.id != r0.clientID) = true
      · simp [hid] at h
      · simp only [hid, Bool.false_eq_true, if_false] at h
        cases hr1 : ValidateRefreshTokenScopes now r.Data.Scopes r0 with
        | error e => simp [hr1] at h
        | ok r1 =>
          simp only [hr1] at h
          simp at h; subst h
          obtain ⟨h1, _, h3, h4, h5, _⟩ := validateRefreshTokenScopes_ok hr1
          exact ⟨r0, r1, rfl, hsup, refreshByToken_ok hr0, by simpa using hid, h1, h3, h4, h5⟩
  · simp [hsup] at h

theorem authorizeRefreshClient_ok {now req p r c} (h : AuthorizeRefreshClient now req p = .ok (r, c)) :
    p.store.TokenRequestByRefreshToken req.RefreshToken = .ok r ∧ Const.GrantTypeRefreshToken ∈ c.grants := by
  unfold AuthorizeRefreshClient at h
  simp only [Provider.Storage, Provider.AuthMethodPrivateKeyJWTSupported, Provider.AuthMethodPostSupported, OPClient.AuthMethod] at h
  repeat' (split at h <;> try (simp at h))
  all_goals (
    obtain ⟨rfl, rfl⟩ := h
    refine ⟨refreshByToken_ok (by assumption), ?_⟩
    apply (C04.validateGrantType_iff (now := now)).1
    simp_all)

/-- Provider router: a refresh goes through only for the token's own client, registered for the grant,
    and only narrows the scope -/
theorem validateRefreshTokenRequest_ok {now req p r' c} (h : ValidateRefreshTokenRequest now req p = .ok (r', c)) :
    ∃ r, p.store.TokenRequestByRefreshToken req.RefreshToken = .ok r ∧ c.id = r.clientID ∧
      Const.GrantTypeRefreshToken ∈ c.grants ∧ sub r'.scopes r.scopes ∧ r'.subject = r.subject ∧
      r'.audience = r.audience ∧ r'.authTime = r.authTime := by
  unfold ValidateRefreshTokenRequest at h
  simp only [OPClient.GetID, RefreshReq.GetClientID] at h
  split at h; · simp at h
  cases hac : AuthorizeRefreshClient now req p with
  | error e => simp [hac] at h
  | ok rc =>
    obtain ⟨r, c'⟩ := rc
    simp only [hac] at h
    by_cases hid : (c'.id != r.clientID) = true
    · simp [hid] at h
    · simp only [hid, Bool.false_eq_true, if_false] at h
      cases hv : ValidateRefreshTokenScopes now req.Scopes r with
      | error e => simp [hv] at h
      | ok r1 =>
        simp only [hv] at h
        simp at h
        obtain ⟨rfl, rfl⟩ := h
        obtain ⟨h1, h2⟩ := authorizeRefreshClient_ok hac
        obtain ⟨s1, _, s3, s4, s5, _⟩ := validateRefreshTokenScopes_ok hv
        exact ⟨r, h1, by simpa using hid, h2, s1, s3, s4, s5⟩

/-- over ANY chain of scope requests the granted scope never grows -/
theorem scope_chain_narrows (now : Int) (reqs : List (List String)) (r0 : RefreshReq) :
    ∀ r, (reqs.foldlM (fun (r : RefreshReq) req => ValidateRefreshTokenScopes now req r) r0 : Go.R RefreshReq) = .ok r →
      sub r.scopes r0.scopes := by
  induction reqs generalizing r0 with
  | nil => intro r h; simp [List.foldlM, pure, Except.pure] at h; subst h; exact fun _ hs => hs
  | cons q qs ih =>
    intro r h
    simp only [List.foldlM, bind, Except.bind] at h
    split at h
    · simp at h
    · rename_i r1 hr1
      have h1 := (validateRefreshTokenScopes_ok hr1).1
      have h2 := ih r1 r h
      exact fun s hs => h1 s (h2 s hs)

end C07
