/-
  C09 — type assertions on decoded input (JOSE header parameters, members of map[string]any, `any` targets of decoders).

  * `assert_safe_sound`      : a site judged `safe` panics for NO dynamic type of its operand (∀ site, ∀ type);
  * `assert_unsafe_witness`  : … and an unsafe site does panic for some dynamic type (the judgement is not vacuous);
  * `input_asserts_guarded`  : on the regenerated sites, every assertion whose operand comes from decoded input is
                               in comma-ok form or dominated by a guard — NO audited exemption;
  * `unsafe_assert_sites_audited` : the unguarded single-value assertions are exactly the audited list (one, reflect);
  * `unchecked_list_is_unsafe_sites` : the older fact `uncheckedAsserts` is that same list;
  * `c09_assert_sites_total` : ∀ regenerated non-audited site, ∀ dynamic type: no panic;
  * `c09_input_asserts_total`: ∀ regenerated site on decoded input, ∀ dynamic type: no panic.
-/
import OidcModel.Model.C09Tie

namespace C09

theorem assert_safe_sound (s : AssertSite) (h : s.safe = true) (dyn : String) : s.panics dyn = false := by
  unfold AssertSite.safe at h
  unfold AssertSite.panics AssertSite.reaches
  by_cases hf : s.form = "single"
  · have hg : s.guards.isEmpty = false := by simpa [hf] using h
    by_cases hd : dyn = s.type <;> simp [hf, hg, hd]
  · simp [hf]

theorem assert_unsafe_witness (s : AssertSite) (h : s.safe = false) : s.panics (s.type ++ "?") = true := by
  unfold AssertSite.safe at h
  unfold AssertSite.panics AssertSite.reaches
  have hf : s.form = "single" := by
    by_cases hf : s.form = "single"
    · exact hf
    · simp [hf] at h
  have hg : s.guards.isEmpty = true := by simpa [hf] using h
  have hne : s.type ++ "?" ≠ s.type := by
    intro e
    have := congrArg String.length e
    simp [String.length_append] at this
  simp [hf, hg, hne]

/-- every assertion on decoded input is guarded: no exemption -/
theorem input_asserts_guarded : (GenC09.assertSites.filter fun s => s.fromInput && !s.safe) = [] := by decide

/-- the unguarded single-value assertions of the library are the audited ones -/
theorem unsafe_assert_sites_audited :
    ((GenC09.assertSites.filter fun s => !s.safe).map fun s => (s.fn, s.expr)) = auditedAsserts := by decide

theorem unchecked_list_is_unsafe_sites :
    GenC09.uncheckedAsserts = ((GenC09.assertSites.filter fun s => !s.safe).map fun s => (s.fn, s.expr)) := by decide

theorem mem_unsafe_of_not_safe {l : List AssertSite} {s : AssertSite} (hs : s ∈ l) (h : s.safe = false) :
    (s.fn, s.expr) ∈ ((l.filter fun s => !s.safe).map fun s => (s.fn, s.expr)) := by
  apply List.mem_map.mpr
  exact ⟨s, List.mem_filter.mpr ⟨hs, by simp [h]⟩, rfl⟩

/-- **C09 (type assertions)**: no regenerated, non-audited assertion panics, whatever the dynamic type of its operand -/
theorem c09_assert_sites_total (s : AssertSite) (hs : s ∈ GenC09.assertSites)
    (hna : (s.fn, s.expr) ∉ auditedAsserts) (dyn : String) : s.panics dyn = false := by
  apply assert_safe_sound
  cases h : s.safe with
  | true => rfl
  | false =>
    exfalso; apply hna
    rw [← unsafe_assert_sites_audited]
    exact mem_unsafe_of_not_safe hs h

/-- **C09 (decoded input)**: an assertion on a JOSE header parameter / a member of a decoded document / an `any`
    parameter never panics — for every JSON type the sender chose (no audited exemption) -/
theorem c09_input_asserts_total (s : AssertSite) (hs : s ∈ GenC09.assertSites) (hi : s.fromInput = true)
    (dyn : String) : s.panics dyn = false := by
  apply assert_safe_sound
  cases h : s.safe with
  | true => rfl
  | false =>
    exfalso
    have hm : s ∈ GenC09.assertSites.filter (fun s => s.fromInput && !s.safe) :=
      List.mem_filter.mpr ⟨hs, by simp [hi, h]⟩
    rw [input_asserts_guarded] at hm
    cases hm

/-! non-vacuity: the seeded shape (`typ, ok := header.ExtraHeaders[jose.HeaderType]; … typ.(string)`) and its repairs -/
def siteTypUnchecked : AssertSite :=
  { fn := "oidc.headerType", expr := "typ.(string)", operand := "typ", type := "string", form := "single", origin := "element", guards := [] }
example : siteTypUnchecked.fromInput = true := by decide
example : siteTypUnchecked.safe = false := by decide
example : siteTypUnchecked.panics "float64" = true := by decide
example : siteTypUnchecked.panics "string" = false := by decide
example : ({ siteTypUnchecked with form := "commaok" } : AssertSite).panics "float64" = false := by decide
example : ({ siteTypUnchecked with guards := ["commaok-return"] } : AssertSite).safe = true := by decide
example : ({ siteTypUnchecked with guards := ["switch-case"] } : AssertSite).panics "bool" = false := by decide
/-- the regenerated list is not empty, has assertions on decoded input, and has guarded comma-ok ones -/
example : (GenC09.assertSites.filter (·.fromInput)).length > 0 := by decide
example : GenC09.assertSites.length > 40 := by decide

end C09
