/-
  C14 (deep 5) — "unexpired, issued neither in the future nor more than the allowed age ago", at EVERY distance of iat / exp from
  the verifier's clock.

  The time checks of `op.VerifyJWTAssertion` (`oidc.CheckExpiration`, `oidc.CheckIssuedAt`) are regenerated with Go's int64
  arithmetic made explicit (`FuncSpec.Wrap64`, Model/Int64C14.lean): where the source itself computes with Durations / Unix seconds
  (`time.Duration(x) * time.Second`, `d1 - d2`) the regenerated term carries `Go.wrap64`, where it only uses `time.Time.Add / Round /
  Before / After` (exact on instants) it does not.  The statements below have NO hypothesis about how far the claims are from `now`:
  instants and durations are mathematical integers.  A check that computes an age as an int64 Duration does not satisfy them - the
  characterisation lemma stops checking, and the `decide`d samples at the places where int64 nanoseconds wrap (± 2⁶⁴ ns, 2⁵⁵ … 2⁶² s)
  evaluate to the wrong answer: the witness.

  This module depends on the regenerated definitions, `verifyJWTAssertion_ok` (Proofs/C14Reuse) and `go_leaf` only.
-/
import OidcModel.Proofs.C14Reuse
import OidcModel.Generated.AssertionTime

namespace C14
open Go Gen Hand

/-- `Round(time.Second)` moves an instant by at most half a second -/
theorem tRound_second_near (t : Int) : tRound t second - t ≤ 500000000 ∧ t - tRound t second ≤ 500000000 := by
  unfold tRound second zeroTime
  simp only []
  split
  · omega
  · split <;> omega

/-- CHARACTERISATION (shape-independent; the one place where the Go text of `CheckIssuedAt` matters): acceptance means exactly - iat
    present, not after the rounded `now + offset`, and (with a maximum age) not before the rounded `now - maxAge`.  No bound on any of
    the integers. -/
theorem checkIssuedAt_window {now : Int} {c : Claims} {maxIAT off : Int} :
    CheckIssuedAt now c maxIAT off = .ok () ↔
      (asTime c.iat ≠ zeroTime ∧ asTime c.iat ≤ tRound (now + off) second ∧
        (maxIAT = 0 ∨ tRound (now - maxIAT) second ≤ asTime c.iat)) := by
  unfold CheckIssuedAt
  go_unfold Claims.GetIssuedAt Go.ok tBefore tAfter tAdd tIsZero
  try simp only [Int.sub_eq_add_neg]
  go_leaf

/-- CHARACTERISATION of `CheckExpiration`: unexpired at `now + offset`, exactly -/
theorem checkExpiration_window {now : Int} {c : Claims} {off : Int} :
    CheckExpiration now c off = .ok () ↔ now + off < asTime c.exp := by
  unfold CheckExpiration
  go_unfold Claims.GetExpiration Go.ok tBefore tAfter tAdd
  go_leaf

/-- an assertion issued in the future (beyond the offset and the half second of rounding) is refused, WHATEVER the distance -/
theorem c14_iat_future_refused {now : Int} {c : Claims} {maxIAT off : Int} (h : now + off + 500000000 < asTime c.iat) :
    CheckIssuedAt now c maxIAT off ≠ .ok () := by
  intro hok
  have := (checkIssuedAt_window.mp hok).2.1
  have := tRound_second_near (now + off)
  omega

/-- an assertion older than the allowed age (beyond the half second of rounding) is refused, WHATEVER the distance -/
theorem c14_iat_old_refused {now : Int} {c : Claims} {maxIAT off : Int} (hm : maxIAT ≠ 0)
    (h : asTime c.iat + 500000000 < now - maxIAT) : CheckIssuedAt now c maxIAT off ≠ .ok () := by
  intro hok
  have h2 := (checkIssuedAt_window.mp hok).2.2
  have := tRound_second_near (now - maxIAT)
  rcases h2 with h2 | h2
  · exact hm h2
  · omega

/-- an assertion without iat (0 / the zero time) is refused -/
theorem c14_iat_missing_refused {now : Int} {c : Claims} {maxIAT off : Int} (h : asTime c.iat = zeroTime) :
    CheckIssuedAt now c maxIAT off ≠ .ok () := by
  intro hok
  exact (checkIssuedAt_window.mp hok).1 h

/-- completeness: inside the window (half a second away from its ends) the check passes -/
theorem c14_iat_inside_accepted {now : Int} {c : Claims} {maxIAT off : Int} (h0 : asTime c.iat ≠ zeroTime)
    (h1 : asTime c.iat + 500000000 ≤ now + off) (h2 : maxIAT = 0 ∨ now - maxIAT + 500000000 ≤ asTime c.iat) :
    CheckIssuedAt now c maxIAT off = .ok () := by
  refine checkIssuedAt_window.mpr ⟨h0, ?_, ?_⟩
  · have := tRound_second_near (now + off); omega
  · rcases h2 with h2 | h2
    · exact .inl h2
    · have := tRound_second_near (now - maxIAT); exact .inr (by omega)

/-- an expired assertion is refused whatever the distance; an unexpired one passes the expiration check whatever the distance -/
theorem c14_exp_refused {now : Int} {c : Claims} {off : Int} (h : asTime c.exp ≤ now + off) : CheckExpiration now c off ≠ .ok () := by
  intro hok
  have := checkExpiration_window.mp hok
  omega

/-- THE TIME WINDOW OF AN ACCEPTED ASSERTION, for every verifier (any issuer, max age, offset, key source, subject check), every
    token and every instant - no hypothesis on how far the claims are from `now`: the token's claims are unexpired at `now + offset`,
    carry an iat, issued not later than `now + offset` (+ half a second of rounding) and - with a maximum age - not earlier than
    `now - maxAge` (- half a second) -/
theorem c14_assertion_time_window {now : Int} {t : Token} {v : JWTProfileVerifier} {c : Claims}
    (h : VerifyJWTAssertion now t v = .ok c) :
    ∃ p c0, ParseToken now t = .ok (p, c0) ∧ now + v.Offset < asTime c0.exp ∧ asTime c0.iat ≠ zeroTime ∧
      asTime c0.iat ≤ now + v.Offset + 500000000 ∧ (v.MaxAgeIAT = 0 ∨ now - v.MaxAgeIAT - 500000000 ≤ asTime c0.iat) := by
  obtain ⟨p, c0, hp, _, hexp, hiat, _, _⟩ := verifyJWTAssertion_ok.mp h
  have hw := checkIssuedAt_window.mp hiat
  refine ⟨p, c0, hp, checkExpiration_window.mp hexp, hw.1, ?_, ?_⟩
  · have := tRound_second_near (now + v.Offset); omega
  · rcases hw.2.2 with h2 | h2
    · exact .inl h2
    · have := tRound_second_near (now - v.MaxAgeIAT); exact .inr (by omega)

/-! ### the time claims as the checks read them

`claims.GetIssuedAt()` / `claims.GetExpiration()` on a `*oidc.JWTTokenRequest` and `oidc.Time.AsTime` are regenerated
(`Generated/AssertionTime.lean`, int64 arithmetic explicit); the hand-written getters of Model/Token.lean that every regenerated check
is applied to are these functions. -/

/-- CHARACTERISATION of `oidc.Time.AsTime`: 0 is the zero time, every other value that many whole seconds after the epoch - exact for
    every integer (no nanosecond arithmetic on the way) -/
theorem timeAsTime_eq (now ts : Int) : GenC14.TimeAsTime now ts = Go.asTime ts := by
  unfold GenC14.TimeAsTime Go.asTime
  go_unfold Go.timeUnix Go.tUnix
  go_leaf

/-- the getters the regenerated checks read (`Claims.GetIssuedAt`, `Claims.GetExpiration`) are the getters of the source -/
theorem c14_time_getters (now : Int) (c : Claims) :
    GenC14.JWTTokenRequestGetIssuedAt now c = c.GetIssuedAt ∧ GenC14.JWTTokenRequestGetExpiration now c = c.GetExpiration := by
  unfold GenC14.JWTTokenRequestGetIssuedAt GenC14.JWTTokenRequestGetExpiration Claims.GetIssuedAt Claims.GetExpiration
  simp only [timeAsTime_eq, and_self]

/-- far values through the regenerated conversion: no wrap at ± one int64-nanosecond range, 2⁶² s, the year-1 / year-9999 edges -/
theorem c14_asTime_far_samples :
    ([18446744074, -18446744074, 9223372037, -9223372037, 4611686018427387904, -4611686018427387904, 253402300799, -62135596800,
      -62135596801, -1, 1, 4294967296].all fun s => GenC14.TimeAsTime 0 s == s * 1000000000) = true ∧ GenC14.TimeAsTime 0 0 = Go.zeroTime := by decide

/-! ### samples at the places where int64 nanoseconds wrap (a test, not the claim: the claim is the theorems above)

`farNow` = 2026-09-21T… + 0.3 s; the provider's window (1 h, 1 s).  Distances: one / two / three int64-nanosecond wraps
(2⁶⁴ ns = 18446744073.7 s ≈ 584.5 years) ± the width of the window, half a wrap, 2⁵⁵ … 2⁶² s (whole multiples of 2⁶⁴ ns), ± 292 / 293
years, the ends of years 1 … 9999, negative Unix times.  On a `CheckIssuedAt` / `CheckExpiration` that computes with int64 Durations
these evaluate differently and `decide` reports the proposition false. -/

def farNowS : Int := 1790000000
def farNow : Int := farNowS * second + 300000000

/-- distances (seconds) at which an iat must be refused as "in the future" (sign +) and as "too old" (sign -) -/
def farDistances : List Int :=
  [18446744074, 18446744074 + 3599, 18446744074 - 3599, 18446744073, 36893488147, 55340232221, 184467440737, 9223372037,
   36028797018963968, 72057594037927936, 288230376151711744, 4611686018427387904, 9214630000, 9246000000, 7200, 3602]

/-- the regenerated check answers (true = passed) -/
def iatPasses (iatS : Int) (maxAge off : Int) : Bool := (CheckIssuedAt farNow { iat := iatS, exp := farNowS + 300 } maxAge off).toBool
def expPasses (expS : Int) (off : Int) : Bool := (CheckExpiration farNow { iat := farNowS - 5, exp := expS } off).toBool

/-- every far FUTURE iat is refused (with and without a maximum age) -/
theorem c14_far_future_iat_refused :
    (farDistances.all fun d => !iatPasses (farNowS + d) (3600 * second) second && !iatPasses (farNowS + d) 0 second) = true := by decide

/-- every far PAST iat is refused under a maximum age (and passes without one, unless it is the zero time) -/
theorem c14_far_past_iat_refused :
    (farDistances.all fun d => !iatPasses (farNowS - d) (3600 * second) second && iatPasses (farNowS - d) 0 second) = true := by decide

/-- expiration: far in the past is expired, far in the future is unexpired -/
theorem c14_far_exp_samples :
    (farDistances.all fun d => !expPasses (farNowS - d) second && expPasses (farNowS + d) second) = true := by decide

/-- the edges of the years 1 … 9999, negative Unix times: year 1 itself is the zero time (missing), everything else before `now` is too
    old, the last second of 9999 and the first of 10000 are in the future -/
theorem c14_edge_iat_samples :
    ([-62135596800, -62135596799, -62135596801, -1, 1, -86400, -2147483648, 253402300799, 253402300800].all fun s =>
      !iatPasses s (3600 * second) second) = true ∧
    ([-62135596799, -62135596801, -1, 1, -86400, -2147483648].all fun s => iatPasses s 0 second) = true ∧
    iatPasses (-62135596800) 0 second = false ∧ iatPasses 0 0 second = false := by decide

/-- non-vacuity: inside the window the check passes -/
example : iatPasses (farNowS - 5) (3600 * second) second = true ∧ iatPasses (farNowS + 1) (3600 * second) second = true ∧
    iatPasses (farNowS - 3600) (3600 * second) second = true ∧ iatPasses (farNowS - 3601) (3600 * second) second = false ∧
    iatPasses (farNowS + 2) (3600 * second) second = false := by decide

end C14
