/-
  C03 (round 4): form_post answers on connections that break — where the FIRST form of the delivered document points.

  Composition (read-only) of this slice's history theorems with C11's theorems about the regenerated program of
  `op.AuthResponseFormPost` (`GenWire.formPostProgram`: `formPost_body_eq`, `c11_formpost_history`, `tokenize_take`, `decoded_tags`):
  for every history authorize / login / callback through one provider, with ARBITRARY write faults on the connections of the
  form_post answers (error or short write at any byte), any package-level state to begin with and any `sync.Pool` behaviour, the
  first form of every delivered document - if a form arrives at all - carries the action html/template renders for the redirect URI
  of ITS OWN stored request, which is a registered one (`Inv`).  Nothing below unfolds a regenerated definition.
-/
import OidcModel.Proofs.C03
import OidcModel.Proofs.C11CutOff
import OidcModel.Model.AuthzFormPost

namespace C03
open Authz AuthzFP UA

/-! ### the first form of a cut-off page -/

theorem formName_eq : (C11.s "form" == ascii "form") = true := by decide
theorem pageFrame_find_form : C11.pageFrame.find? (fun t => t.name == ascii "form") = none := by decide

/-- in any prefix of the page's start tags, the first `form` element (if there is one) is the page's own form tag -/
theorem find_form_prefix (A : Bytes) (params : AR.Values) (nodes : List AR.Node) (T rest : List Tag) (t : Tag)
    (h : T ++ rest = C11.pageFrame ++ C11.formTag A :: C11.restTags id params nodes)
    (ht : T.find? (fun t => t.name == ascii "form") = some t) : t = C11.formTag A := by
  have hL : (T ++ rest).find? (fun t => t.name == ascii "form") = some t := by
    rw [List.find?_append, ht]; rfl
  rw [h, List.find?_append, pageFrame_find_form] at hL
  have hf : (C11.formTag A).name == ascii "form" := formName_eq
  simp only [Option.none_or, List.find?_cons, hf] at hL
  exact (Option.some.inj hL).symm

theorem action_of_formTag (A : Bytes) :
    ((((C11.formTag A).attrs.find? (fun a => a.1 == ascii "action")).map (·.2)).getD []) = A := by
  have h1 : (C11.s "method" == ascii "action") = false := by decide
  have h2 : (C11.s "action" == ascii "action") = true := by decide
  simp [C11.formTag, List.find?_cons, h1, h2]

/-- **a form_post page cut off at ANY byte**: no form element has arrived, or the first one carries the action html/template renders
    for THIS request's redirect URI -/
theorem firstForm_take (uri : String) (resp : AR.Values) (hv : ValuesOK resp) (k : Nat) :
    firstFormAction ((pageOf uri resp).take k) = none ∨ firstFormAction ((pageOf uri resp).take k) = some (actionOf uri) := by
  have hcr := C11.render_noCR (uriBytes uri) resp (fun n v hm c hc => (hv n v hm c hc).1)
  obtain ⟨rest, hrest⟩ := C11.tokenize_take _ hcr k
  have hfull := C11.decoded_tags (uriBytes uri) resp hv
  rw [hrest, List.map_append] at hfull
  unfold firstFormAction pageOf
  cases hf : ((tokenize ((AR.render GenWire.formPostAutoescape GenWire.formPostTemplate (uriBytes uri) resp).take k)).map decodeTag).find?
      (fun t => t.name == ascii "form") with
  | none => left; rfl
  | some t =>
    right
    have := find_form_prefix _ resp _ _ _ t hfull hf
    subst this
    simp only [Option.map_some, action_of_formTag]
    rfl

/-- **one call of the regenerated `AuthResponseFormPost`, whatever package-level state it finds and whatever its connection does**:
    the first form of the delivered document is this request's own -/
theorem delivered_firstForm (pkg : Pkg) (uri : String) (e : Delivery) (hv : ValuesOK e.resp) :
    firstFormAction (FP.run GenWire.formPostProgram (reqOf uri e) pkg).rw.body = none ∨
    firstFormAction (FP.run GenWire.formPostProgram (reqOf uri e) pkg).rw.body = some (actionOf uri) := by
  rw [C11.formPost_body_eq]
  obtain ⟨k, hk⟩ := C11.delivered_prefix (reqOf uri e)
  rw [hk]
  exact firstForm_take uri e.resp hv k

/-- **histories of form_post answers for DIFFERENT clients / redirect URIs with arbitrary write faults** (FP level, by C11's
    `c11_formpost_history`): at every position the first form of the delivered document is none or the one of the request of THAT
    position - never the form of an earlier (or later) request -/
theorem c03_formpost_deliveries (hist : List (String × Delivery)) (pkg : Pkg) (n : Nat) (uri : String) (e : Delivery)
    (hn : hist[n]? = some (uri, e)) (hv : ValuesOK e.resp) :
    ∃ body, ((FP.history GenWire.formPostProgram (hist.map fun x => reqOf x.1 x.2) pkg).map (·.body))[n]? = some body ∧
      (firstFormAction body = none ∨ firstFormAction body = some (actionOf uri)) := by
  refine ⟨FP.delivered (reqOf uri e), ?_, ?_⟩
  · apply C11.history_getElem
    rw [List.getElem?_map, hn]; rfl
  · obtain ⟨k, hk⟩ := C11.delivered_prefix (reqOf uri e)
    rw [hk]
    exact firstForm_take uri e.resp hv k

/-! ### composition with the authorization endpoint's state machine -/

/-- html/template's URL filter and normaliser leave the DESTINATION of this redirect URI alone (false for a custom scheme:
    F-C03d, `#ZgotmplZ`) -/
def UriFaithful (o : UriOracle) (uri : String) : Prop := destOf o (asciiStr (actionOf uri)) = destOf o uri

/-- what a delivered document does with the user agent: it goes where the first form points; no form, nowhere -/
def sentOfBody (o : UriOracle) (body : Bytes) : Sent :=
  match firstFormAction body with
  | some a => .to (destOf o (asciiStr a))
  | none => .nowhere

/-- what a write of a callback does with the user agent when form_post pages go out through the program `prog` on the package-level
    state `pkg`, on a connection described by `e`: the page is the one of the stored request the callback names -/
def sentD (o : UriOracle) (prog : List FP.Stmt) (st : St) (pkg : Pkg) (id : String) (e : Delivery) (w : Write) : Sent :=
  match w with
  | .formPost act =>
    match st.stored.find? (·.id == id) with
    | some a => sentOfBody o (FP.run prog (reqOf a.redirectURI e) pkg).rw.body
    | none => sentOf o (.formPost act)
  | w => sentOf o w

/-- the package-level state a callback leaves behind -/
def pkgAfter (prog : List FP.Stmt) (st : St) (pkg : Pkg) (id : String) (e : Delivery) (ws : List Write) : Pkg :=
  match ws.any isFormPost, st.stored.find? (·.id == id) with
  | true, some a => (FP.run prog (reqOf a.redirectURI e) pkg).pkg
  | _, _ => pkg

/-- verdicts of the monitor on one operation, form_post pages judged by the bytes that were DELIVERED -/
def verdictsD (now : Int) (o : UriOracle) (cfg : Cfg) (prog : List FP.Stmt) (st : St) (pkg : Pkg) (op : Op) (e : Delivery) :
    List (Option String) :=
  match op with
  | .callback r d fx =>
    (step now o cfg st (.callback r d fx)).2.map fun w =>
      monitorCallback false (observer cfg st) o (r.Form.Get "id") (sentD o prog st pkg (r.Form.Get "id") e w)
  | op => verdicts now o cfg st op

def pkgStep (now : Int) (o : UriOracle) (cfg : Cfg) (prog : List FP.Stmt) (st : St) (pkg : Pkg) (op : Op) (e : Delivery) : Pkg :=
  match op with
  | .callback r d fx => pkgAfter prog st pkg (r.Form.Get "id") e (step now o cfg st (.callback r d fx)).2
  | _ => pkg

/-- a history: every operation with the environment of its delivery; both the stored requests AND the package-level state of
    pkg/op are threaded through -/
def runVerdictsD (now : Int) (o : UriOracle) (cfg : Cfg) (prog : List FP.Stmt) : St → Pkg → List (Op × Delivery) → List (Option String)
  | _, _, [] => []
  | st, pkg, (op, e) :: rest =>
    verdictsD now o cfg prog st pkg op e ++
      runVerdictsD now o cfg prog (step now o cfg st op).1 (pkgStep now o cfg prog st pkg op e) rest

theorem registeredFor_client {m : MonState} {o : UriOracle} {client uri rt : String}
    (h : registeredFor false m o client uri rt = true) : ∃ c ∈ m.clients, Registered false o c uri rt = true := by
  unfold registeredFor at h
  split at h
  · rename_i c hc; exact ⟨c, List.mem_of_find?_eq_some hc, h⟩
  · simp at h

/-- **one operation, delivered bytes**: in any state satisfying the invariant, with ANY package-level state and ANY connection
    fault, every verdict is `none`, or - only when html/template does not leave the URI of a stored (hence registered) request
    alone - the target clause.  In particular no form of ANOTHER request ever comes first. -/
theorem stepD_verdicts {now : Int} {o : UriOracle} {cfg : Cfg} {st : St} (pkg : Pkg) (op : Op) (e : Delivery)
    (hi : Inv o cfg st) (hv : ValuesOK e.resp) :
    ∀ v ∈ verdictsD now o cfg GenWire.formPostProgram st pkg op e,
      v = none ∨ (v = some "redirect-target-is-not-the-redirect-uri" ∧ ∃ a ∈ st.stored, ¬ UriFaithful o a.redirectURI) := by
  intro v hvm
  cases op with
  | login id => simp [verdictsD, verdicts] at hvm
  | authorize rt r dec d fx nid =>
    left
    exact step_verdicts (.authorize rt r dec d fx nid) hi trivial v hvm
  | callback r d fx =>
    simp only [verdictsD, List.mem_map] at hvm
    obtain ⟨w, hw, rfl⟩ := hvm
    simp only [Authz.step] at hw
    unfold monitorCallback
    rcases authorizeCallback_writes hw with ⟨s, rfl⟩ | ⟨a, ha, hwa⟩
    · left; simp only [sentD, sentOf]; split <;> simp [judge]
    · have hfind := byID_find ha
      have hacc : (observer cfg st).accepted.find? (·.id == r.Form.Get "id") = some (toAccepted a) := by
        unfold observer; simp only
        rw [List.find?_map]
        have : ((fun x : Accepted => x.id == r.Form.Get "id") ∘ toAccepted) = (fun x : AzStored => x.id == r.Form.Get "id") := by
          funext x; rfl
        rw [this, hfind]; rfl
      rw [hacc]
      have hreg := hi a (List.mem_of_find?_eq_some hfind)
      simp only [toAccepted]
      rcases hwa with ⟨s, rfl⟩ | ⟨f, q, rfl⟩ | ⟨ps, page, hpage, rfl⟩
      · left; simp [sentD, sentOf, judge]
      · left; simp [sentD, sentOf, judge, hreg]
      · simp only [sentD, hfind]
        rcases delivered_firstForm pkg a.redirectURI e hv with h | h
        · left; simp [sentOfBody, h, judge]
        · by_cases hdest : UriFaithful o a.redirectURI
          · left; unfold UriFaithful at hdest; simp [sentOfBody, h, judge, hreg, hdest]
          · right
            refine ⟨?_, a, List.mem_of_find?_eq_some hfind, hdest⟩
            unfold UriFaithful at hdest; simp [sentOfBody, h, judge, hreg, hdest]

theorem runVerdictsD_inv {now : Int} {o : UriOracle} {cfg : Cfg} (hist : List (Op × Delivery))
    (hvs : ∀ x ∈ hist, ValuesOK x.2.resp) :
    ∀ st pkg, Inv o cfg st → ∀ v ∈ runVerdictsD now o cfg GenWire.formPostProgram st pkg hist,
      v = none ∨ (v = some "redirect-target-is-not-the-redirect-uri" ∧
        ∃ c ∈ cfg.clients, ∃ uri rt, Registered false o c uri rt = true ∧ ¬ UriFaithful o uri) := by
  induction hist with
  | nil => intro st pkg _ v hv; simp [runVerdictsD] at hv
  | cons x rest ih =>
    obtain ⟨op, e⟩ := x
    intro st pkg hi v hv
    simp only [runVerdictsD, List.mem_append] at hv
    rcases hv with hv | hv
    · rcases stepD_verdicts pkg op e hi (hvs (op, e) (by simp)) v hv with h | ⟨h, a, ha, hnf⟩
      · exact Or.inl h
      · obtain ⟨c, hc, hr⟩ := registeredFor_client (hi a ha)
        exact Or.inr ⟨h, c, hc, _, _, hr, hnf⟩
    · exact ih (fun y hy => hvs y (by simp [hy])) _ _ (step_inv op hi) v hv

/-- **C03 over histories of form_post answers with write faults** (the history theorem `c03_history` extended to the bytes that are
    delivered).  For every set of registrations, every behaviour of net/url / net.ParseIP / doublestar, every sequence of authorize /
    login / callback operations on either router for ANY clients and redirect URIs - arbitrary storage faults, sub-validation and
    token-creation outcomes, encoder failures -, where every form_post answer is written by the REGENERATED `AuthResponseFormPost`
    program to a connection that fails or writes short at ANY byte (or not at all), starting from ANY package-level state and with
    any `sync.Pool` behaviour: the monitor accepts every response; a delivered document sends the user agent nowhere (no form
    arrived) or to the redirect URI of its own stored request - a registered one.  Hypotheses: the response parameters carry no
    NUL / CR byte, and html/template leaves the destination of every URI alone that a client of this configuration can get accepted
    (F-C03d: false for custom schemes; `c03_history_formpost_any` assumes nothing about it). -/
theorem c03_history_formpost (now : Int) (o : UriOracle) (cfg : Cfg) (pkg : Pkg) (hist : List (Op × Delivery))
    (hvs : ∀ x ∈ hist, ValuesOK x.2.resp)
    (hF : ∀ c ∈ cfg.clients, ∀ uri rt, Registered false o c uri rt = true → UriFaithful o uri) :
    ∀ v ∈ runVerdictsD now o cfg GenWire.formPostProgram {} pkg hist, v = none := by
  intro v hv
  rcases runVerdictsD_inv hist hvs {} pkg (inv_init o cfg) v hv with h | ⟨_, c, hc, uri, rt, hr, hnf⟩
  · exact h
  · exact absurd (hF c hc uri rt hr) hnf

/-- … and without any assumption about html/template (F-C03d stays visible): the only possible objection is the target clause, and
    only for a registered URI whose destination html/template's filter / normaliser changes - never a clause about an unregistered
    URI, never the form of another request -/
theorem c03_history_formpost_any (now : Int) (o : UriOracle) (cfg : Cfg) (pkg : Pkg) (hist : List (Op × Delivery))
    (hvs : ∀ x ∈ hist, ValuesOK x.2.resp) :
    ∀ v ∈ runVerdictsD now o cfg GenWire.formPostProgram {} pkg hist,
      v = none ∨ (v = some "redirect-target-is-not-the-redirect-uri" ∧
        ∃ c ∈ cfg.clients, ∃ uri rt, Registered false o c uri rt = true ∧ ¬ UriFaithful o uri) :=
  runVerdictsD_inv hist hvs {} pkg (inv_init o cfg)

/-! ### non-vacuity -/

def exPage (uri code : String) : Bytes :=
  AR.render GenWire.formPostAutoescape GenWire.formPostTemplate (C11.s uri) ⟨[(C11.s "code", [C11.s code])]⟩

set_option maxRecDepth 1000000 in
/-- the defect this theorem family excludes, and its absence on the regenerated program: Alice's connection breaks at byte 40, then
    Bob's page is delivered whole.  With a pooled buffer that is never reset (`C11.leakyProgram`) the first form of Bob's document is
    ALICE's (his user agent posts to her client's redirect URI); with the regenerated `AuthResponseFormPost` it is his own. -/
theorem formpost_leftover_witness :
    let alice : FP.Req := { page := exPage "https://alice-rp.example/callback" "alice-code", fault := .err 40 }
    let bob : FP.Req := { page := exPage "https://bob-rp.example/cb" "bob-code" }
    ((FP.history C11.leakyProgram [alice, bob] [("pool", .pool [])]).map fun w => firstFormAction w.body)
        = [none, some (C11.s "https://alice-rp.example/callback")]
      ∧ ((FP.history GenWire.formPostProgram [alice, bob] GenWire.formPostPkg).map fun w => firstFormAction w.body)
        = [none, some (C11.s "https://bob-rp.example/cb")] := by
  decide

/-- F-C03d at the level of delivered bytes: for a custom-scheme redirect URI the action html/template renders is `#ZgotmplZ` -/
theorem formpost_custom_scheme_action : AR.urlNormalize (AR.urlFilter (C11.s "myapp://cb")) = C11.s "#ZgotmplZ" := by decide

end C03
