/-
  C14 (deepening) — WHICH verifier judges an assertion: proofs over the regenerated `Provider.JWTProfileVerifier`, its constructor
  and the consumers of assertions (`GenC14`: ClientJWTAuth, AuthorizePrivateJWTKey, the jwt-bearer grant of both routers, the legacy
  server's resource-client authentication), with `IssuerFromContext(ctx)` read as the issuer the request is ADDRESSED TO.

  * `c14_audience_is_request_issuer` — for every request, the verifier used for an assertion presented at issuer I expects audience I
    (and carries the provider's fixed settings: one hour, one second, the storage's key registry, the default subject check);
  * `c14_endpoint_assertion_sound`   — composition with `c14_assertion_sound`: accepted at I ⇒ signed by a key of the client named as
    issuer, I in the audience, inside the time window, sub = iss;
  * `c14_endpoint_monitor`           — the same in the form of the executable monitor `C14.endpointSound`, for ALL issuers the request
    may be addressed to, all registries, tokens, instants: this is what the stream checks on the real endpoints;
  * `c14_proper_assertion_accepted`, `c14_proper_assertion_authenticates` — the accepting direction: an assertion properly made for
    the ADDRESSED issuer by the key the storage hands out (admitted algorithm, conditions met with margin) is accepted there;
  * `c14_client_jwt_auth_sound`, `c14_private_key_jwt_at_issuer`, `c14_bearer_grant_sound`, `c14_legacy_bearer_grant_sound`,
    `c14_legacy_resource_client_sound` — every regenerated consumer satisfies the monitor, with the identity it goes on with;
  * `c14_client_id_from_request_sound`, `c14_revocation_request_sound`, `c14_legacy_resource_client_sound`, `c14_private_key_jwt_at_issuer`
    — full strength (F-C14b repaired by /repo bc01147): at EVERY endpoint of both routers an assertion authenticates only a client
    that is registered for private_key_jwt, as exactly the assertion's issuer, on an assertion sound for the addressed issuer;
  * `c14_hand_model_bridge`          — the hand-written `Provider.JWTProfileVerifier` of Model/OP.lean (used by C04/C05/C07) denotes the
    regenerated getter at the provider's issuer.
-/
import OidcModel.Proofs.C14
import OidcModel.Generated.AssertionEndpoints
namespace C14
open Go Gen Hand

/-! ### the getter -/

/-- C14 (deepening): the verifier a request addressed to `reqIssuer` is judged with expects exactly that audience - whatever the
    provider served before (the definition has no other input) - with the provider's fixed settings -/
theorem c14_audience_is_request_issuer (now : Int) (reqIssuer : String) (o : AsrtProvider) :
    (GenC14.ProviderJWTProfileVerifier now reqIssuer o).flat.Issuer = reqIssuer ∧
    (GenC14.ProviderJWTProfileVerifier now reqIssuer o).flat.MaxAgeIAT = providerMaxAgeIAT ∧
    (GenC14.ProviderJWTProfileVerifier now reqIssuer o).flat.Offset = providerOffset ∧
    (GenC14.ProviderJWTProfileVerifier now reqIssuer o).flat.Storage = o.storage.keyRegistry ∧
    (GenC14.ProviderJWTProfileVerifier now reqIssuer o).flat.keySet.kind = .nilSet ∧
    (GenC14.ProviderJWTProfileVerifier now reqIssuer o).flat.CheckSubject = some (SubjectIsIssuer now) := by
  refine ⟨rfl, ?_, rfl, rfl, rfl, rfl⟩
  simp [GenC14.ProviderJWTProfileVerifier, GenC14.NewJWTProfileVerifier, GenC14.newJWTProfileVerifier, Hand.asrtNoOpts, GoX.foldList,
    AsrtVerifierGo.flat, providerMaxAgeIAT]

/-- two requests addressed to different issuers are judged with different expected audiences: the verifier cannot be shared -/
theorem c14_verifier_per_request (now : Int) (a b : String) (o : AsrtProvider) (h : a ≠ b) :
    (GenC14.ProviderJWTProfileVerifier now a o).flat.Issuer ≠ (GenC14.ProviderJWTProfileVerifier now b o).flat.Issuer := by
  rw [(c14_audience_is_request_issuer now a o).1, (c14_audience_is_request_issuer now b o).1]; exact h

/-- the constructor applies its options in order, after the defaults (here: an option replaces the subject check) -/
example (now : Int) (st : AsrtStorage) (f : Claims → Go.R Unit) :
    (GenC14.NewJWTProfileVerifier now st "https://a.example" 5 7 [fun v => { v with CheckSubject := f }]).CheckSubject = f := rfl

/-- (deep 3) `op.SubjectCheck(f)` - the one option the library offers - replaces the subject check and nothing else: issuer, window,
    key storage and the (nil) key set of the verifier are those of the plain constructor -/
theorem c14_subject_check_option (now : Int) (st : AsrtStorage) (iss : String) (m o : Int) (f : Claims → Go.R Unit) :
    (GenC14.NewJWTProfileVerifier now st iss m o [GenC14.SubjectCheck now f]).flat =
      { (GenC14.NewJWTProfileVerifier now st iss m o []).flat with CheckSubject := some f } := rfl

/-- (deep 4) `op.NewJWTProfileVerifierKeySet(keySet, issuer, maxAge, offset)`: a verifier that checks every assertion against the
    caller's key set - whatever issuer it names - with the given issuer and window and the default subject check -/
theorem c14_keyset_verifier (now : Int) (ks : KeySet) (iss : String) (m o : Int) (hk : ks.kind ≠ .nilSet) :
    (GenC14.NewJWTProfileVerifierKeySet now ks iss m o []).flat.Issuer = iss ∧
    (GenC14.NewJWTProfileVerifierKeySet now ks iss m o []).flat.MaxAgeIAT = m ∧
    (GenC14.NewJWTProfileVerifierKeySet now ks iss m o []).flat.Offset = o ∧
    (GenC14.NewJWTProfileVerifierKeySet now ks iss m o []).flat.CheckSubject = some (SubjectIsIssuer now) ∧
    ∀ id, assertionKeys (GenC14.NewJWTProfileVerifierKeySet now ks iss m o []).flat id = ks := by
  refine ⟨rfl, rfl, rfl, rfl, ?_⟩
  intro id
  have : (GenC14.NewJWTProfileVerifierKeySet now ks iss m o []).flat.keySet = ks := rfl
  unfold assertionKeys
  rw [this]
  have hn : Go.isNil ks = false := by
    simp only [Go.isNil, Nilable.isNil]
    cases hkk : ks.kind <;> simp_all
  simp [hn]

/-- … so what such a verifier accepts is signed by a key of THAT key set (C02's acceptance statement), and nothing else decides -/
theorem c14_keyset_verifier_sound {now : Int} {ks : KeySet} {iss : String} {m o : Int} {t : Token} {c : Claims} (hk : ks.kind ≠ .nilSet)
    (h : VerifyJWTAssertion now t (GenC14.NewJWTProfileVerifierKeySet now ks iss m o []).flat = .ok c) :
    C02.acceptedOK [] ks t c = none := by
  obtain ⟨p, c0, hp, _, _, _, _, hsig⟩ := verifyJWTAssertion_ok.1 h
  rw [(c14_keyset_verifier now ks iss m o hk).2.2.2.2 c0.iss] at hsig
  exact (C02.parse_and_signature_sound hp hsig).1

/-! ### composition with `c14_assertion_sound` -/

/-- the explicit default subject check is the constructor default -/
theorem verify_default_subject {now : Int} {t : Token} {v : JWTProfileVerifier} (h : v.CheckSubject = some (SubjectIsIssuer now)) :
    VerifyJWTAssertion now t v = VerifyJWTAssertion now t { v with CheckSubject := none } := by
  unfold VerifyJWTAssertion
  simp [applySubjectCheck, h]

/-- the signature algorithm recorded on the returned claims plays no role in the statement -/
theorem assertionOK_sigAlg (i : String) (m o : Int) (s : Bool) (reg : List (String × JWK)) (t : Token) (now : Int) (c : Claims) (a : String) :
    assertionOK i m o s reg t now (c.SetSignatureAlgorithm a) = assertionOK i m o s reg t now c := by
  cases c; rfl

/-- C14 (deepening): an assertion accepted by the verifier of a request addressed to `reqIssuer` is signed with a key the storage
    holds for the client named as issuer, has `reqIssuer` - the issuer of THIS request - in its audience, lies in the one-hour /
    one-second window and has sub = iss -/
theorem c14_endpoint_assertion_sound {now : Int} {reqIssuer : String} {o : AsrtProvider} {t : Token} {c : Claims}
    (h : VerifyJWTAssertion now t (GenC14.ProviderJWTProfileVerifier now reqIssuer o).flat = .ok c) :
    assertionOK reqIssuer providerMaxAgeIAT providerOffset true o.storage.keyRegistry t now c = none := by
  obtain ⟨h1, h2, h3, h4, h5, h6⟩ := c14_audience_is_request_issuer now reqIssuer o
  rw [verify_default_subject h6] at h
  have := c14_assertion_sound (v := { (GenC14.ProviderJWTProfileVerifier now reqIssuer o).flat with CheckSubject := none }) h5 h
  simpa [h1, h2, h3, h4] using this

/-- … and the accepted claims are the token's own (decoded middle segment), so the statement holds of the token as presented -/
theorem c14_endpoint_token_sound {now : Int} {reqIssuer : String} {o : AsrtProvider} {t : Token} {c : Claims}
    (h : VerifyJWTAssertion now t (GenC14.ProviderJWTProfileVerifier now reqIssuer o).flat = .ok c) :
    ∃ c0, t.middle.bind (·.claims) = some c0 ∧ c0.iss = c.iss ∧ c0.sub = c.sub ∧ c0.aud = c.aud ∧
      assertionOK reqIssuer providerMaxAgeIAT providerOffset true o.storage.keyRegistry t now c0 = none := by
  have hs := c14_endpoint_assertion_sound h
  obtain ⟨h1, h2, h3, h4, h5, h6⟩ := c14_audience_is_request_issuer now reqIssuer o
  rw [verify_default_subject h6] at h
  obtain ⟨p, c0, hp, _, _, _, _, hsig⟩ := verifyJWTAssertion_paths (v := { (GenC14.ProviderJWTProfileVerifier now reqIssuer o).flat with CheckSubject := none }) h5 h
  obtain ⟨_, s, _, _, _, _, _, hc⟩ := C01.checkSignature_ok hsig
  have hmid : t.middle.bind (·.claims) = some c0 := by
    unfold ParseToken at hp
    split at hp; · simp at hp
    split at hp; · simp at hp
    rename_i p0 hm
    split at hp; · simp at hp
    rename_i c1 hc1
    simp at hp
    simp [hm, hc1, hp.2]
  subst hc
  rw [assertionOK_sigAlg] at hs
  exact ⟨c0, hmid, rfl, rfl, rfl, hs⟩

/-- C14 (deepening), in the form of the executable monitor: whatever issuer the request is addressed to, an endpoint that honours
    exactly the assertions this verifier accepts, and goes on as the assertion's issuer, never violates `C14.endpointSound` -/
theorem c14_endpoint_monitor {now : Int} {reqIssuer : String} {o : AsrtProvider} {t : Token} {c : Claims}
    (h : VerifyJWTAssertion now t (GenC14.ProviderJWTProfileVerifier now reqIssuer o).flat = .ok c) :
    endpointSound o.storage.keyRegistry { reqIssuer := reqIssuer, assertion := t } now { accepted := true, identity := some c.iss } = none := by
  obtain ⟨c0, hm, hi, _, _, hs⟩ := c14_endpoint_token_sound h
  simp [endpointSound, hm, hs, hi]

/-! ### (deep 4) WHICH verifier: interface dispatch, and every subject check

Every consumer obtains the verifier through an interface method (`exchanger.JWTProfileVerifier(ctx)`).  The dynamic type is
`*op.Provider` (its getter is regenerated above) or an OP that embeds it and implements the method itself - e.g. with
`op.SubjectCheck(f)`, the one option the constructor knows.  `verifierAt` is the verifier a request addressed to `reqIssuer` is
judged with in either case; `ProviderSettings … check` says that it carries the provider's settings for the addressed issuer with
the default subject check (`check = none`) or the custom one `f` (`check = some f`, ANY function). -/

/-- the verifier a request addressed to `reqIssuer` is judged with (flat reading of what the interface method hands out) -/
abbrev verifierAt (now : Int) (reqIssuer : String) (p : AsrtProvider) : JWTProfileVerifier :=
  (Hand.asrtJWTProfileVerifier (GenC14.ProviderJWTProfileVerifier now) reqIssuer p).flat

theorem verifierAt_stock {now : Int} {reqIssuer : String} {p : AsrtProvider} (h : p.customVerifier = none) :
    verifierAt now reqIssuer p = (GenC14.ProviderJWTProfileVerifier now reqIssuer p).flat := by
  simp [verifierAt, Hand.asrtJWTProfileVerifier, h]

theorem verifierAt_custom {now : Int} {reqIssuer : String} {p : AsrtProvider} {g : String → AsrtVerifierGo} (h : p.customVerifier = some g) :
    verifierAt now reqIssuer p = (g reqIssuer).flat := by
  simp [verifierAt, Hand.asrtJWTProfileVerifier, h]

/-- the verifier carries the provider's settings for the addressed issuer: expected audience = the issuer the request is addressed
    to, one hour, one second, the storage's key registry, no key set of its own; subject check: the default (`check = none`) or the
    configured one (`check = some f`) -/
structure ProviderSettings (now : Int) (v : JWTProfileVerifier) (reqIssuer : String) (reg : List (String × JWK))
    (check : Option (Claims → Go.R Unit)) : Prop where
  issuer : v.Issuer = reqIssuer
  maxAge : v.MaxAgeIAT = providerMaxAgeIAT
  offset : v.Offset = providerOffset
  storage : v.Storage = reg
  keySet : v.keySet.kind = .nilSet
  subject : v.CheckSubject = some (check.getD (SubjectIsIssuer now))

/-- `*op.Provider` itself: the default subject check -/
theorem settings_stock (now : Int) (reqIssuer : String) (p : AsrtProvider) (h : p.customVerifier = none) :
    ProviderSettings now (verifierAt now reqIssuer p) reqIssuer p.storage.keyRegistry none := by
  rw [verifierAt_stock h]
  obtain ⟨h1, h2, h3, h4, h5, h6⟩ := c14_audience_is_request_issuer now reqIssuer p
  exact ⟨h1, h2, h3, h4, h5, h6⟩

/-- an OP whose `JWTProfileVerifier(ctx)` is `NewJWTProfileVerifier(storage, IssuerFromContext(ctx), time.Hour, time.Second,
    SubjectCheck(f))` (regenerated constructor and option): the provider's settings with the subject check `f`, for EVERY `f` -/
theorem settings_subject_check (now : Int) (reqIssuer : String) (p : AsrtProvider) (f : Claims → Go.R Unit)
    (h : p.customVerifier = some fun iss => GenC14.NewJWTProfileVerifier now p.storage iss (3600 * Go.second) Go.second [GenC14.SubjectCheck now f]) :
    ProviderSettings now (verifierAt now reqIssuer p) reqIssuer p.storage.keyRegistry (some f) := by
  rw [verifierAt_custom h]
  exact ⟨rfl, rfl, rfl, rfl, rfl, rfl⟩

/-- what the configured check admits, as the monitor sees it (`EndpointReq.subjectCheck`) -/
def admitsOf (check : Option (Claims → Go.R Unit)) : Option (Claims → Bool) := check.map fun f c => (f c).toOption.isSome

/-- dropping the demand sub = iss only weakens `assertionOK` -/
theorem assertionOK_weaken {i : String} {m o : Int} {s : Bool} {reg : List (String × JWK)} {t : Token} {now : Int} {c : Claims}
    (h : assertionOK i m o s reg t now c = none) : assertionOK i m o false reg t now c = none := by
  cases s with
  | false => exact h
  | true =>
    unfold assertionOK at h ⊢
    split at h
    · simp at h
    · rename_i hsig
      simp only [Option.map_eq_none_iff, List.find?_eq_none] at h ⊢
      intro x hx
      simp only [claimClauses, List.mem_cons, List.mem_nil_iff, or_false] at hx
      rcases hx with rfl | rfl | rfl | rfl | rfl | rfl
      · exact h _ (by simp [claimClauses])
      · exact h _ (by simp [claimClauses])
      · exact h _ (by simp [claimClauses])
      · exact h _ (by simp [claimClauses])
      · exact h _ (by simp [claimClauses])
      · simp

/-- C14 (deep 4), EVERY subject check: an assertion accepted by a verifier that carries the provider's settings for `reqIssuer` is the
    token's own claims, signed with a key the storage holds for the client named as ISSUER, addressed to `reqIssuer`, inside the
    window; its subject equals its issuer (default check) or is one the configured check admits -/
theorem endpoint_token_sound_any {now : Int} {reqIssuer : String} {reg : List (String × JWK)} {check : Option (Claims → Go.R Unit)}
    {v : JWTProfileVerifier} {t : Token} {c : Claims}
    (hs : ProviderSettings now v reqIssuer reg check) (h : VerifyJWTAssertion now t v = .ok c) :
    ∃ c0, t.middle.bind (·.claims) = some c0 ∧ c0.iss = c.iss ∧ c0.sub = c.sub ∧ c0.aud = c.aud ∧
      assertionOK reqIssuer providerMaxAgeIAT providerOffset check.isNone reg t now c0 = none ∧
      (∀ f, check = some f → f c0 = .ok ()) := by
  obtain ⟨h1, h2, h3, h4, h5, h6⟩ := hs
  obtain ⟨p, c0, hp, _, _, _, hsub, hsig⟩ := verifyJWTAssertion_paths h5 h
  obtain ⟨_, s, _, _, _, _, _, hc⟩ := C01.checkSignature_ok hsig
  have hmid : t.middle.bind (·.claims) = some c0 := by
    unfold ParseToken at hp
    split at hp; · simp at hp
    split at hp; · simp at hp
    rename_i p0 hm
    split at hp; · simp at hp
    rename_i c1 hc1
    simp at hp
    simp [hm, hc1, hp.2]
  have hsound : assertionOK reqIssuer providerMaxAgeIAT providerOffset check.isNone reg t now c = none := by
    cases check with
    | none =>
      have h6' : v.CheckSubject = some (SubjectIsIssuer now) := by simpa using h6
      rw [verify_default_subject h6'] at h
      have := c14_assertion_sound (v := { v with CheckSubject := none }) h5 h
      simpa [h1, h2, h3, h4] using this
    | some f =>
      have := assertionOK_weaken (c14_assertion_sound h5 h)
      simpa [h1, h2, h3, h4] using this
  subst hc
  rw [assertionOK_sigAlg] at hsound
  refine ⟨c0, hmid, rfl, rfl, rfl, hsound, ?_⟩
  intro f hf
  subst hf
  simpa [applySubjectCheck, h6] using hsub

/-- the monitor on an endpoint that honours exactly what such a verifier accepts and goes on as the assertion's ISSUER -/
theorem endpoint_monitor_any {now : Int} {reqIssuer : String} {reg : List (String × JWK)} {check : Option (Claims → Go.R Unit)}
    {v : JWTProfileVerifier} {t : Token} {c : Claims}
    (hs : ProviderSettings now v reqIssuer reg check) (h : VerifyJWTAssertion now t v = .ok c) :
    endpointSound reg { reqIssuer := reqIssuer, assertion := t, subjectCheck := admitsOf check } now { accepted := true, identity := some c.iss } = none := by
  obtain ⟨c0, hm, hi, _, _, hso, hadm⟩ := endpoint_token_sound_any hs h
  cases check with
  | none => simp [endpointSound, admitsOf, hm, hi] at hso ⊢; simp [hso]
  | some f =>
    have := hadm f rfl
    simp [endpointSound, admitsOf, hm, hi, this] at hso ⊢; simp [hso, Except.toOption]

/-! ### the accepting direction -/

/-- C14 (deepening, completeness): an assertion properly made for the issuer the request is ADDRESSED TO - by the key the storage
    hands out for its key id and issuer, admitted algorithm, conditions met with margin - is accepted by the verifier of that
    request, whatever issuers the provider serves besides -/
theorem c14_proper_assertion_accepted {now : Int} {reqIssuer : String} {o : AsrtProvider} {t : Token} {c : Claims} {alg : String}
    (h : properlyMade reqIssuer providerMaxAgeIAT providerOffset o.storage.keyRegistry t now = some (c, alg)) :
    VerifyJWTAssertion now t (GenC14.ProviderJWTProfileVerifier now reqIssuer o).flat = .ok (c.SetSignatureAlgorithm alg) := by
  obtain ⟨h1, h2, h3, h4, h5, h6⟩ := c14_audience_is_request_issuer now reqIssuer o
  rw [verify_default_subject h6]
  unfold properlyMade at h
  split at h; · simp at h
  rename_i hsegs
  split at h
  · rename_i p j hmid hjws
    split at h
    · rename_i c0 s hc0 hsig
      split at h
      · rename_i hcond
        simp at h
        obtain ⟨hc, halg⟩ := h
        subst hc halg
        simp only [Bool.and_eq_true, beq_iff_eq, List.all_eq_true] at hcond
        obtain ⟨⟨⟨hin, hbytes⟩, hkey⟩, hcl⟩ := hcond
        have cl := fun x hx => hcl x hx
        simp only [claimClauses, List.mem_cons, List.mem_nil_iff, or_false] at cl
        have haud := cl _ (Or.inl rfl)
        have hexp := cl _ (Or.inr (Or.inl rfl))
        have hiatp := cl _ (Or.inr (Or.inr (Or.inl rfl)))
        have hiatf := cl _ (Or.inr (Or.inr (Or.inr (Or.inl rfl))))
        have hiato := cl _ (Or.inr (Or.inr (Or.inr (Or.inr (Or.inl rfl)))))
        have hsub := cl _ (Or.inr (Or.inr (Or.inr (Or.inr (Or.inr rfl)))))
        simp only [decide_eq_true_eq, bne_iff_ne, ne_eq, Bool.or_eq_true, beq_iff_eq, Bool.not_true, Bool.false_or] at haud hexp hiatp hiatf hiato hsub
        have r1 := C01.tRound_second_bounds (now + providerOffset)
        have r2 := C01.tRound_second_bounds (now - providerMaxAgeIAT)
        have e1 : ParseToken now t = .ok (p, c0) := by
          unfold ParseToken; simp [hsegs, hmid, hc0]
        have e2 : CheckAudience now c0 reqIssuer = .ok () := C01.checkAudience_ok.2 (by simpa using haud)
        have e3 : CheckExpiration now c0 providerOffset = .ok () := by
          rw [C01.checkExpiration_ok]; simp only [C01.ns, halfSecond, providerOffset, second] at *; omega
        have e4 : CheckIssuedAt now c0 providerMaxAgeIAT providerOffset = .ok () := by
          rw [C01.checkIssuedAt_ok]
          simp only [C01.ns, C01.halfSecond, halfSecond, providerOffset, providerMaxAgeIAT, second] at *
          refine ⟨hiatp, by omega, ?_⟩
          rcases hiato with h0 | h0
          · omega
          · right; omega
        have e5 : SubjectIsIssuer now c0 = .ok () := subjectIsIssuer_ok.2 (by simpa using hsub.symm)
        obtain ⟨k, hfind, hgen⟩ : ∃ k, (clientKeys o.storage.keyRegistry c0.iss).keys.find? (fun k => k.KeyID == s.Header.KeyID) = some k ∧ C02.genuine j s k = true := by
          cases hf : (clientKeys o.storage.keyRegistry c0.iss).keys.find? (fun k => k.KeyID == s.Header.KeyID) with
          | none => simp [hf] at hkey
          | some k => exact ⟨k, rfl, by simpa [hf] using hkey⟩
        have e6 : CheckSignature now t p c0 Go.nil (clientKeys o.storage.keyRegistry c0.iss) = .ok (c0.SetSignatureAlgorithm s.Header.Algorithm) := by
          unfold CheckSignature
          have hall : joseParseSigned t (toJoseSignatureAlgorithms Go.nil) = .ok j := by
            unfold joseParseSigned toJoseSignatureAlgorithms; simp [hjws, hsig, Go.nil, Go.HasNil.nilv]; simpa using hin
          have hv : (clientKeys o.storage.keyRegistry c0.iss).VerifySignature j = .ok j.payload := by
            unfold KeySet.VerifySignature GetKeyIDAndAlg
            simp only [hsig, clientKeys] at hfind ⊢
            simp only [hfind, jwsVerify, hsig]
            have : sigVerifies j s k = true := by simpa [C02.genuine, sigVerifies] using hgen
            simp [this]
          simp [hall, hsig, Go.len, HasLen.len, Go.index, hv, Go.bytesEqual, hbytes]
        unfold VerifyJWTAssertion
        simp only [h1, h2, h3, h4, e1, e2, e3, e4, applySubjectCheck, e5]
        have hn : Go.isNil (GenC14.ProviderJWTProfileVerifier now reqIssuer o).flat.keySet = true := by simp [Go.isNil, Nilable.isNil, h5]
        simp [hn, clientKeys_eq, Claims.Issuer, e6]
      · simp at h
    · simp at h
  · simp at h

/-! ### the consumers: one characterisation lemma per regenerated function (shape-independent, `go_leaf`); every theorem below uses
    only these lemmas and never unfolds a regenerated definition -/

theorem clientJWTAuth_ok {now : Int} {reqIssuer : String} {ca : AsrtAssertionParams} {p : AsrtProvider} {id : String} :
    GenC14.ClientJWTAuth now reqIssuer ca p = .ok id ↔
      ca.ClientAssertion ≠ "" ∧ ∃ c, VerifyJWTAssertion now (p.tokenOf ca.ClientAssertion) (verifierAt now reqIssuer p) = .ok c ∧ c.iss = id := by
  unfold GenC14.ClientJWTAuth Hand.asrtVerifyJWTAssertion
  go_leaf

/-- `checkPrivateKeyJWTClient`: the client exists and is registered for private_key_jwt -/
theorem checkPrivateKeyJWTClient_ok {now : Int} {id : String} {s : AsrtStorage} :
    GenC14.checkPrivateKeyJWTClient now id s = .ok () ↔ ∃ cl, s.GetClientByClientID id = .ok cl ∧ cl.auth = Const.AuthMethodPrivateKeyJWT := by
  unfold GenC14.checkPrivateKeyJWTClient OPClient.AuthMethod Go.ok
  go_leaf

theorem authorizePrivateJWTKey_ok {now : Int} {reqIssuer : String} {t : Token} {p : AsrtProvider} {cl : OPClient} :
    GenC14.AuthorizePrivateJWTKey now reqIssuer t p = .ok cl ↔
      ∃ c, VerifyJWTAssertion now t (verifierAt now reqIssuer p) = .ok c ∧
        p.storage.GetClientByClientID c.iss = .ok cl ∧ cl.auth = Const.AuthMethodPrivateKeyJWT := by
  unfold GenC14.AuthorizePrivateJWTKey Hand.asrtVerifyToken AsrtProvider.Storage OPClient.AuthMethod
  go_leaf

/-- `ClientIDFromRequest` on a request whose decoded form carries an assertion -/
theorem clientIDFromRequest_assertion {now : Int} {reqIssuer : String} {r : AsrtHttpReq} {p : AsrtProvider} {data : AsrtForm}
    {id : String} {authd : Bool} (hd : p.decoder.decoded r.Form = .ok data) (ha : data.ClientAssertion ≠ "") :
    GenC14.ClientIDFromRequest now reqIssuer r p = .ok (id, authd) ↔
      r.ParseForm = .ok () ∧ authd = true ∧ GenC14.ClientJWTAuth now reqIssuer data.ClientAssertionParams p = .ok id ∧
      GenC14.checkPrivateKeyJWTClient now id p.storage = .ok () := by
  unfold GenC14.ClientIDFromRequest AsrtProvider.Decoder AsrtDecoder.Decode AsrtProvider.is_ClientJWTProfile AsrtProvider.Storage
  simp only [hd]
  go_leaf

/-- `ParseTokenRevocationRequest` on a request whose decoded form names the jwt-bearer assertion type -/
theorem parseTokenRevocationRequest_assertion {now : Int} {reqIssuer : String} {r : AsrtHttpReq} {p : AsrtProvider} {data : AsrtForm}
    {tok hint id : String} (hd : p.decoder.decoded r.Form = .ok data) (ht : data.ClientAssertionType = Const.ClientAssertionTypeJWTAssertion) :
    GenC14.ParseTokenRevocationRequest now reqIssuer r p = .ok (tok, hint, id) ↔
      r.ParseForm = .ok () ∧ p.pkjwtSupported = true ∧ tok = data.Token ∧ hint = data.TokenTypeHint ∧
      ∃ c, VerifyJWTAssertion now (p.tokenOf data.ClientAssertion) (verifierAt now reqIssuer p) = .ok c ∧ c.iss = id ∧
        GenC14.checkPrivateKeyJWTClient now id p.storage = .ok () := by
  unfold GenC14.ParseTokenRevocationRequest AsrtProvider.Decoder AsrtDecoder.Decode AsrtProvider.is_RevokerJWTProfile AsrtProvider.Storage
    AsrtProvider.AuthMethodPrivateKeyJWTSupported Hand.asrtVerifyJWTAssertion
  simp only [hd, ht]
  go_leaf

theorem jwtProfile_json {now : Int} {reqIssuer : String} {rq : Go.R AsrtGrantRequest} {p : AsrtProvider} {resp : AsrtTokenResponse} :
    GenC14.JWTProfile now reqIssuer rq p = .json resp ↔
      ∃ g c granted, rq = .ok g ∧
        VerifyJWTAssertion now (p.tokenOf g.Assertion) (verifierAt now reqIssuer p) = .ok c ∧
        p.storage.scopePolicy c.iss g.Scope = .ok granted ∧ resp = { subject := c.sub, audience := c.aud, scopes := granted } := by
  unfold GenC14.JWTProfile Hand.asrtParseGrantRequest Hand.asrtVerifyJWTAssertion Hand.asrtCreateJWTTokenResponse AsrtProvider.Storage
    AsrtStorage.ValidateJWTProfileScopes
  go_leaf

theorem legacyJWTProfile_ok {now : Int} {reqIssuer : String} {s : AsrtLegacyServer} {r : AsrtRequest AsrtGrantRequest} {resp : AsrtTokenResponse} :
    GenC14.LegacyJWTProfile now reqIssuer s r = .ok resp ↔
      ∃ c granted,
        VerifyJWTAssertion now (s.provider.tokenOf r.Data.Assertion) (verifierAt now reqIssuer s.provider) = .ok c ∧
        s.provider.storage.scopePolicy c.iss r.Data.Scope = .ok granted ∧ resp = { subject := c.sub, audience := c.aud, scopes := granted } := by
  unfold GenC14.LegacyJWTProfile Hand.asrtVerifyJWTAssertion Hand.asrtCreateJWTTokenResponse AsrtProvider.Storage
    AsrtStorage.ValidateJWTProfileScopes AsrtProvider.is_JWTAuthorizationGrantExchanger Hand.NewResponse
  go_leaf

theorem legacyAuthenticateResourceClient_assertion {now : Int} {reqIssuer : String} {s : AsrtLegacyServer} {cc : AsrtClientCredentials} {id : String}
    (ha : cc.ClientAssertion ≠ "") :
    GenC14.LegacyAuthenticateResourceClient now reqIssuer s cc = .ok id ↔
      GenC14.ClientJWTAuth now reqIssuer { ClientAssertion := cc.ClientAssertion } s.provider = .ok id ∧
      GenC14.checkPrivateKeyJWTClient now id s.provider.storage = .ok () := by
  unfold GenC14.LegacyAuthenticateResourceClient AsrtProvider.is_ClientJWTProfile AsrtProvider.Storage
  simp only [ha, bne_iff_ne, ne_eq, not_false_eq_true, if_true]
  go_leaf

/-- … so `ClientJWTAuth` authenticates its issuer at that request -/
theorem c14_proper_assertion_authenticates {now : Int} {reqIssuer : String} {ca : AsrtAssertionParams} {p : AsrtProvider} {c : Claims} {alg : String}
    (hstock : p.customVerifier = none) (ha : ca.ClientAssertion ≠ "")
    (h : properlyMade reqIssuer providerMaxAgeIAT providerOffset p.storage.keyRegistry (p.tokenOf ca.ClientAssertion) now = some (c, alg)) :
    GenC14.ClientJWTAuth now reqIssuer ca p = .ok c.iss :=
  clientJWTAuth_ok.2 ⟨ha, c.SetSignatureAlgorithm alg, by rw [verifierAt_stock hstock]; exact c14_proper_assertion_accepted h, rfl⟩

theorem getClient_id {s : AsrtStorage} {id : String} {c : OPClient} (h : s.GetClientByClientID id = .ok c) : c.id = id := by
  unfold AsrtStorage.GetClientByClientID Store.GetClientByClientID at h
  split at h
  · rename_i c' hf
    simp at h; subst h
    simpa using List.find?_some hf
  · simp at h

/-! #### the authenticated identity is the ISSUER - for EVERY verifier the interface method may hand out (any issuer, window, key
     source, subject check): these four statements have no hypothesis about the provider at all -/

/-- C14 (deep 4): `ClientJWTAuth` answers the ISSUER of the assertion the verifier accepted - never its subject -/
theorem c14_client_jwt_auth_identity {now : Int} {reqIssuer : String} {ca : AsrtAssertionParams} {p : AsrtProvider} {id : String}
    (h : GenC14.ClientJWTAuth now reqIssuer ca p = .ok id) :
    ∃ c, VerifyJWTAssertion now (p.tokenOf ca.ClientAssertion) (verifierAt now reqIssuer p) = .ok c ∧ id = c.iss := by
  obtain ⟨_, c, hc, hi⟩ := clientJWTAuth_ok.1 h
  exact ⟨c, hc, hi.symm⟩

/-- C14 (deep 4), private_key_jwt at the token endpoint (code / refresh grants of both routers, `LegacyServer.VerifyClient`):
    whatever verifier - hence whatever SUBJECT CHECK - is configured, the client `AuthorizePrivateJWTKey` authenticates is the
    registration stored under the assertion's ISSUER (`cl.id = c.iss`), registered for private_key_jwt; and when the verifier takes
    its keys from the storage (no key set of its own), the assertion is signed with a key that storage holds for exactly that
    client and meets the verifier's audience / time conditions -/
theorem c14_private_key_client_any_check {now : Int} {reqIssuer : String} {t : Token} {p : AsrtProvider} {cl : OPClient}
    (h : GenC14.AuthorizePrivateJWTKey now reqIssuer t p = .ok cl) :
    ∃ c, VerifyJWTAssertion now t (verifierAt now reqIssuer p) = .ok c ∧ cl.id = c.iss ∧
      p.storage.GetClientByClientID c.iss = .ok cl ∧ cl.auth = Const.AuthMethodPrivateKeyJWT ∧
      ((verifierAt now reqIssuer p).keySet.kind = .nilSet →
        assertionOK (verifierAt now reqIssuer p).Issuer (verifierAt now reqIssuer p).MaxAgeIAT (verifierAt now reqIssuer p).Offset false
          (verifierAt now reqIssuer p).Storage t now c = none) := by
  obtain ⟨c, hc, hcl, hauth⟩ := authorizePrivateJWTKey_ok.1 h
  exact ⟨c, hc, getClient_id hcl, hcl, hauth, fun hks => assertionOK_weaken (c14_assertion_sound hks hc)⟩

/-- C14 (deep 4), Provider router (introspection, device authorization, device grant): the client `ClientIDFromRequest` reports for
    a request with an assertion is the assertion's ISSUER, for every verifier -/
theorem c14_client_id_from_request_identity {now : Int} {reqIssuer : String} {r : AsrtHttpReq} {p : AsrtProvider} {data : AsrtForm}
    {id : String} {authd : Bool} (hd : p.decoder.decoded r.Form = .ok data) (ha : data.ClientAssertion ≠ "")
    (h : GenC14.ClientIDFromRequest now reqIssuer r p = .ok (id, authd)) :
    ∃ c, VerifyJWTAssertion now (p.tokenOf data.ClientAssertion) (verifierAt now reqIssuer p) = .ok c ∧ id = c.iss := by
  obtain ⟨_, _, hj, _⟩ := (clientIDFromRequest_assertion hd ha).1 h
  exact c14_client_jwt_auth_identity hj

/-- … and at revocation -/
theorem c14_revocation_identity {now : Int} {reqIssuer : String} {r : AsrtHttpReq} {p : AsrtProvider} {data : AsrtForm}
    {tok hint id : String} (hd : p.decoder.decoded r.Form = .ok data) (ht : data.ClientAssertionType = Const.ClientAssertionTypeJWTAssertion)
    (h : GenC14.ParseTokenRevocationRequest now reqIssuer r p = .ok (tok, hint, id)) :
    ∃ c, VerifyJWTAssertion now (p.tokenOf data.ClientAssertion) (verifierAt now reqIssuer p) = .ok c ∧ id = c.iss := by
  obtain ⟨_, _, _, _, c, hc, hi, _⟩ := (parseTokenRevocationRequest_assertion hd ht).1 h
  exact ⟨c, hc, hi.symm⟩

/-! #### the monitor at the endpoints: the provider's settings with the default OR any configured subject check -/

/-- client authentication by assertion (introspection, device grant, device authorization; the legacy server's resource
    endpoints): the authenticated identity is the issuer of an assertion that is sound FOR THE ADDRESSED ISSUER -/
theorem c14_client_jwt_auth_sound {now : Int} {reqIssuer : String} {ca : AsrtAssertionParams} {p : AsrtProvider} {id : String}
    {check : Option (Claims → Go.R Unit)} (hs : ProviderSettings now (verifierAt now reqIssuer p) reqIssuer p.storage.keyRegistry check)
    (h : GenC14.ClientJWTAuth now reqIssuer ca p = .ok id) :
    endpointSound p.storage.keyRegistry { reqIssuer := reqIssuer, assertion := p.tokenOf ca.ClientAssertion, subjectCheck := admitsOf check } now
      { accepted := true, identity := some id } = none := by
  obtain ⟨_, c, hc, hi⟩ := clientJWTAuth_ok.1 h
  rw [← hi]; exact endpoint_monitor_any hs hc

/-- an assertion that is sound for the addressed issuer and whose issuer is registered for private_key_jwt: the monitor in full -/
theorem clientAuth_monitor {now : Int} {reqIssuer : String} {reg : List (String × JWK)} {check : Option (Claims → Go.R Unit)}
    {v : JWTProfileVerifier} {t : Token} {c : Claims} {cl : OPClient}
    (hs : ProviderSettings now v reqIssuer reg check) (hc : VerifyJWTAssertion now t v = .ok c)
    (hauth : cl.auth = Const.AuthMethodPrivateKeyJWT) :
    endpointSound reg { reqIssuer := reqIssuer, assertion := t, clientAuth := true, registeredMethod := some cl.auth, subjectCheck := admitsOf check } now
      { accepted := true, identity := some c.iss } = none := by
  obtain ⟨c0, hm, hi, _, _, hso, hadm⟩ := endpoint_token_sound_any hs hc
  cases check with
  | none => simp [endpointSound, admitsOf, hm, hi, hauth] at hso ⊢; simp [hso]
  | some f =>
    have := hadm f rfl
    simp [endpointSound, admitsOf, hm, hi, hauth, this] at hso ⊢; simp [hso, Except.toOption]

/-- private_key_jwt at the token endpoint (both routers; on the legacy server also revocation and device authorization): the
    authenticated client is the registration stored under the assertion's issuer, it is registered for private_key_jwt, and the
    assertion is sound for the addressed issuer - with the default subject check and with EVERY configured one -/
theorem c14_private_key_jwt_at_issuer {now : Int} {reqIssuer : String} {t : Token} {p : AsrtProvider} {cl : OPClient}
    {check : Option (Claims → Go.R Unit)} (hs : ProviderSettings now (verifierAt now reqIssuer p) reqIssuer p.storage.keyRegistry check)
    (h : GenC14.AuthorizePrivateJWTKey now reqIssuer t p = .ok cl) :
    cl.auth = Const.AuthMethodPrivateKeyJWT ∧ p.storage.GetClientByClientID cl.id = .ok cl ∧
    endpointSound p.storage.keyRegistry
      { reqIssuer := reqIssuer, assertion := t, clientAuth := true, registeredMethod := some cl.auth, subjectCheck := admitsOf check } now
      { accepted := true, identity := some cl.id } = none := by
  obtain ⟨c, hc, hcl, hauth⟩ := authorizePrivateJWTKey_ok.1 h
  have hid := getClient_id hcl
  refine ⟨hauth, by rw [hid]; exact hcl, ?_⟩
  rw [hid]; exact clientAuth_monitor hs hc hauth

/-- C14 (full strength, Provider router: introspection, device authorization, device grant): when the request carries an
    assertion, `ClientIDFromRequest` reports a client only as AUTHENTICATED, only if it is registered for private_key_jwt, as
    exactly the assertion's issuer, on an assertion that is sound for the issuer the request is addressed to -/
theorem c14_client_id_from_request_sound {now : Int} {reqIssuer : String} {r : AsrtHttpReq} {p : AsrtProvider} {data : AsrtForm}
    {id : String} {authd : Bool} {check : Option (Claims → Go.R Unit)}
    (hs : ProviderSettings now (verifierAt now reqIssuer p) reqIssuer p.storage.keyRegistry check)
    (hd : p.decoder.decoded r.Form = .ok data) (ha : data.ClientAssertion ≠ "")
    (h : GenC14.ClientIDFromRequest now reqIssuer r p = .ok (id, authd)) :
    authd = true ∧ ∃ cl, p.storage.GetClientByClientID id = .ok cl ∧ cl.auth = Const.AuthMethodPrivateKeyJWT ∧
      endpointSound p.storage.keyRegistry
        { reqIssuer := reqIssuer, assertion := p.tokenOf data.ClientAssertion, clientAuth := true, registeredMethod := some cl.auth,
          subjectCheck := admitsOf check }
        now { accepted := true, identity := some id } = none := by
  obtain ⟨_, hau, hj, hck⟩ := (clientIDFromRequest_assertion hd ha).1 h
  obtain ⟨cl, hcl, hauth⟩ := checkPrivateKeyJWTClient_ok.1 hck
  obtain ⟨_, c, hc, hi⟩ := clientJWTAuth_ok.1 hj
  refine ⟨hau, cl, hcl, hauth, ?_⟩
  rw [← hi]; exact clientAuth_monitor hs hc hauth

/-- C14 (full strength, Provider router: revocation): the assertion branch of `ParseTokenRevocationRequest` -/
theorem c14_revocation_request_sound {now : Int} {reqIssuer : String} {r : AsrtHttpReq} {p : AsrtProvider} {data : AsrtForm}
    {tok hint id : String} {check : Option (Claims → Go.R Unit)}
    (hs : ProviderSettings now (verifierAt now reqIssuer p) reqIssuer p.storage.keyRegistry check)
    (hd : p.decoder.decoded r.Form = .ok data) (ht : data.ClientAssertionType = Const.ClientAssertionTypeJWTAssertion)
    (h : GenC14.ParseTokenRevocationRequest now reqIssuer r p = .ok (tok, hint, id)) :
    p.pkjwtSupported = true ∧ ∃ cl, p.storage.GetClientByClientID id = .ok cl ∧ cl.auth = Const.AuthMethodPrivateKeyJWT ∧
      endpointSound p.storage.keyRegistry
        { reqIssuer := reqIssuer, assertion := p.tokenOf data.ClientAssertion, clientAuth := true, registeredMethod := some cl.auth,
          subjectCheck := admitsOf check }
        now { accepted := true, identity := some id } = none := by
  obtain ⟨_, hp, _, _, c, hc, hi, hck⟩ := (parseTokenRevocationRequest_assertion hd ht).1 h
  obtain ⟨cl, hcl, hauth⟩ := checkPrivateKeyJWTClient_ok.1 hck
  refine ⟨hp, cl, hcl, hauth, ?_⟩
  rw [← hi]; exact clientAuth_monitor hs hc hauth

/-- the storage's scope policy refuses `refused` and invents nothing -/
def PolicyRefuses (s : AsrtStorage) (refused : List String) : Prop :=
  ∀ id req granted, s.scopePolicy id req = .ok granted → ∀ x ∈ granted, x ∈ req ∧ x ∉ refused

/-- (deep 4) the jwt-bearer grant under ANY subject check: the identity the grant acts for - the id the storage's scope policy is
    asked about - is the assertion's ISSUER; the token is for the subject the configured check admitted -/
theorem bearer_monitor_any {now : Int} {reqIssuer : String} {reg : List (String × JWK)} {check : Option (Claims → Go.R Unit)}
    {v : JWTProfileVerifier} {s : AsrtStorage} {t : Token} {c : Claims} {req refused granted : List String}
    (hs : ProviderSettings now v reqIssuer reg check) (hc : VerifyJWTAssertion now t v = .ok c)
    (hpol : PolicyRefuses s refused) (hg : s.scopePolicy c.iss req = .ok granted) :
    endpointSound reg
      { reqIssuer := reqIssuer, assertion := t, bearerGrant := true, requestedScopes := req, refusedScopes := refused, subjectCheck := admitsOf check }
      now { accepted := true, identity := some c.iss, scopes := some granted } = none := by
  obtain ⟨c0, hm, hi, _, _, hso, hadm⟩ := endpoint_token_sound_any hs hc
  have hall : ∀ x ∈ granted, x ∈ req ∧ x ∉ refused := hpol _ _ _ hg
  cases check with
  | none => simp [endpointSound, admitsOf, hm, hi] at hso ⊢; simp [hso]; exact hall
  | some f =>
    have := hadm f rfl
    simp [endpointSound, admitsOf, hm, hi, this] at hso ⊢; simp [hso, Except.toOption]; exact hall

/-- default subject check: the subject the token is for IS the issuer -/
theorem bearer_monitor {now : Int} {reqIssuer : String} {reg : List (String × JWK)} {v : JWTProfileVerifier} {s : AsrtStorage} {t : Token} {c : Claims}
    {req refused granted : List String}
    (hs : ProviderSettings now v reqIssuer reg none) (hc : VerifyJWTAssertion now t v = .ok c)
    (hpol : PolicyRefuses s refused) (hg : s.scopePolicy c.iss req = .ok granted) :
    endpointSound reg { reqIssuer := reqIssuer, assertion := t, bearerGrant := true, requestedScopes := req, refusedScopes := refused }
      now { accepted := true, identity := some c.sub, scopes := some granted } = none := by
  obtain ⟨c0, hm, hi, hsub, _, hso, _⟩ := endpoint_token_sound_any hs hc
  have hsubiss : c0.sub = c0.iss := by
    -- the last clause of `assertionOK` (default subject check)
    simp only [Option.isNone_none] at hso
    unfold assertionOK at hso
    split at hso; · simp at hso
    have hf := hso
    simp only [Option.map_eq_none_iff, List.find?_eq_none] at hf
    have := hf ("sub-is-iss", !true || c0.sub == c0.iss) (by simp [claimClauses])
    simpa using this
  have := bearer_monitor_any hs hc hpol hg
  rw [← hsub, hsubiss, hi]
  simpa [admitsOf] using this

/-- the jwt-bearer grant of the Provider router: a token is granted only on an assertion that is sound for the addressed issuer,
    to its subject (= its issuer), with the scopes the storage's policy admits for THAT issuer -/
theorem c14_bearer_grant_sound {now : Int} {reqIssuer : String} {rq : Go.R AsrtGrantRequest} {p : AsrtProvider} {resp : AsrtTokenResponse}
    {refused : List String} (hstock : p.customVerifier = none) (hpol : PolicyRefuses p.storage refused)
    (h : GenC14.JWTProfile now reqIssuer rq p = .json resp) :
    ∃ g, rq = .ok g ∧
      endpointSound p.storage.keyRegistry
        { reqIssuer := reqIssuer, assertion := p.tokenOf g.Assertion, bearerGrant := true, requestedScopes := g.Scope, refusedScopes := refused }
        now { accepted := true, identity := some resp.subject, scopes := some resp.scopes } = none := by
  obtain ⟨g, c, granted, hrq, hc, hgr, hresp⟩ := jwtProfile_json.1 h
  subst hresp
  exact ⟨g, hrq, bearer_monitor (settings_stock now reqIssuer p hstock) hc hpol hgr⟩

/-- (deep 4) … and under EVERY configured subject check: the scopes are the ISSUER's, the token is for the admitted subject -/
theorem c14_bearer_grant_any_check {now : Int} {reqIssuer : String} {rq : Go.R AsrtGrantRequest} {p : AsrtProvider} {resp : AsrtTokenResponse}
    {refused : List String} {check : Option (Claims → Go.R Unit)}
    (hs : ProviderSettings now (verifierAt now reqIssuer p) reqIssuer p.storage.keyRegistry check) (hpol : PolicyRefuses p.storage refused)
    (h : GenC14.JWTProfile now reqIssuer rq p = .json resp) :
    ∃ g c, rq = .ok g ∧ VerifyJWTAssertion now (p.tokenOf g.Assertion) (verifierAt now reqIssuer p) = .ok c ∧ resp.subject = c.sub ∧
      endpointSound p.storage.keyRegistry
        { reqIssuer := reqIssuer, assertion := p.tokenOf g.Assertion, bearerGrant := true, requestedScopes := g.Scope, refusedScopes := refused,
          subjectCheck := admitsOf check }
        now { accepted := true, identity := some c.iss, scopes := some resp.scopes } = none := by
  obtain ⟨g, c, granted, hrq, hc, hgr, hresp⟩ := jwtProfile_json.1 h
  subst hresp
  exact ⟨g, c, hrq, hc, rfl, bearer_monitor_any hs hc hpol hgr⟩

/-- the same for the legacy server -/
theorem c14_legacy_bearer_grant_sound {now : Int} {reqIssuer : String} {s : AsrtLegacyServer} {r : AsrtRequest AsrtGrantRequest}
    {resp : AsrtTokenResponse} {refused : List String} (hstock : s.provider.customVerifier = none) (hpol : PolicyRefuses s.provider.storage refused)
    (h : GenC14.LegacyJWTProfile now reqIssuer s r = .ok resp) :
    endpointSound s.provider.storage.keyRegistry
      { reqIssuer := reqIssuer, assertion := s.provider.tokenOf r.Data.Assertion, bearerGrant := true, requestedScopes := r.Data.Scope, refusedScopes := refused }
      now { accepted := true, identity := some resp.subject, scopes := some resp.scopes } = none := by
  obtain ⟨c, granted, hc, hgr, hresp⟩ := legacyJWTProfile_ok.1 h
  subst hresp
  exact bearer_monitor (settings_stock now reqIssuer s.provider hstock) hc hpol hgr

theorem c14_legacy_bearer_grant_any_check {now : Int} {reqIssuer : String} {s : AsrtLegacyServer} {r : AsrtRequest AsrtGrantRequest}
    {resp : AsrtTokenResponse} {refused : List String} {check : Option (Claims → Go.R Unit)}
    (hs : ProviderSettings now (verifierAt now reqIssuer s.provider) reqIssuer s.provider.storage.keyRegistry check)
    (hpol : PolicyRefuses s.provider.storage refused) (h : GenC14.LegacyJWTProfile now reqIssuer s r = .ok resp) :
    ∃ c, VerifyJWTAssertion now (s.provider.tokenOf r.Data.Assertion) (verifierAt now reqIssuer s.provider) = .ok c ∧ resp.subject = c.sub ∧
      endpointSound s.provider.storage.keyRegistry
        { reqIssuer := reqIssuer, assertion := s.provider.tokenOf r.Data.Assertion, bearerGrant := true, requestedScopes := r.Data.Scope,
          refusedScopes := refused, subjectCheck := admitsOf check }
        now { accepted := true, identity := some c.iss, scopes := some resp.scopes } = none := by
  obtain ⟨c, granted, hc, hgr, hresp⟩ := legacyJWTProfile_ok.1 h
  subst hresp
  exact ⟨c, hc, rfl, bearer_monitor_any hs hc hpol hgr⟩

/-- C14 (full strength, legacy server: introspection): with an assertion, the caller is authenticated through `ClientJWTAuth`
    and must be registered for private_key_jwt -/
theorem c14_legacy_resource_client_sound {now : Int} {reqIssuer : String} {s : AsrtLegacyServer} {cc : AsrtClientCredentials} {id : String}
    {check : Option (Claims → Go.R Unit)}
    (hs : ProviderSettings now (verifierAt now reqIssuer s.provider) reqIssuer s.provider.storage.keyRegistry check)
    (ha : cc.ClientAssertion ≠ "") (h : GenC14.LegacyAuthenticateResourceClient now reqIssuer s cc = .ok id) :
    ∃ cl, s.provider.storage.GetClientByClientID id = .ok cl ∧ cl.auth = Const.AuthMethodPrivateKeyJWT ∧
      endpointSound s.provider.storage.keyRegistry
        { reqIssuer := reqIssuer, assertion := s.provider.tokenOf cc.ClientAssertion, clientAuth := true, registeredMethod := some cl.auth,
          subjectCheck := admitsOf check }
        now { accepted := true, identity := some id } = none := by
  obtain ⟨hj, hck⟩ := (legacyAuthenticateResourceClient_assertion ha).1 h
  obtain ⟨cl, hcl, hauth⟩ := checkPrivateKeyJWTClient_ok.1 hck
  obtain ⟨_, c, hc, hi⟩ := clientJWTAuth_ok.1 hj
  refine ⟨cl, hcl, hauth, ?_⟩
  rw [← hi]; exact clientAuth_monitor hs hc hauth

/-- C14 (deep 4) in one statement, for the configuration the seeded change needs: an OP whose verifier is built with
    `op.SubjectCheck(f)` - for EVERY `f`, also one that admits every subject - authenticates at the token endpoint exactly the client
    named as ISSUER, whose stored key verified the assertion; the executable monitor (with the configured check) holds -/
theorem c14_private_key_client_subject_check {now : Int} {reqIssuer : String} {t : Token} {p : AsrtProvider} {cl : OPClient} (f : Claims → Go.R Unit)
    (hcfg : p.customVerifier = some fun iss => GenC14.NewJWTProfileVerifier now p.storage iss (3600 * Go.second) Go.second [GenC14.SubjectCheck now f])
    (h : GenC14.AuthorizePrivateJWTKey now reqIssuer t p = .ok cl) :
    (∃ c0, t.middle.bind (·.claims) = some c0 ∧ cl.id = c0.iss ∧ f c0 = .ok ()) ∧
    endpointSound p.storage.keyRegistry
      { reqIssuer := reqIssuer, assertion := t, clientAuth := true, registeredMethod := some cl.auth, subjectCheck := admitsOf (some f) } now
      { accepted := true, identity := some cl.id } = none := by
  have hs := settings_subject_check now reqIssuer p f hcfg
  refine ⟨?_, (c14_private_key_jwt_at_issuer hs h).2.2⟩
  obtain ⟨c, hc, hcl, _⟩ := authorizePrivateJWTKey_ok.1 h
  obtain ⟨c0, hm, hi, _, _, _, hadm⟩ := endpoint_token_sound_any hs hc
  exact ⟨c0, hm, by rw [getClient_id hcl, hi], hadm f rfl⟩

/-! ### the hand-written getter of Model/OP.lean -/

/-- the provider of Model/OP.lean (token-endpoint model of C04 / C05 / C07) as the assertion consumers see it -/
def asrtOf (p : Provider) : AsrtProvider := { storage := { base := p.store }, pkjwtSupported := p.pkjwtSupported }

/-- the hand-written `Provider.JWTProfileVerifier` (one issuer per provider value, settings as fields) denotes the regenerated
    getter at the issuer the provider value stands for, when its settings are the provider's fixed ones -/
theorem c14_hand_model_bridge (now : Int) (t : Token) (p : Provider)
    (h1 : p.jwtMaxAgeIAT = providerMaxAgeIAT) (h2 : p.jwtOffset = providerOffset) :
    VerifyJWTAssertion now t p.JWTProfileVerifier =
      VerifyJWTAssertion now t (GenC14.ProviderJWTProfileVerifier now p.issuer (asrtOf p)).flat := by
  rw [verify_default_subject (c14_audience_is_request_issuer now p.issuer (asrtOf p)).2.2.2.2.2]
  congr 1
  simp [Provider.JWTProfileVerifier, GenC14.ProviderJWTProfileVerifier, GenC14.NewJWTProfileVerifier, GenC14.newJWTProfileVerifier,
    Hand.asrtNoOpts, GoX.foldList, AsrtVerifierGo.flat, h1, h2, providerMaxAgeIAT, providerOffset, asrtOf, AsrtStorage.keyRegistry,
    AsrtProvider.Storage, Go.nil, Go.HasNil.nilv]

/-- … hence `AuthorizePrivateJWTKey` of the token-endpoint model accepts exactly what the regenerated one accepts at that issuer,
    with the same client (from the two characterisation lemmas) -/
theorem c14_hand_private_key_bridge (now : Int) (t : Token) (p : Provider) (cl : OPClient)
    (h1 : p.jwtMaxAgeIAT = providerMaxAgeIAT) (h2 : p.jwtOffset = providerOffset) :
    AuthorizePrivateJWTKey now t p = .ok cl ↔ GenC14.AuthorizePrivateJWTKey now p.issuer t (asrtOf p) = .ok cl := by
  rw [genAuthorizePrivateJWTKey_ok, authorizePrivateJWTKey_ok, c14_hand_model_bridge now t p h1 h2]
  rfl

/-! ### non-vacuity: a provider serving two issuers, one assertion addressed to `a.example` -/

namespace Demo
def key : JWK := { KeyID := "k1", Use := "sig", kty := .rsa, keyNo := 1 }
def claims : Claims := { iss := "client-A", sub := "client-A", aud := ["https://a.example"], iat := 1000, exp := 1300 }
def payload : Payload := { bytes := 7, claims := some claims }
def sig : JSig :=
  { Header := { Algorithm := "RS256", KeyID := "k1" }, signer := some 1, signedBytes := 7, signedHdr := { Algorithm := "RS256", KeyID := "k1" },
    signedAlg := "RS256" }
def token : Token := { segs := 3, middle := some payload, jws := some { Signatures := [sig], payload := payload } }
def prov : AsrtProvider :=
  { storage := { base := { clients := [{ id := "client-A", auth := Const.AuthMethodPrivateKeyJWT, keys := [key] }] } }, tokenOf := fun _ => token }
def now : Int := 1010 * Go.second
end Demo

/-- the demo assertion is properly made for `a.example` (hypothesis of the completeness theorem), not for `b.example` -/
example : properlyMade "https://a.example" providerMaxAgeIAT providerOffset Demo.prov.storage.keyRegistry Demo.token Demo.now = some (Demo.claims, "RS256") := by decide
example : properlyMade "https://b.example" providerMaxAgeIAT providerOffset Demo.prov.storage.keyRegistry Demo.token Demo.now = none := by decide

/-- accepted where it is addressed to … -/
example : (GenC14.ClientJWTAuth Demo.now "https://a.example" { ClientAssertion := "x" } Demo.prov).toOption = some "client-A" := by decide
/-- … refused at the other issuer of the same provider (the monitor would flag an acceptance there) -/
example : (GenC14.ClientJWTAuth Demo.now "https://b.example" { ClientAssertion := "x" } Demo.prov).toOption = none := by decide
example : endpointSound Demo.prov.storage.keyRegistry { reqIssuer := "https://b.example", assertion := Demo.token } Demo.now
    { accepted := true, identity := some "client-A" } = some "audience" := by decide
example : (GenC14.AuthorizePrivateJWTKey Demo.now "https://a.example" Demo.token Demo.prov).toOption.map (·.id) = some "client-A" := by decide
example : GenC14.JWTProfile Demo.now "https://a.example" (.ok { Assertion := "x", Scope := ["openid"] }) Demo.prov
    = .json { subject := "client-A", audience := ["https://a.example"], scopes := ["openid"] } := by decide

/-! ### non-vacuity (deep 4): a verifier whose subject check admits EVERY subject; registered client `evil` signs
    {iss: evil, sub: victim} with its own key -/

namespace Demo
def evilKey : JWK := { KeyID := "e1", Use := "sig", kty := .rsa, keyNo := 2 }
def evilClaims : Claims := { iss := "evil", sub := "victim", aud := ["https://a.example"], iat := 1000, exp := 1300 }
def evilPayload : Payload := { bytes := 9, claims := some evilClaims }
def evilSig : JSig :=
  { Header := { Algorithm := "RS256", KeyID := "e1" }, signer := some 2, signedBytes := 9, signedHdr := { Algorithm := "RS256", KeyID := "e1" },
    signedAlg := "RS256" }
def evilToken : Token := { segs := 3, middle := some evilPayload, jws := some { Signatures := [evilSig], payload := evilPayload } }
def evilStorage : AsrtStorage :=
  { base := { clients := [{ id := "victim", auth := Const.AuthMethodPrivateKeyJWT, keys := [key] },
                           { id := "evil", auth := Const.AuthMethodPrivateKeyJWT, keys := [evilKey] }] } }
/-- an OP whose verifier is built with `op.SubjectCheck(func(*oidc.JWTTokenRequest) error { return nil })` -/
def lax : AsrtProvider :=
  { storage := evilStorage, tokenOf := fun _ => evilToken,
    customVerifier := some fun iss => GenC14.NewJWTProfileVerifier 0 evilStorage iss (3600 * Go.second) Go.second [GenC14.SubjectCheck 0 fun _ => .ok ()] }
/-- the stock provider with the same storage -/
def strict : AsrtProvider := { storage := evilStorage, tokenOf := fun _ => evilToken }
end Demo

/-- the lax verifier accepts the assertion; every consumer goes on as `evil` - the ISSUER, whose stored key verified it - not as `victim` -/
example : (GenC14.AuthorizePrivateJWTKey Demo.now "https://a.example" Demo.evilToken Demo.lax).toOption.map (·.id) = some "evil" := by decide
example : (GenC14.ClientJWTAuth Demo.now "https://a.example" { ClientAssertion := "x" } Demo.lax).toOption = some "evil" := by decide
example : (GenC14.ClientIDFromRequest Demo.now "https://a.example" { Form := { ClientAssertion := "x" } } Demo.lax).toOption = some ("evil", true) := by decide
/-- the jwt-bearer grant on the same verifier: a token for the admitted subject -/
example : GenC14.JWTProfile Demo.now "https://a.example" (.ok { Assertion := "x", Scope := ["openid"] }) Demo.lax
    = .json { subject := "victim", audience := ["https://a.example"], scopes := ["openid"] } := by decide
/-- the stock provider (default check) refuses it -/
example : (GenC14.ClientJWTAuth Demo.now "https://a.example" { ClientAssertion := "x" } Demo.strict).toOption = none := by decide
/-- the monitor: going on as the issuer is fine under the lax check, going on as the SUBJECT is the violation (what seeded C14-N does);
    under the default check the acceptance itself is one -/
example : endpointSound Demo.evilStorage.keyRegistry { reqIssuer := "https://a.example", assertion := Demo.evilToken, subjectCheck := some fun _ => true }
    Demo.now { accepted := true, identity := some "evil" } = none := by decide
example : endpointSound Demo.evilStorage.keyRegistry { reqIssuer := "https://a.example", assertion := Demo.evilToken, subjectCheck := some fun _ => true }
    Demo.now { accepted := true, identity := some "victim" } = some "identity-is-not-the-issuer" := by decide
example : endpointSound Demo.evilStorage.keyRegistry { reqIssuer := "https://a.example", assertion := Demo.evilToken }
    Demo.now { accepted := true, identity := some "evil" } = some "sub-is-iss" := by decide
example : endpointSound Demo.evilStorage.keyRegistry
    { reqIssuer := "https://a.example", assertion := Demo.evilToken, subjectCheck := some fun c => c.sub == c.iss }
    Demo.now { accepted := true, identity := some "evil" } = some "subject-refused-by-the-configured-check" := by decide

end C14
