/-
  C14 (deepening) — WHICH verifier judges an assertion: proofs over the regenerated `Provider.JWTProfileVerifier`, its constructor
  and the consumers of assertions (`GenC14`: ClientJWTAuth, AuthorizePrivateJWTKey, the jwt-bearer grant of both routers, the legacy
  server's resource-client authentication), with `IssuerFromContext(ctx)` read as the issuer the request is ADDRESSED TO.

  * `c14_audience_is_request_issuer` — for every request, the verifier used for an assertion presented at issuer I expects audience I
    (and carries the provider's fixed settings: one hour, one second, the storage's key registry, the default subject check);
  * `c14_endpoint_assertion_sound`   — composition with `c14_assertion_sound`: accepted at I ⇒ signed by a key of the client named as
    issuer, I in the audience, inside the time window, sub = iss;
  * `c14_endpoint_monitor`           — the same in the form of the executable monitor `C14.endpointSound`, for ALL issuers the request
    may be addressed to, all registries, tokens, instants: this is what the stream checks on the real endpoints;
  * `c14_proper_assertion_accepted`, `c14_proper_assertion_authenticates` — the accepting direction: an assertion properly made for
    the ADDRESSED issuer by the key the storage hands out (admitted algorithm, conditions met with margin) is accepted there;
  * `c14_client_jwt_auth_sound`, `c14_private_key_jwt_at_issuer`, `c14_bearer_grant_sound`, `c14_legacy_bearer_grant_sound`,
    `c14_legacy_resource_client_sound` — every regenerated consumer satisfies the monitor, with the identity it goes on with;
  * `c14_client_id_from_request_sound`, `c14_revocation_request_sound`, `c14_legacy_resource_client_sound`, `c14_private_key_jwt_at_issuer`
    — full strength (F-C14b repaired by /repo bc01147): at EVERY endpoint of both routers an assertion authenticates only a client
    that is registered for private_key_jwt, as exactly the assertion's issuer, on an assertion sound for the addressed issuer;
  * `c14_hand_model_bridge`          — the hand-written `Provider.JWTProfileVerifier` of Model/OP.lean (used by C04/C05/C07) denotes the
    regenerated getter at the provider's issuer.
-/
import OidcModel.Proofs.C14
import OidcModel.Generated.AssertionEndpoints
namespace C14
open Go Gen Hand

/-! ### the getter -/

/-- C14 (deepening): the verifier a request addressed to `reqIssuer` is judged with expects exactly that audience - whatever the
    provider served before (the definition has no other input) - with the provider's fixed settings -/
theorem c14_audience_is_request_issuer (now : Int) (reqIssuer : String) (o : AsrtProvider) :
    (GenC14.ProviderJWTProfileVerifier now reqIssuer o).flat.Issuer = reqIssuer ∧
    (GenC14.ProviderJWTProfileVerifier now reqIssuer o).flat.MaxAgeIAT = providerMaxAgeIAT ∧
    (GenC14.ProviderJWTProfileVerifier now reqIssuer o).flat.Offset = providerOffset ∧
    (GenC14.ProviderJWTProfileVerifier now reqIssuer o).flat.Storage = o.storage.keyRegistry ∧
    (GenC14.ProviderJWTProfileVerifier now reqIssuer o).flat.keySet.kind = .nilSet ∧
    (GenC14.ProviderJWTProfileVerifier now reqIssuer o).flat.CheckSubject = some (SubjectIsIssuer now) := by
  refine ⟨rfl, ?_, rfl, rfl, rfl, rfl⟩
  simp [GenC14.ProviderJWTProfileVerifier, GenC14.NewJWTProfileVerifier, GenC14.newJWTProfileVerifier, Hand.asrtNoOpts, GoX.foldList,
    AsrtVerifierGo.flat, providerMaxAgeIAT]

/-- two requests addressed to different issuers are judged with different expected audiences: the verifier cannot be shared -/
theorem c14_verifier_per_request (now : Int) (a b : String) (o : AsrtProvider) (h : a ≠ b) :
    (GenC14.ProviderJWTProfileVerifier now a o).flat.Issuer ≠ (GenC14.ProviderJWTProfileVerifier now b o).flat.Issuer := by
  rw [(c14_audience_is_request_issuer now a o).1, (c14_audience_is_request_issuer now b o).1]; exact h

/-- the constructor applies its options in order, after the defaults (here: an option replaces the subject check) -/
example (now : Int) (st : AsrtStorage) (f : Claims → Go.R Unit) :
    (GenC14.NewJWTProfileVerifier now st "https://a.example" 5 7 [fun v => { v with CheckSubject := f }]).CheckSubject = f := rfl

/-- (deep 3) `op.SubjectCheck(f)` - the one option the library offers - replaces the subject check and nothing else: issuer, window,
    key storage and the (nil) key set of the verifier are those of the plain constructor -/
theorem c14_subject_check_option (now : Int) (st : AsrtStorage) (iss : String) (m o : Int) (f : Claims → Go.R Unit) :
    (GenC14.NewJWTProfileVerifier now st iss m o [GenC14.SubjectCheck now f]).flat =
      { (GenC14.NewJWTProfileVerifier now st iss m o []).flat with CheckSubject := some f } := rfl

/-! ### composition with `c14_assertion_sound` -/

/-- the explicit default subject check is the constructor default -/
theorem verify_default_subject {now : Int} {t : Token} {v : JWTProfileVerifier} (h : v.CheckSubject = some (SubjectIsIssuer now)) :
    VerifyJWTAssertion now t v = VerifyJWTAssertion now t { v with CheckSubject := none } := by
  unfold VerifyJWTAssertion
  simp [applySubjectCheck, h]

/-- the signature algorithm recorded on the returned claims plays no role in the statement -/
theorem assertionOK_sigAlg (i : String) (m o : Int) (s : Bool) (reg : List (String × JWK)) (t : Token) (now : Int) (c : Claims) (a : String) :
    assertionOK i m o s reg t now (c.SetSignatureAlgorithm a) = assertionOK i m o s reg t now c := by
  cases c; rfl

/-- C14 (deepening): an assertion accepted by the verifier of a request addressed to `reqIssuer` is signed with a key the storage
    holds for the client named as issuer, has `reqIssuer` - the issuer of THIS request - in its audience, lies in the one-hour /
    one-second window and has sub = iss -/
theorem c14_endpoint_assertion_sound {now : Int} {reqIssuer : String} {o : AsrtProvider} {t : Token} {c : Claims}
    (h : VerifyJWTAssertion now t (GenC14.ProviderJWTProfileVerifier now reqIssuer o).flat = .ok c) :
    assertionOK reqIssuer providerMaxAgeIAT providerOffset true o.storage.keyRegistry t now c = none := by
  obtain ⟨h1, h2, h3, h4, h5, h6⟩ := c14_audience_is_request_issuer now reqIssuer o
  rw [verify_default_subject h6] at h
  have := c14_assertion_sound (v := { (GenC14.ProviderJWTProfileVerifier now reqIssuer o).flat with CheckSubject := none }) h5 h
  simpa [h1, h2, h3, h4] using this

/-- … and the accepted claims are the token's own (decoded middle segment), so the statement holds of the token as presented -/
theorem c14_endpoint_token_sound {now : Int} {reqIssuer : String} {o : AsrtProvider} {t : Token} {c : Claims}
    (h : VerifyJWTAssertion now t (GenC14.ProviderJWTProfileVerifier now reqIssuer o).flat = .ok c) :
    ∃ c0, t.middle.bind (·.claims) = some c0 ∧ c0.iss = c.iss ∧ c0.sub = c.sub ∧ c0.aud = c.aud ∧
      assertionOK reqIssuer providerMaxAgeIAT providerOffset true o.storage.keyRegistry t now c0 = none := by
  have hs := c14_endpoint_assertion_sound h
  obtain ⟨h1, h2, h3, h4, h5, h6⟩ := c14_audience_is_request_issuer now reqIssuer o
  rw [verify_default_subject h6] at h
  obtain ⟨p, c0, hp, _, _, _, _, hsig⟩ := verifyJWTAssertion_paths (v := { (GenC14.ProviderJWTProfileVerifier now reqIssuer o).flat with CheckSubject := none }) h5 h
  obtain ⟨_, s, _, _, _, _, _, hc⟩ := C01.checkSignature_ok hsig
  have hmid : t.middle.bind (·.claims) = some c0 := by
    unfold ParseToken at hp
    split at hp; · simp at hp
    split at hp; · simp at hp
    rename_i p0 hm
    split at hp; · simp at hp
    rename_i c1 hc1
    simp at hp
    simp [hm, hc1, hp.2]
  subst hc
  rw [assertionOK_sigAlg] at hs
  exact ⟨c0, hmid, rfl, rfl, rfl, hs⟩

/-- C14 (deepening), in the form of the executable monitor: whatever issuer the request is addressed to, an endpoint that honours
    exactly the assertions this verifier accepts, and goes on as the assertion's issuer, never violates `C14.endpointSound` -/
theorem c14_endpoint_monitor {now : Int} {reqIssuer : String} {o : AsrtProvider} {t : Token} {c : Claims}
    (h : VerifyJWTAssertion now t (GenC14.ProviderJWTProfileVerifier now reqIssuer o).flat = .ok c) :
    endpointSound o.storage.keyRegistry { reqIssuer := reqIssuer, assertion := t } now { accepted := true, identity := some c.iss } = none := by
  obtain ⟨c0, hm, hi, _, _, hs⟩ := c14_endpoint_token_sound h
  simp [endpointSound, hm, hs, hi]

/-! ### the accepting direction -/

/-- C14 (deepening, completeness): an assertion properly made for the issuer the request is ADDRESSED TO - by the key the storage
    hands out for its key id and issuer, admitted algorithm, conditions met with margin - is accepted by the verifier of that
    request, whatever issuers the provider serves besides -/
theorem c14_proper_assertion_accepted {now : Int} {reqIssuer : String} {o : AsrtProvider} {t : Token} {c : Claims} {alg : String}
    (h : properlyMade reqIssuer providerMaxAgeIAT providerOffset o.storage.keyRegistry t now = some (c, alg)) :
    VerifyJWTAssertion now t (GenC14.ProviderJWTProfileVerifier now reqIssuer o).flat = .ok (c.SetSignatureAlgorithm alg) := by
  obtain ⟨h1, h2, h3, h4, h5, h6⟩ := c14_audience_is_request_issuer now reqIssuer o
  rw [verify_default_subject h6]
  unfold properlyMade at h
  split at h; · simp at h
  rename_i hsegs
  split at h
  · rename_i p j hmid hjws
    split at h
    · rename_i c0 s hc0 hsig
      split at h
      · rename_i hcond
        simp at h
        obtain ⟨hc, halg⟩ := h
        subst hc halg
        simp only [Bool.and_eq_true, beq_iff_eq, List.all_eq_true] at hcond
        obtain ⟨⟨⟨hin, hbytes⟩, hkey⟩, hcl⟩ := hcond
        have cl := fun x hx => hcl x hx
        simp only [claimClauses, List.mem_cons, List.mem_nil_iff, or_false] at cl
        have haud := cl _ (Or.inl rfl)
        have hexp := cl _ (Or.inr (Or.inl rfl))
        have hiatp := cl _ (Or.inr (Or.inr (Or.inl rfl)))
        have hiatf := cl _ (Or.inr (Or.inr (Or.inr (Or.inl rfl))))
        have hiato := cl _ (Or.inr (Or.inr (Or.inr (Or.inr (Or.inl rfl)))))
        have hsub := cl _ (Or.inr (Or.inr (Or.inr (Or.inr (Or.inr rfl)))))
        simp only [decide_eq_true_eq, bne_iff_ne, ne_eq, Bool.or_eq_true, beq_iff_eq, Bool.not_true, Bool.false_or] at haud hexp hiatp hiatf hiato hsub
        have r1 := C01.tRound_second_bounds (now + providerOffset)
        have r2 := C01.tRound_second_bounds (now - providerMaxAgeIAT)
        have e1 : ParseToken now t = .ok (p, c0) := by
          unfold ParseToken; simp [hsegs, hmid, hc0]
        have e2 : CheckAudience now c0 reqIssuer = .ok () := C01.checkAudience_ok.2 (by simpa using haud)
        have e3 : CheckExpiration now c0 providerOffset = .ok () := by
          rw [C01.checkExpiration_ok]; simp only [C01.ns, halfSecond, providerOffset, second] at *; omega
        have e4 : CheckIssuedAt now c0 providerMaxAgeIAT providerOffset = .ok () := by
          rw [C01.checkIssuedAt_ok]
          simp only [C01.ns, C01.halfSecond, halfSecond, providerOffset, providerMaxAgeIAT, second] at *
          refine ⟨hiatp, by omega, ?_⟩
          rcases hiato with h0 | h0
          · omega
          · right; omega
        have e5 : SubjectIsIssuer now c0 = .ok () := subjectIsIssuer_ok.2 (by simpa using hsub.symm)
        obtain ⟨k, hfind, hgen⟩ : ∃ k, (clientKeys o.storage.keyRegistry c0.iss).keys.find? (fun k => k.KeyID == s.Header.KeyID) = some k ∧ C02.genuine j s k = true := by
          cases hf : (clientKeys o.storage.keyRegistry c0.iss).keys.find? (fun k => k.KeyID == s.Header.KeyID) with
          | none => simp [hf] at hkey
          | some k => exact ⟨k, rfl, by simpa [hf] using hkey⟩
        have e6 : CheckSignature now t p c0 Go.nil (clientKeys o.storage.keyRegistry c0.iss) = .ok (c0.SetSignatureAlgorithm s.Header.Algorithm) := by
          unfold CheckSignature
          have hall : joseParseSigned t (toJoseSignatureAlgorithms Go.nil) = .ok j := by
            unfold joseParseSigned toJoseSignatureAlgorithms; simp [hjws, hsig, Go.nil, Go.HasNil.nilv]; simpa using hin
          have hv : (clientKeys o.storage.keyRegistry c0.iss).VerifySignature j = .ok j.payload := by
            unfold KeySet.VerifySignature GetKeyIDAndAlg
            simp only [hsig, clientKeys] at hfind ⊢
            simp only [hfind, jwsVerify, hsig]
            have : sigVerifies j s k = true := by simpa [C02.genuine, sigVerifies] using hgen
            simp [this]
          simp [hall, hsig, Go.len, HasLen.len, Go.index, hv, Go.bytesEqual, hbytes]
        unfold VerifyJWTAssertion
        simp only [h1, h2, h3, h4, e1, e2, e3, e4, applySubjectCheck, e5]
        have hn : Go.isNil (GenC14.ProviderJWTProfileVerifier now reqIssuer o).flat.keySet = true := by simp [Go.isNil, Nilable.isNil, h5]
        simp [hn, clientKeys_eq, Claims.Issuer, e6]
      · simp at h
    · simp at h
  · simp at h

/-! ### the consumers: one characterisation lemma per regenerated function (shape-independent, `go_leaf`); every theorem below uses
    only these lemmas and never unfolds a regenerated definition -/

theorem clientJWTAuth_ok {now : Int} {reqIssuer : String} {ca : AsrtAssertionParams} {p : AsrtProvider} {id : String} :
    GenC14.ClientJWTAuth now reqIssuer ca p = .ok id ↔
      ca.ClientAssertion ≠ "" ∧ ∃ c, VerifyJWTAssertion now (p.tokenOf ca.ClientAssertion) (GenC14.ProviderJWTProfileVerifier now reqIssuer p).flat = .ok c ∧ c.iss = id := by
  unfold GenC14.ClientJWTAuth Hand.asrtVerifyJWTAssertion
  go_leaf

/-- `checkPrivateKeyJWTClient`: the client exists and is registered for private_key_jwt -/
theorem checkPrivateKeyJWTClient_ok {now : Int} {id : String} {s : AsrtStorage} :
    GenC14.checkPrivateKeyJWTClient now id s = .ok () ↔ ∃ cl, s.GetClientByClientID id = .ok cl ∧ cl.auth = Const.AuthMethodPrivateKeyJWT := by
  unfold GenC14.checkPrivateKeyJWTClient OPClient.AuthMethod Go.ok
  go_leaf

theorem authorizePrivateJWTKey_ok {now : Int} {reqIssuer : String} {t : Token} {p : AsrtProvider} {cl : OPClient} :
    GenC14.AuthorizePrivateJWTKey now reqIssuer t p = .ok cl ↔
      ∃ c, VerifyJWTAssertion now t (GenC14.ProviderJWTProfileVerifier now reqIssuer p).flat = .ok c ∧
        p.storage.GetClientByClientID c.iss = .ok cl ∧ cl.auth = Const.AuthMethodPrivateKeyJWT := by
  unfold GenC14.AuthorizePrivateJWTKey Hand.asrtVerifyToken AsrtProvider.Storage OPClient.AuthMethod
  go_leaf

/-- `ClientIDFromRequest` on a request whose decoded form carries an assertion -/
theorem clientIDFromRequest_assertion {now : Int} {reqIssuer : String} {r : AsrtHttpReq} {p : AsrtProvider} {data : AsrtForm}
    {id : String} {authd : Bool} (hd : p.decoder.decoded r.Form = .ok data) (ha : data.ClientAssertion ≠ "") :
    GenC14.ClientIDFromRequest now reqIssuer r p = .ok (id, authd) ↔
      r.ParseForm = .ok () ∧ authd = true ∧ GenC14.ClientJWTAuth now reqIssuer data.ClientAssertionParams p = .ok id ∧
      GenC14.checkPrivateKeyJWTClient now id p.storage = .ok () := by
  unfold GenC14.ClientIDFromRequest AsrtProvider.Decoder AsrtDecoder.Decode AsrtProvider.is_ClientJWTProfile AsrtProvider.Storage
  simp only [hd]
  go_leaf

/-- `ParseTokenRevocationRequest` on a request whose decoded form names the jwt-bearer assertion type -/
theorem parseTokenRevocationRequest_assertion {now : Int} {reqIssuer : String} {r : AsrtHttpReq} {p : AsrtProvider} {data : AsrtForm}
    {tok hint id : String} (hd : p.decoder.decoded r.Form = .ok data) (ht : data.ClientAssertionType = Const.ClientAssertionTypeJWTAssertion) :
    GenC14.ParseTokenRevocationRequest now reqIssuer r p = .ok (tok, hint, id) ↔
      r.ParseForm = .ok () ∧ p.pkjwtSupported = true ∧ tok = data.Token ∧ hint = data.TokenTypeHint ∧
      ∃ c, VerifyJWTAssertion now (p.tokenOf data.ClientAssertion) (GenC14.ProviderJWTProfileVerifier now reqIssuer p).flat = .ok c ∧ c.iss = id ∧
        GenC14.checkPrivateKeyJWTClient now id p.storage = .ok () := by
  unfold GenC14.ParseTokenRevocationRequest AsrtProvider.Decoder AsrtDecoder.Decode AsrtProvider.is_RevokerJWTProfile AsrtProvider.Storage
    AsrtProvider.AuthMethodPrivateKeyJWTSupported Hand.asrtVerifyJWTAssertion
  simp only [hd, ht]
  go_leaf

theorem jwtProfile_json {now : Int} {reqIssuer : String} {rq : Go.R AsrtGrantRequest} {p : AsrtProvider} {resp : AsrtTokenResponse} :
    GenC14.JWTProfile now reqIssuer rq p = .json resp ↔
      ∃ g c granted, rq = .ok g ∧
        VerifyJWTAssertion now (p.tokenOf g.Assertion) (GenC14.ProviderJWTProfileVerifier now reqIssuer p).flat = .ok c ∧
        p.storage.scopePolicy c.iss g.Scope = .ok granted ∧ resp = { subject := c.sub, audience := c.aud, scopes := granted } := by
  unfold GenC14.JWTProfile Hand.asrtParseGrantRequest Hand.asrtVerifyJWTAssertion Hand.asrtCreateJWTTokenResponse AsrtProvider.Storage
    AsrtStorage.ValidateJWTProfileScopes
  go_leaf

theorem legacyJWTProfile_ok {now : Int} {reqIssuer : String} {s : AsrtLegacyServer} {r : AsrtRequest AsrtGrantRequest} {resp : AsrtTokenResponse} :
    GenC14.LegacyJWTProfile now reqIssuer s r = .ok resp ↔
      ∃ c granted,
        VerifyJWTAssertion now (s.provider.tokenOf r.Data.Assertion) (GenC14.ProviderJWTProfileVerifier now reqIssuer s.provider).flat = .ok c ∧
        s.provider.storage.scopePolicy c.iss r.Data.Scope = .ok granted ∧ resp = { subject := c.sub, audience := c.aud, scopes := granted } := by
  unfold GenC14.LegacyJWTProfile Hand.asrtVerifyJWTAssertion Hand.asrtCreateJWTTokenResponse AsrtProvider.Storage
    AsrtStorage.ValidateJWTProfileScopes AsrtProvider.is_JWTAuthorizationGrantExchanger Hand.NewResponse
  go_leaf

theorem legacyAuthenticateResourceClient_assertion {now : Int} {reqIssuer : String} {s : AsrtLegacyServer} {cc : AsrtClientCredentials} {id : String}
    (ha : cc.ClientAssertion ≠ "") :
    GenC14.LegacyAuthenticateResourceClient now reqIssuer s cc = .ok id ↔
      GenC14.ClientJWTAuth now reqIssuer { ClientAssertion := cc.ClientAssertion } s.provider = .ok id ∧
      GenC14.checkPrivateKeyJWTClient now id s.provider.storage = .ok () := by
  unfold GenC14.LegacyAuthenticateResourceClient AsrtProvider.is_ClientJWTProfile AsrtProvider.Storage
  simp only [ha, bne_iff_ne, ne_eq, not_false_eq_true, if_true]
  go_leaf

/-- … so `ClientJWTAuth` authenticates its issuer at that request -/
theorem c14_proper_assertion_authenticates {now : Int} {reqIssuer : String} {ca : AsrtAssertionParams} {p : AsrtProvider} {c : Claims} {alg : String}
    (ha : ca.ClientAssertion ≠ "")
    (h : properlyMade reqIssuer providerMaxAgeIAT providerOffset p.storage.keyRegistry (p.tokenOf ca.ClientAssertion) now = some (c, alg)) :
    GenC14.ClientJWTAuth now reqIssuer ca p = .ok c.iss :=
  clientJWTAuth_ok.2 ⟨ha, _, c14_proper_assertion_accepted h, rfl⟩

/-- client authentication by assertion (introspection, device grant, device authorization; the legacy server's resource
    endpoints): the authenticated identity is the issuer of an assertion that is sound FOR THE ADDRESSED ISSUER -/
theorem c14_client_jwt_auth_sound {now : Int} {reqIssuer : String} {ca : AsrtAssertionParams} {p : AsrtProvider} {id : String}
    (h : GenC14.ClientJWTAuth now reqIssuer ca p = .ok id) :
    endpointSound p.storage.keyRegistry { reqIssuer := reqIssuer, assertion := p.tokenOf ca.ClientAssertion } now
      { accepted := true, identity := some id } = none := by
  obtain ⟨_, c, hc, hi⟩ := clientJWTAuth_ok.1 h
  rw [← hi]; exact c14_endpoint_monitor hc

theorem getClient_id {s : AsrtStorage} {id : String} {c : OPClient} (h : s.GetClientByClientID id = .ok c) : c.id = id := by
  unfold AsrtStorage.GetClientByClientID Store.GetClientByClientID at h
  split at h
  · rename_i c' hf
    simp at h; subst h
    simpa using List.find?_some hf
  · simp at h

/-- private_key_jwt at the token endpoint (both routers; on the legacy server also revocation and device authorization): the
    authenticated client is the registration stored under the assertion's issuer, it is registered for private_key_jwt, and the
    assertion is sound for the addressed issuer -/
theorem c14_private_key_jwt_at_issuer {now : Int} {reqIssuer : String} {t : Token} {p : AsrtProvider} {cl : OPClient}
    (h : GenC14.AuthorizePrivateJWTKey now reqIssuer t p = .ok cl) :
    cl.auth = Const.AuthMethodPrivateKeyJWT ∧ p.storage.GetClientByClientID cl.id = .ok cl ∧
    endpointSound p.storage.keyRegistry { reqIssuer := reqIssuer, assertion := t, clientAuth := true, registeredMethod := some cl.auth } now
      { accepted := true, identity := some cl.id } = none := by
  obtain ⟨c, hc, hcl, hauth⟩ := authorizePrivateJWTKey_ok.1 h
  have hid := getClient_id hcl
  refine ⟨hauth, by rw [hid]; exact hcl, ?_⟩
  obtain ⟨c0, hm, hi0, _, _, hs⟩ := c14_endpoint_token_sound hc
  simp [endpointSound, hm, hs, hid, hi0, hauth]

/-- an assertion that is sound for the addressed issuer and whose issuer is registered for private_key_jwt: the monitor in full -/
theorem clientAuth_monitor {now : Int} {reqIssuer : String} {p : AsrtProvider} {t : Token} {c : Claims} {cl : OPClient}
    (hc : VerifyJWTAssertion now t (GenC14.ProviderJWTProfileVerifier now reqIssuer p).flat = .ok c)
    (hauth : cl.auth = Const.AuthMethodPrivateKeyJWT) :
    endpointSound p.storage.keyRegistry { reqIssuer := reqIssuer, assertion := t, clientAuth := true, registeredMethod := some cl.auth } now
      { accepted := true, identity := some c.iss } = none := by
  obtain ⟨c0, hm, hi0, _, _, hs⟩ := c14_endpoint_token_sound hc
  simp [endpointSound, hm, hs, hi0, hauth]

/-- C14 (full strength, Provider router: introspection, device authorization, device grant): when the request carries an
    assertion, `ClientIDFromRequest` reports a client only as AUTHENTICATED, only if it is registered for private_key_jwt, as
    exactly the assertion's issuer, on an assertion that is sound for the issuer the request is addressed to -/
theorem c14_client_id_from_request_sound {now : Int} {reqIssuer : String} {r : AsrtHttpReq} {p : AsrtProvider} {data : AsrtForm}
    {id : String} {authd : Bool} (hd : p.decoder.decoded r.Form = .ok data) (ha : data.ClientAssertion ≠ "")
    (h : GenC14.ClientIDFromRequest now reqIssuer r p = .ok (id, authd)) :
    authd = true ∧ ∃ cl, p.storage.GetClientByClientID id = .ok cl ∧ cl.auth = Const.AuthMethodPrivateKeyJWT ∧
      endpointSound p.storage.keyRegistry
        { reqIssuer := reqIssuer, assertion := p.tokenOf data.ClientAssertion, clientAuth := true, registeredMethod := some cl.auth }
        now { accepted := true, identity := some id } = none := by
  obtain ⟨_, hau, hj, hck⟩ := (clientIDFromRequest_assertion hd ha).1 h
  obtain ⟨cl, hcl, hauth⟩ := checkPrivateKeyJWTClient_ok.1 hck
  obtain ⟨_, c, hc, hi⟩ := clientJWTAuth_ok.1 hj
  refine ⟨hau, cl, hcl, hauth, ?_⟩
  rw [← hi]; exact clientAuth_monitor hc hauth

/-- C14 (full strength, Provider router: revocation): the assertion branch of `ParseTokenRevocationRequest` -/
theorem c14_revocation_request_sound {now : Int} {reqIssuer : String} {r : AsrtHttpReq} {p : AsrtProvider} {data : AsrtForm}
    {tok hint id : String} (hd : p.decoder.decoded r.Form = .ok data) (ht : data.ClientAssertionType = Const.ClientAssertionTypeJWTAssertion)
    (h : GenC14.ParseTokenRevocationRequest now reqIssuer r p = .ok (tok, hint, id)) :
    p.pkjwtSupported = true ∧ ∃ cl, p.storage.GetClientByClientID id = .ok cl ∧ cl.auth = Const.AuthMethodPrivateKeyJWT ∧
      endpointSound p.storage.keyRegistry
        { reqIssuer := reqIssuer, assertion := p.tokenOf data.ClientAssertion, clientAuth := true, registeredMethod := some cl.auth }
        now { accepted := true, identity := some id } = none := by
  obtain ⟨_, hp, _, _, c, hc, hi, hck⟩ := (parseTokenRevocationRequest_assertion hd ht).1 h
  obtain ⟨cl, hcl, hauth⟩ := checkPrivateKeyJWTClient_ok.1 hck
  refine ⟨hp, cl, hcl, hauth, ?_⟩
  rw [← hi]; exact clientAuth_monitor hc hauth

/-- the storage's scope policy refuses `refused` and invents nothing -/
def PolicyRefuses (s : AsrtStorage) (refused : List String) : Prop :=
  ∀ id req granted, s.scopePolicy id req = .ok granted → ∀ x ∈ granted, x ∈ req ∧ x ∉ refused

theorem bearer_monitor {now : Int} {reqIssuer : String} {p : AsrtProvider} {t : Token} {c : Claims} {req refused granted : List String}
    (hc : VerifyJWTAssertion now t (GenC14.ProviderJWTProfileVerifier now reqIssuer p).flat = .ok c)
    (hpol : PolicyRefuses p.storage refused) (hg : p.storage.scopePolicy c.iss req = .ok granted) :
    endpointSound p.storage.keyRegistry { reqIssuer := reqIssuer, assertion := t, bearerGrant := true, requestedScopes := req, refusedScopes := refused }
      now { accepted := true, identity := some c.sub, scopes := some granted } = none := by
  obtain ⟨c0, hm, hi, hsub, _, hs⟩ := c14_endpoint_token_sound hc
  have hsubiss : c0.sub = c0.iss := by
    -- the last clause of `assertionOK` (default subject check)
    unfold assertionOK at hs
    split at hs; · simp at hs
    have hf := hs
    simp only [Option.map_eq_none_iff, List.find?_eq_none] at hf
    have := hf ("sub-is-iss", !true || c0.sub == c0.iss) (by simp [claimClauses])
    simpa using this
  have hall : ∀ x ∈ granted, x ∈ req ∧ x ∉ refused := hpol _ _ _ hg
  have hsc : (granted.any fun s => !req.contains s || refused.contains s) = false := by
    rw [List.any_eq_false]
    intro x hx
    obtain ⟨h1, h2⟩ := hall x hx
    simp [h1, h2]
  simp [endpointSound, hm, hs, ← hsub, hsubiss]
  exact hall

/-- the jwt-bearer grant of the Provider router: a token is granted only on an assertion that is sound for the addressed issuer,
    to its subject (= its issuer), with the scopes the storage's policy admits for THAT issuer -/
theorem c14_bearer_grant_sound {now : Int} {reqIssuer : String} {rq : Go.R AsrtGrantRequest} {p : AsrtProvider} {resp : AsrtTokenResponse}
    {refused : List String} (hpol : PolicyRefuses p.storage refused)
    (h : GenC14.JWTProfile now reqIssuer rq p = .json resp) :
    ∃ g, rq = .ok g ∧
      endpointSound p.storage.keyRegistry
        { reqIssuer := reqIssuer, assertion := p.tokenOf g.Assertion, bearerGrant := true, requestedScopes := g.Scope, refusedScopes := refused }
        now { accepted := true, identity := some resp.subject, scopes := some resp.scopes } = none := by
  obtain ⟨g, c, granted, hrq, hc, hgr, hresp⟩ := jwtProfile_json.1 h
  subst hresp
  exact ⟨g, hrq, bearer_monitor hc hpol hgr⟩

/-- the same for the legacy server -/
theorem c14_legacy_bearer_grant_sound {now : Int} {reqIssuer : String} {s : AsrtLegacyServer} {r : AsrtRequest AsrtGrantRequest}
    {resp : AsrtTokenResponse} {refused : List String} (hpol : PolicyRefuses s.provider.storage refused)
    (h : GenC14.LegacyJWTProfile now reqIssuer s r = .ok resp) :
    endpointSound s.provider.storage.keyRegistry
      { reqIssuer := reqIssuer, assertion := s.provider.tokenOf r.Data.Assertion, bearerGrant := true, requestedScopes := r.Data.Scope, refusedScopes := refused }
      now { accepted := true, identity := some resp.subject, scopes := some resp.scopes } = none := by
  obtain ⟨c, granted, hc, hgr, hresp⟩ := legacyJWTProfile_ok.1 h
  subst hresp
  exact bearer_monitor hc hpol hgr

/-- C14 (full strength, legacy server: introspection): with an assertion, the caller is authenticated through `ClientJWTAuth`
    and must be registered for private_key_jwt -/
theorem c14_legacy_resource_client_sound {now : Int} {reqIssuer : String} {s : AsrtLegacyServer} {cc : AsrtClientCredentials} {id : String}
    (ha : cc.ClientAssertion ≠ "") (h : GenC14.LegacyAuthenticateResourceClient now reqIssuer s cc = .ok id) :
    ∃ cl, s.provider.storage.GetClientByClientID id = .ok cl ∧ cl.auth = Const.AuthMethodPrivateKeyJWT ∧
      endpointSound s.provider.storage.keyRegistry
        { reqIssuer := reqIssuer, assertion := s.provider.tokenOf cc.ClientAssertion, clientAuth := true, registeredMethod := some cl.auth }
        now { accepted := true, identity := some id } = none := by
  obtain ⟨hj, hck⟩ := (legacyAuthenticateResourceClient_assertion ha).1 h
  obtain ⟨cl, hcl, hauth⟩ := checkPrivateKeyJWTClient_ok.1 hck
  obtain ⟨_, c, hc, hi⟩ := clientJWTAuth_ok.1 hj
  refine ⟨cl, hcl, hauth, ?_⟩
  rw [← hi]; exact clientAuth_monitor hc hauth

/-! ### the hand-written getter of Model/OP.lean -/

/-- the provider of Model/OP.lean (token-endpoint model of C04 / C05 / C07) as the assertion consumers see it -/
def asrtOf (p : Provider) : AsrtProvider := { storage := { base := p.store }, pkjwtSupported := p.pkjwtSupported }

/-- the hand-written `Provider.JWTProfileVerifier` (one issuer per provider value, settings as fields) denotes the regenerated
    getter at the issuer the provider value stands for, when its settings are the provider's fixed ones -/
theorem c14_hand_model_bridge (now : Int) (t : Token) (p : Provider)
    (h1 : p.jwtMaxAgeIAT = providerMaxAgeIAT) (h2 : p.jwtOffset = providerOffset) :
    VerifyJWTAssertion now t p.JWTProfileVerifier =
      VerifyJWTAssertion now t (GenC14.ProviderJWTProfileVerifier now p.issuer (asrtOf p)).flat := by
  rw [verify_default_subject (c14_audience_is_request_issuer now p.issuer (asrtOf p)).2.2.2.2.2]
  congr 1
  simp [Provider.JWTProfileVerifier, GenC14.ProviderJWTProfileVerifier, GenC14.NewJWTProfileVerifier, GenC14.newJWTProfileVerifier,
    Hand.asrtNoOpts, GoX.foldList, AsrtVerifierGo.flat, h1, h2, providerMaxAgeIAT, providerOffset, asrtOf, AsrtStorage.keyRegistry,
    AsrtProvider.Storage, Go.nil, Go.HasNil.nilv]

/-- … hence `AuthorizePrivateJWTKey` of the token-endpoint model accepts exactly what the regenerated one accepts at that issuer,
    with the same client (from the two characterisation lemmas) -/
theorem c14_hand_private_key_bridge (now : Int) (t : Token) (p : Provider) (cl : OPClient)
    (h1 : p.jwtMaxAgeIAT = providerMaxAgeIAT) (h2 : p.jwtOffset = providerOffset) :
    AuthorizePrivateJWTKey now t p = .ok cl ↔ GenC14.AuthorizePrivateJWTKey now p.issuer t (asrtOf p) = .ok cl := by
  rw [genAuthorizePrivateJWTKey_ok, authorizePrivateJWTKey_ok, c14_hand_model_bridge now t p h1 h2]
  rfl

/-! ### non-vacuity: a provider serving two issuers, one assertion addressed to `a.example` -/

namespace Demo
def key : JWK := { KeyID := "k1", Use := "sig", kty := .rsa, keyNo := 1 }
def claims : Claims := { iss := "client-A", sub := "client-A", aud := ["https://a.example"], iat := 1000, exp := 1300 }
def payload : Payload := { bytes := 7, claims := some claims }
def sig : JSig :=
  { Header := { Algorithm := "RS256", KeyID := "k1" }, signer := some 1, signedBytes := 7, signedHdr := { Algorithm := "RS256", KeyID := "k1" },
    signedAlg := "RS256" }
def token : Token := { segs := 3, middle := some payload, jws := some { Signatures := [sig], payload := payload } }
def prov : AsrtProvider :=
  { storage := { base := { clients := [{ id := "client-A", auth := Const.AuthMethodPrivateKeyJWT, keys := [key] }] } }, tokenOf := fun _ => token }
def now : Int := 1010 * Go.second
end Demo

/-- the demo assertion is properly made for `a.example` (hypothesis of the completeness theorem), not for `b.example` -/
example : properlyMade "https://a.example" providerMaxAgeIAT providerOffset Demo.prov.storage.keyRegistry Demo.token Demo.now = some (Demo.claims, "RS256") := by decide
example : properlyMade "https://b.example" providerMaxAgeIAT providerOffset Demo.prov.storage.keyRegistry Demo.token Demo.now = none := by decide

/-- accepted where it is addressed to … -/
example : (GenC14.ClientJWTAuth Demo.now "https://a.example" { ClientAssertion := "x" } Demo.prov).toOption = some "client-A" := by decide
/-- … refused at the other issuer of the same provider (the monitor would flag an acceptance there) -/
example : (GenC14.ClientJWTAuth Demo.now "https://b.example" { ClientAssertion := "x" } Demo.prov).toOption = none := by decide
example : endpointSound Demo.prov.storage.keyRegistry { reqIssuer := "https://b.example", assertion := Demo.token } Demo.now
    { accepted := true, identity := some "client-A" } = some "audience" := by decide
example : (GenC14.AuthorizePrivateJWTKey Demo.now "https://a.example" Demo.token Demo.prov).toOption.map (·.id) = some "client-A" := by decide
example : GenC14.JWTProfile Demo.now "https://a.example" (.ok { Assertion := "x", Scope := ["openid"] }) Demo.prov
    = .json { subject := "client-A", audience := ["https://a.example"], scopes := ["openid"] } := by decide

end C14
