/-
  C11: all response modes × response types in ONE statement.  The answer the handlers `AuthResponseCode` / `AuthResponseToken` give for a
  success response — the auto-submitting form for `response_mode=form_post`, the Location value of the regenerated
  `AuthResponseURL` for EVERY other mode string (`query`, `fragment`, none, anything else: the response type's default) — is
  accepted by the monitor.
-/
import OidcModel.Proofs.C11CutOff

namespace C11
open UA

/-- **every mode string other than form_post** (also unknown ones, which fall back to the response type's default channel):
    the Location value of the regenerated `AuthResponseURL` is accepted, for all redirect URIs (with query, with fragment, custom
    scheme), all responses (any names — `error_description`, `session_state`, … —, any byte strings) -/
theorem c11_holds_url_any_mode (now : Int) (parse : AR.Bytes → Go.R AR.URL) (i : Input) (u : AR.URL) (resp : AR.Values)
    (hu : parse i.uri = .ok u) (hpar : ParseOK i.uri u) (hresp : i.params = flatten resp.entries) (hd : DistinctKeys resp.entries)
    (hnf : i.mode ≠ "form_post") (hsrc : SourceOK i) :
    ∃ loc, GenWire.AuthResponseURL now parse i.uri i.rtype i.mode resp () = .ok loc ∧ monitor i (.redirect loc) = none := by
  rw [authResponseURL_channel now parse i.uri i.rtype i.mode resp u hu]
  by_cases h1 : i.mode = "query"
  · exact ⟨_, by simp [h1], c11_holds_query now i u resp hpar hresp hd (by simp [channels, h1]) hsrc⟩
  · by_cases h2 : i.mode = "fragment"
    · exact ⟨_, by simp [h2], c11_holds_fragment now i u resp hpar hresp hd (by simp [channels, h2]) (by simp [channels, h2]) hsrc⟩
    · by_cases h3 : implicitType i.rtype = true
      · exact ⟨_, by simp [h1, h2, h3],
          c11_holds_fragment now i u resp hpar hresp hd (by simp [channels, h1, h2, hnf, h3]) (by simp [channels, h1, h2, hnf, h3]) hsrc⟩
      · have h3' : implicitType i.rtype = false := by simpa using h3
        exact ⟨_, by simp [h1, h2, h3'], c11_holds_query now i u resp hpar hresp hd (by simp [channels, h1, h2, hnf, h3']) hsrc⟩

/-- what the user agent gets for a success response: the form for `form_post`, the redirect of `AuthResponseURL` otherwise -/
def successAnswer (now : Int) (parse : AR.Bytes → Go.R AR.URL) (i : Input) (resp : AR.Values) : Option Observed :=
  if i.mode == "form_post" then
    some (.form (AR.render GenWire.formPostAutoescape GenWire.formPostTemplate i.uri resp)
      ((tokenize (AR.render GenWire.formPostAutoescape GenWire.formPostTemplate i.uri resp)).map decodeTag))
  else match GenWire.AuthResponseURL now parse i.uri i.rtype i.mode resp () with
    | .ok loc => some (.redirect loc)
    | .error _ => none

/-- **C11 for a success response in EVERY response mode and response type** (partial only through F-C11b: in form_post mode the
    redirect URI's scheme has to pass html/template's URL filter and the response consists of template-listed parameters
    without NUL / CR) -/
theorem c11_holds_all_modes_partial (now : Int) (parse : AR.Bytes → Go.R AR.URL) (i : Input) (u : AR.URL) (resp : AR.Values)
    (hu : parse i.uri = .ok u) (hpar : ParseOK i.uri u) (hresp : i.params = flatten resp.entries) (hd : DistinctKeys resp.entries)
    (herr : i.isError = false) (hsrc : SourceOK i)
    (hform : i.mode = "form_post" → AR.isSafeURL i.uri = true ∧ (∀ name, ∀ v ∈ resp.get name, ∀ c ∈ v, c ≠ 0x0D ∧ c ≠ 0)
      ∧ (∀ e ∈ resp.entries, e.1 ∈ nodeNames (GenWire.formPostTemplate.drop 3) ∧ e.2.length ≤ 1)) :
    ∃ o, successAnswer now parse i resp = some o ∧ monitor i o = none := by
  unfold successAnswer
  by_cases hm : i.mode = "form_post"
  · obtain ⟨hsafe, hv, hlisted⟩ := hform hm
    refine ⟨.form (AR.render GenWire.formPostAutoescape GenWire.formPostTemplate i.uri resp)
      ((tokenize (AR.render GenWire.formPostAutoescape GenWire.formPostTemplate i.uri resp)).map decodeTag), by simp [hm], ?_⟩
    exact c11_holds_form_partial i resp hsafe hresp hd hv hlisted (by simp [channels, hm, herr]) hsrc
  · obtain ⟨loc, hloc, hmon⟩ := c11_holds_url_any_mode now parse i u resp hu hpar hresp hd hm hsrc
    exact ⟨.redirect loc, by simp [hm, hloc], hmon⟩

end C11
