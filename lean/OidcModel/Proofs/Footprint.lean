/-
  Generic theorems of the footprint model (for ANY fact record `F`):
   * `siteCells_sub`      the per-instance resolution of a write site stays inside the instance-independent
                          over-approximation `siteAny` on shared cells;
   * `run_frame`          a program changes no cell outside the may-write sets of its steps (all programs);
   * `run_shared_frame`   … hence no shared cell outside `hidden F`;
   * `own_cells_of_step`  a step writes only `own` cells of the instance it acts on (isolation);
   * `no_race`            interleaving machine: if every access of every goroutine obeys the lock assignment
                          (`segOK`), no reachable state is a race — for all thread pools and all schedules;
   * `stepSegs_ok`        `disciplined F` (a decidable check of the fact lists) makes every step's accesses obey
                          the lock assignment derived from the facts.
-/
import OidcModel.Model.Footprint
namespace Footprint

/-! ## resolution ⊆ over-approximation -/

theorem prov_sub (F : Facts) (i : Inst) (s : WriteSite) (t f : String) (a : AliasInit)
    (h : a ∈ prov F i s t f) : a ∈ aliasesFor F s t f := by
  unfold prov at h
  simp only at h
  split at h
  · exact (List.mem_filter.mp h).1
  · exact (List.mem_filter.mp h).1

theorem aliasCell_own_or (rest : List String) (o : Cell) (r : Root) :
    aliasCell rest o r = o ∨ (aliasCell rest o r).shared = true := by
  cases r <;> simp [aliasCell, Cell.shared]

theorem aliasCell_shared_indep (rest : List String) (o o' : Cell) (r : Root)
    (h : (aliasCell rest o r).shared = true) (ho : o.shared = false) : aliasCell rest o r = aliasCell rest o' r := by
  cases r <;> simp [aliasCell] at h ⊢ <;> rw [ho] at h <;> exact Bool.noConfusion h

theorem fieldCells_sub (F : Facts) (i : Inst) (s : WriteSite) (t : String) (p : List String) (c : Cell)
    (h : c ∈ fieldCells F i s t p) (hs : c.shared = true) : c ∈ fieldAny F s t p := by
  match p, h with
  | [], h => simp [fieldCells] at h
  | [f], h =>
    simp only [fieldCells, List.mem_singleton] at h
    subst h; simp [Cell.shared] at hs
  | f :: r :: rest, h =>
    simp only [fieldCells] at h
    split at h
    · simp only [List.mem_singleton] at h
      subst h; simp [Cell.shared] at hs
    · obtain ⟨a, ha, rfl⟩ := List.mem_map.mp h
      simp only [fieldAny, List.mem_filter, List.mem_map]
      exact ⟨⟨a, prov_sub F i s t f a ha, (aliasCell_shared_indep _ _ _ _ hs rfl).symm⟩, hs⟩

theorem typedCells_sub (F : Facts) (i : Inst) (s : WriteSite) (t : String) (c : Cell)
    (h : c ∈ typedCells F i s t) (hs : c.shared = true) : c ∈ typedAny F s t := by
  unfold typedCells at h
  unfold typedAny
  split at h
  · rename_i hi
    simp only [hi, if_true]
    rcases List.mem_append.mp h with h1 | h2
    · exact List.mem_append.mpr (Or.inl (fieldCells_sub F i s t _ c h1 hs))
    · split at h2
      · rename_i ha
        simp only [ha, if_true]
        exact List.mem_append.mpr (Or.inr (fieldCells_sub F i s t _ c h2 hs))
      · simp at h2
  · rename_i hi
    simp only [hi]
    exact h

/-- a shared cell that a site resolves to for a concrete instance is, up to the identity of the closure value
    (`Cell.norm`), one of the cells of the instance-independent description `siteAny` -/
theorem siteCells_sub (F : Facts) (i : Inst) (s : WriteSite) (c : Cell)
    (h : c ∈ siteCells F i s) (hs : c.shared = true) : c.norm ∈ (siteAny F s).map Cell.norm := by
  have lift : c ∈ siteAny F s → c.norm ∈ (siteAny F s).map Cell.norm := fun hm => List.mem_map.mpr ⟨c, hm, rfl⟩
  apply (fun (hx : c ∈ siteAny F s ∨ c.norm ∈ (siteAny F s).map Cell.norm) => hx.elim lift id)
  unfold siteCells at h
  unfold siteAny
  split at h
  · -- closure-captured variable
    rename_i o v d
    right
    unfold capturedCells at h
    split at h
    · rename_i hf
      simp only [Bool.and_eq_true] at hf
      obtain ⟨k, _, rfl⟩ := List.mem_map.mp h
      simp [hf.1, Cell.norm]
    · simp only [List.mem_singleton] at h
      subst h; simp [Cell.shared] at hs
  · exact Or.inl h
  · exact Or.inl (typedCells_sub F i s _ c h hs)
  · exact Or.inl (typedCells_sub F i s _ c h hs)
  · exact Or.inl (typedCells_sub F i s _ c h hs)
  · rename_i b m
    left
    split at h
    · rename_i g hg
      have hg1 := List.find?_some hg
      have hg2 := List.mem_of_find?_eq_some hg
      simp only [Bool.and_eq_true, beq_iff_eq] at hg1
      have := fieldCells_sub F i s i.ty (g.field :: s.path) c h hs
      rw [← hg1.1] at this
      refine List.mem_cons_of_mem _ ?_
      refine List.mem_flatMap.mpr ⟨g, ?_, this⟩
      exact List.mem_filter.mpr ⟨hg2, by simp [hg1.2]⟩
    · simp only [List.mem_singleton] at h
      subst h
      exact List.mem_cons_self

theorem stepCells_hidden (F : Facts) (st : Step) (c : Cell) (h : c ∈ stepCells F st) (hs : c.shared = true) :
    c.norm ∈ (hidden F).map Prod.snd := by
  unfold stepCells at h
  obtain ⟨s, hsite, hc⟩ := List.mem_flatMap.mp h
  have hsF : s ∈ F.sites := (List.mem_filter.mp hsite).1
  obtain ⟨c', hc', hn⟩ := List.mem_map.mp (siteCells_sub F st.inst s c hc hs)
  refine List.mem_map.mpr ⟨(s.fn, c'.norm), ?_, hn⟩
  unfold hidden
  exact List.mem_flatMap.mpr ⟨s, hsF, List.mem_map.mpr ⟨c', hc', rfl⟩⟩

/-! ## frame property of programs -/

theorem run_frame (F : Facts) (prog : List Step) (m m' : Mem) (h : RunRel F prog m m') (c : Cell)
    (hc : ∀ st ∈ prog, c ∉ stepCells F st) : m' c = m c := by
  induction h with
  | nil => rfl
  | cons hstep _ ih =>
    rw [ih (fun st hst => hc st (List.mem_cons_of_mem _ hst))]
    exact hstep c (hc _ List.mem_cons_self)

/-- after ANY program every shared cell that is not in `hidden F` (captured cells: whatever value they live in) has its
    initial value -/
theorem run_shared_frame (F : Facts) (prog : List Step) (m m' : Mem) (h : RunRel F prog m m') (c : Cell)
    (hs : c.shared = true) (hc : c.norm ∉ (hidden F).map Prod.snd) : m' c = m c :=
  run_frame F prog m m' h c (fun st _ hmem => hc (stepCells_hidden F st c hmem hs))

/-! ## isolation: a step writes only `own` cells of its own instance -/

theorem aliasCell_own (rest : List String) (i : Nat) (t f : String) (r : Root) (j : Nat) (t' f' : String)
    (h : aliasCell rest (.own i t f) r = .own j t' f') : j = i := by
  cases r <;> simp [aliasCell] at h <;> exact h.1.symm

theorem fieldCells_own (F : Facts) (i : Inst) (s : WriteSite) (t : String) (p : List String) (j : Nat) (t' f' : String)
    (h : Cell.own j t' f' ∈ fieldCells F i s t p) : j = i.id := by
  match p, h with
  | [], h => simp [fieldCells] at h
  | [f], h =>
    simp only [fieldCells, List.mem_singleton, Cell.own.injEq] at h
    exact h.1
  | f :: r :: rest, h =>
    simp only [fieldCells] at h
    split at h
    · simp only [List.mem_singleton, Cell.own.injEq] at h
      exact h.1
    · obtain ⟨a, _, ha⟩ := List.mem_map.mp h
      exact aliasCell_own _ _ _ _ _ _ _ _ ha

theorem typedCells_own (F : Facts) (i : Inst) (s : WriteSite) (t : String) (j : Nat) (t' f' : String)
    (h : Cell.own j t' f' ∈ typedCells F i s t) : j = i.id := by
  unfold typedCells at h
  split at h
  · rcases List.mem_append.mp h with h1 | h2
    · exact fieldCells_own F i s t _ j t' f' h1
    · split at h2
      · exact fieldCells_own F i s t _ j t' f' h2
      · simp at h2
  · simp at h

theorem siteCells_own (F : Facts) (i : Inst) (s : WriteSite) (j : Nat) (t' f' : String)
    (h : Cell.own j t' f' ∈ siteCells F i s) : j = i.id := by
  unfold siteCells at h
  split at h
  · unfold capturedCells at h
    split at h
    · simp at h
    · simp only [List.mem_singleton, Cell.own.injEq] at h
      exact h.1
  · simp at h
  · exact typedCells_own F i s _ j t' f' h
  · exact typedCells_own F i s _ j t' f' h
  · exact typedCells_own F i s _ j t' f' h
  · split at h
    · exact fieldCells_own F i s _ _ j t' f' h
    · simp at h

/-- the fields of instance `j` are untouched by every step that acts on another instance -/
theorem own_cells_of_step (F : Facts) (st : Step) (m m' : Mem) (h : StepRel F st m m') (j : Nat) (t f : String)
    (hj : j ≠ st.inst.id) : m' (.own j t f) = m (.own j t f) := by
  apply h
  intro hmem
  unfold stepCells at hmem
  obtain ⟨s, _, hc⟩ := List.mem_flatMap.mp hmem
  exact hj (siteCells_own F st.inst s j t f hc)

/-! ## closure-captured cells: a captured cell of value `k` is written only by steps on instances that hold value `k` -/

theorem aliasCell_not_captured (rest : List String) (i : Nat) (t f : String) (r : Root) (k : Nat) (o v : String) (p : List String) :
    aliasCell rest (.own i t f) r ≠ .captured k o v p := by
  cases r <;> simp [aliasCell]

theorem fieldCells_not_captured (F : Facts) (i : Inst) (s : WriteSite) (t : String) (q : List String) (k : Nat) (o v : String)
    (p : List String) : Cell.captured k o v p ∉ fieldCells F i s t q := by
  intro h
  match q, h with
  | [], h => simp [fieldCells] at h
  | [f], h => simp [fieldCells] at h
  | f :: r :: rest, h =>
    simp only [fieldCells] at h
    split at h
    · simp at h
    · obtain ⟨a, _, ha⟩ := List.mem_map.mp h
      exact aliasCell_not_captured _ _ _ _ _ _ _ _ _ ha

theorem typedCells_not_captured (F : Facts) (i : Inst) (s : WriteSite) (t : String) (k : Nat) (o v : String) (p : List String) :
    Cell.captured k o v p ∉ typedCells F i s t := by
  intro h
  unfold typedCells at h
  split at h
  · rcases List.mem_append.mp h with h1 | h2
    · exact fieldCells_not_captured F i s t _ k o v p h1
    · split at h2
      · exact fieldCells_not_captured F i s t _ k o v p h2
      · simp at h2
  · simp at h

theorem siteCells_captured (F : Facts) (i : Inst) (s : WriteSite) (k : Nat) (o v : String) (p : List String)
    (h : Cell.captured k o v p ∈ siteCells F i s) : k ∈ i.vals.map Prod.snd := by
  unfold siteCells at h
  split at h
  · unfold capturedCells at h
    split at h
    · obtain ⟨k', hk', hc⟩ := List.mem_map.mp h
      simp only [Cell.captured.injEq] at hc
      rw [← hc.1]
      unfold valsOf at hk'
      obtain ⟨q, hq, rfl⟩ := List.mem_map.mp hk'
      exact List.mem_map.mpr ⟨q, (List.mem_filter.mp hq).1, rfl⟩
    · simp at h
  · simp at h
  · exact absurd h (typedCells_not_captured F i s _ k o v p)
  · exact absurd h (typedCells_not_captured F i s _ k o v p)
  · exact absurd h (typedCells_not_captured F i s _ k o v p)
  · split at h
    · exact absurd h (fieldCells_not_captured F i s _ _ k o v p)
    · simp at h

/-- a variable captured per construction (variable of a constructor's activation, or of a function literal) is a cell of
    the instance for which the closure was created … -/
theorem capturedCells_owned (F : Facts) (i : Inst) (s : WriteSite) (o v : String) (d : Nat) (h : factoryLevel F o d = false) :
    capturedCells F i s o v d = [.own i.id ("closure:" ++ o) v] := by
  simp [capturedCells, h]

/-- … and so is a variable captured at factory level when the instance shares no value of that factory with anybody -/
theorem capturedCells_unshared (F : Facts) (i : Inst) (s : WriteSite) (o v : String) (d : Nat) (h : valsOf F i o = []) :
    capturedCells F i s o v d = [.own i.id ("closure:" ++ o) v] := by
  simp [capturedCells, h]

/-- a variable captured at factory level lives in the value: one cell per shared value the instance was handed -/
theorem capturedCells_shared (F : Facts) (i : Inst) (s : WriteSite) (o v : String) (d : Nat) (h : factoryLevel F o d = true)
    (hv : valsOf F i o ≠ []) : capturedCells F i s o v d = (valsOf F i o).map fun k => .captured k o v s.path := by
  simp [capturedCells, h, hv]

/-- a step on an instance that was not handed value `k` leaves every variable captured inside value `k` alone -/
theorem captured_cells_of_step (F : Facts) (st : Step) (m m' : Mem) (h : StepRel F st m m') (k : Nat) (o v : String) (p : List String)
    (hk : k ∉ st.inst.vals.map Prod.snd) : m' (.captured k o v p) = m (.captured k o v p) := by
  apply h
  intro hmem
  unfold stepCells at hmem
  obtain ⟨s, _, hc⟩ := List.mem_flatMap.mp hmem
  exact hk (siteCells_captured F st.inst s k o v p hc)

/-- … hence after ANY program in which no step acts on a holder of value `k` -/
theorem captured_cells_of_run (F : Facts) (prog : List Step) (m m' : Mem) (h : RunRel F prog m m') (k : Nat) (o v : String)
    (p : List String) (hk : ∀ st ∈ prog, k ∉ st.inst.vals.map Prod.snd) : m' (.captured k o v p) = m (.captured k o v p) := by
  induction h with
  | nil => rfl
  | cons hstep _ ih =>
    rw [ih (fun st hst => hk st (List.mem_cons_of_mem _ hst))]
    exact captured_cells_of_step F _ _ _ hstep k o v p (hk _ List.mem_cons_self)

/-! ## interleaving machine -/

/-- every access still to be performed by a goroutine obeys the lock assignment -/
def TOK (lo : Cell → Option Mutex) (t : TState) : Prop :=
  (∀ m as, t.cur = some (m, as) → ∀ a ∈ as, accOK lo (some m) a = true) ∧ ∀ sg ∈ t.rest, segOK lo sg = true

def Excl (p : Pool) : Prop := ∀ i j m, i ≠ j → (p i).holds m → ¬ (p j).holds m

theorem move_TOK (lo : Cell → Option Mutex) (free : Mutex → Prop) (t t' : TState) (hm : Move free t t') (h : TOK lo t) : TOK lo t' := by
  cases hm with
  | access a r =>
    exact ⟨fun m as hc => by simp at hc, fun sg hsg => h.2 sg (List.mem_cons_of_mem _ hsg)⟩
  | enter m as r _ =>
    refine ⟨fun m' as' hc a ha => ?_, fun sg hsg => h.2 sg (List.mem_cons_of_mem _ hsg)⟩
    simp only [Option.some.injEq, Prod.mk.injEq] at hc
    obtain ⟨rfl, rfl⟩ := hc
    have := h.2 (.crit m as) List.mem_cons_self
    simp only [segOK, List.all_eq_true] at this
    exact this a ha
  | inside m a as r =>
    refine ⟨fun m' as' hc b hb => ?_, h.2⟩
    simp only [Option.some.injEq, Prod.mk.injEq] at hc
    obtain ⟨rfl, rfl⟩ := hc
    exact h.1 m (a :: as) rfl b (List.mem_cons_of_mem _ hb)
  | leave m r =>
    exact ⟨fun m' as' hc => by simp at hc, h.2⟩

theorem pstep_TOK (lo : Cell → Option Mutex) (p p' : Pool) (hs : PStep p p') (h : ∀ i, TOK lo (p i)) : ∀ i, TOK lo (p' i) := by
  cases hs with
  | mk i t' hm =>
    intro k
    unfold Pool.set
    by_cases hk : k = i
    · simp only [hk, if_true]; exact move_TOK lo _ _ _ hm (h i)
    · simp only [hk, if_false]; exact h k

theorem move_holds (free : Mutex → Prop) (t t' : TState) (hm : Move free t t') (m : Mutex) (h : t'.holds m) :
    t.holds m ∨ free m := by
  cases hm with
  | access a r => obtain ⟨as, h⟩ := h; simp at h
  | enter m' as r hf =>
    obtain ⟨as', h⟩ := h
    simp only [Option.some.injEq, Prod.mk.injEq] at h
    exact Or.inr (h.1 ▸ hf)
  | inside m' a as r =>
    obtain ⟨as', h⟩ := h
    simp only [Option.some.injEq, Prod.mk.injEq] at h
    exact Or.inl ⟨a :: as, by rw [h.1]⟩
  | leave m' r => obtain ⟨as, h⟩ := h; simp at h

theorem pstep_Excl (p p' : Pool) (hs : PStep p p') (h : Excl p) : Excl p' := by
  cases hs with
  | mk i t' hm =>
    intro a b m hab ha hb
    unfold Pool.set at ha hb
    by_cases hai : a = i
    · by_cases hbi : b = i
      · exact hab (hai.trans hbi.symm)
      · simp only [hai, if_true] at ha
        simp only [hbi, if_false] at hb
        rcases move_holds _ _ _ hm m ha with h1 | h2
        · exact h i b m (fun e => hbi e.symm) h1 hb
        · exact h2 b hbi hb
    · by_cases hbi : b = i
      · simp only [hai, if_false] at ha
        simp only [hbi, if_true] at hb
        rcases move_holds _ _ _ hm m hb with h1 | h2
        · exact h a i m hai ha h1
        · exact h2 a hai ha
      · simp only [hai, if_false] at ha
        simp only [hbi, if_false] at hb
        exact h a b m hab ha hb

theorem next_spec (t : TState) (a : Access) (c : Option Mutex) (h : t.next = some (a, c)) :
    (c = none ∧ ∃ r, t.cur = none ∧ t.rest = .free a :: r) ∨ (∃ m as, c = some m ∧ t.cur = some (m, a :: as)) := by
  unfold TState.next at h
  split at h
  · rename_i m a' as hc
    simp only [Option.some.injEq, Prod.mk.injEq] at h
    exact Or.inr ⟨m, as, h.2.symm, by rw [hc, h.1]⟩
  · simp at h
  · rename_i hc
    split at h
    · rename_i a' r hr
      simp only [Option.some.injEq, Prod.mk.injEq] at h
      exact Or.inl ⟨h.2.symm, r, hc, by rw [hr, h.1]⟩
    · simp at h

theorem next_ok (lo : Cell → Option Mutex) (t : TState) (a : Access) (c : Option Mutex) (h : t.next = some (a, c)) (hok : TOK lo t) :
    accOK lo c a = true ∧ ∀ m, c = some m → t.holds m := by
  rcases next_spec t a c h with ⟨rfl, r, _, hr⟩ | ⟨m, as, rfl, hc⟩
  · refine ⟨?_, fun m hm => by simp at hm⟩
    have := hok.2 (.free a) (by rw [hr]; exact List.mem_cons_self)
    simpa [segOK] using this
  · refine ⟨hok.1 m (a :: as) hc a List.mem_cons_self, fun m' hm' => ?_⟩
    simp only [Option.some.injEq] at hm'
    exact ⟨a :: as, by rw [hc, hm']⟩

theorem no_race_state (lo : Cell → Option Mutex) (p : Pool) (hok : ∀ i, TOK lo (p i)) (hex : Excl p) : ¬ Race p := by
  rintro ⟨i, j, a, b, c, d, hij, hi, hj, hcell, hw⟩
  obtain ⟨ha, hhi⟩ := next_ok lo (p i) a c hi (hok i)
  obtain ⟨hb, hhj⟩ := next_ok lo (p j) b d hj (hok j)
  unfold accOK at ha hb
  rw [← hcell] at hb
  cases hl : lo a.cell with
  | none =>
    rw [hl] at ha hb
    simp only [Bool.not_eq_true', ] at ha hb
    rcases hw with hw | hw
    · rw [ha] at hw; exact Bool.noConfusion hw
    · rw [hb] at hw; exact Bool.noConfusion hw
  | some m =>
    rw [hl] at ha hb
    have hc : c = some m := by simpa using ha
    have hd : d = some m := by simpa using hb
    exact hex i j m hij (hhi m hc) (hhj m hd)

theorem initPool_TOK (lo : Cell → Option Mutex) (threads : List (List Seg))
    (h : ∀ th ∈ threads, ∀ sg ∈ th, segOK lo sg = true) (i : Nat) : TOK lo (initPool threads i) := by
  refine ⟨fun m as hc => by simp [initPool] at hc, fun sg hsg => ?_⟩
  simp only [initPool] at hsg
  by_cases hi : i < threads.length
  · have : threads.getD i [] = threads[i] := by simp [List.getD, hi]
    rw [this] at hsg
    exact h _ (List.getElem_mem hi) sg hsg
  · have : threads.getD i [] = [] := by simp [List.getD, hi]
    rw [this] at hsg
    simp at hsg

theorem initPool_Excl (threads : List (List Seg)) : Excl (initPool threads) := by
  intro i j m _ hi _
  obtain ⟨as, h⟩ := hi
  simp [initPool] at h

/-- **race freedom of the machine**: any number of goroutines, any programs obeying the lock assignment, any
    schedule (every `Reach`able pool): no two goroutines are ever about to touch the same cell with a write among them -/
theorem no_race (lo : Cell → Option Mutex) (threads : List (List Seg))
    (h : ∀ th ∈ threads, ∀ sg ∈ th, segOK lo sg = true) (p : Pool) (hr : Reach (initPool threads) p) : ¬ Race p := by
  have inv : (∀ i, TOK lo (p i)) ∧ Excl p := by
    induction hr with
    | refl => exact ⟨initPool_TOK lo threads h, initPool_Excl threads⟩
    | step _ hs ih => exact ⟨pstep_TOK lo _ _ hs ih.1, pstep_Excl _ _ hs ih.2⟩
  exact no_race_state lo p inv.1 inv.2

/-! ## from the decidable discipline check on the facts to the accesses of every step -/

theorem siteCells_locked (F : Facts) (i : Inst) (s : WriteSite) (t f : String)
    (hr : s.root = .recv t) (hp : s.path = [f]) (hi : isInstTy F t = true) (hop : (s.op == .append) = false) :
    siteCells F i s = [.own i.id t f] := by
  unfold siteCells
  rw [hr]
  simp only [typedCells, hi, if_true, hp, fieldCells, hop, Bool.false_eq_true, if_false, List.append_nil]

theorem segOK_own_locked (F : Facts) (i : Nat) (t f m : String) (w : Bool) (h : lockedField F t f = some m) :
    segOK (lockOf F) (.crit (i, m) [⟨.own i t f, w⟩]) = true := by
  simp [segOK, accOK, lockOf, h]

theorem stepSegs_ok (F : Facts) (hd : disciplined F = true) (st : Step) (sg : Seg) (h : sg ∈ stepSegs F st) :
    segOK (lockOf F) sg = true := by
  unfold disciplined at hd
  simp only [Bool.and_eq_true, List.all_eq_true] at hd
  obtain ⟨hsites, hreads⟩ := hd
  unfold stepSegs at h
  obtain ⟨p, hp, rfl⟩ := List.mem_map.mp h
  unfold stepSegsL at hp
  rcases List.mem_append.mp hp with hA | hB
  · obtain ⟨s, hs, hmap⟩ := List.mem_flatMap.mp hA
    obtain ⟨c, hc, rfl⟩ := List.mem_map.mp hmap
    clear hmap hp hA
    obtain ⟨hsF, hact⟩ := List.mem_filter.mp hs
    have hsd := hsites s hsF
    unfold siteDisciplined at hsd
    split at hsd
    · rename_i hapi
      rcases Bool.or_eq_true_iff.mp hsd with hl | hl
      · -- write under the object's mutex
        unfold lockedForm at hl
        split at hl
        · rename_i m t f hg hr hpth
          simp only [Bool.and_eq_true, beq_iff_eq, bne_iff_ne, ne_eq] at hl
          obtain ⟨⟨hi, hlf⟩, hop⟩ := hl
          have hop' : (s.op == Op.append) = false := by simpa using hop
          have hcells := siteCells_locked F st.inst s t f hr hpth hi hop'
          unfold visibleCells at hc
          split at hc
          · rw [hcells] at hc
            simp only [List.mem_singleton] at hc
            subst hc
            simp only [segOfWrite, hg]
            exact segOK_own_locked F st.inst.id t f m true hlf
          · rw [hcells] at hc
            simp [Cell.shared] at hc
        · exact Bool.noConfusion hl
      · -- lazily initialised field, initialised eagerly by every constructor
        unfold lazyForm at hl
        split at hl
        · rename_i t f hg hr hpth
          simp only [Bool.and_eq_true, bne_iff_ne, ne_eq] at hl
          obtain ⟨⟨hi, hea⟩, hop⟩ := hl
          have hop' : (s.op == Op.append) = false := by simpa using hop
          have hcells := siteCells_locked F st.inst s t f hr hpth hi hop'
          unfold visibleCells at hc
          split at hc
          · rename_i hk
            exfalso
            simp only [Bool.and_eq_true, beq_iff_eq] at hk
            unfold active at hact
            simp only [Bool.and_eq_true, Bool.or_eq_true, beq_iff_eq, Bool.not_eq_true'] at hact
            rcases hact.2 with hcon | hpre
            · rw [hk.1] at hcon; exact Kind.noConfusion hcon
            · have : preinit F st.inst s = true := by
                unfold preinit
                simp only [Bool.and_eq_true, beq_iff_eq, List.all_eq_true]
                refine ⟨hg, fun c hcm => ?_⟩
                unfold eagerAll at hea
                simp only [List.all_eq_true] at hea
                apply hea c
                obtain ⟨hcF, hcp⟩ := List.mem_filter.mp hcm
                refine List.mem_filter.mpr ⟨hcF, ?_⟩
                simp only [Bool.and_eq_true, beq_iff_eq] at hcp
                simp only [beq_iff_eq]
                rw [hcp.1]; simp [siteTy, hr]
              rw [this] at hpre; exact Bool.noConfusion hpre
          · rw [hcells] at hc
            simp [Cell.shared] at hc
        · exact Bool.noConfusion hl
    · -- construction-time site: no shared cell at all
      rename_i hapi
      exfalso
      unfold visibleCells at hc
      have hapi' : apiPhase s = false := by simpa using hapi
      simp only [hapi', Bool.and_false, Bool.false_eq_true, if_false] at hc
      obtain ⟨hc1, hc2⟩ := List.mem_filter.mp hc
      have := siteCells_sub F st.inst s c hc1 hc2
      rw [List.isEmpty_iff.mp hsd] at this
      simp at this
  · split at hB
    · obtain ⟨r, hr, rfl⟩ := List.mem_map.mp hB
      have hrF := (List.mem_filter.mp hr).1
      have hrd := hreads r hrF
      unfold readDisciplined at hrd
      simp only [segOfRead]
      split
      · rename_i hmu
        simp only [segOK, accOK, lockOf]
        cases hl : lockedField F r.ty r.field with
        | none => simp
        | some m =>
          rw [hl] at hrd
          simp only [Bool.and_eq_true, beq_iff_eq, bne_iff_ne, ne_eq] at hrd
          simp only [beq_iff_eq] at hmu
          exact absurd hmu hrd.2
      · simp only [segOK, accOK, lockOf, List.all_cons, List.all_nil, Bool.and_true]
        cases hl : lockedField F r.ty r.field with
        | none => simp
        | some m =>
          rw [hl] at hrd
          simp only [Bool.and_eq_true, beq_iff_eq] at hrd
          simp [hrd.1]
    · simp at hB

theorem threadSegs_ok (F : Facts) (hd : disciplined F = true) (ops : List Step) (sg : Seg) (h : sg ∈ threadSegs F ops) :
    segOK (lockOf F) sg = true := by
  unfold threadSegs at h
  obtain ⟨st, _, hsg⟩ := List.mem_flatMap.mp h
  exact stepSegs_ok F hd st sg hsg

/-- **race freedom from the facts**: if the fact record passes the discipline check, then for every pool of
    goroutines, each running any sequence of constructions and API calls on any instances, and for every schedule,
    no data race state is reachable -/
theorem race_free_of_disciplined (F : Facts) (hd : disciplined F = true) (threads : List (List Step)) (p : Pool)
    (hr : Reach (initPool (threads.map (threadSegs F))) p) : ¬ Race p := by
  apply no_race (lockOf F) (threads.map (threadSegs F)) _ p hr
  intro th hth sg hsg
  obtain ⟨ops, _, rfl⟩ := List.mem_map.mp hth
  exact threadSegs_ok F hd ops sg hsg

end Footprint
