/-
  C02: the proof module `./check C02` builds - every proof file of the slice.
  * Proofs/C02.lean          key selection, the key sets, CheckSignature and the four verifier functions
  * Proofs/C02Remote.lean    a long-lived remote key set under key rotation (sequential histories)
  * Proofs/C02Verifiers.lean derived verifiers at the token-consuming endpoints, reused verifier objects
  * Proofs/C02Provider.lean  (round 4) `NewProvider` wires, for every option list, the key set / option list configured for EACH verifier
  * Proofs/C02JwksDoc.lean   (round 5) the RP's parser of the downloaded JWKS document: every key of the set is go-jose's parse of ONE raw entry, its use the published one
-/
import OidcModel.Proofs.C02Remote
import OidcModel.Proofs.C02Verifiers
import OidcModel.Proofs.C02Provider
import OidcModel.Proofs.C02JwksDoc
