/-
  C07: everything the check builds and audits for the property - the wire-level histories (Proofs/C07Wire.lean, which pulls in
  C07History / C07), deep4: histories with storage faults, the literal-answer clauses, concurrent refreshes (Proofs/C07Fault.lean)
  and the function-level statement about the regenerated `CreateTokenResponse` for a refresh (Proofs/C07Issue.lean).
-/
import OidcModel.Proofs.C07Wire
import OidcModel.Proofs.C07Fault
import OidcModel.Proofs.C07Issue
import OidcModel.Proofs.C07Alias
