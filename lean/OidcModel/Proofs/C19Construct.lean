/-
  C19, construction path: "configured = advertised = served" for EVERY list of provider options in EVERY order.

  All statements are about the REGENERATED construction path (Generated/ProviderC19.lean, ProviderC19Router.lean, namespace GenOp):
  `NewProvider`, `NewOpenIDProvider` / `NewDynamicOpenIDProvider` / `NewForwardedOpenIDProvider`, every `op.Option`, `Endpoint.Validate`,
  `CreateRouter` (what is mounted where), `DefaultEndpoints`, the verifier getters, `IssuerFromHost` / `IssuerFromForwardedOrHost` /
  `WithIssuerFromCustomHeaders`, `NewLegacyServer`, `webServer.createRouter` / `endpointRoute`.

  Layer 1 (characterisation lemmas, the only place where regenerated definitions are unfolded): one equation per translated function,
  against a hand-readable description of an option (`Opt`) — `opt_char`, `newProvider_char`, `createRouter_char`, …
  Layer 2 (everything else, by induction over the option list, never unfolding a regenerated definition):
  * `c19_construct_char`          what `NewProvider` returns for ANY option list: refused iff some option carries a nil endpoint or the issuer
                                  strategy refuses; otherwise every field is the value of the LAST option that sets it, else the package default.
  * `c19_construct_endpoints`     the provider's endpoint of every document member = last option for it, else `DefaultEndpoints`.
  * `c19_configured_mounted_advertised`  for every option list: the handler of member f is mounted at the relative path of the configured
                                  endpoint, and the document served for any request advertises `Absolute(issuer)` of the same endpoint.
  * `c19_constructed_truthful`    for every option list the constructed provider satisfies the property's monitor (`C19.monitor`), both routers.
  * `c19_construct_defaults`      no options: exactly the package defaults (paths spelled out), storage key sets, default CORS / logger.
  * `c19_construct_keysets`, `c19_hint_keyset_default`  each verifier getter hands on the configured key set / option list; without
                                  `WithIDTokenHintKeySet` the id_token_hint verifier uses the storage keys WHATEVER the other options are.
  * `c19_construct_insecure`      the issuer strategy is asked with the FINAL insecure flag (wherever `WithAllowInsecure` stands in the list).
  * `c19_option_order`            swapping two adjacent options that do not write the same field changes nothing (⇒ any reordering of
                                  pairwise independent options); documented exceptions: same field (last wins), `WithHttpInterceptors` (appends).
-/
import OidcModel.Proofs.C19
import OidcModel.Model.ProviderC19Model
import OidcModel.GoTac

namespace C19
open Go Gen Disco GenOp

/-- the endpoint an option configures for a document member (`none`: it does not touch that member) -/
def Opt.setsEndpoint (f : Field) : Opt → Option Endpoint
  | .authEndpoint e => if f = .authorization then some e else none
  | .tokenEndpoint e => if f = .token then some e else none
  | .introspectionEndpoint e => if f = .introspection then some e else none
  | .userinfoEndpoint e => if f = .userinfo then some e else none
  | .revocationEndpoint e => if f = .revocation then some e else none
  | .endSessionEndpoint e => if f = .endSession then some e else none
  | .keysEndpoint e => if f = .jwks then some e else none
  | .deviceAuthorizationEndpoint e => if f = .deviceAuthorization then some e else none
  | .endpoints a t u r s k =>
    match f with
    | .authorization => some a | .token => some t | .userinfo => some u | .revocation => some r | .endSession => some s | .jwks => some k
    | _ => none
  | _ => none

/-- an option is refused (`ErrNilEndpoint`) iff it carries a nil endpoint -/
def Opt.valid : Opt → Bool
  | .authEndpoint e | .tokenEndpoint e | .introspectionEndpoint e | .userinfoEndpoint e | .revocationEndpoint e | .endSessionEndpoint e
  | .keysEndpoint e | .deviceAuthorizationEndpoint e => !e.isNil
  | .endpoints a t u r s k => !a.isNil && !t.isNil && !u.isNil && !r.isNil && !s.isNil && !k.isNil
  | _ => true

/-- what an accepted option does to the provider (hand-readable) -/
def Opt.apply (a : Opt) (o : C19Provider) : C19Provider :=
  match a with
  | .allowInsecure => { o with insecure := true }
  | .authEndpoint e => { o with endpoints := { o.endpoints with Authorization := e } }
  | .tokenEndpoint e => { o with endpoints := { o.endpoints with Token := e } }
  | .introspectionEndpoint e => { o with endpoints := { o.endpoints with Introspection := e } }
  | .userinfoEndpoint e => { o with endpoints := { o.endpoints with Userinfo := e } }
  | .revocationEndpoint e => { o with endpoints := { o.endpoints with Revocation := e } }
  | .endSessionEndpoint e => { o with endpoints := { o.endpoints with EndSession := e } }
  | .keysEndpoint e => { o with endpoints := { o.endpoints with JwksURI := e } }
  | .deviceAuthorizationEndpoint e => { o with endpoints := { o.endpoints with DeviceAuthorization := e } }
  | .endpoints a t u r s k =>
    { o with endpoints := { o.endpoints with Authorization := a, Token := t, Userinfo := u, Revocation := r, EndSession := s, JwksURI := k } }
  | .httpInterceptors l => { o with interceptors := o.interceptors ++ l }
  | .accessTokenKeySet k => { o with accessTokenKeySet := k }
  | .accessTokenVerifierOpts l => { o with accessTokenVerifierOpts := l }
  | .idTokenHintKeySet k => { o with idTokenHinKeySet := k }
  | .idTokenHintVerifierOpts l => { o with idTokenHintVerifierOpts := l }
  | .corsOptions c => { o with corsOpts := c }
  | .logger l => { o with logger := l }

/-! ### layer 1: characterisation lemmas -/

theorem endpoint_validate_char (e : Endpoint) :
    Endpoint_Validate 0 e = if e.isNil then .error "ErrNilEndpoint" else .ok () := by
  go_char Endpoint_Validate Go.isNil Go.notNil Nilable.isNil Go.ok

/-- every regenerated option: refused with `ErrNilEndpoint` iff it carries a nil endpoint, otherwise exactly `Opt.apply` -/
theorem opt_char (a : Opt) (o : C19Provider) :
    a.toOption o = if a.valid then .ok (a.apply o) else .error "ErrNilEndpoint" := by
  cases a
  case endpoints a t u r s k =>
    simp only [Opt.toOption, Opt.valid, Opt.apply, WithCustomEndpoints, endpoint_validate_char, Go.forRange]
    by_cases ha : a.isNil = true <;> by_cases ht : t.isNil = true <;> by_cases hu : u.isNil = true <;>
      by_cases hr : r.isNil = true <;> by_cases hs : s.isNil = true <;> by_cases hk : k.isNil = true <;>
      simp [ha, ht, hu, hr, hs, hk]
  all_goals
    simp only [Opt.toOption, Opt.valid, Opt.apply, WithAllowInsecure, WithCustomAuthEndpoint, WithCustomTokenEndpoint,
      WithCustomIntrospectionEndpoint, WithCustomUserinfoEndpoint, WithCustomRevocationEndpoint, WithCustomEndSessionEndpoint,
      WithCustomKeysEndpoint, WithCustomDeviceAuthorizationEndpoint, WithHttpInterceptors, WithAccessTokenKeySet,
      WithAccessTokenVerifierOpts, WithIDTokenHintKeySet, WithIDTokenHintVerifierOpts, WithCORSOptions, WithLogger,
      endpoint_validate_char]
    go_leaf

/-- the provider `NewProvider` starts from: the package defaults -/
def initialProvider (cfg : OpConfig) (st : OpStorage) : C19Provider :=
  { config := cfg, storage := st, endpoints := DefaultEndpoints, accessTokenKeySet := .openID st, idTokenHinKeySet := .openID st,
    corsOpts := .default, logger := .default }

/-- what `NewProvider` does after the options: the issuer function, the router over the FINAL provider, decoder / encoder / crypto -/
def finishProvider (o : C19Provider) (f : DiscReq → String) : C19Provider :=
  { o with issuer := some f, Handler := some (CreateRouter 0 { o with issuer := some f } o.interceptors),
           decoder := .schema true, encoder := .made, crypto := .made }

/-- the option loop, whatever the text of its body, as long as the body is "apply the option, leave with its error" -/
theorem loopCtl_opts {σ : Type} (opts : List (σ → Go.R σ)) (o : σ) (body : σ → (σ → Go.R σ) → GoX.Ctl σ (Go.R σ))
    (h : ∀ o x, body o x = match x o with | Except.error e => GoX.Ctl.ret (Except.error e) | Except.ok o' => GoX.Ctl.next o') :
    GoX.loopCtl opts o body = match Go.applyOptions opts o with | .error e => .inl (.error e) | .ok o' => .inr o' := by
  induction opts generalizing o with
  | nil => rfl
  | cons x xs ih =>
    unfold GoX.loopCtl Go.applyOptions
    rw [h]
    cases hx : x o with
    | error e => rfl
    | ok o' => simpa using ih o'

/-- `NewProvider`: the literal with the package defaults, every option in order (first error wins), the issuer strategy asked with the
    provider's insecure flag AFTER the options, then `finishProvider` -/
theorem newProvider_char (cfg : OpConfig) (st : OpStorage) (iss : C19IssuerFn) (opts : List C19Option) :
    NewProvider 0 cfg st iss opts =
      match Go.applyOptions opts (initialProvider cfg st) with
      | .error e => .error e
      | .ok o =>
        match iss o.insecure with
        | .error e => .error e
        | .ok f => .ok (finishProvider o f) := by
  unfold NewProvider
  simp only []
  rw [loopCtl_opts (h := by intro o x; first | rfl | (split <;> simp_all))]
  generalize hA : Go.applyOptions opts _ = A
  have hA' : Go.applyOptions opts (initialProvider cfg st) = A := hA
  rw [hA']
  cases A with
  | error e => rfl
  | ok o =>
    simp only []
    cases iss o.insecure with
    | error e => rfl
    | ok f => rfl

/-- which handler a document member's endpoint is for -/
def Field.mounted : Field → C19Mounted
  | .authorization => .authorize | .token => .token | .introspection => .introspection | .userinfo => .userinfo
  | .revocation => .revocation | .endSession => .endSession | .jwks => .keys | .deviceAuthorization => .deviceAuthorization
  | .checkSession => .custom 0

/-- `CreateRouter` on a `*Provider`: CORS (unless switched off) and the issuer interceptor behind the custom interceptors, in this order;
    the registrations (as a SET: the order of independent `HandleFunc` calls carries no meaning) are every handler at the relative path
    of the provider's own endpoint for it -/
theorem createRouter_char (p : C19Provider) (l : List Nat) :
    (CreateRouter 0 p l).middleware = (if p.corsOpts = .nil then [] else [.cors p.corsOpts]) ++ [.intercept l] ∧
    ∀ x, x ∈ (CreateRouter 0 p l).routes ↔ x ∈
        [(healthEndpoint, C19Mounted.health), (readinessEndpoint, .ready), (Const.DiscoveryEndpoint, .discovery),
          (Endpoint_Relative 0 p.endpoints.Authorization, .authorize),
          (Endpoint_Relative 0 p.endpoints.Authorization ++ authCallbackPathSuffix, .authorizeCallback),
          (Endpoint_Relative 0 p.endpoints.Token, .token), (Endpoint_Relative 0 p.endpoints.Introspection, .introspection),
          (Endpoint_Relative 0 p.endpoints.Userinfo, .userinfo), (Endpoint_Relative 0 p.endpoints.Revocation, .revocation),
          (Endpoint_Relative 0 p.endpoints.EndSession, .endSession), (Endpoint_Relative 0 p.endpoints.JwksURI, .keys),
          (Endpoint_Relative 0 p.endpoints.DeviceAuthorization, .deviceAuthorization)] := by
  unfold CreateRouter
  cases hc : p.corsOpts <;>
    simp [hc, Provider_CORSOptions, C19Router.Use, C19Router.HandleFunc, Go.notNil, Nilable.isNil, Provider_asConfiguration,
      Provider_AuthorizationEndpoint, Provider_TokenEndpoint, Provider_IntrospectionEndpoint, Provider_UserinfoEndpoint,
      Provider_RevocationEndpoint, Provider_EndSessionEndpoint, Provider_KeysEndpoint, Provider_DeviceAuthorizationEndpoint,
      authCallbackPath, HAdd.hAdd, or_comm, or_left_comm]

/-- the pattern list of the constructed router is the route table the first two layers reason about (both are read off the same
    statements of `CreateRouter`, in the same order) -/
theorem createRouter_patterns (p : C19Provider) (l : List Nat) :
    (CreateRouter 0 p l).patterns = CreateRouter_routes 0 (Provider_asConfiguration p.toOpProvider) := by
  unfold CreateRouter
  cases hc : p.corsOpts <;>
    simp [hc, Provider_CORSOptions, C19Router.Use, C19Router.HandleFunc, C19Router.patterns, CreateRouter_routes, Go.notNil, Nilable.isNil]

theorem default_endpoints_char : DefaultEndpoints =
    { Authorization := { path := "authorize" }, Token := { path := "oauth/token" }, Introspection := { path := "oauth/introspect" },
      Userinfo := { path := "userinfo" }, Revocation := { path := "revoke" }, EndSession := { path := "end_session" },
      JwksURI := { path := "keys" }, DeviceAuthorization := { path := "/device_authorization" }, CheckSessionIframe := .nilPtr } := by
  decide

theorem verifier_getters_char (o : C19Provider) (ctx : DiscCtx) :
    Provider_AccessTokenVerifier 0 o ctx = ⟨GenServe.IssuerFromContext 0 ctx, o.accessTokenKeySet, o.accessTokenVerifierOpts⟩ ∧
    Provider_IDTokenHintVerifier 0 o ctx = ⟨GenServe.IssuerFromContext 0 ctx, o.idTokenHinKeySet, o.idTokenHintVerifierOpts⟩ := by
  constructor <;> rfl

/-! ### layer 2: every option list -/

/-- all options applied in order -/
def applyAll (os : List Opt) (o : C19Provider) : C19Provider := os.foldl (fun o a => a.apply o) o

theorem applyOpts_char (os : List Opt) (o : C19Provider) :
    Go.applyOptions (os.map Opt.toOption) o = if os.all Opt.valid then .ok (applyAll os o) else .error "ErrNilEndpoint" := by
  induction os generalizing o with
  | nil => rfl
  | cons a as ih =>
    simp only [List.map_cons, Go.applyOptions, opt_char, List.all_cons, applyAll, List.foldl_cons]
    by_cases hv : a.valid = true
    · simpa [hv, applyAll] using ih (a.apply o)
    · simp [hv]

/-- **what `NewProvider` returns for ANY option list**: refused with `ErrNilEndpoint` iff some option carries a nil endpoint; else the
    issuer strategy decides, asked with the insecure flag the WHOLE list leaves; else the provider is the package defaults with every
    option applied in order, finished by `finishProvider` -/
theorem c19_construct_char (cfg : OpConfig) (st : OpStorage) (iss : C19IssuerFn) (os : List Opt) :
    NewProvider 0 cfg st iss (os.map Opt.toOption) =
      if os.all Opt.valid then
        match iss (applyAll os (initialProvider cfg st)).insecure with
        | .error e => .error e
        | .ok f => .ok (finishProvider (applyAll os (initialProvider cfg st)) f)
      else .error "ErrNilEndpoint" := by
  rw [newProvider_char, applyOpts_char]
  cases os.all Opt.valid <;> rfl

/-- the value the last option that speaks about something leaves, else the start value -/
def lastOf {α : Type} (sel : Opt → Option α) : List Opt → α → α
  | [], d => d
  | a :: as, d => lastOf sel as ((sel a).getD d)

theorem applyAll_lastOf {α : Type} (get : C19Provider → α) (sel : Opt → Option α)
    (h : ∀ a o, get (a.apply o) = (sel a).getD (get o)) (os : List Opt) (o : C19Provider) :
    get (applyAll os o) = lastOf sel os (get o) := by
  induction os generalizing o with
  | nil => rfl
  | cons a as ih => simp only [applyAll, List.foldl_cons, lastOf]; rw [← h]; exact ih (a.apply o)

theorem lastOf_eq_reverse {α : Type} (sel : Opt → Option α) (os : List Opt) (d : α) :
    lastOf sel os d = (os.reverse.findSome? sel).getD d := by
  induction os generalizing d with
  | nil => rfl
  | cons a as ih =>
    simp only [lastOf, List.reverse_cons, List.findSome?_append, ih]
    cases h1 : as.reverse.findSome? sel <;> cases h2 : sel a <;> simp [List.findSome?, h2]

/-- no option in the list speaks about it: the start value stays -/
theorem lastOf_none {α : Type} (sel : Opt → Option α) (os : List Opt) (d : α) (h : ∀ a ∈ os, sel a = none) : lastOf sel os d = d := by
  induction os generalizing d with
  | nil => rfl
  | cons a as ih =>
    simp only [lastOf, h a (List.mem_cons_self), Option.getD_none]
    exact ih d (fun b hb => h b (List.mem_cons_of_mem _ hb))

def Opt.setsInsecure : Opt → Option Bool | .allowInsecure => some true | _ => none
def Opt.setsATKeySet : Opt → Option C19KeySet | .accessTokenKeySet k => some k | _ => none
def Opt.setsHintKeySet : Opt → Option C19KeySet | .idTokenHintKeySet k => some k | _ => none
def Opt.setsATOpts : Opt → Option (List Nat) | .accessTokenVerifierOpts l => some l | _ => none
def Opt.setsHintOpts : Opt → Option (List Nat) | .idTokenHintVerifierOpts l => some l | _ => none
def Opt.setsCors : Opt → Option C19Cors | .corsOptions c => some c | _ => none
def Opt.setsLogger : Opt → Option C19Logger | .logger l => some l | _ => none
def Opt.addsInterceptors : Opt → List Nat | .httpInterceptors l => l | _ => []

theorem apply_endpoint (f : Field) (a : Opt) (o : C19Provider) :
    f.configured (a.apply o).endpoints = (a.setsEndpoint f).getD (f.configured o.endpoints) := by
  cases a <;> cases f <;> rfl

/-- the fields of the provider after ANY option list -/
theorem applyAll_fields (os : List Opt) (o : C19Provider) :
    (∀ f, f.configured (applyAll os o).endpoints = lastOf (Opt.setsEndpoint f) os (f.configured o.endpoints)) ∧
    (applyAll os o).insecure = lastOf Opt.setsInsecure os o.insecure ∧
    (applyAll os o).accessTokenKeySet = lastOf Opt.setsATKeySet os o.accessTokenKeySet ∧
    (applyAll os o).idTokenHinKeySet = lastOf Opt.setsHintKeySet os o.idTokenHinKeySet ∧
    (applyAll os o).accessTokenVerifierOpts = lastOf Opt.setsATOpts os o.accessTokenVerifierOpts ∧
    (applyAll os o).idTokenHintVerifierOpts = lastOf Opt.setsHintOpts os o.idTokenHintVerifierOpts ∧
    (applyAll os o).corsOpts = lastOf Opt.setsCors os o.corsOpts ∧
    (applyAll os o).logger = lastOf Opt.setsLogger os o.logger ∧
    (applyAll os o).config = o.config ∧ (applyAll os o).storage = o.storage := by
  refine ⟨fun f => applyAll_lastOf (fun p => f.configured p.endpoints) _ (apply_endpoint f) os o,
    applyAll_lastOf (·.insecure) _ (fun a o => by cases a <;> rfl) os o,
    applyAll_lastOf (·.accessTokenKeySet) _ (fun a o => by cases a <;> rfl) os o,
    applyAll_lastOf (·.idTokenHinKeySet) _ (fun a o => by cases a <;> rfl) os o,
    applyAll_lastOf (·.accessTokenVerifierOpts) _ (fun a o => by cases a <;> rfl) os o,
    applyAll_lastOf (·.idTokenHintVerifierOpts) _ (fun a o => by cases a <;> rfl) os o,
    applyAll_lastOf (·.corsOpts) _ (fun a o => by cases a <;> rfl) os o,
    applyAll_lastOf (·.logger) _ (fun a o => by cases a <;> rfl) os o, ?_, ?_⟩
  · have := applyAll_lastOf (·.config) (fun _ => none) (fun a o => by cases a <;> rfl) os o
    rw [this]; exact lastOf_none _ _ _ (fun _ _ => rfl)
  · have := applyAll_lastOf (·.storage) (fun _ => none) (fun a o => by cases a <;> rfl) os o
    rw [this]; exact lastOf_none _ _ _ (fun _ _ => rfl)

/-- `WithHttpInterceptors` appends: the interceptors of all such options, in the order of the option list (documented order dependence) -/
theorem applyAll_interceptors (os : List Opt) (o : C19Provider) :
    (applyAll os o).interceptors = o.interceptors ++ os.flatMap Opt.addsInterceptors := by
  induction os generalizing o with
  | nil => simp [applyAll]
  | cons a as ih =>
    simp only [applyAll, List.foldl_cons, List.flatMap_cons] at ih ⊢
    rw [ih (a.apply o)]
    cases a <;> simp [Opt.apply, Opt.addsInterceptors]

theorem lastOf_insecure (os : List Opt) (d : Bool) : lastOf Opt.setsInsecure os d = (d || os.contains .allowInsecure) := by
  induction os generalizing d with
  | nil => simp [lastOf]
  | cons a as ih =>
    simp only [lastOf, ih, List.contains_cons]
    cases a <;> cases d <;> simp [Opt.setsInsecure]

/-- the endpoint of a document member the integrator configured with an option list: the last option for it, else the package default -/
def configuredEndpoint (f : Field) (os : List Opt) : Endpoint := lastOf (Opt.setsEndpoint f) os (f.configured DefaultEndpoints)

/-- a successfully constructed provider, spelled out -/
theorem c19_construct_ok (cfg : OpConfig) (st : OpStorage) (iss : C19IssuerFn) (os : List Opt) (p : C19Provider)
    (h : NewProvider 0 cfg st iss (os.map Opt.toOption) = .ok p) :
    os.all Opt.valid = true ∧
    ∃ f, iss (os.contains .allowInsecure) = .ok f ∧ p = finishProvider (applyAll os (initialProvider cfg st)) f := by
  rw [c19_construct_char] at h
  cases hv : os.all Opt.valid
  · simp [hv] at h
  · simp only [hv, ↓reduceIte] at h
    have hins : (applyAll os (initialProvider cfg st)).insecure = os.contains .allowInsecure := by
      rw [(applyAll_fields os _).2.1, lastOf_insecure]; rfl
    cases hi : iss (applyAll os (initialProvider cfg st)).insecure with
    | error e => rw [hi] at h; cases h
    | ok f =>
      rw [hi] at h
      injection h with h
      exact ⟨rfl, f, hins ▸ hi, h.symm⟩

/-- **the provider's own endpoint set for ANY option list**: per document member the last option for it, else `DefaultEndpoints`;
    `check_session_iframe` cannot be configured -/
theorem c19_construct_endpoints (cfg : OpConfig) (st : OpStorage) (iss : C19IssuerFn) (os : List Opt) (p : C19Provider)
    (h : NewProvider 0 cfg st iss (os.map Opt.toOption) = .ok p) (f : Field) :
    f.configured p.endpoints = configuredEndpoint f os ∧ p.endpoints.CheckSessionIframe.isNil = true := by
  obtain ⟨_, g, _, rfl⟩ := c19_construct_ok cfg st iss os p h
  have he : ∀ f, f.configured (finishProvider (applyAll os (initialProvider cfg st)) g).endpoints = configuredEndpoint f os :=
    fun f => (applyAll_fields os (initialProvider cfg st)).1 f
  refine ⟨he f, ?_⟩
  have := he .checkSession
  simp only [Field.configured] at this
  rw [this, configuredEndpoint, lastOf_none]
  · rw [default_endpoints_char]; rfl
  · intro a _; cases a <;> rfl

/-- **configured = mounted = advertised**, for every option list in every order (Provider router): the constructed provider carries a
    router; the handler of every document member is mounted at the relative path of the CONFIGURED endpoint (last option for it, else the
    default); the discovery route is mounted; and the document the discovery route serves to ANY request advertises `Absolute(issuer of
    that request)` of the same configured endpoint. -/
theorem c19_configured_mounted_advertised (cfg : OpConfig) (st : OpStorage) (iss : C19IssuerFn) (os : List Opt) (p : C19Provider)
    (h : NewProvider 0 cfg st iss (os.map Opt.toOption) = .ok p) :
    ∃ router fIss, p.Handler = some router ∧ p.issuer = some fIss ∧
      (Const.DiscoveryEndpoint, C19Mounted.discovery) ∈ router.routes ∧
      router.patterns = routes (inputOf p "") ∧
      router.middleware = (if lastOf Opt.setsCors os .default = .nil then [] else [.cors (lastOf Opt.setsCors os .default)]) ++
        [.intercept (os.flatMap Opt.addsInterceptors)] ∧
      (∀ f, f ≠ .checkSession → (Endpoint_Relative 0 (configuredEndpoint f os), f.mounted) ∈ router.routes) ∧
      (∀ (r : DiscReq) f, r.parseFormFails = false → ∃ d, serve fIss (discoveryRoute (inputOf p "")) r = [.json d] ∧ d.Issuer = fIss r ∧
          f.advertised d = Endpoint_Absolute 0 (configuredEndpoint f os) (fIss r)) := by
  have hep := c19_construct_endpoints cfg st iss os p h
  obtain ⟨_, g, _, hp⟩ := c19_construct_ok cfg st iss os p h
  have hH : p.Handler = some (CreateRouter 0 { applyAll os (initialProvider cfg st) with issuer := some g }
      (applyAll os (initialProvider cfg st)).interceptors) := by rw [hp]; rfl
  have hpe : p.endpoints = (applyAll os (initialProvider cfg st)).endpoints := by rw [hp]; rfl
  refine ⟨_, g, hH, by rw [hp]; rfl, ?_, ?_, ?_, ?_, ?_⟩
  · rw [(createRouter_char _ _).2]; simp
  · rw [createRouter_patterns]
    simp only [routes, inputOf, Input.conf, Input.provider]
    rw [hp]; rfl
  · rw [(createRouter_char _ _).1]
    simp only []
    rw [(applyAll_fields os _).2.2.2.2.2.2.1, applyAll_interceptors]
    rfl
  · intro f hf
    rw [(createRouter_char _ _).2]
    have := (hep f).1
    rw [hpe] at this
    cases f <;> first | exact absurd rfl hf | (simp only [Field.configured] at this; simp [this, Field.mounted])
  · intro r f hform
    have hw : ({ inputOf p "" with issuer := g r } : Input).wellFormed := fun _ => ⟨rfl, (hep f).2⟩
    refine ⟨discovery { inputOf p "" with issuer := g r }, c19_document_per_request (inputOf p "") g r hform, c19_issuer_eq _, ?_⟩
    have := advertised_eq _ hw f (fun hr => by cases hr)
    rw [show (modelObs { inputOf p "" with issuer := g r }).doc = discovery { inputOf p "" with issuer := g r } from rfl, c19_issuer_eq] at this
    rw [this, ← (hep f).1]; rfl

/-- **C19 for every constructed provider**: whatever options in whatever order, a provider `NewProvider` returns satisfies the property's
    monitor for every request issuer (Provider router) -/
theorem c19_constructed_truthful (cfg : OpConfig) (st : OpStorage) (iss : C19IssuerFn) (os : List Opt) (p : C19Provider)
    (h : NewProvider 0 cfg st iss (os.map Opt.toOption) = .ok p) (issuer : String) :
    monitor (inputOf p issuer).cfg (modelObs (inputOf p issuer)) = none :=
  c19_holds _ (fun _ => ⟨rfl, (c19_construct_endpoints cfg st iss os p h .checkSession).2⟩)

/-- … and behind `NewLegacyServer(p, eps)` on the Server router, for EVERY endpoint set handed to it (the provider's own options do not
    matter there) -/
theorem c19_legacy_constructed_truthful (p : C19Provider) (eps : Endpoints) (issuer : String) :
    monitor (legacyInputOf (NewLegacyServer 0 p eps) issuer).cfg (modelObs (legacyInputOf (NewLegacyServer 0 p eps) issuer)) = none ∧
    (legacyInputOf (NewLegacyServer 0 p eps) issuer).cfg.endpoints = eps :=
  ⟨c19_holds _ (fun hr => by cases hr), rfl⟩

/-- `endpointRoute`: nothing for a nil endpoint, else one registration at its relative path -/
def optRoute (e : Endpoint) (h : C19Mounted) : List (String × C19Mounted) := if e.isNil then [] else [(Endpoint_Relative 0 e, h)]

theorem endpointRoute_char (r : C19Router) (e : Endpoint) (h : C19Mounted) :
    webServer_endpointRoute 0 r e h = { r with routes := r.routes ++ optRoute e h } := by
  unfold webServer_endpointRoute optRoute
  cases he : e.isNil <;> simp [Go.notNil, Nilable.isNil, he, C19Router.HandleFunc]

theorem webServer_createRouter_char (s : C19WebServer) :
    (webServer_createRouter 0 s).router.routes = s.router.routes ++
      ([(healthEndpoint, .health), (readinessEndpoint, .ready), (Const.DiscoveryEndpoint, .discovery)] ++
       optRoute s.endpoints.Authorization .authorize ++ optRoute s.endpoints.DeviceAuthorization .deviceAuthorization ++
       optRoute s.endpoints.Token .token ++ optRoute s.endpoints.Introspection .introspection ++ optRoute s.endpoints.Userinfo .userinfo ++
       optRoute s.endpoints.Revocation .revocation ++ optRoute s.endpoints.EndSession .endSession ++ optRoute s.endpoints.JwksURI .keys) ∧
    (webServer_createRouter 0 s).router.middleware = s.router.middleware := by
  unfold webServer_createRouter
  simp [endpointRoute_char, C19Router.HandleFunc, List.append_assoc]

/-- what the Server router mounts: every non-nil endpoint of ITS endpoint set gets its own handler at its relative path, on top of
    whatever the options left on the router -/
theorem c19_legacy_mounted (s : C19WebServer) (f : Field) (hf : f ≠ .checkSession) (hn : (f.configured s.endpoints).isNil = false) :
    (Endpoint_Relative 0 (f.configured s.endpoints), f.mounted) ∈ (webServer_createRouter 0 s).router.routes ∧
    (Const.DiscoveryEndpoint, C19Mounted.discovery) ∈ (webServer_createRouter 0 s).router.routes := by
  rw [(webServer_createRouter_char s).1]
  cases f <;> first | exact absurd rfl hf |
    (simp only [Field.configured] at hn
     simp [optRoute, hn, Field.configured, Field.mounted])

/-- **defaults**: without options the provider has exactly the package defaults -/
theorem c19_construct_defaults (cfg : OpConfig) (st : OpStorage) (iss : C19IssuerFn) (p : C19Provider)
    (h : NewProvider 0 cfg st iss [] = .ok p) :
    p.endpoints = DefaultEndpoints ∧
    (Field.all.map fun f => Endpoint_Relative 0 (f.configured p.endpoints)) =
      ["/authorize", "/oauth/token", "/oauth/introspect", "/userinfo", "/revoke", "/end_session", "/keys", "/device_authorization", ""] ∧
    p.insecure = false ∧ p.accessTokenKeySet = .openID st ∧ p.idTokenHinKeySet = .openID st ∧
    p.accessTokenVerifierOpts = [] ∧ p.idTokenHintVerifierOpts = [] ∧ p.interceptors = [] ∧
    p.corsOpts = .default ∧ p.logger = .default ∧ p.decoder = .schema true ∧ p.config = cfg ∧ p.storage = st ∧
    iss false = .ok (p.issuer.getD (fun _ => "")) := by
  obtain ⟨_, g, hg, rfl⟩ := c19_construct_ok cfg st iss [] p h
  have hd : (finishProvider (applyAll [] (initialProvider cfg st)) g).endpoints = DefaultEndpoints := rfl
  refine ⟨hd, ?_, rfl, rfl, rfl, rfl, rfl, rfl, rfl, rfl, rfl, rfl, rfl, hg⟩
  rw [hd, default_endpoints_char]; decide

/-- **key sets and verifier options**: for every option list, each per-request verifier getter hands the verifier constructor the issuer
    of the request context, the key set of the LAST `With…KeySet` option (else the storage's keys) and the option list of the last
    `With…VerifierOpts` option (else none) — each getter its own -/
theorem c19_construct_keysets (cfg : OpConfig) (st : OpStorage) (iss : C19IssuerFn) (os : List Opt) (p : C19Provider)
    (h : NewProvider 0 cfg st iss (os.map Opt.toOption) = .ok p) (ctx : DiscCtx) :
    Provider_AccessTokenVerifier 0 p ctx =
      ⟨GenServe.IssuerFromContext 0 ctx, lastOf Opt.setsATKeySet os (.openID st), lastOf Opt.setsATOpts os []⟩ ∧
    Provider_IDTokenHintVerifier 0 p ctx =
      ⟨GenServe.IssuerFromContext 0 ctx, lastOf Opt.setsHintKeySet os (.openID st), lastOf Opt.setsHintOpts os []⟩ := by
  obtain ⟨_, g, _, rfl⟩ := c19_construct_ok cfg st iss os p h
  have hf := applyAll_fields os (initialProvider cfg st)
  rw [(verifier_getters_char _ ctx).1, (verifier_getters_char _ ctx).2]
  refine ⟨?_, ?_⟩
  · show C19VerifierArgs.mk _ (applyAll os (initialProvider cfg st)).accessTokenKeySet (applyAll os (initialProvider cfg st)).accessTokenVerifierOpts = _
    rw [hf.2.2.1, hf.2.2.2.2.1]; rfl
  · show C19VerifierArgs.mk _ (applyAll os (initialProvider cfg st)).idTokenHinKeySet (applyAll os (initialProvider cfg st)).idTokenHintVerifierOpts = _
    rw [hf.2.2.2.1, hf.2.2.2.2.2.1]; rfl

/-- without `WithIDTokenHintKeySet` the id_token_hint verifier uses the keys of the storage — whatever else is configured, in particular
    whatever `WithAccessTokenKeySet` says (and the other way round) -/
theorem c19_hint_keyset_default (cfg : OpConfig) (st : OpStorage) (iss : C19IssuerFn) (os : List Opt) (p : C19Provider)
    (h : NewProvider 0 cfg st iss (os.map Opt.toOption) = .ok p) (ctx : DiscCtx) :
    ((∀ a ∈ os, a.setsHintKeySet = none) → (Provider_IDTokenHintVerifier 0 p ctx).keySet = .openID st) ∧
    ((∀ a ∈ os, a.setsATKeySet = none) → (Provider_AccessTokenVerifier 0 p ctx).keySet = .openID st) := by
  have hk := c19_construct_keysets cfg st iss os p h ctx
  exact ⟨fun hn => by rw [hk.2]; exact lastOf_none _ _ _ hn, fun hn => by rw [hk.1]; exact lastOf_none _ _ _ hn⟩

/-- **insecure**: the issuer strategy is asked with the insecure flag of the WHOLE option list (wherever `WithAllowInsecure` stands), and
    `Insecure()` reports it -/
theorem c19_construct_insecure (cfg : OpConfig) (st : OpStorage) (iss : C19IssuerFn) (os : List Opt) (p : C19Provider)
    (h : NewProvider 0 cfg st iss (os.map Opt.toOption) = .ok p) :
    Provider_Insecure 0 p.toOpProvider = os.contains .allowInsecure ∧ ∃ f, iss (os.contains .allowInsecure) = .ok f ∧ p.issuer = some f := by
  obtain ⟨_, g, hg, rfl⟩ := c19_construct_ok cfg st iss os p h
  refine ⟨?_, g, hg, rfl⟩
  show (applyAll os (initialProvider cfg st)).insecure = _
  rw [(applyAll_fields os _).2.1, lastOf_insecure]; rfl

/-! ### option order -/

/-- the provider fields an option writes -/
def Opt.writes : Opt → List Nat
  | .allowInsecure => [0]
  | .authEndpoint _ => [1] | .tokenEndpoint _ => [2] | .introspectionEndpoint _ => [3] | .userinfoEndpoint _ => [4]
  | .revocationEndpoint _ => [5] | .endSessionEndpoint _ => [6] | .keysEndpoint _ => [7] | .deviceAuthorizationEndpoint _ => [8]
  | .endpoints .. => [1, 2, 4, 5, 6, 7]
  | .httpInterceptors _ => [9]
  | .accessTokenKeySet _ => [10] | .accessTokenVerifierOpts _ => [11] | .idTokenHintKeySet _ => [12] | .idTokenHintVerifierOpts _ => [13]
  | .corsOptions _ => [14] | .logger _ => [15]

def Opt.independent (a b : Opt) : Bool := a.writes.all (fun x => !b.writes.contains x)

theorem apply_comm (a b : Opt) (o : C19Provider) (h : a.independent b = true) : a.apply (b.apply o) = b.apply (a.apply o) := by
  cases a <;> cases b <;> first | rfl | (simp [Opt.independent, Opt.writes] at h)

/-- **option order does not matter** except where documented: exchanging two neighbouring options that do not write the same provider
    field leaves the result of `NewProvider` unchanged — acceptance, error, and every field of the provider. (Any reordering of pairwise
    independent options is a sequence of such exchanges. Two options for the same field: the last wins, `c19_construct_endpoints` /
    `c19_construct_keysets`; two `WithHttpInterceptors`: appended in order, `c19_configured_mounted_advertised`.) -/
theorem c19_option_order (cfg : OpConfig) (st : OpStorage) (iss : C19IssuerFn) (xs ys : List Opt) (a b : Opt)
    (h : a.independent b = true) :
    NewProvider 0 cfg st iss ((xs ++ a :: b :: ys).map Opt.toOption) = NewProvider 0 cfg st iss ((xs ++ b :: a :: ys).map Opt.toOption) := by
  have hall : (xs ++ a :: b :: ys).all Opt.valid = (xs ++ b :: a :: ys).all Opt.valid := by
    simp only [List.all_append, List.all_cons]
    cases a.valid <;> cases b.valid <;> simp
  have happ : applyAll (xs ++ a :: b :: ys) (initialProvider cfg st) = applyAll (xs ++ b :: a :: ys) (initialProvider cfg st) := by
    simp only [applyAll, List.foldl_append, List.foldl_cons]
    rw [apply_comm b a _ (by
      simp only [Opt.independent, List.all_eq_true, Bool.not_eq_true', List.contains_eq_mem, decide_eq_false_iff_not] at h ⊢
      intro x hx hx'; exact h x hx' hx)]
  rw [c19_construct_char, c19_construct_char, hall, happ]

/-! ### the deprecated constructors and the issuer-strategy constructors -/

theorem constructors_char (parse : String → Go.R DiscURL) (parseFwd : String → List String → Go.R (List String)) (canon : String → String)
    (x : String) (cfg : OpConfig) (st : OpStorage) (opts : List C19Option) :
    NewOpenIDProvider 0 parse x cfg st opts = NewProvider 0 cfg st (GenServe.StaticIssuer 0 parse x) opts ∧
    NewDynamicOpenIDProvider 0 parse parseFwd x cfg st opts =
      NewProvider 0 cfg st (GenServe.issuerFromForwardedOrHost 0 parse parseFwd x { headers := [] }) opts ∧
    NewForwardedOpenIDProvider 0 parse parseFwd canon x cfg st opts =
      NewProvider 0 cfg st (GenServe.issuerFromForwardedOrHost 0 parse parseFwd x { headers := [canon "forwarded"] }) opts :=
  ⟨rfl, rfl, rfl⟩

theorem foldl_customHeaders (canon : String → String) (customs : List (List String)) (c0 : DiscIssuerConfig) :
    List.foldl (fun c opt => opt c) c0 (customs.map (WithIssuerFromCustomHeaders 0 canon)) =
      { headers := match customs.getLast? with | some hs => hs.map canon | none => c0.headers } := by
  induction customs generalizing c0 with
  | nil => cases c0; simp
  | cons hs rest ih =>
    simp only [List.map_cons, List.foldl_cons]
    rw [ih]
    cases rest with
    | nil => simp [WithIssuerFromCustomHeaders, Go.mapList]
    | cons r rs =>
      have : (r :: rs).getLast? = some ((r :: rs).getLast (by simp)) := List.getLast?_eq_some_getLast (by simp)
      simp [List.getLast?_cons_cons, this]

/-- `IssuerFromForwardedOrHost(path, opts...)`: the header list is `[Forwarded]`, or the canonicalised names of the LAST
    `WithIssuerFromCustomHeaders` option -/
theorem issuerFromForwardedOrHost_opts (parse : String → Go.R DiscURL) (parseFwd : String → List String → Go.R (List String))
    (canon : String → String) (path : String) (customs : List (List String)) :
    IssuerFromForwardedOrHost 0 parse parseFwd canon path (customs.map (WithIssuerFromCustomHeaders 0 canon)) =
      GenServe.issuerFromForwardedOrHost 0 parse parseFwd path
        { headers := match customs.getLast? with | some hs => hs.map canon | none => [canon "forwarded"] } := by
  unfold IssuerFromForwardedOrHost
  simp only [GoX.foldList, foldl_customHeaders]

/-- the hand-written `Disco.issuerFn` / `IssuerStrategy.issuerConfig` of the second layer IS what the regenerated constructors build
    (the identity canonicalisation stands for header names the integrator already wrote canonically) -/
theorem issuerFn_regenerated (o : ServeOracles) (path : String) (insecure : Bool) :
    issuerFn o (.fromHost path) none insecure = IssuerFromHost 0 o.urlParse o.parseFwd path insecure ∧
    issuerFn o (.fromForwarded path) none insecure =
      IssuerFromForwardedOrHost 0 o.urlParse o.parseFwd (fun h => if h = "forwarded" then "Forwarded" else h) path [] insecure ∧
    ∀ iss, issuerFn o (.static iss) none insecure = GenServe.StaticIssuer 0 o.urlParse iss insecure :=
  ⟨rfl, rfl, fun _ => rfl⟩

/-! ### non-vacuity -/

def exIss : C19IssuerFn := fun insecure => .ok (fun r => (if insecure then "http://" else "https://") ++ r.Host)
def exOpts : List Opt :=
  [.tokenEndpoint { path := "/custom/token" }, .allowInsecure, .accessTokenKeySet (.custom 7), .httpInterceptors [1, 2],
   .endpoints { path := "a" } { path := "tok" } { path := "me" } { path := "rev" } { path := "out" } { path := "jwks", url := "https://ext.example/jwks" },
   .authEndpoint { path := "/login/authorize" }, .httpInterceptors [3]]

/-- a concrete option list is accepted; the LAST option per member wins; the access-token key set does not leak into the hint verifier -/
example : (match NewProvider 0 {} {} exIss (exOpts.map Opt.toOption) with
    | .ok p => (p.endpoints.Token.path, p.endpoints.Authorization.path, p.insecure, p.accessTokenKeySet, p.idTokenHinKeySet, p.interceptors,
        (p.Handler.map (·.lookup "/tok")), (p.Handler.map (·.lookup "/custom/token")), p.issuer.map (· { Host := "h" }))
    | .error _ => default) =
    ("tok", "/login/authorize", true, .custom 7, .openID {}, [1, 2, 3], some (some .token), some none, some "http://h") := by rfl
/-- one nil endpoint anywhere in the list refuses the construction -/
example : (NewProvider 0 {} {} exIss ((exOpts ++ [Opt.keysEndpoint .nilPtr]).map Opt.toOption)).toOption.isNone = true := by decide
example : Opt.independent (.tokenEndpoint {}) (.authEndpoint {}) = true ∧ Opt.independent (.tokenEndpoint {}) (.endpoints {} {} {} {} {} {}) = false := by decide
example : configuredEndpoint .token exOpts = { path := "tok" } ∧ configuredEndpoint .introspection exOpts = { path := "oauth/introspect" } := by decide

end C19
