/- base64.RawURLEncoding round trip -/
import OidcModel.Model.Base64
namespace B64

set_option maxRecDepth 20000 in
theorem dec6_enc6 : ∀ n : Fin 64, dec6 (enc6 n.val) = some n.val := by decide

theorem dec6_enc6' (n : Nat) (h : n < 64) : dec6 (enc6 n) = some n := dec6_enc6 ⟨n, h⟩

theorem ofNat_toNat (a : UInt8) (n : Nat) (h : n = a.toNat) : UInt8.ofNat n = a := by
  subst h; simp

theorem decode_encode (bs : List UInt8) : decode (encode bs) = some bs := by
  match bs with
  | [] => rfl
  | [a] =>
    have ha := a.toNat_lt
    simp only [encode, decode]
    rw [dec6_enc6' _ (by omega), dec6_enc6' _ (by omega)]
    simp only [Option.some.injEq, List.cons.injEq, and_true]
    exact ofNat_toNat a _ (by omega)
  | [a, b] =>
    have ha := a.toNat_lt; have hb := b.toNat_lt
    simp only [encode, decode]
    rw [dec6_enc6' _ (by omega), dec6_enc6' _ (by omega), dec6_enc6' _ (by omega)]
    simp only [Option.some.injEq, List.cons.injEq, and_true]
    exact ⟨ofNat_toNat a _ (by omega), ofNat_toNat b _ (by omega)⟩
  | a :: b :: c :: rest =>
    have ha := a.toNat_lt; have hb := b.toNat_lt; have hc := c.toNat_lt
    simp only [encode, decode]
    rw [dec6_enc6' _ (by omega), dec6_enc6' _ (by omega), dec6_enc6' _ (by omega), dec6_enc6' _ (by omega),
      decode_encode rest]
    simp only [Option.some.injEq, List.cons.injEq, and_true]
    exact ⟨ofNat_toNat a _ (by omega), ofNat_toNat b _ (by omega), ofNat_toNat c _ (by omega)⟩

end B64
