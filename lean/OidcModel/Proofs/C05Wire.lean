/-
  C05, wire level: "authenticated in the way it is registered" decided from the BYTES an onlooker sees (Spec/C05Wire.lean: the
  Authorization header value parsed by the monitor itself - scheme, base64, first colon, form-urlencoding, text - and the form),
  instead of from what net/http and url.QueryUnescape reported.

  * `credsOfWire_eq`: when the abstract request of the model (`r.basic`, the oracle `o.unescape`) is what the wire-level reading
    yields, the wire-level credentials ARE the credentials `credsOf` of the theorems - so
  * `c05_wire_partial`: the monitor, fed with the credentials read off the wire, accepts every response of the regenerated
    endpoint layer (both routers, all endpoints, all configurations / registrations / oracle answers);
  * `wire_header_wins`, `wire_unparsed_header_is_no_credential`, `wire_malformed_fits_nobody`: the precedence rules of the monitor.
  That net/http and url.QueryUnescape do read the header as Spec/C05Wire.lean does is checked per case by the correspondence stream
  (`wireAgrees` of Driver/C05Mon.lean: hex of `r.BasicAuth()` and `url.QueryUnescape` against the monitor's own parse; a
  difference is a divergence).  A password whose unescaped bytes are not UTF-8 is a string that equals no registered secret (`Wire.textOrMark`; a public client
  named by the user name is still identified); a user name that is not UTF-8 names nobody.
  Layer 2 only: nothing regenerated is unfolded here.
-/
import OidcModel.Proofs.C05Endpoint
import OidcModel.Spec.C05Wire
namespace C05
open Go Gen Hand Flow

/-- the model's abstract request / oracle answers are what the wire-level reading of the header yields -/
structure WireReads (hdr : Option String) (o : EPOracles) (r : EPRequest) : Prop where
  /-- no Basic credential in the header: `r.BasicAuth()` reports none -/
  none : hdr.bind Wire.basicOfHeader = none → r.basic = none
  /-- a Basic credential: `r.BasicAuth()` reports a user name and a password, and `url.QueryUnescape` of each is (an error counting as
      nothing; the user name as text, the password as text or as the marker string for bytes that are no text) the monitor's
      form-urldecoding of the bytes -/
  some : ∀ u p, hdr.bind Wire.basicOfHeader = some (u, p) → ∃ us ps, r.basic = some (us, ps) ∧
    (o.unescape us).toOption = (Wire.queryUnescape u).bind Wire.text ∧ (o.unescape ps).toOption = (Wire.queryUnescape p).map Wire.textOrMark

theorem credsOfWire_eq {hdr : Option String} {o : EPOracles} {r : EPRequest} (h : WireReads hdr o r) :
    Wire.credsOfWire o.tokenOf hdr r.Form = credsOf o r := by
  unfold Wire.credsOfWire credsOf Wire.primaryOfWire
  cases hb : hdr.bind Wire.basicOfHeader with
  | none => simp [h.none hb]
  | some up =>
    obtain ⟨u, p⟩ := up
    obtain ⟨us, ps, hr, hu, hp⟩ := h.some u p hb
    simp only [hr]
    rw [← hu, ← hp]
    cases o.unescape us <;> cases o.unescape ps <;> simp [Except.toOption]

/-- **C05 from the bytes on the wire (partial: outside the findings left on record).**  The monitor, deciding from the
    Authorization header as sent and the form which credential the request presents, accepts every response of the regenerated
    endpoint layer. -/
theorem c05_wire_partial (now : Int) (rt : Router) (x : EPProvider) (o : EPOracles) (e : EP.Endpoint) (r : EPRequest)
    (hdr : Option String) (hw : WireReads hdr o r) (h : Assumptions rt x e r) :
    judge (cfgOf x) now (specEndpoint e r) (Wire.credsOfWire o.tokenOf hdr r.Form) (obsOf (EP.endpointDecision now rt x o e r)) = none := by
  rw [credsOfWire_eq hw]
  exact c05_auth_required_partial now rt x o e r h

/-- header before form: a header that parses as a Basic credential decides alone; `client_id` / `client_secret` of the form
    (whatever they say, however often they are repeated) are not the secret-type credential -/
theorem wire_header_wins {h : String} {up : List UInt8 × List UInt8} (hb : Wire.basicOfHeader h = some up) (f1 f2 : EPValues) :
    Wire.primaryOfWire (some h) f1 = Wire.primaryOfWire (some h) f2 := by
  unfold Wire.primaryOfWire
  simp [hb]

/-- a header that is no Basic credential (another scheme, two spaces, a tab, broken or unpadded or URL-safe base64, no colon) is
    no credential at all: the request presents what its form says -/
theorem wire_unparsed_header_is_no_credential {h : String} (hb : Wire.basicOfHeader h = none) (f : EPValues) :
    Wire.primaryOfWire (some h) f = Wire.primaryOfWire none f := by
  unfold Wire.primaryOfWire
  simp [hb]

/-- a Basic credential with a malformed (`%zz`, trailing `%`) user name or password, or a user name that is no text, fits no
    registration with a secret method or none - and does NOT fall back to the form -/
theorem wire_malformed_fits_nobody {c : Cfg} {now : Int} {cl : OPClient} {tokenOf : String → Token} {h : String} {f : EPValues}
    {u p : List UInt8} (hb : Wire.basicOfHeader h = some (u, p))
    (hbad : (Wire.queryUnescape u).bind Wire.text = none ∨ Wire.queryUnescape p = none)
    (hm : cl.auth = "client_secret_basic" ∨ cl.auth = "client_secret_post" ∨ cl.auth = "none") :
    credsFit c now cl (Wire.credsOfWire tokenOf (some h) f) = false := by
  have hprim : (Wire.credsOfWire tokenOf (some h) f).primary = none := by
    unfold Wire.credsOfWire Wire.primaryOfWire
    rcases hbad with hx | hx
    · simp [hb, hx]
    · simp only [Option.bind_some, hb, hx, Option.map_none]
      cases (Wire.queryUnescape u).bind Wire.text <;> rfl
  have hk : (cl.auth == "private_key_jwt") = false := by rcases hm with h | h | h <;> simp [h]
  unfold credsFit
  rw [hprim]
  simp only [Wire.credsOfWire, credentialFits, C04.callerIs]
  rcases hm with h | h | h <;> simp [h]

end C05
