/-
  C05, layer 1 of the proofs (part 2: the endpoint layer, namespace `GenEP`, and the device-state check of namespace `Gen`).
  See Proofs/C05ShapeTok.lean for what this layer is: `SpecEP.f` = frozen, hand-maintained normal form of the regenerated `GenEP.f`
  (callees stay regenerated), `SpecEP.f_eq : GenEP.f args = SpecEP.f args` = its one characterisation lemma, proved by the
  shape-independent `ep_shape`.  THIS FILE IS NOT GENERATED.
-/
import OidcModel.Generated.Endpoint
import OidcModel.Proofs.C05ShapeTok
set_option linter.unusedVariables false

namespace SpecDev
open Go
open Hand
open Const
open Gen

/-- frozen normal form of `Gen.assertDeviceStorage` (pkg/op/storage.go:193 `assertDeviceStorage`) -/
def assertDeviceStorage (now : Int) (s : DevStore) : Go.R DevStore :=
  let storage := s;
  let ok := (s).is_DeviceAuthorizationStorage;
  (if (!ok) then
    (.error "ErrUnsupportedGrantType")
  else
  (.ok storage))

theorem assertDeviceStorage_eq (now : Int) (s : DevStore) : Gen.assertDeviceStorage now s = SpecDev.assertDeviceStorage now s := by
  unfold Gen.assertDeviceStorage SpecDev.assertDeviceStorage; ep_shape

/-- frozen normal form of `Gen.CheckDeviceAuthorizationState` (pkg/op/device.go:306 `CheckDeviceAuthorizationState`) -/
def CheckDeviceAuthorizationState (now : Int) (clientID deviceCode : String) (exchanger : DevProvider) : Go.R DeviceAuthorizationState :=
  (match (Gen.assertDeviceStorage now ((exchanger).Storage)) with
  | .error err => (.error err)
  | .ok storage =>
  (match ((storage).GetDeviceAuthorizatonState clientID deviceCode) with
  | .error err => (if (Go.errorsIs err Const.DeadlineExceeded) then (.error "ErrSlowDown") else (.error "ErrAccessDenied"))
  | .ok state =>
  (if (state).Denied then
    (.error "ErrAccessDenied")
  else
  (if (state).Done then
      (.ok state)
    else
    (if (Go.tAfter now (state).Expires) then
        (.error "ErrExpiredDeviceCode")
      else
      (.error "ErrAuthorizationPending"))))))

theorem CheckDeviceAuthorizationState_eq (now : Int) (clientID deviceCode : String) (exchanger : DevProvider) : Gen.CheckDeviceAuthorizationState now clientID deviceCode exchanger = SpecDev.CheckDeviceAuthorizationState now clientID deviceCode exchanger := by
  unfold Gen.CheckDeviceAuthorizationState SpecDev.CheckDeviceAuthorizationState; ep_shape

end SpecDev

namespace SpecEP
open Go
open Hand
open Const
open Gen

/-- frozen normal form of `GenEP.AuthMethodPostSupported` (pkg/op/op.go:354 `Provider.AuthMethodPostSupported`) -/
def AuthMethodPostSupported (now : Int) (o : EPProvider) : Bool :=
  ((o).config).AuthMethodPost

theorem AuthMethodPostSupported_eq (now : Int) (o : EPProvider) : GenEP.AuthMethodPostSupported now o = SpecEP.AuthMethodPostSupported now o := by
  unfold GenEP.AuthMethodPostSupported SpecEP.AuthMethodPostSupported; ep_shape

/-- frozen normal form of `GenEP.AuthMethodPrivateKeyJWTSupported` (pkg/op/op.go:362 `Provider.AuthMethodPrivateKeyJWTSupported`) -/
def AuthMethodPrivateKeyJWTSupported (now : Int) (o : EPProvider) : Bool :=
  ((o).config).AuthMethodPrivateKeyJWT

theorem AuthMethodPrivateKeyJWTSupported_eq (now : Int) (o : EPProvider) : GenEP.AuthMethodPrivateKeyJWTSupported now o = SpecEP.AuthMethodPrivateKeyJWTSupported now o := by
  unfold GenEP.AuthMethodPrivateKeyJWTSupported SpecEP.AuthMethodPrivateKeyJWTSupported; ep_shape

/-- frozen normal form of `GenEP.GrantTypeRefreshTokenSupported` (pkg/op/op.go:370 `Provider.GrantTypeRefreshTokenSupported`) -/
def GrantTypeRefreshTokenSupported (now : Int) (o : EPProvider) : Bool :=
  ((o).config).GrantTypeRefreshToken

theorem GrantTypeRefreshTokenSupported_eq (now : Int) (o : EPProvider) : GenEP.GrantTypeRefreshTokenSupported now o = SpecEP.GrantTypeRefreshTokenSupported now o := by
  unfold GenEP.GrantTypeRefreshTokenSupported SpecEP.GrantTypeRefreshTokenSupported; ep_shape

/-- frozen normal form of `GenEP.GrantTypeTokenExchangeSupported` (pkg/op/op.go:374 `Provider.GrantTypeTokenExchangeSupported`) -/
def GrantTypeTokenExchangeSupported (now : Int) (o : EPProvider) : Bool :=
  let _ := (o).storage;
  let ok := ((o).storage).is_TokenExchangeStorage;
  ok

theorem GrantTypeTokenExchangeSupported_eq (now : Int) (o : EPProvider) : GenEP.GrantTypeTokenExchangeSupported now o = SpecEP.GrantTypeTokenExchangeSupported now o := by
  unfold GenEP.GrantTypeTokenExchangeSupported SpecEP.GrantTypeTokenExchangeSupported; ep_shape

/-- frozen normal form of `GenEP.GrantTypeJWTAuthorizationSupported` (pkg/op/op.go:379 `Provider.GrantTypeJWTAuthorizationSupported`) -/
def GrantTypeJWTAuthorizationSupported (now : Int) (o : EPProvider) : Bool :=
  true

theorem GrantTypeJWTAuthorizationSupported_eq (now : Int) (o : EPProvider) : GenEP.GrantTypeJWTAuthorizationSupported now o = SpecEP.GrantTypeJWTAuthorizationSupported now o := by
  unfold GenEP.GrantTypeJWTAuthorizationSupported SpecEP.GrantTypeJWTAuthorizationSupported; ep_shape

/-- frozen normal form of `GenEP.GrantTypeDeviceCodeSupported` (pkg/op/op.go:383 `Provider.GrantTypeDeviceCodeSupported`) -/
def GrantTypeDeviceCodeSupported (now : Int) (o : EPProvider) : Bool :=
  let _ := (o).storage;
  let ok := ((o).storage).is_DeviceAuthorizationStorage;
  ok

theorem GrantTypeDeviceCodeSupported_eq (now : Int) (o : EPProvider) : GenEP.GrantTypeDeviceCodeSupported now o = SpecEP.GrantTypeDeviceCodeSupported now o := by
  unfold GenEP.GrantTypeDeviceCodeSupported SpecEP.GrantTypeDeviceCodeSupported; ep_shape

/-- frozen normal form of `GenEP.GrantTypeClientCredentialsSupported` (pkg/op/op.go:396 `Provider.GrantTypeClientCredentialsSupported`) -/
def GrantTypeClientCredentialsSupported (now : Int) (o : EPProvider) : Bool :=
  let _ := (o).storage;
  let ok := ((o).storage).is_ClientCredentialsStorage;
  ok

theorem GrantTypeClientCredentialsSupported_eq (now : Int) (o : EPProvider) : GenEP.GrantTypeClientCredentialsSupported now o = SpecEP.GrantTypeClientCredentialsSupported now o := by
  unfold GenEP.GrantTypeClientCredentialsSupported SpecEP.GrantTypeClientCredentialsSupported; ep_shape

/-- frozen normal form of `GenEP.RequestError` (pkg/op/error.go:72 `RequestError`) -/
def RequestError (now : Int) (r : EPRequest) (err : String) : EPResp :=
  let e := (Hand.epDefaultToServerError err err);
  let status := (400 : Int);
  let status := (if ((Hand.epErrorType e) == Const.InvalidClient) then (401 : Int) else status);
  (EPResp.json e status)

theorem RequestError_eq (now : Int) (r : EPRequest) (err : String) : GenEP.RequestError now r err = SpecEP.RequestError now r err := by
  unfold GenEP.RequestError SpecEP.RequestError; ep_shape

/-- frozen normal form of `GenEP.writeError` (pkg/op/error.go:200 `writeError`) -/
def writeError (now : Int) (r : EPRequest) (err : String) (statusCode : Int) : EPResp :=
  (EPResp.json err statusCode)

theorem writeError_eq (now : Int) (r : EPRequest) (err : String) (statusCode : Int) : GenEP.writeError now r err statusCode = SpecEP.writeError now r err statusCode := by
  unfold GenEP.writeError SpecEP.writeError; ep_shape

/-- frozen normal form of `GenEP.WriteError` (pkg/op/error.go:183 `WriteError`) -/
def WriteError (now : Int) (r : EPRequest) (err : String) : EPResp :=
  (if (Hand.epIsStatusError err (Hand.epStatusErrorOf err)) then
    (GenEP.writeError now r (Hand.epDefaultToServerError ((Hand.epStatusErrorOf err)).parent ((Hand.epStatusErrorOf err)).parent) ((Hand.epStatusErrorOf err)).statusCode)
  else
  let statusCode := (400 : Int);
    let e := (Hand.epDefaultToServerError err err);
    let statusCode := (if ((Hand.epErrorType e) == Const.ServerError) then (500 : Int) else statusCode);
    (GenEP.writeError now r e statusCode))

theorem WriteError_eq (now : Int) (r : EPRequest) (err : String) : GenEP.WriteError now r err = SpecEP.WriteError now r err := by
  unfold GenEP.WriteError SpecEP.WriteError; ep_shape

/-- frozen normal form of `GenEP.RevocationError` (pkg/op/token_revocation.go:159 `RevocationError`) -/
def RevocationError (now : Int) (err : String) : EPStatusError :=
  let e := (Hand.epDefaultToServerError err err);
  let status := (400 : Int);
  (if ((Hand.epErrorType e) == Const.InvalidClient) then
    let status := (401 : Int);
    (EPStatusError.mk e status)
  else if ((Hand.epErrorType e) == Const.ServerError) then
    let status := (500 : Int);
    (EPStatusError.mk e status)
  else (EPStatusError.mk e status))

theorem RevocationError_eq (now : Int) (err : String) : GenEP.RevocationError now err = SpecEP.RevocationError now err := by
  unfold GenEP.RevocationError SpecEP.RevocationError; ep_shape

/-- frozen normal form of `GenEP.RevocationRequestError` (pkg/op/token_revocation.go:154 `RevocationRequestError`) -/
def RevocationRequestError (now : Int) (r : EPRequest) (err : String) : EPResp :=
  let statusErr := (GenEP.RevocationError now err);
  (EPResp.json (statusErr).parent (statusErr).statusCode)

theorem RevocationRequestError_eq (now : Int) (r : EPRequest) (err : String) : GenEP.RevocationRequestError now r err = SpecEP.RevocationRequestError now r err := by
  unfold GenEP.RevocationRequestError SpecEP.RevocationRequestError; ep_shape

/-- frozen normal form of `GenEP.AuthorizeClientIDSecret` (pkg/op/token_request.go:121 `AuthorizeClientIDSecret`) -/
def AuthorizeClientIDSecret (now : Int) (clientID clientSecret : String) (storage : EPStorage) : Go.R Unit :=
  (match ((storage).AuthorizeClientIDSecret clientID clientSecret) with
  | .error err => (.error "ErrInvalidClient")
  | .ok _ =>
  Go.ok)

theorem AuthorizeClientIDSecret_eq (now : Int) (clientID clientSecret : String) (storage : EPStorage) : GenEP.AuthorizeClientIDSecret now clientID clientSecret storage = SpecEP.AuthorizeClientIDSecret now clientID clientSecret storage := by
  unfold GenEP.AuthorizeClientIDSecret SpecEP.AuthorizeClientIDSecret; ep_shape

/-- frozen normal form of `GenEP.ClientJWTAuth` (pkg/op/client.go:94 `ClientJWTAuth`) -/
def ClientJWTAuth (now : Int) (o : EPOracles) (ca : EPForm) (verifier : EPProvider) : Go.R String :=
  (if ((ca).ClientAssertion == "") then
    (.error "ErrInvalidClient<ErrNoClientCredentials")
  else
  (match (Hand.epVerifyJWTAssertion now o (ca).ClientAssertion ((verifier).JWTProfileVerifier )) with
    | .error err => (.error "ErrUnauthorizedClient")
    | .ok profile =>
    (.ok (profile).Issuer)))

theorem ClientJWTAuth_eq (now : Int) (o : EPOracles) (ca : EPForm) (verifier : EPProvider) : GenEP.ClientJWTAuth now o ca verifier = SpecEP.ClientJWTAuth now o ca verifier := by
  unfold GenEP.ClientJWTAuth SpecEP.ClientJWTAuth; ep_shape

/-- frozen normal form of `GenEP.checkPrivateKeyJWTClient` (pkg/op/client.go:111 `checkPrivateKeyJWTClient`) -/
def checkPrivateKeyJWTClient (now : Int) (clientID : String) (storage : EPStorage) : Go.R Unit :=
  (match ((storage).GetClientByClientID clientID) with
  | .error err => (.error "ErrInvalidClient")
  | .ok client =>
  (if (((client).AuthMethod) != Const.AuthMethodPrivateKeyJWT) then
    (.error "ErrInvalidClient")
  else
  Go.ok))

theorem checkPrivateKeyJWTClient_eq (now : Int) (clientID : String) (storage : EPStorage) : GenEP.checkPrivateKeyJWTClient now clientID storage = SpecEP.checkPrivateKeyJWTClient now clientID storage := by
  unfold GenEP.checkPrivateKeyJWTClient SpecEP.checkPrivateKeyJWTClient; ep_shape

/-- frozen normal form of `GenEP.checkAuthMethodPost` (pkg/op/client.go:125 `checkAuthMethodPost`) -/
def checkAuthMethodPost (now : Int) (clientID : String) (p : EPProvider) : Go.R Unit :=
  let config := p;
  let ok := (p).is_has_AuthMethodPostSupported;
  (if ((!ok) || (GenEP.AuthMethodPostSupported now config)) then
    Go.ok
  else
  (match ((((p).Storage)).GetClientByClientID clientID) with
    | .error err => (.error "ErrInvalidClient")
    | .ok client =>
    (if (((client).AuthMethod) == Const.AuthMethodPost) then
      (.error "ErrInvalidClient")
    else
    Go.ok)))

theorem checkAuthMethodPost_eq (now : Int) (clientID : String) (p : EPProvider) : GenEP.checkAuthMethodPost now clientID p = SpecEP.checkAuthMethodPost now clientID p := by
  unfold GenEP.checkAuthMethodPost SpecEP.checkAuthMethodPost; ep_shape

/-- frozen normal form of `GenEP.ClientBasicAuth` (pkg/op/client.go:140 `ClientBasicAuth`) -/
def ClientBasicAuth (now : Int) (o : EPOracles) (r : EPRequest) (storage : EPStorage) : Go.R String :=
  let (clientID, clientSecret, ok) := ((r).BasicAuth);
  (if (!ok) then
    (.error "ErrInvalidClient<ErrNoClientCredentials")
  else
  (match ((o).unescape clientID) with
    | .error err => (.error "ErrInvalidClient<ErrInvalidAuthHeader")
    | .ok clientID =>
    (match ((o).unescape clientSecret) with
    | .error err => (.error "ErrInvalidClient<ErrInvalidAuthHeader")
    | .ok clientSecret =>
    (match ((storage).AuthorizeClientIDSecret clientID clientSecret) with
    | .error err => (.error "ErrUnauthorizedClient")
    | .ok _ =>
    (.ok clientID)))))

theorem ClientBasicAuth_eq (now : Int) (o : EPOracles) (r : EPRequest) (storage : EPStorage) : GenEP.ClientBasicAuth now o r storage = SpecEP.ClientBasicAuth now o r storage := by
  unfold GenEP.ClientBasicAuth SpecEP.ClientBasicAuth; ep_shape

/-- frozen normal form of `GenEP.ClientIDFromRequest` (pkg/op/client.go:186 `ClientIDFromRequest`) -/
def ClientIDFromRequest (now : Int) (o : EPOracles) (r : EPRequest) (p : EPProvider) : Go.R (String × Bool) :=
  (match ((r).ParseForm) with
  | .error err => (.error "ErrInvalidRequest")
  | .ok _ =>
  (match ((((p).Decoder)).Decode (r).Form) with
  | .error err => (.error err)
  | .ok data =>
  let JWTProfile := p;
    let ok := (p).is_ClientJWTProfile;
    (if (ok && ((data).ClientAssertion != "")) then
      (match (GenEP.ClientJWTAuth now o (data).ClientAssertionParams JWTProfile) with
      | .error err => (.error err)
      | .ok clientID =>
      (match (GenEP.checkPrivateKeyJWTClient now clientID ((p).Storage)) with
      | .error err => (.error err)
      | .ok _ =>
      (.ok (clientID, true))))
    else
    (match (GenEP.ClientBasicAuth now o r ((p).Storage)) with
      | .ok clientID =>
      (match (GenEP.checkAuthMethodPost now clientID p) with
        | .error err => (.error err)
        | .ok _ =>
        (.ok (clientID, true)))
      | .error err =>
      (if (!(Hand.epErrorsIs err "ErrNoClientCredentials")) then
          (.error err)
        else
        (if ((data).ClientID == "") then
            (.error "ErrInvalidClient<ErrMissingClientID")
          else
          (.ok ((data).ClientID, false))))))))

theorem ClientIDFromRequest_eq (now : Int) (o : EPOracles) (r : EPRequest) (p : EPProvider) : GenEP.ClientIDFromRequest now o r p = SpecEP.ClientIDFromRequest now o r p := by
  unfold GenEP.ClientIDFromRequest SpecEP.ClientIDFromRequest; ep_shape

/-- frozen normal form of `GenEP.ParseAuthenticatedTokenRequest` (pkg/op/token_request.go:90 `ParseAuthenticatedTokenRequest`) -/
def ParseAuthenticatedTokenRequest (now : Int) (o : EPOracles) (r : EPRequest) (decoder : EPDecoder) (request : EPForm) : Go.R EPForm :=
  (match ((r).ParseForm) with
  | .error err => (.error "ErrInvalidRequest")
  | .ok _ =>
  (match ((decoder).Decode (r).Form) with
  | .error err => (.error "ErrInvalidRequest")
  | .ok request =>
  let (clientID, clientSecret, ok) := ((r).BasicAuth);
  (if (!ok) then
    (.ok request)
  else
  (match ((o).unescape clientID) with
    | .error err => (.error "ErrInvalidClient")
    | .ok clientID =>
    (match ((o).unescape clientSecret) with
    | .error err => (.error "ErrInvalidClient")
    | .ok clientSecret =>
    let request := (request).SetClientID clientID;
    let request := (request).SetClientSecret clientSecret;
    (.ok request))))))

theorem ParseAuthenticatedTokenRequest_eq (now : Int) (o : EPOracles) (r : EPRequest) (decoder : EPDecoder) (request : EPForm) : GenEP.ParseAuthenticatedTokenRequest now o r decoder request = SpecEP.ParseAuthenticatedTokenRequest now o r decoder request := by
  unfold GenEP.ParseAuthenticatedTokenRequest SpecEP.ParseAuthenticatedTokenRequest; ep_shape

/-- frozen normal form of `GenEP.ParseTokenIntrospectionRequest` (pkg/op/token_intospection.go:55 `ParseTokenIntrospectionRequest`) -/
def ParseTokenIntrospectionRequest (now : Int) (o : EPOracles) (r : EPRequest) (introspector : EPProvider) : Go.R (String × String) :=
  (match (GenEP.ClientIDFromRequest now o r introspector) with
  | .error err => (.error err)
  | .ok (clientID, authenticated) =>
  (if (!authenticated) then
    (.error "ErrInvalidClient<ErrNoClientCredentials")
  else
  (match ((((introspector).Decoder)).Decode (r).Form) with
    | .error err => (.error "error:unable to parse request")
    | .ok req =>
    (.ok ((req).Token, clientID)))))

theorem ParseTokenIntrospectionRequest_eq (now : Int) (o : EPOracles) (r : EPRequest) (introspector : EPProvider) : GenEP.ParseTokenIntrospectionRequest now o r introspector = SpecEP.ParseTokenIntrospectionRequest now o r introspector := by
  unfold GenEP.ParseTokenIntrospectionRequest SpecEP.ParseTokenIntrospectionRequest; ep_shape

/-- frozen normal form of `GenEP.Introspect` (pkg/op/token_intospection.go:30 `Introspect`) -/
def Introspect (now : Int) (o : EPOracles) (r : EPRequest) (introspector : EPProvider) : EPResp :=
  let response := (default : EPIntrospection);
  (match (GenEP.ParseTokenIntrospectionRequest now o r introspector) with
  | .error err => (EPResp.text err (401 : Int))
  | .ok (token, clientID) =>
  let (tokenID, subject, ok) := (Hand.epGetTokenIDAndSubject introspector token);
  (if (!ok) then
    (Hand.epIntrospected response)
  else
  (match ((((introspector).Storage)).SetIntrospectionFromToken response tokenID subject clientID) with
    | .error err => (Hand.epIntrospected response)
    | .ok response =>
    let response := { response with Active := true };
    (Hand.epIntrospected response))))

theorem Introspect_eq (now : Int) (o : EPOracles) (r : EPRequest) (introspector : EPProvider) : GenEP.Introspect now o r introspector = SpecEP.Introspect now o r introspector := by
  unfold GenEP.Introspect SpecEP.Introspect; ep_shape

/-- frozen normal form of `GenEP.ParseTokenRevocationRequest` (pkg/op/token_revocation.go:81 `ParseTokenRevocationRequest`) -/
def ParseTokenRevocationRequest (now : Int) (o : EPOracles) (r : EPRequest) (revoker : EPProvider) : Go.R (String × String × String) :=
  (match ((r).ParseForm) with
  | .error err => (.error "ErrInvalidRequest")
  | .ok _ =>
  (match ((((revoker).Decoder)).Decode (r).Form) with
  | .error err => (.error "ErrInvalidRequest")
  | .ok req =>
  (if ((req).ClientAssertionType == Const.ClientAssertionTypeJWTAssertion) then
    let revokerJWTProfile := revoker;
    let ok := (revoker).is_RevokerJWTProfile;
    (if ((!ok) || (!(GenEP.AuthMethodPrivateKeyJWTSupported now revoker))) then
      (.error "ErrInvalidClient")
    else
    (match (Hand.epVerifyJWTAssertion now o (req).ClientAssertion ((revokerJWTProfile).JWTProfileVerifier )) with
      | .error err => (.error err)
      | .ok profile =>
      (match (GenEP.checkPrivateKeyJWTClient now (profile).Issuer ((revoker).Storage)) with
      | .error err => (.error err)
      | .ok _ =>
      (.ok ((req).Token, (req).TokenTypeHint, (profile).Issuer)))))
  else
  let (clientID, clientSecret, ok) := ((r).BasicAuth);
    (if ok then
      (match ((o).unescape clientID) with
      | .error err => (.error "ErrInvalidClient")
      | .ok clientID =>
      (match ((o).unescape clientSecret) with
      | .error err => (.error "ErrInvalidClient")
      | .ok clientSecret =>
      (match (GenEP.AuthorizeClientIDSecret now clientID clientSecret ((revoker).Storage)) with
      | .error err => (.error err)
      | .ok _ =>
      (match (GenEP.checkAuthMethodPost now clientID revoker) with
        | .error err => (.error err)
        | .ok _ =>
        (.ok ((req).Token, (req).TokenTypeHint, clientID))))))
    else
    (if ((req).ClientID == "") then
        (.error "ErrInvalidClient")
      else
      (match ((((revoker).Storage)).GetClientByClientID (req).ClientID) with
        | .error err => (.error "ErrInvalidClient")
        | .ok client =>
        (if ((req).ClientSecret == "") then
          (if (((client).AuthMethod) != Const.AuthMethodNone) then
            (.error "ErrInvalidClient")
          else
          (.ok ((req).Token, (req).TokenTypeHint, (req).ClientID)))
        else
        (if ((((client).AuthMethod) == Const.AuthMethodPost) && (!(GenEP.AuthMethodPostSupported now revoker))) then
            (.error "ErrInvalidClient")
          else
          (match (GenEP.AuthorizeClientIDSecret now (req).ClientID (req).ClientSecret ((revoker).Storage)) with
            | .error err => (.error err)
            | .ok _ =>
            (.ok ((req).Token, (req).TokenTypeHint, (req).ClientID)))))))))))

theorem ParseTokenRevocationRequest_eq (now : Int) (o : EPOracles) (r : EPRequest) (revoker : EPProvider) : GenEP.ParseTokenRevocationRequest now o r revoker = SpecEP.ParseTokenRevocationRequest now o r revoker := by
  unfold GenEP.ParseTokenRevocationRequest SpecEP.ParseTokenRevocationRequest; ep_shape

/-- frozen normal form of `GenEP.Revoke` (pkg/op/token_revocation.go:36 `Revoke`) -/
def Revoke (now : Int) (o : EPOracles) (r : EPRequest) (revoker : EPProvider) : EPResp :=
  (match (GenEP.ParseTokenRevocationRequest now o r revoker) with
  | .error err => (GenEP.RevocationRequestError now r err)
  | .ok (token, _, clientID) =>
  let subject := ("" : String);
  let doDecrypt := true;
  (match ((((revoker).Storage)).GetRefreshTokenInfo clientID token) with
  | .error err => (if (!(Hand.epErrorsIs err "ErrInvalidRefreshToken")) then
      (GenEP.RevocationRequestError now r "ErrServerError")
    else
    (if doDecrypt then
        (match (Hand.epGetTokenIDAndSubjectForRevocation revoker token) with
        | .error err => (GenEP.RevocationRequestError now r "ErrServerError")
        | .ok (tokenID, userID, ok) =>
        (if ok then
          let token := tokenID;
          let subject := userID;
          (match ((((revoker).Storage)).RevokeToken token subject clientID) with
          | .error err => (GenEP.RevocationRequestError now r err)
          | .ok _ =>
          (Hand.epRevoked clientID Go.nil))
        else
        (match ((((revoker).Storage)).RevokeToken token subject clientID) with
          | .error err => (GenEP.RevocationRequestError now r err)
          | .ok _ =>
          (Hand.epRevoked clientID Go.nil))))
      else
      (match ((((revoker).Storage)).RevokeToken token subject clientID) with
          | .error err => (GenEP.RevocationRequestError now r err)
          | .ok _ =>
          (Hand.epRevoked clientID Go.nil))))
  | .ok (userID, tokenID) =>
  let token := tokenID;
    let subject := userID;
    let doDecrypt := false;
    (if doDecrypt then
        (match (Hand.epGetTokenIDAndSubjectForRevocation revoker token) with
        | .error err => (GenEP.RevocationRequestError now r "ErrServerError")
        | .ok (tokenID, userID, ok) =>
        (if ok then
          let token := tokenID;
          let subject := userID;
          (match ((((revoker).Storage)).RevokeToken token subject clientID) with
          | .error err => (GenEP.RevocationRequestError now r err)
          | .ok _ =>
          (Hand.epRevoked clientID Go.nil))
        else
        (match ((((revoker).Storage)).RevokeToken token subject clientID) with
          | .error err => (GenEP.RevocationRequestError now r err)
          | .ok _ =>
          (Hand.epRevoked clientID Go.nil))))
      else
      (match ((((revoker).Storage)).RevokeToken token subject clientID) with
          | .error err => (GenEP.RevocationRequestError now r err)
          | .ok _ =>
          (Hand.epRevoked clientID Go.nil)))))

theorem Revoke_eq (now : Int) (o : EPOracles) (r : EPRequest) (revoker : EPProvider) : GenEP.Revoke now o r revoker = SpecEP.Revoke now o r revoker := by
  unfold GenEP.Revoke SpecEP.Revoke; ep_shape

/-- frozen normal form of `GenEP.ParseDeviceCodeRequest` (pkg/op/device.go:133 `ParseDeviceCodeRequest`) -/
def ParseDeviceCodeRequest (now : Int) (o : EPOracles) (r : EPRequest) (o_ : EPProvider) : Go.R EPForm :=
  (match (GenEP.ClientIDFromRequest now o r o_) with
  | .error err => (.error err)
  | .ok (clientID, _) =>
  (match ((((o_).Storage)).GetClientByClientID clientID) with
  | .error err => (.error err)
  | .ok client =>
  (if (!(ValidateGrantType now client Const.GrantTypeDeviceCode)) then
    (.error "ErrUnauthorizedClient")
  else
  (match ((((o_).Decoder)).Decode (r).Form) with
    | .error err => (.error "ErrInvalidRequest")
    | .ok req =>
    let req := { req with ClientID := clientID };
      (.ok req)))))

theorem ParseDeviceCodeRequest_eq (now : Int) (o : EPOracles) (r : EPRequest) (o_ : EPProvider) : GenEP.ParseDeviceCodeRequest now o r o_ = SpecEP.ParseDeviceCodeRequest now o r o_ := by
  unfold GenEP.ParseDeviceCodeRequest SpecEP.ParseDeviceCodeRequest; ep_shape

/-- frozen normal form of `GenEP.DeviceAuthorization` (pkg/op/device.go:66 `DeviceAuthorization`) -/
def DeviceAuthorization (now : Int) (o : EPOracles) (r : EPRequest) (o_ : EPProvider) : Go.R EPDone :=
  (match (GenEP.ParseDeviceCodeRequest now o r o_) with
  | .error err => (.error err)
  | .ok req =>
  (match (Hand.epCreateDeviceAuthorization now req (req).ClientID o_) with
  | .error err => (.error err)
  | .ok response =>
  let written := response;
  (.ok written)))

theorem DeviceAuthorization_eq (now : Int) (o : EPOracles) (r : EPRequest) (o_ : EPProvider) : GenEP.DeviceAuthorization now o r o_ = SpecEP.DeviceAuthorization now o r o_ := by
  unfold GenEP.DeviceAuthorization SpecEP.DeviceAuthorization; ep_shape

/-- frozen normal form of `GenEP.ParseDeviceAccessTokenRequest` (pkg/op/device.go:251 `ParseDeviceAccessTokenRequest`) -/
def ParseDeviceAccessTokenRequest (now : Int) (r : EPRequest) (exchanger : EPProvider) : Go.R EPForm :=
  (match ((((exchanger).Decoder)).Decode (r).PostForm) with
  | .error err => (.error err)
  | .ok req =>
  (.ok req))

theorem ParseDeviceAccessTokenRequest_eq (now : Int) (r : EPRequest) (exchanger : EPProvider) : GenEP.ParseDeviceAccessTokenRequest now r exchanger = SpecEP.ParseDeviceAccessTokenRequest now r exchanger := by
  unfold GenEP.ParseDeviceAccessTokenRequest SpecEP.ParseDeviceAccessTokenRequest; ep_shape

/-- frozen normal form of `GenEP.deviceAccessToken` (pkg/op/device.go:210 `deviceAccessToken`) -/
def deviceAccessToken (now : Int) (o : EPOracles) (r : EPRequest) (exchanger : EPProvider) : Go.R EPDone :=
  (match (GenEP.ClientIDFromRequest now o r exchanger) with
  | .error err => (.error err)
  | .ok (clientID, clientAuthenticated) =>
  (match (GenEP.ParseDeviceAccessTokenRequest now r exchanger) with
  | .error err => (.error err)
  | .ok req =>
  (match (Hand.epCheckDeviceState now clientID (req).DeviceCode exchanger) with
  | .error err => (.error err)
  | .ok tokenRequest =>
  (match ((((exchanger).Storage)).GetClientByClientID clientID) with
  | .error err => (.error err)
  | .ok client =>
  (if ((!clientAuthenticated) && (((client).AuthMethod) != Const.AuthMethodNone)) then
    (.error "ErrInvalidClient<ErrNoClientCredentials")
  else
  (match (Hand.epCreateDeviceTokenResponse now tokenRequest exchanger client) with
    | .error err => (.error err)
    | .ok resp =>
    let written := resp;
    (.ok written)))))))

theorem deviceAccessToken_eq (now : Int) (o : EPOracles) (r : EPRequest) (exchanger : EPProvider) : GenEP.deviceAccessToken now o r exchanger = SpecEP.deviceAccessToken now o r exchanger := by
  unfold GenEP.deviceAccessToken SpecEP.deviceAccessToken; ep_shape

/-- frozen normal form of `GenEP.ParseAccessTokenRequest` (pkg/op/token_code.go:41 `ParseAccessTokenRequest`) -/
def ParseAccessTokenRequest (now : Int) (o : EPOracles) (r : EPRequest) (decoder : EPDecoder) : Go.R EPForm :=
  let request := (default : EPForm);
  (match (GenEP.ParseAuthenticatedTokenRequest now o r decoder request) with
  | .error err => (.error err)
  | .ok request =>
  (.ok request))

theorem ParseAccessTokenRequest_eq (now : Int) (o : EPOracles) (r : EPRequest) (decoder : EPDecoder) : GenEP.ParseAccessTokenRequest now o r decoder = SpecEP.ParseAccessTokenRequest now o r decoder := by
  unfold GenEP.ParseAccessTokenRequest SpecEP.ParseAccessTokenRequest; ep_shape

/-- frozen normal form of `GenEP.CodeExchange` (pkg/op/token_code.go:13 `CodeExchange`) -/
def CodeExchange (now : Int) (o : EPOracles) (r : EPRequest) (exchanger : EPProvider) : EPResp :=
  (match (GenEP.ParseAccessTokenRequest now o r ((exchanger).Decoder)) with
  | .error err => (GenEP.RequestError now r err)
  | .ok tokenReq =>
  (if ((tokenReq).Code == "") then
    (GenEP.RequestError now r "ErrInvalidRequest")
  else
  (match (Hand.epValidateAccessTokenRequest now o tokenReq exchanger) with
    | .error err => (GenEP.RequestError now r err)
    | .ok (authReq, client) =>
    (match (Hand.epCreateTokenResponse now authReq client exchanger true (tokenReq).Code "") with
    | .error err => (GenEP.RequestError now r err)
    | .ok resp =>
    (EPResp.ok resp)))))

theorem CodeExchange_eq (now : Int) (o : EPOracles) (r : EPRequest) (exchanger : EPProvider) : GenEP.CodeExchange now o r exchanger = SpecEP.CodeExchange now o r exchanger := by
  unfold GenEP.CodeExchange SpecEP.CodeExchange; ep_shape

/-- frozen normal form of `GenEP.ParseRefreshTokenRequest` (pkg/op/token_refresh.go:50 `ParseRefreshTokenRequest`) -/
def ParseRefreshTokenRequest (now : Int) (o : EPOracles) (r : EPRequest) (decoder : EPDecoder) : Go.R EPForm :=
  let request := (default : EPForm);
  (match (GenEP.ParseAuthenticatedTokenRequest now o r decoder request) with
  | .error err => (.error err)
  | .ok request =>
  (.ok request))

theorem ParseRefreshTokenRequest_eq (now : Int) (o : EPOracles) (r : EPRequest) (decoder : EPDecoder) : GenEP.ParseRefreshTokenRequest now o r decoder = SpecEP.ParseRefreshTokenRequest now o r decoder := by
  unfold GenEP.ParseRefreshTokenRequest SpecEP.ParseRefreshTokenRequest; ep_shape

/-- frozen normal form of `GenEP.RefreshTokenExchange` (pkg/op/token_refresh.go:26 `RefreshTokenExchange`) -/
def RefreshTokenExchange (now : Int) (o : EPOracles) (r : EPRequest) (exchanger : EPProvider) : EPResp :=
  (match (GenEP.ParseRefreshTokenRequest now o r ((exchanger).Decoder)) with
  | .error err => (GenEP.RequestError now r err)
  | .ok tokenReq =>
  (match (Hand.epValidateRefreshTokenRequest now o tokenReq exchanger) with
  | .error err => (GenEP.RequestError now r err)
  | .ok (validatedRequest, client) =>
  (match (Hand.epCreateRefreshResponse now validatedRequest client exchanger true "" (tokenReq).RefreshToken) with
  | .error err => (GenEP.RequestError now r err)
  | .ok resp =>
  (EPResp.ok resp))))

theorem RefreshTokenExchange_eq (now : Int) (o : EPOracles) (r : EPRequest) (exchanger : EPProvider) : GenEP.RefreshTokenExchange now o r exchanger = SpecEP.RefreshTokenExchange now o r exchanger := by
  unfold GenEP.RefreshTokenExchange SpecEP.RefreshTokenExchange; ep_shape

/-- frozen normal form of `GenEP.ParseClientCredentialsRequest` (pkg/op/token_client_credentials.go:41 `ParseClientCredentialsRequest`) -/
def ParseClientCredentialsRequest (now : Int) (o : EPOracles) (r : EPRequest) (decoder : EPDecoder) : Go.R EPForm :=
  (match ((r).ParseForm) with
  | .error err => (.error "ErrInvalidRequest")
  | .ok _ =>
  (match ((decoder).Decode (r).Form) with
  | .error err => (.error "ErrInvalidRequest")
  | .ok request =>
  (if (let (clientID, clientSecret, ok) := ((r).BasicAuth); ok) then
    let (clientID, clientSecret, ok) := ((r).BasicAuth); (match ((o).unescape clientID) with
    | .error err => (.error "ErrInvalidClient")
    | .ok clientID =>
    (match ((o).unescape clientSecret) with
    | .error err => (.error "ErrInvalidClient")
    | .ok clientSecret =>
    let request := { request with ClientID := clientID };
    let request := { request with ClientSecret := clientSecret };
    (.ok request)))
  else
  (.ok request))))

theorem ParseClientCredentialsRequest_eq (now : Int) (o : EPOracles) (r : EPRequest) (decoder : EPDecoder) : GenEP.ParseClientCredentialsRequest now o r decoder = SpecEP.ParseClientCredentialsRequest now o r decoder := by
  unfold GenEP.ParseClientCredentialsRequest SpecEP.ParseClientCredentialsRequest; ep_shape

/-- frozen normal form of `GenEP.ValidateClientCredentialsRequest` (pkg/op/token_client_credentials.go:73 `ValidateClientCredentialsRequest`) -/
def ValidateClientCredentialsRequest (now : Int) (request : EPForm) (exchanger : EPProvider) : Go.R (String × OPClient) :=
  let storage := ((exchanger).Storage);
  let ok := (((exchanger).Storage)).is_ClientCredentialsStorage;
  (if (!ok) then
    (.error "ErrUnsupportedGrantType")
  else
  (match (Hand.epAuthorizeClientCredentialsClient now request storage) with
    | .error err => (.error err)
    | .ok client =>
    (match ((storage).ClientCredentialsTokenRequest (request).ClientID (request).Scope) with
    | .error err => (.error err)
    | .ok tokenRequest =>
    (.ok (tokenRequest, client)))))

theorem ValidateClientCredentialsRequest_eq (now : Int) (request : EPForm) (exchanger : EPProvider) : GenEP.ValidateClientCredentialsRequest now request exchanger = SpecEP.ValidateClientCredentialsRequest now request exchanger := by
  unfold GenEP.ValidateClientCredentialsRequest SpecEP.ValidateClientCredentialsRequest; ep_shape

/-- frozen normal form of `GenEP.ClientCredentialsExchange` (pkg/op/token_client_credentials.go:14 `ClientCredentialsExchange`) -/
def ClientCredentialsExchange (now : Int) (o : EPOracles) (r : EPRequest) (exchanger : EPProvider) : EPResp :=
  (match (GenEP.ParseClientCredentialsRequest now o r ((exchanger).Decoder)) with
  | .error err => (GenEP.RequestError now r err)
  | .ok request =>
  (match (GenEP.ValidateClientCredentialsRequest now request exchanger) with
  | .error err => (GenEP.RequestError now r err)
  | .ok (validatedRequest, client) =>
  (match (Hand.epCreateClientCredentialsTokenResponse now validatedRequest exchanger client) with
  | .error err => (GenEP.RequestError now r err)
  | .ok resp =>
  (EPResp.ok resp))))

theorem ClientCredentialsExchange_eq (now : Int) (o : EPOracles) (r : EPRequest) (exchanger : EPProvider) : GenEP.ClientCredentialsExchange now o r exchanger = SpecEP.ClientCredentialsExchange now o r exchanger := by
  unfold GenEP.ClientCredentialsExchange SpecEP.ClientCredentialsExchange; ep_shape

/-- frozen normal form of `GenEP.ParseTokenExchangeRequest` (pkg/op/token_exchange.go:161 `ParseTokenExchangeRequest`) -/
def ParseTokenExchangeRequest (now : Int) (o : EPOracles) (r : EPRequest) (decoder : EPDecoder) : Go.R (EPForm × String × String) :=
  (match ((r).ParseForm) with
  | .error err => (.error "ErrInvalidRequest")
  | .ok _ =>
  (match ((decoder).Decode (r).Form) with
  | .error err => (.error "ErrInvalidRequest")
  | .ok request =>
  let ok := false;
  let (clientID, clientSecret, ok) := ((r).BasicAuth);
  (if ok then
    (match ((o).unescape clientID) with
    | .error err => (.error "ErrInvalidClient")
    | .ok clientID =>
    (match ((o).unescape clientSecret) with
    | .error err => (.error "ErrInvalidClient")
    | .ok clientSecret =>
    (.ok (request, clientID, clientSecret))))
  else
  (.ok (request, clientID, clientSecret)))))

theorem ParseTokenExchangeRequest_eq (now : Int) (o : EPOracles) (r : EPRequest) (decoder : EPDecoder) : GenEP.ParseTokenExchangeRequest now o r decoder = SpecEP.ParseTokenExchangeRequest now o r decoder := by
  unfold GenEP.ParseTokenExchangeRequest SpecEP.ParseTokenExchangeRequest; ep_shape

/-- frozen normal form of `GenEP.AuthorizeTokenExchangeClient` (pkg/op/token_exchange.go:359 `AuthorizeTokenExchangeClient`) -/
def AuthorizeTokenExchangeClient (now : Int) (clientID clientSecret : String) (exchanger : EPProvider) : Go.R OPClient :=
  (match (GenEP.AuthorizeClientIDSecret now clientID clientSecret ((exchanger).Storage)) with
  | .error err => (.error err)
  | .ok _ =>
  (match ((((exchanger).Storage)).GetClientByClientID clientID) with
    | .error err => (.error "ErrInvalidClient")
    | .ok client =>
    (if ((((client).AuthMethod) == Const.AuthMethodPost) && (!(GenEP.AuthMethodPostSupported now exchanger))) then
      (.error "ErrInvalidClient")
    else
    (.ok client))))

theorem AuthorizeTokenExchangeClient_eq (now : Int) (clientID clientSecret : String) (exchanger : EPProvider) : GenEP.AuthorizeTokenExchangeClient now clientID clientSecret exchanger = SpecEP.AuthorizeTokenExchangeClient now clientID clientSecret exchanger := by
  unfold GenEP.AuthorizeTokenExchangeClient SpecEP.AuthorizeTokenExchangeClient; ep_shape

/-- frozen normal form of `GenEP.ValidateTokenExchangeRequest` (pkg/op/token_exchange.go:191 `ValidateTokenExchangeRequest`) -/
def ValidateTokenExchangeRequest (now : Int) (oidcTokenExchangeRequest : EPForm) (clientID clientSecret : String) (exchanger : EPProvider) : Go.R (EPExchangeReq × OPClient) :=
  (if ((oidcTokenExchangeRequest).SubjectToken == "") then
    (.error "ErrInvalidRequest")
  else
  (if ((oidcTokenExchangeRequest).SubjectTokenType == "") then
      (.error "ErrInvalidRequest")
    else
    (if (((oidcTokenExchangeRequest).ActorToken != "") && ((oidcTokenExchangeRequest).ActorTokenType == "")) then
        (.error "ErrInvalidRequest")
      else
      (match (GenEP.AuthorizeTokenExchangeClient now clientID clientSecret exchanger) with
        | .error err => (.error err)
        | .ok client =>
        (if (!(ValidateGrantType now client Const.GrantTypeTokenExchange)) then
          (.error "ErrUnauthorizedClient")
        else
        (if (((oidcTokenExchangeRequest).RequestedTokenType != "") && (!(Hand.epTokenTypeSupported (oidcTokenExchangeRequest).RequestedTokenType))) then
            (.error "ErrInvalidRequest")
          else
          (if (!(Hand.epTokenTypeSupported (oidcTokenExchangeRequest).SubjectTokenType)) then
              (.error "ErrInvalidRequest")
            else
            (if (((oidcTokenExchangeRequest).ActorTokenType != "") && (!(Hand.epTokenTypeSupported (oidcTokenExchangeRequest).ActorTokenType))) then
                (.error "ErrInvalidRequest")
              else
              (match (Hand.epCreateTokenExchangeRequest now oidcTokenExchangeRequest client exchanger) with
                | .error err => (.error err)
                | .ok req =>
                (.ok (req, client)))))))))))

theorem ValidateTokenExchangeRequest_eq (now : Int) (oidcTokenExchangeRequest : EPForm) (clientID clientSecret : String) (exchanger : EPProvider) : GenEP.ValidateTokenExchangeRequest now oidcTokenExchangeRequest clientID clientSecret exchanger = SpecEP.ValidateTokenExchangeRequest now oidcTokenExchangeRequest clientID clientSecret exchanger := by
  unfold GenEP.ValidateTokenExchangeRequest SpecEP.ValidateTokenExchangeRequest; ep_shape

/-- frozen normal form of `GenEP.TokenExchange` (pkg/op/token_exchange.go:136 `TokenExchange`) -/
def TokenExchange (now : Int) (o : EPOracles) (r : EPRequest) (exchanger : EPProvider) : EPResp :=
  (match (GenEP.ParseTokenExchangeRequest now o r ((exchanger).Decoder)) with
  | .error err => (GenEP.RequestError now r err)
  | .ok (tokenExchangeReq, clientID, clientSecret) =>
  (match (GenEP.ValidateTokenExchangeRequest now tokenExchangeReq clientID clientSecret exchanger) with
  | .error err => (GenEP.RequestError now r err)
  | .ok (tokenExchangeRequest, client) =>
  (match (Hand.epCreateTokenExchangeResponse now tokenExchangeRequest client exchanger) with
  | .error err => (GenEP.RequestError now r err)
  | .ok resp =>
  (EPResp.ok resp))))

theorem TokenExchange_eq (now : Int) (o : EPOracles) (r : EPRequest) (exchanger : EPProvider) : GenEP.TokenExchange now o r exchanger = SpecEP.TokenExchange now o r exchanger := by
  unfold GenEP.TokenExchange SpecEP.TokenExchange; ep_shape

/-- frozen normal form of `GenEP.ParseJWTProfileGrantRequest` (pkg/op/token_jwt_profile.go:48 `ParseJWTProfileGrantRequest`) -/
def ParseJWTProfileGrantRequest (now : Int) (r : EPRequest) (decoder : EPDecoder) : Go.R EPForm :=
  (match ((r).ParseForm) with
  | .error err => (.error "ErrInvalidRequest")
  | .ok _ =>
  (match ((decoder).Decode (r).Form) with
  | .error err => (.error "ErrInvalidRequest")
  | .ok tokenReq =>
  (.ok tokenReq)))

theorem ParseJWTProfileGrantRequest_eq (now : Int) (r : EPRequest) (decoder : EPDecoder) : GenEP.ParseJWTProfileGrantRequest now r decoder = SpecEP.ParseJWTProfileGrantRequest now r decoder := by
  unfold GenEP.ParseJWTProfileGrantRequest SpecEP.ParseJWTProfileGrantRequest; ep_shape

/-- frozen normal form of `GenEP.JWTProfile` (pkg/op/token_jwt_profile.go:18 `JWTProfile`) -/
def JWTProfile (now : Int) (o : EPOracles) (r : EPRequest) (exchanger : EPProvider) : EPResp :=
  (match (GenEP.ParseJWTProfileGrantRequest now r ((exchanger).Decoder)) with
  | .error err => (GenEP.RequestError now r err)
  | .ok profileRequest =>
  (match (Hand.epVerifyJWTAssertion now o (profileRequest).Assertion ((exchanger).JWTProfileVerifier )) with
  | .error err => (GenEP.RequestError now r err)
  | .ok tokenRequest =>
  (match ((((exchanger).Storage)).ValidateJWTProfileScopes (tokenRequest).Issuer (profileRequest).Scope) with
  | .error err => (GenEP.RequestError now r err)
  | .ok v_tokenRequest_Scopes =>
  let tokenRequest := ({ tokenRequest with Scopes := v_tokenRequest_Scopes } : type_of% tokenRequest);
  (match (Hand.epCreateJWTTokenResponse now tokenRequest exchanger) with
  | .error err => (GenEP.RequestError now r err)
  | .ok resp =>
  (EPResp.ok resp)))))

theorem JWTProfile_eq (now : Int) (o : EPOracles) (r : EPRequest) (exchanger : EPProvider) : GenEP.JWTProfile now o r exchanger = SpecEP.JWTProfile now o r exchanger := by
  unfold GenEP.JWTProfile SpecEP.JWTProfile; ep_shape

/-- frozen normal form of `GenEP.DeviceAccessToken` (pkg/op/device.go:200 `DeviceAccessToken`) -/
def DeviceAccessToken (now : Int) (o : EPOracles) (r : EPRequest) (exchanger : EPProvider) : EPResp :=
  (match (GenEP.deviceAccessToken now o r exchanger) with
  | .error err => (GenEP.RequestError now r err)
  | .ok written__ =>
  (EPResp.ok written__))

theorem DeviceAccessToken_eq (now : Int) (o : EPOracles) (r : EPRequest) (exchanger : EPProvider) : GenEP.DeviceAccessToken now o r exchanger = SpecEP.DeviceAccessToken now o r exchanger := by
  unfold GenEP.DeviceAccessToken SpecEP.DeviceAccessToken; ep_shape

/-- frozen normal form of `GenEP.DeviceAuthorizationHandler` (pkg/op/device.go:58 `DeviceAuthorizationHandler`) -/
def DeviceAuthorizationHandler (now : Int) (o : EPOracles) (o_ : EPProvider) (r : EPRequest) : EPResp :=
  (match (GenEP.DeviceAuthorization now o r o_) with
  | .error err => (GenEP.RequestError now r err)
  | .ok written__ =>
  (EPResp.ok written__))

theorem DeviceAuthorizationHandler_eq (now : Int) (o : EPOracles) (o_ : EPProvider) (r : EPRequest) : GenEP.DeviceAuthorizationHandler now o o_ r = SpecEP.DeviceAuthorizationHandler now o o_ r := by
  unfold GenEP.DeviceAuthorizationHandler SpecEP.DeviceAuthorizationHandler; ep_shape

/-- frozen normal form of `GenEP.Exchange` (pkg/op/token_request.go:39 `Exchange`) -/
def Exchange (now : Int) (o : EPOracles) (r : EPRequest) (exchanger : EPProvider) : EPResp :=
  let grantType := ((r).FormValue "grant_type");
  (if (grantType == Const.GrantTypeCode) then
    (GenEP.CodeExchange now o r exchanger)
  else if (grantType == Const.GrantTypeRefreshToken) then
    (if (GenEP.GrantTypeRefreshTokenSupported now exchanger) then
      (GenEP.RefreshTokenExchange now o r exchanger)
    else
    (GenEP.RequestError now r "ErrUnsupportedGrantType"))
  else if (grantType == Const.GrantTypeBearer) then
    let ex := exchanger;
    let ok := (exchanger).is_JWTAuthorizationGrantExchanger;
    (if (ok && (GenEP.GrantTypeJWTAuthorizationSupported now exchanger)) then
      (GenEP.JWTProfile now o r ex)
    else
    (GenEP.RequestError now r "ErrUnsupportedGrantType"))
  else if (grantType == Const.GrantTypeTokenExchange) then
    (if (GenEP.GrantTypeTokenExchangeSupported now exchanger) then
      (GenEP.TokenExchange now o r exchanger)
    else
    (GenEP.RequestError now r "ErrUnsupportedGrantType"))
  else if (grantType == Const.GrantTypeClientCredentials) then
    (if (GenEP.GrantTypeClientCredentialsSupported now exchanger) then
      (GenEP.ClientCredentialsExchange now o r exchanger)
    else
    (GenEP.RequestError now r "ErrUnsupportedGrantType"))
  else if (grantType == Const.GrantTypeDeviceCode) then
    (if (GenEP.GrantTypeDeviceCodeSupported now exchanger) then
      (GenEP.DeviceAccessToken now o r exchanger)
    else
    (GenEP.RequestError now r "ErrUnsupportedGrantType"))
  else if (grantType == "") then
    (GenEP.RequestError now r "ErrInvalidRequest")
  else (GenEP.RequestError now r "ErrUnsupportedGrantType"))

theorem Exchange_eq (now : Int) (o : EPOracles) (r : EPRequest) (exchanger : EPProvider) : GenEP.Exchange now o r exchanger = SpecEP.Exchange now o r exchanger := by
  unfold GenEP.Exchange SpecEP.Exchange; ep_shape

/-- frozen normal form of `GenEP.tokenHandler` (pkg/op/token_request.go:29 `tokenHandler`) -/
def tokenHandler (now : Int) (o : EPOracles) (exchanger : EPProvider) (r : EPRequest) : EPResp :=
  (GenEP.Exchange now o r exchanger)

theorem tokenHandler_eq (now : Int) (o : EPOracles) (exchanger : EPProvider) (r : EPRequest) : GenEP.tokenHandler now o exchanger r = SpecEP.tokenHandler now o exchanger r := by
  unfold GenEP.tokenHandler SpecEP.tokenHandler; ep_shape

/-- frozen normal form of `GenEP.providerIntrospectionHandler` (pkg/op/token_intospection.go:24 `introspectionHandler`) -/
def providerIntrospectionHandler (now : Int) (o : EPOracles) (introspector : EPProvider) (r : EPRequest) : EPResp :=
  (GenEP.Introspect now o r introspector)

theorem providerIntrospectionHandler_eq (now : Int) (o : EPOracles) (introspector : EPProvider) (r : EPRequest) : GenEP.providerIntrospectionHandler now o introspector r = SpecEP.providerIntrospectionHandler now o introspector r := by
  unfold GenEP.providerIntrospectionHandler SpecEP.providerIntrospectionHandler; ep_shape

/-- frozen normal form of `GenEP.providerRevocationHandler` (pkg/op/token_revocation.go:30 `revocationHandler`) -/
def providerRevocationHandler (now : Int) (o : EPOracles) (revoker : EPProvider) (r : EPRequest) : EPResp :=
  (GenEP.Revoke now o r revoker)

theorem providerRevocationHandler_eq (now : Int) (o : EPOracles) (revoker : EPProvider) (r : EPRequest) : GenEP.providerRevocationHandler now o revoker r = SpecEP.providerRevocationHandler now o revoker r := by
  unfold GenEP.providerRevocationHandler SpecEP.providerRevocationHandler; ep_shape

/-- frozen normal form of `GenEP.decodeRequest` (pkg/op/server_http.go:511 `decodeRequest`) -/
def decodeRequest (now : Int) (decoder : EPDecoder) (r : EPRequest) (postOnly : Bool) : Go.R EPForm :=
  (match ((r).ParseForm) with
  | .error err => (.error "ErrInvalidRequest")
  | .ok _ =>
  let form := (r).Form;
    let form := (if postOnly then (r).PostForm else form);
    (match ((decoder).Decode form) with
    | .error err => (.error "ErrInvalidRequest")
    | .ok dst =>
    (.ok dst)))

theorem decodeRequest_eq (now : Int) (decoder : EPDecoder) (r : EPRequest) (postOnly : Bool) : GenEP.decodeRequest now decoder r postOnly = SpecEP.decodeRequest now decoder r postOnly := by
  unfold GenEP.decodeRequest SpecEP.decodeRequest; ep_shape

/-- frozen normal form of `GenEP.parseClientCredentials` (pkg/op/server_http.go:175 `webServer.parseClientCredentials`) -/
def parseClientCredentials (now : Int) (o : EPOracles) (s : EPWebServer) (r : EPRequest) : Go.R EPForm :=
  (match ((r).ParseForm) with
  | .error err => (.error "ErrInvalidRequest")
  | .ok _ =>
  (match (((s).decoder).Decode (r).Form) with
    | .error err => (.error "ErrInvalidRequest")
    | .ok cc =>
    (if (let (clientID, clientSecret, ok) := ((r).BasicAuth); ok) then
        let (clientID, clientSecret, ok) := ((r).BasicAuth); (match ((o).unescape clientID) with
        | .error err => (.error "ErrInvalidClient")
        | .ok v_cc_ClientID =>
        let cc := ({ cc with ClientID := v_cc_ClientID } : type_of% cc);
        (match ((o).unescape clientSecret) with
        | .error err => (.error "ErrInvalidClient")
        | .ok v_cc_ClientSecret =>
        let cc := ({ cc with ClientSecret := v_cc_ClientSecret } : type_of% cc);
        (if (((cc).ClientID == "") && ((cc).ClientAssertion == "")) then
          (.error "ErrInvalidRequest")
        else
        (if (((cc).ClientAssertion != "") && ((cc).ClientAssertionType != Const.ClientAssertionTypeJWTAssertion)) then
            (.error "ErrInvalidRequest")
          else
          (.ok cc)))))
      else
      (if (((cc).ClientID == "") && ((cc).ClientAssertion == "")) then
          (.error "ErrInvalidRequest")
        else
        (if (((cc).ClientAssertion != "") && ((cc).ClientAssertionType != Const.ClientAssertionTypeJWTAssertion)) then
            (.error "ErrInvalidRequest")
          else
          (.ok cc))))))

theorem parseClientCredentials_eq (now : Int) (o : EPOracles) (s : EPWebServer) (r : EPRequest) : GenEP.parseClientCredentials now o s r = SpecEP.parseClientCredentials now o s r := by
  unfold GenEP.parseClientCredentials SpecEP.parseClientCredentials; ep_shape

/-- frozen normal form of `GenEP.verifyRequestClient` (pkg/op/server_http.go:161 `webServer.verifyRequestClient`) -/
def verifyRequestClient (now : Int) (o : EPOracles) (s : EPWebServer) (r : EPRequest) : Go.R OPClient :=
  (match (GenEP.parseClientCredentials now o s r) with
  | .error err => (.error err)
  | .ok cc =>
  (Hand.epVerifyClient now o (s).server ({ Form := (r).Form, Data := cc } : EPVerifyRequest)))

theorem verifyRequestClient_eq (now : Int) (o : EPOracles) (s : EPWebServer) (r : EPRequest) : GenEP.verifyRequestClient now o s r = SpecEP.verifyRequestClient now o s r := by
  unfold GenEP.verifyRequestClient SpecEP.verifyRequestClient; ep_shape

/-- frozen normal form of `GenEP.withClient` (pkg/op/server_http.go:140 `webServer.withClient`) -/
def withClient (now : Int) (o : EPOracles) (s : EPWebServer) (handler : EPRequest → OPClient → EPResp) (r : EPRequest) : EPResp :=
  (match (GenEP.verifyRequestClient now o s r) with
  | .error err => (GenEP.WriteError now r err)
  | .ok client =>
  (if (let grantType := (((r).Form).Get "grant_type"); (grantType != "")) then
    let grantType := (((r).Form).Get "grant_type"); (if (!(ValidateGrantType now client grantType)) then
      (GenEP.WriteError now r "ErrUnauthorizedClient")
    else
    (handler r client))
  else
  (handler r client)))

theorem withClient_eq (now : Int) (o : EPOracles) (s : EPWebServer) (handler : EPRequest → OPClient → EPResp) (r : EPRequest) : GenEP.withClient now o s handler r = SpecEP.withClient now o s handler r := by
  unfold GenEP.withClient SpecEP.withClient; ep_shape

/-- frozen normal form of `GenEP.authenticateResourceClient` (pkg/op/server_legacy.go:360 `LegacyServer.authenticateResourceClient`) -/
def authenticateResourceClient (now : Int) (o : EPOracles) (s : EPLegacyServer) (cc : EPForm) : Go.R String :=
  (if ((cc).ClientAssertion != "") then
    let jp := (s).provider;
    let ok := ((s).provider).is_ClientJWTProfile;
    (if ok then
      (match (GenEP.ClientJWTAuth now o ({ ClientAssertion := (cc).ClientAssertion } : EPForm) jp) with
      | .error err => (.error err)
      | .ok clientID =>
      (match (GenEP.checkPrivateKeyJWTClient now clientID (((s).provider).Storage)) with
      | .error err => (.error err)
      | .ok _ =>
      (.ok clientID)))
    else
    (.error "ErrInvalidClient"))
  else
  (match (((((s).provider).Storage)).AuthorizeClientIDSecret (cc).ClientID (cc).ClientSecret) with
    | .error err => (.error "ErrUnauthorizedClient")
    | .ok _ =>
    (match (GenEP.checkAuthMethodPost now (cc).ClientID (s).provider) with
      | .error err => (.error err)
      | .ok _ =>
      (.ok (cc).ClientID))))

theorem authenticateResourceClient_eq (now : Int) (o : EPOracles) (s : EPLegacyServer) (cc : EPForm) : GenEP.authenticateResourceClient now o s cc = SpecEP.authenticateResourceClient now o s cc := by
  unfold GenEP.authenticateResourceClient SpecEP.authenticateResourceClient; ep_shape

/-- frozen normal form of `GenEP.LegacyIntrospect` (pkg/op/server_legacy.go:386 `LegacyServer.Introspect`) -/
def LegacyIntrospect (now : Int) (o : EPOracles) (s : EPLegacyServer) (r : EPServerRequest EPIntrospectionRequest) : Go.R EPIntrospection :=
  (match (GenEP.authenticateResourceClient now o s ((r).Data).ClientCredentials) with
  | .error err => (.error err)
  | .ok clientID =>
  let response := (default : EPIntrospection);
  let (tokenID, subject, ok) := (Hand.epGetTokenIDAndSubject (s).provider ((r).Data).Token);
  (if (!ok) then
    (.ok (NewResponse now response))
  else
  (match (((((s).provider).Storage)).SetIntrospectionFromToken response tokenID subject clientID) with
    | .error err => (.ok (NewResponse now response))
    | .ok response =>
    let response := { response with Active := true };
    (.ok (NewResponse now response)))))

theorem LegacyIntrospect_eq (now : Int) (o : EPOracles) (s : EPLegacyServer) (r : EPServerRequest EPIntrospectionRequest) : GenEP.LegacyIntrospect now o s r = SpecEP.LegacyIntrospect now o s r := by
  unfold GenEP.LegacyIntrospect SpecEP.LegacyIntrospect; ep_shape

/-- frozen normal form of `GenEP.LegacyTokenExchange` (pkg/op/server_legacy.go:300 `LegacyServer.TokenExchange`) -/
def LegacyTokenExchange (now : Int) (s : EPLegacyServer) (r : ClientRequest EPForm) : Go.R EPDone :=
  (if (!(GenEP.GrantTypeTokenExchangeSupported now (s).provider)) then
    (.error (Hand.unimplementedGrantError Const.GrantTypeTokenExchange))
  else
  (match (Hand.epCreateTokenExchangeRequest now (r).Data (r).Client (s).provider) with
    | .error err => (.error err)
    | .ok tokenExchangeRequest =>
    (match (Hand.epCreateTokenExchangeResponse now tokenExchangeRequest (r).Client (s).provider) with
    | .error err => (.error err)
    | .ok resp =>
    (.ok (NewResponse now resp)))))

theorem LegacyTokenExchange_eq (now : Int) (s : EPLegacyServer) (r : ClientRequest EPForm) : GenEP.LegacyTokenExchange now s r = SpecEP.LegacyTokenExchange now s r := by
  unfold GenEP.LegacyTokenExchange SpecEP.LegacyTokenExchange; ep_shape

/-- frozen normal form of `GenEP.LegacyClientCredentialsExchange` (pkg/op/server_legacy.go:318 `LegacyServer.ClientCredentialsExchange`) -/
def LegacyClientCredentialsExchange (now : Int) (s : EPLegacyServer) (r : ClientRequest EPForm) : Go.R EPDone :=
  let storage := (((s).provider).Storage);
  let ok := ((((s).provider).Storage)).is_ClientCredentialsStorage;
  (if (!ok) then
    (.error (Hand.unimplementedGrantError Const.GrantTypeClientCredentials))
  else
  (match ((storage).ClientCredentialsTokenRequest (((r).Client).GetID) ((r).Data).Scope) with
    | .error err => (.error err)
    | .ok tokenRequest =>
    (match (Hand.epCreateClientCredentialsTokenResponse now tokenRequest (s).provider (r).Client) with
    | .error err => (.error err)
    | .ok resp =>
    (.ok (NewResponse now resp)))))

theorem LegacyClientCredentialsExchange_eq (now : Int) (s : EPLegacyServer) (r : ClientRequest EPForm) : GenEP.LegacyClientCredentialsExchange now s r = SpecEP.LegacyClientCredentialsExchange now s r := by
  unfold GenEP.LegacyClientCredentialsExchange SpecEP.LegacyClientCredentialsExchange; ep_shape

/-- frozen normal form of `GenEP.LegacyJWTProfile` (pkg/op/server_legacy.go:276 `LegacyServer.JWTProfile`) -/
def LegacyJWTProfile (now : Int) (o : EPOracles) (s : EPLegacyServer) (r : EPServerRequest EPForm) : Go.R EPDone :=
  let exchanger := (s).provider;
  let ok := ((s).provider).is_JWTAuthorizationGrantExchanger;
  (if (!ok) then
    (.error (Hand.unimplementedGrantError Const.GrantTypeBearer))
  else
  (match (Hand.epVerifyJWTAssertion now o ((r).Data).Assertion ((exchanger).JWTProfileVerifier )) with
    | .error err => (.error "ErrInvalidRequest")
    | .ok tokenRequest =>
    (match ((((exchanger).Storage)).ValidateJWTProfileScopes (tokenRequest).Issuer ((r).Data).Scope) with
    | .error err => (.error err)
    | .ok v_tokenRequest_Scopes =>
    let tokenRequest := ({ tokenRequest with Scopes := v_tokenRequest_Scopes } : type_of% tokenRequest);
    (match (Hand.epCreateJWTTokenResponse now tokenRequest exchanger) with
    | .error err => (.error err)
    | .ok resp =>
    (.ok (NewResponse now resp))))))

theorem LegacyJWTProfile_eq (now : Int) (o : EPOracles) (s : EPLegacyServer) (r : EPServerRequest EPForm) : GenEP.LegacyJWTProfile now o s r = SpecEP.LegacyJWTProfile now o s r := by
  unfold GenEP.LegacyJWTProfile SpecEP.LegacyJWTProfile; ep_shape

/-- frozen normal form of `GenEP.LegacyDeviceToken` (pkg/op/server_legacy.go:337 `LegacyServer.DeviceToken`) -/
def LegacyDeviceToken (now : Int) (s : EPLegacyServer) (r : ClientRequest EPForm) : Go.R EPDone :=
  (if (!(GenEP.GrantTypeDeviceCodeSupported now (s).provider)) then
    (.error (Hand.unimplementedGrantError Const.GrantTypeDeviceCode))
  else
  (match (Hand.epCheckDeviceState now (((r).Client).GetID) ((r).Data).DeviceCode (s).provider) with
    | .error err => (.error err)
    | .ok tokenRequest =>
    (match (Hand.epCreateDeviceTokenResponse now tokenRequest (s).provider (r).Client) with
    | .error err => (.error err)
    | .ok resp =>
    (.ok (NewResponse now resp)))))

theorem LegacyDeviceToken_eq (now : Int) (s : EPLegacyServer) (r : ClientRequest EPForm) : GenEP.LegacyDeviceToken now s r = SpecEP.LegacyDeviceToken now s r := by
  unfold GenEP.LegacyDeviceToken SpecEP.LegacyDeviceToken; ep_shape

/-- frozen normal form of `GenEP.LegacyDeviceAuthorization` (pkg/op/server_legacy.go:169 `LegacyServer.DeviceAuthorization`) -/
def LegacyDeviceAuthorization (now : Int) (s : EPLegacyServer) (r : ClientRequest EPForm) : Go.R EPDone :=
  (if (!(ValidateGrantType now (r).Client Const.GrantTypeDeviceCode)) then
    (.error "ErrUnauthorizedClient")
  else
  (match (Hand.epCreateDeviceAuthorization now (r).Data (((r).Client).GetID) (s).provider) with
    | .error err => (.error (Hand.epAsStatusError err (500 : Int)))
    | .ok response =>
    (.ok (NewResponse now response))))

theorem LegacyDeviceAuthorization_eq (now : Int) (s : EPLegacyServer) (r : ClientRequest EPForm) : GenEP.LegacyDeviceAuthorization now s r = SpecEP.LegacyDeviceAuthorization now s r := by
  unfold GenEP.LegacyDeviceAuthorization SpecEP.LegacyDeviceAuthorization; ep_shape

/-- frozen normal form of `GenEP.LegacyRevocation` (pkg/op/server_legacy.go:423 `LegacyServer.Revocation`) -/
def LegacyRevocation (now : Int) (s : EPLegacyServer) (r : ClientRequest EPForm) : Go.R EPDone :=
  let subject := ("" : String);
  let doDecrypt := true;
  (match (((((s).provider).Storage)).GetRefreshTokenInfo (((r).Client).GetID) ((r).Data).Token) with
  | .error err => (if (!(Hand.epErrorsIs err "ErrInvalidRefreshToken")) then
      (.error (Hand.epEncodeStatusError (GenEP.RevocationError now) "ErrServerError"))
    else
    (if doDecrypt then
        (match (Hand.epGetTokenIDAndSubjectForRevocation (s).provider ((r).Data).Token) with
        | .error err => (.error (Hand.epEncodeStatusError (GenEP.RevocationError now) "ErrServerError"))
        | .ok (tokenID, userID, ok) =>
        (if ok then
          let v_r_Data_Token := tokenID;
          let r := ({ r with Data := ({ (r).Data with Token := v_r_Data_Token } : type_of% (r).Data) } : type_of% r);
          let subject := userID;
          (match (((((s).provider).Storage)).RevokeToken ((r).Data).Token subject (((r).Client).GetID)) with
          | .error err => (.error (Hand.epEncodeStatusError (GenEP.RevocationError now) err))
          | .ok _ =>
          (.ok (Hand.epRevokedFor (r).Client Go.nil)))
        else
        (match (((((s).provider).Storage)).RevokeToken ((r).Data).Token subject (((r).Client).GetID)) with
          | .error err => (.error (Hand.epEncodeStatusError (GenEP.RevocationError now) err))
          | .ok _ =>
          (.ok (Hand.epRevokedFor (r).Client Go.nil)))))
      else
      (match (((((s).provider).Storage)).RevokeToken ((r).Data).Token subject (((r).Client).GetID)) with
          | .error err => (.error (Hand.epEncodeStatusError (GenEP.RevocationError now) err))
          | .ok _ =>
          (.ok (Hand.epRevokedFor (r).Client Go.nil)))))
  | .ok (userID, tokenID) =>
  let v_r_Data_Token := tokenID;
    let r := ({ r with Data := ({ (r).Data with Token := v_r_Data_Token } : type_of% (r).Data) } : type_of% r);
    let subject := userID;
    let doDecrypt := false;
    (if doDecrypt then
        (match (Hand.epGetTokenIDAndSubjectForRevocation (s).provider ((r).Data).Token) with
        | .error err => (.error (Hand.epEncodeStatusError (GenEP.RevocationError now) "ErrServerError"))
        | .ok (tokenID, userID, ok) =>
        (if ok then
          let v_r_Data_Token := tokenID;
          let r := ({ r with Data := ({ (r).Data with Token := v_r_Data_Token } : type_of% (r).Data) } : type_of% r);
          let subject := userID;
          (match (((((s).provider).Storage)).RevokeToken ((r).Data).Token subject (((r).Client).GetID)) with
          | .error err => (.error (Hand.epEncodeStatusError (GenEP.RevocationError now) err))
          | .ok _ =>
          (.ok (Hand.epRevokedFor (r).Client Go.nil)))
        else
        (match (((((s).provider).Storage)).RevokeToken ((r).Data).Token subject (((r).Client).GetID)) with
          | .error err => (.error (Hand.epEncodeStatusError (GenEP.RevocationError now) err))
          | .ok _ =>
          (.ok (Hand.epRevokedFor (r).Client Go.nil)))))
      else
      (match (((((s).provider).Storage)).RevokeToken ((r).Data).Token subject (((r).Client).GetID)) with
          | .error err => (.error (Hand.epEncodeStatusError (GenEP.RevocationError now) err))
          | .ok _ =>
          (.ok (Hand.epRevokedFor (r).Client Go.nil)))))

theorem LegacyRevocation_eq (now : Int) (s : EPLegacyServer) (r : ClientRequest EPForm) : GenEP.LegacyRevocation now s r = SpecEP.LegacyRevocation now s r := by
  unfold GenEP.LegacyRevocation SpecEP.LegacyRevocation; ep_shape

/-- frozen normal form of `GenEP.codeExchangeHandler` (pkg/op/server_http.go:301 `webServer.codeExchangeHandler`) -/
def codeExchangeHandler (now : Int) (o : EPOracles) (s : EPWebServer) (r : EPRequest) (client : OPClient) : EPResp :=
  (match (GenEP.decodeRequest now (s).decoder r false) with
  | .error err => (GenEP.WriteError now r err)
  | .ok request =>
  (if ((request).Code == "") then
    (GenEP.WriteError now r "ErrInvalidRequest")
  else
  (if ((request).RedirectURI == "") then
      (GenEP.WriteError now r "ErrInvalidRequest")
    else
    (match (Hand.epLegacyCodeExchange now o (s).server (Hand.epNewClientRequest r request client)) with
      | .error err => (GenEP.WriteError now r err)
      | .ok resp =>
      (EPResp.ok resp )))))

theorem codeExchangeHandler_eq (now : Int) (o : EPOracles) (s : EPWebServer) (r : EPRequest) (client : OPClient) : GenEP.codeExchangeHandler now o s r client = SpecEP.codeExchangeHandler now o s r client := by
  unfold GenEP.codeExchangeHandler SpecEP.codeExchangeHandler; ep_shape

/-- frozen normal form of `GenEP.refreshTokenHandler` (pkg/op/server_http.go:323 `webServer.refreshTokenHandler`) -/
def refreshTokenHandler (now : Int) (o : EPOracles) (s : EPWebServer) (r : EPRequest) (client : OPClient) : EPResp :=
  (match (GenEP.decodeRequest now (s).decoder r false) with
  | .error err => (GenEP.WriteError now r err)
  | .ok request =>
  (if ((request).RefreshToken == "") then
    (GenEP.WriteError now r "ErrInvalidRequest")
  else
  (match (Hand.epLegacyRefreshToken now o (s).server (Hand.epNewClientRequest r request client)) with
    | .error err => (GenEP.WriteError now r err)
    | .ok resp =>
    (EPResp.ok resp ))))

theorem refreshTokenHandler_eq (now : Int) (o : EPOracles) (s : EPWebServer) (r : EPRequest) (client : OPClient) : GenEP.refreshTokenHandler now o s r client = SpecEP.refreshTokenHandler now o s r client := by
  unfold GenEP.refreshTokenHandler SpecEP.refreshTokenHandler; ep_shape

/-- frozen normal form of `GenEP.tokenExchangeHandler` (pkg/op/server_http.go:341 `webServer.tokenExchangeHandler`) -/
def tokenExchangeHandler (now : Int) (o : EPOracles) (s : EPWebServer) (r : EPRequest) (client : OPClient) : EPResp :=
  (match (GenEP.decodeRequest now (s).decoder r false) with
  | .error err => (GenEP.WriteError now r err)
  | .ok request =>
  (if ((request).SubjectToken == "") then
    (GenEP.WriteError now r "ErrInvalidRequest")
  else
  (if ((request).SubjectTokenType == "") then
      (GenEP.WriteError now r "ErrInvalidRequest")
    else
    (if (((request).ActorToken != "") && ((request).ActorTokenType == "")) then
        (GenEP.WriteError now r "ErrInvalidRequest")
      else
      (if (!(Hand.epTokenTypeSupported (request).SubjectTokenType)) then
          (GenEP.WriteError now r "ErrInvalidRequest")
        else
        (if (((request).RequestedTokenType != "") && (!(Hand.epTokenTypeSupported (request).RequestedTokenType))) then
            (GenEP.WriteError now r "ErrInvalidRequest")
          else
          (if (((request).ActorTokenType != "") && (!(Hand.epTokenTypeSupported (request).ActorTokenType))) then
              (GenEP.WriteError now r "ErrInvalidRequest")
            else
            (match (GenEP.LegacyTokenExchange now (s).server (Hand.epNewClientRequest r request client)) with
              | .error err => (GenEP.WriteError now r err)
              | .ok resp =>
              (EPResp.ok resp )))))))))

theorem tokenExchangeHandler_eq (now : Int) (o : EPOracles) (s : EPWebServer) (r : EPRequest) (client : OPClient) : GenEP.tokenExchangeHandler now o s r client = SpecEP.tokenExchangeHandler now o s r client := by
  unfold GenEP.tokenExchangeHandler SpecEP.tokenExchangeHandler; ep_shape

/-- frozen normal form of `GenEP.clientCredentialsHandler` (pkg/op/server_http.go:375 `webServer.clientCredentialsHandler`) -/
def clientCredentialsHandler (now : Int) (o : EPOracles) (s : EPWebServer) (r : EPRequest) (client : OPClient) : EPResp :=
  (if (((client).AuthMethod) == Const.AuthMethodNone) then
    (GenEP.WriteError now r "ErrInvalidClient")
  else
  (match (GenEP.decodeRequest now (s).decoder r false) with
    | .error err => (GenEP.WriteError now r err)
    | .ok request =>
    (match (GenEP.LegacyClientCredentialsExchange now (s).server (Hand.epNewClientRequest r request client)) with
    | .error err => (GenEP.WriteError now r err)
    | .ok resp =>
    (EPResp.ok resp ))))

theorem clientCredentialsHandler_eq (now : Int) (o : EPOracles) (s : EPWebServer) (r : EPRequest) (client : OPClient) : GenEP.clientCredentialsHandler now o s r client = SpecEP.clientCredentialsHandler now o s r client := by
  unfold GenEP.clientCredentialsHandler SpecEP.clientCredentialsHandler; ep_shape

/-- frozen normal form of `GenEP.deviceTokenHandler` (pkg/op/server_http.go:394 `webServer.deviceTokenHandler`) -/
def deviceTokenHandler (now : Int) (o : EPOracles) (s : EPWebServer) (r : EPRequest) (client : OPClient) : EPResp :=
  (match (GenEP.decodeRequest now (s).decoder r false) with
  | .error err => (GenEP.WriteError now r err)
  | .ok request =>
  (if ((request).DeviceCode == "") then
    (GenEP.WriteError now r "ErrInvalidRequest")
  else
  (match (GenEP.LegacyDeviceToken now (s).server (Hand.epNewClientRequest r request client)) with
    | .error err => (GenEP.WriteError now r err)
    | .ok resp =>
    (EPResp.ok resp ))))

theorem deviceTokenHandler_eq (now : Int) (o : EPOracles) (s : EPWebServer) (r : EPRequest) (client : OPClient) : GenEP.deviceTokenHandler now o s r client = SpecEP.deviceTokenHandler now o s r client := by
  unfold GenEP.deviceTokenHandler SpecEP.deviceTokenHandler; ep_shape

/-- frozen normal form of `GenEP.jwtProfileHandler` (pkg/op/server_http.go:283 `webServer.jwtProfileHandler`) -/
def jwtProfileHandler (now : Int) (o : EPOracles) (s : EPWebServer) (r : EPRequest) : EPResp :=
  (match (GenEP.decodeRequest now (s).decoder r false) with
  | .error err => (GenEP.WriteError now r err)
  | .ok request =>
  (if ((request).Assertion == "") then
    (GenEP.WriteError now r "ErrInvalidRequest")
  else
  (match (GenEP.LegacyJWTProfile now o (s).server (Hand.epNewRequest r request)) with
    | .error err => (GenEP.WriteError now r err)
    | .ok resp =>
    (EPResp.ok resp ))))

theorem jwtProfileHandler_eq (now : Int) (o : EPOracles) (s : EPWebServer) (r : EPRequest) : GenEP.jwtProfileHandler now o s r = SpecEP.jwtProfileHandler now o s r := by
  unfold GenEP.jwtProfileHandler SpecEP.jwtProfileHandler; ep_shape

/-- frozen normal form of `GenEP.deviceAuthorizationHandler` (pkg/op/server_http.go:243 `webServer.deviceAuthorizationHandler`) -/
def deviceAuthorizationHandler (now : Int) (o : EPOracles) (s : EPWebServer) (r : EPRequest) (client : OPClient) : EPResp :=
  (match (GenEP.decodeRequest now (s).decoder r false) with
  | .error err => (GenEP.WriteError now r err)
  | .ok request =>
  (match (GenEP.LegacyDeviceAuthorization now (s).server (Hand.epNewClientRequest r request client)) with
  | .error err => (GenEP.WriteError now r err)
  | .ok resp =>
  (EPResp.ok resp )))

theorem deviceAuthorizationHandler_eq (now : Int) (o : EPOracles) (s : EPWebServer) (r : EPRequest) (client : OPClient) : GenEP.deviceAuthorizationHandler now o s r client = SpecEP.deviceAuthorizationHandler now o s r client := by
  unfold GenEP.deviceAuthorizationHandler SpecEP.deviceAuthorizationHandler; ep_shape

/-- frozen normal form of `GenEP.introspectionHandler` (pkg/op/server_http.go:412 `webServer.introspectionHandler`) -/
def introspectionHandler (now : Int) (o : EPOracles) (s : EPWebServer) (r : EPRequest) : EPResp :=
  (match (GenEP.parseClientCredentials now o s r) with
  | .error err => (GenEP.WriteError now r err)
  | .ok cc =>
  (if (((cc).ClientSecret == "") && ((cc).ClientAssertion == "")) then
    (GenEP.WriteError now r "ErrInvalidClient")
  else
  (match (GenEP.decodeRequest now (s).decoder r false) with
    | .error err => (GenEP.WriteError now r err)
    | .ok request =>
    (if ((request).Token == "") then
      (GenEP.WriteError now r "ErrInvalidRequest")
    else
    (match (GenEP.LegacyIntrospect now o (s).server (Hand.epNewRequest r (EPIntrospectionRequest.mk cc request))) with
      | .error err => (GenEP.WriteError now r err)
      | .ok resp =>
      (Hand.epIntrospected resp ))))))

theorem introspectionHandler_eq (now : Int) (o : EPOracles) (s : EPWebServer) (r : EPRequest) : GenEP.introspectionHandler now o s r = SpecEP.introspectionHandler now o s r := by
  unfold GenEP.introspectionHandler SpecEP.introspectionHandler; ep_shape

/-- frozen normal form of `GenEP.revocationHandler` (pkg/op/server_http.go:464 `webServer.revocationHandler`) -/
def revocationHandler (now : Int) (o : EPOracles) (s : EPWebServer) (r : EPRequest) (client : OPClient) : EPResp :=
  (match (GenEP.decodeRequest now (s).decoder r false) with
  | .error err => (GenEP.WriteError now r err)
  | .ok request =>
  (if ((request).Token == "") then
    (GenEP.WriteError now r "ErrInvalidRequest")
  else
  (match (GenEP.LegacyRevocation now (s).server (Hand.epNewClientRequest r request client)) with
    | .error err => (GenEP.WriteError now r err)
    | .ok resp =>
    (EPResp.ok resp ))))

theorem revocationHandler_eq (now : Int) (o : EPOracles) (s : EPWebServer) (r : EPRequest) (client : OPClient) : GenEP.revocationHandler now o s r client = SpecEP.revocationHandler now o s r client := by
  unfold GenEP.revocationHandler SpecEP.revocationHandler; ep_shape

/-- frozen normal form of `GenEP.tokensHandler` (pkg/op/server_http.go:257 `webServer.tokensHandler`) -/
def tokensHandler (now : Int) (o : EPOracles) (s : EPWebServer) (r : EPRequest) : EPResp :=
  (match ((r).ParseForm) with
  | .error err => (GenEP.WriteError now r "ErrInvalidRequest")
  | .ok _ =>
  let grantType := (((r).Form).Get "grant_type");
    (if (grantType == Const.GrantTypeCode) then
      (GenEP.withClient now o s (GenEP.codeExchangeHandler now o s) r)
    else if (grantType == Const.GrantTypeRefreshToken) then
      (GenEP.withClient now o s (GenEP.refreshTokenHandler now o s) r)
    else if (grantType == Const.GrantTypeClientCredentials) then
      (GenEP.withClient now o s (GenEP.clientCredentialsHandler now o s) r)
    else if (grantType == Const.GrantTypeBearer) then
      (GenEP.jwtProfileHandler now o s r)
    else if (grantType == Const.GrantTypeTokenExchange) then
      (GenEP.withClient now o s (GenEP.tokenExchangeHandler now o s) r)
    else if (grantType == Const.GrantTypeDeviceCode) then
      (GenEP.withClient now o s (GenEP.deviceTokenHandler now o s) r)
    else if (grantType == "") then
      (GenEP.WriteError now r "ErrInvalidRequest")
    else (GenEP.WriteError now r (Hand.unimplementedGrantError grantType))))

theorem tokensHandler_eq (now : Int) (o : EPOracles) (s : EPWebServer) (r : EPRequest) : GenEP.tokensHandler now o s r = SpecEP.tokensHandler now o s r := by
  unfold GenEP.tokensHandler SpecEP.tokensHandler; ep_shape

end SpecEP
