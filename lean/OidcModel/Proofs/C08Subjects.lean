/-
  C08, round 4: the content of an opaque access token is `<token id>:<subject>` (pkg/op/token.go CreateBearerToken) and THREE copies of
  the code that takes it apart exist: `getTokenIDAndSubject` (userinfo.go: userinfo and introspection of both routers),
  `getTokenIDAndSubjectForRevocation` (token_revocation.go: revocation of both routers) and `getTokenIDAndClaims` (token_exchange.go:
  subject and actor tokens).  "Revocation takes effect everywhere" needs the three to read every string alike.

  * `c08_parsers_agree` — the three REGENERATED readers return the same (token id, subject, ok) for EVERY presented string, under every
    oracle (whatever `Decrypt` / go-jose make of it) and every verifier: they accept exactly the same strings.  Changing one of them
    (a `strings.Cut`, a split at the last colon, a relaxed part count) breaks this theorem.
  * `c08_parsers_opaque`, `opaqueParts_isSome_iff` — on a string that decrypts, all three accept iff the plaintext holds EXACTLY ONE ':'
    (and then id / subject are the two sides).  `c08_colon_subject_unreadable`: the opaque token of a subject that contains a ':'
    (URN, DID, `idp:id`) is read by none of them.
  * `honoured_is_resolved` — what userinfo / introspection / token exchange of either router honour is the access token whose id the
    readers extracted from the presented string.
  * `c08_unreadable_history` — histories: a string whose plaintext does not have exactly one ':' is honoured at NO endpoint of either
    router at any point of any history (whatever else happens: issuance, revocations of that very string answered 200, logouts).
  * `c08_revoked_string_sticks` — histories: after the owner's revocation of an access-token string (answered 200, proved in
    `revoke_kills_at`) NO later presentation of that string, read as at the revocation, is honoured at any endpoint of either router -
    for every plaintext, in particular every subject.
  * `c08_jwt_other_issuer_unreadable`, `c08_jwt_other_issuer_refused`, `c08_jwt_other_issuer_history` — over EVERY storage (flat or
    partitioning; no hypothesis on the state): a JWT whose payload names another issuer than the one the request is addressed to is
    refused by all three regenerated readers (the storage is not asked) and honoured at no operation of any history.  They rest on the
    REGENERATED `Provider.AccessTokenVerifier` (`provider_verifier`): memoising the verifier (seeded C08-D) takes them down.
-/
import OidcModel.Proofs.C08Deep

namespace Res
open Go Hand

/-! ### the separator count -/

theorem resSplitChars_ne_nil (c : Char) (l : List Char) : Hand.resSplitChars c l ≠ [] := by
  cases l with
  | nil => simp [Hand.resSplitChars]
  | cons x xs =>
    unfold Hand.resSplitChars
    split
    · simp
    · split <;> simp

/-- `strings.Split(s, sep)` yields one part more than there are separators -/
theorem resSplitChars_length (c : Char) (l : List Char) : (Hand.resSplitChars c l).length = l.count c + 1 := by
  induction l with
  | nil => simp [Hand.resSplitChars]
  | cons x xs ih =>
    unfold Hand.resSplitChars
    split
    · rename_i h; exact absurd h (resSplitChars_ne_nil c xs)
    · rename_i hd tl h
      rw [h] at ih
      by_cases hx : x = c
      · subst hx; simp at ih ⊢; omega
      · have hb : (x == c) = false := by simpa using hx
        simp [hb, List.count_cons] at ih ⊢
        omega

theorem resSplit_length (plain : String) : (Hand.resSplit plain ":").length = plain.toList.count ':' + 1 := by
  have h : (":" : String).toList = [':'] := rfl
  unfold Hand.resSplit
  rw [h]
  simp [resSplitChars_length]

/-- what ALL readers make of the plaintext of an opaque access token: the two sides of its only ':' -/
def opaqueParts (plain : String) : Option (String × String) :=
  match Hand.resSplit plain ":" with
  | [a, b] => some (a, b)
  | _ => none

/-- a plaintext is accepted iff it holds exactly one separator -/
theorem opaqueParts_isSome_iff (plain : String) : (opaqueParts plain).isSome = true ↔ plain.toList.count ':' = 1 := by
  have hl := resSplit_length plain
  unfold opaqueParts
  rcases split_cases (Hand.resSplit plain ":") with ⟨a, b, h⟩ | ⟨_, h2⟩
  · rw [h] at hl ⊢; simp at hl ⊢; omega
  · constructor
    · intro hs
      split at hs
      · rename_i a b h; exact absurd h (h2 a b)
      · simp at hs
    · intro hc
      rw [hc] at hl
      match hsp : Hand.resSplit plain ":" with
      | [a, b] => exact absurd hsp (h2 a b)
      | [] => rw [hsp] at hl; simp at hl
      | [a] => rw [hsp] at hl; simp at hl
      | a :: b :: c :: r => rw [hsp] at hl; simp at hl

theorem resolve_opaque {now : Int} {p : ResProvider} {tok plain : String} (hd : p.decrypt tok = .ok plain) :
    resolve now p tok = opaqueParts plain := by
  unfold resolve opaqueParts
  rw [hd]
  rfl

/-! ### the three readers agree -/

/-- the three REGENERATED readers of a presented access-token string - userinfo / introspection, revocation, token exchange - return
    the same token id, the same subject and the same verdict for EVERY string, every oracle and every verifier -/
theorem c08_parsers_agree (now : Int) (p : ResProvider) (tok : String) :
    GenRes.getTokenIDAndSubjectForRevocation now p tok = .ok (GenRes.getTokenIDAndSubject now p tok) ∧
    ((GenRes.getTokenIDAndClaims now p tok).1, (GenRes.getTokenIDAndClaims now p tok).2.1, (GenRes.getTokenIDAndClaims now p tok).2.2.2)
      = GenRes.getTokenIDAndSubject now p tok := by
  rw [getTokenIDAndSubjectForRevocation_eq, getTokenIDAndSubject_eq, getTokenIDAndClaims_eq]
  exact ⟨rfl, rfl⟩

/-- on a string that decrypts, all three accept exactly the plaintexts with ONE ':' and extract its two sides -/
theorem c08_parsers_opaque (now : Int) (p : ResProvider) (tok plain : String) (hd : p.decrypt tok = .ok plain) :
    GenRes.getTokenIDAndSubject now p tok = resolved (opaqueParts plain) ∧
    GenRes.getTokenIDAndSubjectForRevocation now p tok = .ok (resolved (opaqueParts plain)) ∧
    ((GenRes.getTokenIDAndClaims now p tok).1, (GenRes.getTokenIDAndClaims now p tok).2.1, (GenRes.getTokenIDAndClaims now p tok).2.2.2)
      = resolved (opaqueParts plain) := by
  rw [getTokenIDAndSubjectForRevocation_eq, getTokenIDAndSubject_eq, getTokenIDAndClaims_eq, resolve_opaque hd]
  exact ⟨rfl, rfl, rfl⟩

/-- the opaque token `CreateBearerToken` makes for a subject (or token id) that contains the separator is read by NONE of the readers -/
theorem c08_colon_subject_unreadable (id sub : String) (h : ':' ∈ sub.toList ∨ ':' ∈ id.toList) : opaqueParts (id ++ ":" ++ sub) = none := by
  have hc : (id ++ ":" ++ sub).toList.count ':' ≠ 1 := by
    have h1 : (":" : String).toList = [':'] := rfl
    simp only [String.toList_append, h1, List.count_append, List.count_cons_self, List.count_nil]
    rcases h with h | h
    · have := List.count_pos_iff.mpr h; omega
    · have := List.count_pos_iff.mpr h; omega
  cases ho : opaqueParts (id ++ ":" ++ sub) with
  | none => rfl
  | some pr =>
    have := (opaqueParts_isSome_iff (id ++ ":" ++ sub)).mp (by rw [ho]; rfl)
    exact absurd this hc

/-! ### what is honoured is what the readers extracted -/

/-- the reading of a string does not depend on the storage state -/
theorem resolve_state (atp : ResATProvider) (e : Env) (s s' : St) (tok : String) :
    resolve e.now (provider atp e s) tok = resolve e.now (provider atp e s') tok := rfl

/-- userinfo, introspection and token exchange (access-token subject) of either router honour the access token whose id the readers
    extracted from the presented string - nothing else -/
theorem honoured_is_resolved (atp : ResATProvider) (s : St) (op : Op) (x : Ref) (e : Env) (tok : String)
    (hp : presentedAt op = some (e, tok)) (h : (step atp s op).2 = some x) :
    ∃ id sub, resolve e.now (provider atp e s) tok = some (id, sub) ∧ x = .at id := by
  cases op with
  | issue t r => simp [presentedAt] at hp
  | expire y => simp [presentedAt] at hp
  | revoke rt e' c hint tok' => simp [presentedAt] at hp
  | endSession a b => simp [presentedAt] at hp
  | refresh t => simp [presentedAt] at hp
  | userinfo rt e' tok' =>
    simp only [presentedAt, Option.some.injEq, Prod.mk.injEq] at hp
    obtain ⟨rfl, rfl⟩ := hp
    simp only [step, userinfo_spec] at h
    cases hr : resolve e'.now (provider atp e' s) tok' with
    | none => simp [hr] at h
    | some pr =>
      obtain ⟨id, sub⟩ := pr
      refine ⟨id, sub, rfl, ?_⟩
      simp only [hr] at h
      cases hs : s.SetUserinfoFromToken e'.issuer id sub with
      | error err => simp [hs] at h
      | ok u =>
        obtain ⟨t, ht, rfl⟩ := setUserinfo_ok hs
        simp only [hs, Option.some.injEq] at h
        rw [← h, (liveTok_some ht).2.1]
  | introspect rt e' c tok' =>
    simp only [presentedAt, Option.some.injEq, Prod.mk.injEq] at hp
    obtain ⟨rfl, rfl⟩ := hp
    simp only [step, introspect_spec] at h
    cases c with
    | none => simp at h
    | some cid =>
      simp only [] at h
      rcases refIntrospect_cases e'.now (provider atp e' s) tok' cid with h0 | ⟨id, sub, t, hr, ht, _, hans⟩
      · rw [h0] at h; have hd : (default : ResIntrospection).Active = false := rfl
        simp [hd] at h
      · refine ⟨id, sub, hr, ?_⟩
        rw [hans] at h
        simp only [if_true, Option.some.injEq] at h
        have hid : t.id = id := (liveTok_some ht).2.1
        rw [← h, hid]
  | exchange e' asRefresh tok' =>
    cases asRefresh with
    | true => simp [presentedAt] at hp
    | false =>
      simp only [presentedAt, Option.some.injEq, Prod.mk.injEq] at hp
      obtain ⟨rfl, rfl⟩ := hp
      simp only [step, exchange, Bool.false_eq_true, if_false] at h
      have hb := getTokenIDAndClaims_eq e'.now (provider atp e' s) tok'
      cases hg : GenRes.getTokenIDAndClaims e'.now (provider atp e' s) tok' with
      | mk gid rest =>
        obtain ⟨gsub, gcl, gok⟩ := rest
        rw [hg] at hb h
        simp only [] at hb
        cases gok with
        | false => simp at h
        | true =>
          simp only [Option.map_eq_some_iff] at h
          obtain ⟨t, ht, rfl⟩ := h
          cases hr : resolve e'.now (provider atp e' s) tok' with
          | none => rw [hr] at hb; simp [resolved] at hb
          | some pr =>
            obtain ⟨id, sub⟩ := pr
            rw [hr] at hb
            simp only [resolved, Prod.mk.injEq] at hb
            refine ⟨id, sub, rfl, ?_⟩
            rw [(liveTok_some ht).2.1, hb.1]

/-- a string no reader accepts is honoured at no endpoint of either router -/
theorem c08_unreadable_refused_everywhere (atp : ResATProvider) (s : St) (op : Op) (e : Env) (tok : String)
    (hp : presentedAt op = some (e, tok)) (hr : resolve e.now (provider atp e s) tok = none) : (step atp s op).2 = none := by
  cases h : (step atp s op).2 with
  | none => rfl
  | some x =>
    obtain ⟨id, sub, hr', _⟩ := honoured_is_resolved atp s op x e tok hp h
    rw [hr] at hr'; cases hr'

/-! ### JWT access tokens are bound to their issuer by the LIBRARY, over every storage

  A multi-issuer provider (`op.IssuerFromHost`, `IssuerFromForwardedOrHost`) may sit on a storage that keeps ONE token table for all its
  issuers.  Opaque and refresh tokens carry no issuer: for them the storage is the only check.  A JWT access token names its issuer, and
  the regenerated `Provider.AccessTokenVerifier` builds the verifier of every request from the issuer of THAT request: -/

/-- the three REGENERATED readers refuse a JWT whose payload names another issuer than the one the request is addressed to - the storage
    is not even asked: the statement holds for every `s` (flat, partitioning, anything), every key set and every verifier option -/
theorem c08_jwt_other_issuer_unreadable (atp : ResATProvider) (e : Env) (s : St) (tok : String)
    (hd : ∀ pl, e.decrypt tok ≠ .ok pl)
    (hiss : ∀ pl c0, ParseToken e.now (e.tokenOf tok) = .ok (pl, c0) → c0.iss ≠ e.issuer) :
    resolve e.now (provider atp e s) tok = none ∧
    GenRes.getTokenIDAndSubject e.now (provider atp e s) tok = ("", "", false) ∧
    GenRes.getTokenIDAndSubjectForRevocation e.now (provider atp e s) tok = .ok ("", "", false) ∧
    (GenRes.getTokenIDAndClaims e.now (provider atp e s) tok).2.2.2 = false := by
  have hr : resolve e.now (provider atp e s) tok = none := by
    cases hr : resolve e.now (provider atp e s) tok with
    | none => rfl
    | some pr =>
      obtain ⟨id, sub⟩ := pr
      obtain ⟨pl, c0, c, hp, hi, _⟩ := jwt_resolve (p := provider atp e s) hd hr
      rw [provider_verifier] at hi
      exact absurd hi (hiss pl c0 hp)
  refine ⟨hr, ?_, ?_, ?_⟩
  · rw [getTokenIDAndSubject_eq, hr]; rfl
  · rw [getTokenIDAndSubjectForRevocation_eq, hr]; rfl
  · have := getTokenIDAndClaims_eq e.now (provider atp e s) tok
    rw [hr] at this
    simp only [resolved, Prod.mk.injEq] at this
    exact this.2.2

/-- C08 over EVERY storage: a JWT access token presented at an issuer other than the one its payload names is honoured at no endpoint
    (userinfo, introspection, token exchange) of either router, whatever the storage state - in particular when the storage is flat and
    finds the token's record under every issuer -/
theorem c08_jwt_other_issuer_refused (atp : ResATProvider) (s : St) (op : Op) (e : Env) (tok : String)
    (hp : presentedAt op = some (e, tok)) (hd : ∀ pl, e.decrypt tok ≠ .ok pl)
    (hiss : ∀ pl c0, ParseToken e.now (e.tokenOf tok) = .ok (pl, c0) → c0.iss ≠ e.issuer) : (step atp s op).2 = none :=
  c08_unreadable_refused_everywhere atp s op e tok hp (c08_jwt_other_issuer_unreadable atp e s tok hd hiss).1

/-! ### histories -/

/-- a statement about every operation of a history together with its outcome -/
def Aligned (P : Op → Option Ref → Prop) : List Op → List (Option Ref) → Prop
  | [], [] => True
  | op :: ops, o :: os => P op o ∧ Aligned P ops os
  | _, _ => False

/-- rewriting records in place forgets none -/
theorem Rewrites.known_at {s s' : St} (h : Rewrites s s') (id : String) (hk : Known s (.at id)) : Known s' (.at id) := by
  obtain ⟨⟨f, hf, hfid, _⟩, _⟩ := h
  obtain ⟨t, ht, hti⟩ := hk
  exact ⟨f t, by rw [hf]; exact List.mem_map_of_mem ht, by rw [hfid]; exact hti⟩

/-- C08 over histories with separator-bearing subjects: a string whose plaintext - at every presentation - does not hold exactly one ':'
    (the opaque token of a subject with a colon, whatever is flipped in it) is honoured at NO point of ANY history, on either router,
    whatever else the history contains: in particular not after a revocation of that very string that was answered 200 -/
theorem c08_unreadable_history (atp : ResATProvider) (tok : String) (ops : List Op) (s : St)
    (hu : ∀ op, op ∈ ops → ∀ e, presentedAt op = some (e, tok) → ∃ plain, e.decrypt tok = .ok plain ∧ plain.toList.count ':' ≠ 1) :
    Aligned (fun op o => (∃ e, presentedAt op = some (e, tok)) → o = none) ops (run atp s ops).2 := by
  induction ops generalizing s with
  | nil => simp [run, Aligned]
  | cons op rest ih =>
    simp only [run, Aligned]
    refine ⟨?_, ih (step atp s op).1 fun o ho => hu o (List.mem_cons_of_mem _ ho)⟩
    rintro ⟨e, hp⟩
    obtain ⟨plain, hd, hc⟩ := hu op (List.mem_cons_self) e hp
    apply c08_unreadable_refused_everywhere atp s op e tok hp
    have hd' : (provider atp e s).decrypt tok = .ok plain := hd
    rw [resolve_opaque hd']
    cases ho : opaqueParts plain with
    | none => rfl
    | some pr => exact absurd ((opaqueParts_isSome_iff plain).mp (by rw [ho]; rfl)) hc

/-- C08 over histories, for EVERY plaintext and subject: once the owning client has revoked an access-token string (no storage fault;
    the answer is 200 by `revoke_kills_at`), no later presentation of that string that is read as it was read at the revocation is
    honoured - at userinfo, introspection or token exchange, on either router, after any history -/
theorem c08_revoked_string_sticks (rt : Router) (atp : ResATProvider) (e : Env) (s : St) (cid hint tok id sub : String) (t : Tok)
    (hf : NoRevocationFault e)
    (hr : resolve e.now (provider atp e s) tok = some (id, sub)) (hl : s.lookup e.issuer id = some t) (hown : t.client = cid)
    (hnr : s.lookupR e.issuer tok = none) (ops : List Op) :
    (revoke rt atp e s (some cid) hint tok).2 = .ok ∧
    Aligned (fun op o => ∀ e', presentedAt op = some (e', tok) → resolve e'.now (provider atp e' s) tok = some (id, sub) → o = none)
      ops (run atp (revoke rt atp e s (some cid) hint tok).1 ops).2 := by
  obtain ⟨hok, hdead⟩ := revoke_kills_at rt atp e s cid hint tok id sub t hf hr hl hown hnr
  refine ⟨hok, ?_⟩
  have hknown : Known (revoke rt atp e s (some cid) hint tok).1 (.at id) :=
    (revoke_rewrites rt atp e s (some cid) hint tok).known_at id ⟨t, (lookup_some hl).1, (lookup_some hl).2.1⟩
  generalize (revoke rt atp e s (some cid) hint tok).1 = s1 at hdead hknown
  induction ops generalizing s1 with
  | nil => simp [run, Aligned]
  | cons op rest ih =>
    simp only [run, Aligned]
    obtain ⟨h1, h2⟩ := dead_step atp s1 op (.at id) hdead hknown
    refine ⟨?_, ih (step atp s1 op).1 h1 h2⟩
    intro e' hp hr'
    cases ho : (step atp s1 op).2 with
    | none => rfl
    | some x =>
      obtain ⟨id', sub', hr'', rfl⟩ := honoured_is_resolved atp s1 op x e' tok hp ho
      rw [resolve_state atp e' s1 s, hr'] at hr''
      simp only [Option.some.injEq, Prod.mk.injEq] at hr''
      obtain ⟨rfl, _⟩ := hr''
      exact absurd ho (dead_not_honoured atp s1 op (.at _) hdead)

/-- C08 over histories and EVERY storage (no hypothesis on `s`, in particular none on `s.partitioned`): a JWT access token is never
    honoured at an operation addressed to another issuer than the one its payload names, at any point of any history -/
theorem c08_jwt_other_issuer_history (atp : ResATProvider) (tok : String) (ops : List Op) (s : St)
    (hu : ∀ op, op ∈ ops → ∀ e, presentedAt op = some (e, tok) →
      (∀ pl, e.decrypt tok ≠ .ok pl) ∧ ∀ pl c0, ParseToken e.now (e.tokenOf tok) = .ok (pl, c0) → c0.iss ≠ e.issuer) :
    Aligned (fun op o => (∃ e, presentedAt op = some (e, tok)) → o = none) ops (run atp s ops).2 := by
  induction ops generalizing s with
  | nil => simp [run, Aligned]
  | cons op rest ih =>
    simp only [run, Aligned]
    refine ⟨?_, ih (step atp s op).1 fun o ho => hu o (List.mem_cons_of_mem _ ho)⟩
    rintro ⟨e, hp⟩
    obtain ⟨hd, hiss⟩ := hu op (List.mem_cons_self) e hp
    exact c08_jwt_other_issuer_refused atp s op e tok hp hd hiss

/-! ### non-vacuity -/

example : opaqueParts "at1:user1" = some ("at1", "user1") := by decide
example : opaqueParts "at1:urn:example:user:alice" = none := by decide
example : opaqueParts "at1user1" = none := by decide
-- the opaque token of a URN subject: refused at userinfo, introspection and exchange, its revocation answers 200 and changes nothing
def exUrnTok : Tok := { id := "at7", client := "web", subject := "urn:example:user:alice", audience := ["web"] }
def exUrnSt : St := { toks := [exUrnTok] }
def exUrnEnv : Env := { decrypt := fun t => if t == "opaque7" then .ok "at7:urn:example:user:alice" else .error "illegal base64 data" }
example : (run {} exUrnSt [.userinfo .provider exUrnEnv "opaque7", .introspect .legacy exUrnEnv (some "web") "opaque7", .exchange exUrnEnv false "opaque7",
    .revoke .provider exUrnEnv (some "web") "" "opaque7", .userinfo .legacy exUrnEnv "opaque7", .exchange exUrnEnv false "opaque7"]).2
    = [none, none, none, none, none, none] := by decide
example : (revoke .provider {} exUrnEnv exUrnSt (some "web") "access_token" "opaque7").2 = .ok ∧
    (revoke .provider {} exUrnEnv exUrnSt (some "web") "access_token" "opaque7").1.toks = exUrnSt.toks := by decide
example : (revoke .legacy {} exUrnEnv exUrnSt (some "evil") "" "opaque7").2 = .ok ∧
    (revoke .legacy {} exUrnEnv exUrnSt (some "evil") "" "opaque7").1.toks = exUrnSt.toks := by decide

-- a FLAT storage (one table, `partitioned := false`) under a multi-issuer provider: the opaque token of issuer A is found at B (the
-- storage's doing), the JWT of issuer A is refused at B by the library
def exFlatSt : St := { toks := [{ exTok with issuer := "https://a.example" }], rtoks := [{ exRT with issuer := "https://a.example" }], partitioned := false }
example : (run exATP exFlatSt [.userinfo .provider exOpB "opaque1", .userinfo .provider exEnvA "jwtA", .userinfo .provider exEnvB "jwtA",
    .introspect .legacy exEnvB (some "web") "jwtA", .exchange exEnvB false "jwtA"]).2
    = [some (.at "at1"), some (.at "at1"), none, none, none] := by decide

end Res
