/-
  C07 for token requests AS THEY TRAVEL and registrations that change (Model/C07Wire.lean, Spec/C07Wire.lean).

  Layer 1 - one characterisation lemma per REGENERATED wire-level function (Generated/TokenWire.lean, namespace GenTok): an
            equation with a hand-readable function of `WireSpec`, proved with the shape-independent `go_leaf`.
  Layer 2 - everything else uses only those lemmas: the wire-level token endpoint of either router IS the typed
            `Flow.refreshExchange` / `Flow.codeExchange` on the request read off the wire (`tokenEndpoint_eq`), hence
            "a refresh succeeds only if the client's CURRENT registration contains the refresh grant - for every request
            shape, on both routers" (`wire_refresh_needs_current_grant`), and the history theorems over `Flow.OpX`.
-/
import OidcModel.Proofs.C07History
import OidcModel.Model.C07Wire
import OidcModel.Spec.C07Wire
import OidcModel.GoTac

namespace WireSpec
open Go Gen Hand Flow

/-! ## Hand-readable reading of a request -/

/-- `Authorization: Basic` overrides the client id / secret of the decoded form; an undecodable header is invalid_client -/
def withBasic (o : TokOracles) (r : TokRequest) (f : TokForm) : Go.R TokForm :=
  match r.w.basic with
  | none => .ok f
  | some (u, p) =>
    match o.unescape u with
    | .error _ => .error "ErrInvalidClient"
    | .ok u' =>
      match o.unescape p with
      | .error _ => .error "ErrInvalidClient"
      | .ok p' => .ok { f with ClientID := u', ClientSecret := p' }

/-- the form the handlers work with: every parameter's LAST value in `r.Form` (body pairs, then query pairs), Basic on top -/
def creds (o : TokOracles) (r : TokRequest) : Go.R TokForm := withBasic o r (TokForm.decode r.Form)

/-- the two presence checks of `parseClientCredentials` -/
def ccChecks (f : TokForm) : Go.R TokForm :=
  if f.ClientID == "" && f.ClientAssertion == "" then .error "ErrInvalidRequest"
  else if f.ClientAssertion != "" && f.ClientAssertionType != Const.ClientAssertionTypeJWTAssertion then .error "ErrInvalidRequest"
  else .ok f

def lift (x : Go.R IssueFor) : TokResp :=
  match x with
  | .ok i => .issue i
  | .error e => .err e

/-- the grant type the dispatchers read: the FIRST value in `r.Form` -/
def grantOf (r : TokRequest) : String := r.Form.Get "grant_type"

end WireSpec

namespace WireSpec
open Go Gen Hand Flow

/-! ## Layer 1: characterisation lemmas (the only place where regenerated definitions are unfolded) -/

theorem parseAuthenticated_eq (now : Int) (o : TokOracles) (r : TokRequest) (d : TokDecoder) (f0 : TokForm) :
    GenTok.ParseAuthenticatedTokenRequest now o r d f0 = creds o r := by
  unfold GenTok.ParseAuthenticatedTokenRequest creds withBasic TokRequest.ParseForm TokDecoder.Decode TokRequest.BasicAuth
    TokForm.SetClientID TokForm.SetClientSecret
  go_leaf

theorem parseRefresh_eq (now : Int) (o : TokOracles) (r : TokRequest) (d : TokDecoder) :
    GenTok.ParseRefreshTokenRequest now o r d = creds o r := by
  unfold GenTok.ParseRefreshTokenRequest
  simp only [parseAuthenticated_eq]
  go_leaf

theorem parseAccess_eq (now : Int) (o : TokOracles) (r : TokRequest) (d : TokDecoder) :
    GenTok.ParseAccessTokenRequest now o r d = creds o r := by
  unfold GenTok.ParseAccessTokenRequest
  simp only [parseAuthenticated_eq]
  go_leaf

theorem decodeRequest_eq (now : Int) (d : TokDecoder) (r : TokRequest) (postOnly : Bool) :
    GenTok.decodeRequest now d r postOnly = .ok (TokForm.decode (if postOnly then r.PostForm else r.Form)) := by
  unfold GenTok.decodeRequest TokRequest.ParseForm TokDecoder.Decode
  go_leaf

theorem parseClientCredentials_eq (now : Int) (o : TokOracles) (s : TokWebServer) (r : TokRequest) :
    GenTok.parseClientCredentials now o s r = (match creds o r with | .error e => .error e | .ok f => ccChecks f) := by
  unfold GenTok.parseClientCredentials creds withBasic ccChecks TokRequest.ParseForm TokDecoder.Decode TokRequest.BasicAuth
  go_leaf

theorem verifyRequestClient_eq (now : Int) (o : TokOracles) (s : TokWebServer) (r : TokRequest) :
    GenTok.verifyRequestClient now o s r =
      (match GenTok.parseClientCredentials now o s r with
       | .error e => .error e
       | .ok cc => Hand.tokVerifyClient now o s.server { Form := r.Form, Data := cc }) := by
  unfold GenTok.verifyRequestClient
  go_leaf

/-- `withClient`: authenticate, then - whenever the request NAMES a grant type - the client's registration must contain it -/
theorem withClient_eq (now : Int) (o : TokOracles) (s : TokWebServer) (h : TokRequest → OPClient → TokResp) (r : TokRequest) :
    GenTok.withClient now o s h r =
      (match GenTok.verifyRequestClient now o s r with
       | .error e => .err e
       | .ok c => if grantOf r != "" && !ValidateGrantType now c (grantOf r) then .err "ErrUnauthorizedClient" else h r c) := by
  unfold GenTok.withClient grantOf Hand.tokError
  go_leaf

theorem refreshTokenHandler_eq (now : Int) (o : TokOracles) (s : TokWebServer) (r : TokRequest) (c : OPClient) :
    GenTok.refreshTokenHandler now o s r c =
      (if (TokForm.decode r.Form).RefreshToken == "" then .err "ErrInvalidRequest"
       else lift (Hand.tokLegacyRefreshToken now o s.server { Data := TokForm.decode r.Form, Client := c })) := by
  unfold GenTok.refreshTokenHandler lift Hand.tokError Hand.tokNewClientRequest
  simp only [decodeRequest_eq]
  go_leaf

theorem codeExchangeHandler_eq (now : Int) (o : TokOracles) (s : TokWebServer) (r : TokRequest) (c : OPClient) :
    GenTok.codeExchangeHandler now o s r c =
      (if (TokForm.decode r.Form).Code == "" then .err "ErrInvalidRequest"
       else if (TokForm.decode r.Form).RedirectURI == "" then .err "ErrInvalidRequest"
       else lift (Hand.tokLegacyCodeExchange now o s.server { Data := TokForm.decode r.Form, Client := c })) := by
  unfold GenTok.codeExchangeHandler lift Hand.tokError Hand.tokNewClientRequest
  simp only [decodeRequest_eq]
  go_leaf

end WireSpec

namespace WireSpec
open Go Gen Hand Flow

/-- Provider router, refresh handler -/
theorem refreshTokenExchange_eq (now : Int) (o : TokOracles) (r : TokRequest) (x : TokExchanger) :
    GenTok.RefreshTokenExchange now o r x =
      (match creds o r with
       | .error e => .err e
       | .ok f =>
         match Hand.tokValidateRefreshTokenRequest now o f x with
         | .error e => .err e
         | .ok (v, c) => .issue (.refresh v c f.RefreshToken)) := by
  unfold GenTok.RefreshTokenExchange Hand.tokError Hand.tokIssueForRefresh
  simp only [parseRefresh_eq]
  go_leaf

/-- Provider router, code handler -/
theorem codeExchange_eq (now : Int) (o : TokOracles) (r : TokRequest) (x : TokExchanger) :
    GenTok.CodeExchange now o r x =
      (match creds o r with
       | .error e => .err e
       | .ok f =>
         if f.Code == "" then .err "ErrInvalidRequest" else
         match Hand.tokValidateAccessTokenRequest now o f x with
         | .error e => .err e
         | .ok (a, c) => .issue (.code a c f.Code)) := by
  unfold GenTok.CodeExchange Hand.tokError Hand.tokIssueForCode
  simp only [parseAccess_eq]
  go_leaf

/-- the grant switch of the Provider router: which handler a request reaches is decided by `grantOf` alone -/
theorem exchange_refresh (now : Int) (o : TokOracles) (r : TokRequest) (x : TokExchanger) (h : grantOf r = Const.GrantTypeRefreshToken) :
    GenTok.Exchange now o r x =
      (if x.p.refreshSupported then GenTok.RefreshTokenExchange now o r x else .err "ErrUnsupportedGrantType") := by
  unfold GenTok.Exchange TokRequest.FormValue TokExchanger.GrantTypeRefreshTokenSupported Hand.tokError
  unfold grantOf at h
  simp only [h]
  go_leaf [Const.GrantTypeRefreshToken, Const.GrantTypeCode]

theorem exchange_code (now : Int) (o : TokOracles) (r : TokRequest) (x : TokExchanger) (h : grantOf r = Const.GrantTypeCode) :
    GenTok.Exchange now o r x = GenTok.CodeExchange now o r x := by
  unfold GenTok.Exchange TokRequest.FormValue
  unfold grantOf at h
  simp only [h]
  go_leaf

/-- any other grant type: no code is consumed and no refresh token rotated (nothing reaches `CreateTokenResponse` of these grants) -/
theorem exchange_other (now : Int) (o : TokOracles) (r : TokRequest) (x : TokExchanger)
    (h1 : grantOf r ≠ Const.GrantTypeRefreshToken) (h2 : grantOf r ≠ Const.GrantTypeCode) (i : IssueFor) :
    GenTok.Exchange now o r x ≠ .issue i := by
  unfold GenTok.Exchange TokRequest.FormValue Hand.tokError Hand.tokOther
  unfold grantOf at h1 h2
  go_leaf

/-- the grant switch of the Server router -/
theorem tokensHandler_refresh (now : Int) (o : TokOracles) (s : TokWebServer) (r : TokRequest) (h : grantOf r = Const.GrantTypeRefreshToken) :
    GenTok.tokensHandler now o s r = GenTok.withClient now o s (GenTok.refreshTokenHandler now o s) r := by
  unfold GenTok.tokensHandler TokRequest.ParseForm
  unfold grantOf at h
  simp only [h]
  go_leaf [Const.GrantTypeRefreshToken, Const.GrantTypeCode]

theorem tokensHandler_code (now : Int) (o : TokOracles) (s : TokWebServer) (r : TokRequest) (h : grantOf r = Const.GrantTypeCode) :
    GenTok.tokensHandler now o s r = GenTok.withClient now o s (GenTok.codeExchangeHandler now o s) r := by
  unfold GenTok.tokensHandler TokRequest.ParseForm
  unfold grantOf at h
  simp only [h]
  go_leaf

theorem tokensHandler_other (now : Int) (o : TokOracles) (s : TokWebServer) (r : TokRequest)
    (h1 : grantOf r ≠ Const.GrantTypeRefreshToken) (h2 : grantOf r ≠ Const.GrantTypeCode) (i : IssueFor) :
    GenTok.tokensHandler now o s r ≠ .issue i := by
  unfold GenTok.tokensHandler TokRequest.ParseForm Hand.tokError Hand.tokOther
  unfold grantOf at h1 h2
  simp only [withClient_eq, Hand.tokOtherHandler]
  go_leaf

end WireSpec

/-! ## Layer 2: the wire-level endpoint is the typed exchange on the request read off the wire -/

namespace WireSpec
open Go Gen Hand Flow

/-- a `client_assertion` was sent -/
def haOf (f : TokForm) : Bool := f.ClientAssertion != ""

theorem withBasic_fields {o : TokOracles} {r : TokRequest} {f f' : TokForm} (h : withBasic o r f = .ok f') :
    f'.RefreshToken = f.RefreshToken ∧ f'.Scopes = f.Scopes ∧ f'.Code = f.Code ∧ f'.RedirectURI = f.RedirectURI ∧
    f'.CodeVerifier = f.CodeVerifier ∧ f'.ClientAssertion = f.ClientAssertion ∧ f'.ClientAssertionType = f.ClientAssertionType := by
  unfold withBasic at h
  split at h
  · cases h; exact ⟨rfl, rfl, rfl, rfl, rfl, rfl, rfl⟩
  · split at h; · cases h
    split at h; · cases h
    cases h; exact ⟨rfl, rfl, rfl, rfl, rfl, rfl, rfl⟩

/-- `LegacyServer.VerifyClient` reads of the form nothing but the grant type -/
theorem legacyVerifyClient_form (now : Int) (s : LegacyServer) (F F' : FormVals) (d : ClientCredentials)
    (h : F.Get "grant_type" = F'.Get "grant_type") :
    LegacyVerifyClient now s { Form := F, Data := d } = LegacyVerifyClient now s { Form := F', Data := d } := by
  unfold LegacyVerifyClient
  simp only [h]

/-- `LegacyServer.RefreshToken` reads of the request nothing but the refresh token, the scopes and the verified client -/
theorem legacyRefreshToken_data (now : Int) (s : LegacyServer) (d d' : RefreshTokenRequest) (c : OPClient)
    (h1 : d.RefreshToken = d'.RefreshToken) (h2 : d.Scopes = d'.Scopes) :
    LegacyRefreshToken now s { Data := d, Client := c } = LegacyRefreshToken now s { Data := d', Client := c } := by
  unfold LegacyRefreshToken
  simp only [h1, h2]

/-- `LegacyServer.CodeExchange` reads code, redirect URI, verifier and the verified client -/
theorem legacyCodeExchange_data (now : Int) (s : LegacyServer) (d d' : AccessTokenRequest) (c : OPClient)
    (h1 : d.Code = d'.Code) (h2 : d.RedirectURI = d'.RedirectURI) (h3 : d.CodeVerifier = d'.CodeVerifier) :
    LegacyCodeExchange now s { Data := d, Client := c } = LegacyCodeExchange now s { Data := d', Client := c } := by
  unfold LegacyCodeExchange
  simp only [h1, h2, h3]

theorem formGet_single (g : String) : ({ kv := [("grant_type", g)] } : FormVals).Get "grant_type" = g := by
  simp [FormVals.Get]

/-- Server router: `verifyRequestClient` + the registered-grant check of `withClient`, for a request whose grant type reads `g`,
    are the typed `Flow.withClient` for grant `g` on the credentials read off the wire -/
theorem wire_withClient (now : Int) (p : Provider) (w : WireReq) (h : TokRequest → OPClient → TokResp) {f : TokForm}
    (hc : creds w.oracles { w := w } = .ok f) :
    GenTok.withClient now w.oracles { server := ⟨p⟩ } h { w := w } =
      (match Flow.withClient now p (grantOf { w := w }) (Hand.tokClientCredentials w.oracles f) (haOf f) with
       | .error e => .err e
       | .ok c => h { w := w } c) := by
  rw [withClient_eq, verifyRequestClient_eq, parseClientCredentials_eq, hc]
  unfold Flow.withClient Flow.parseCC ccChecks haOf Hand.tokVerifyClient
  simp only [Hand.tokClientCredentials]
  have hlv : ∀ d, LegacyVerifyClient now ⟨p⟩ { Form := ({ w := w } : TokRequest).Form, Data := d } =
      LegacyVerifyClient now ⟨p⟩ { Form := { kv := [("grant_type", grantOf { w := w })] }, Data := d } :=
    fun d => legacyVerifyClient_form now ⟨p⟩ _ _ d (by rw [formGet_single]; rfl)
  simp only [hlv]
  by_cases h1 : (f.ClientID == "" && f.ClientAssertion == "") = true
  · simp [h1]
    simp only [Bool.and_eq_true, beq_iff_eq] at h1
    simp [h1.1, h1.2]
  · by_cases h2 : (f.ClientAssertion != "" && f.ClientAssertionType != Const.ClientAssertionTypeJWTAssertion) = true
    · simp only [h1, h2, Bool.false_eq_true, if_false, if_true]
      simp only [Bool.and_eq_true, bne_iff_ne, ne_eq, beq_iff_eq, not_and] at h1 h2
      by_cases hid : f.ClientID = ""
      · simp [hid, h2.1]
      · simp [hid, h2.1]
    · simp only [h1, h2, Bool.false_eq_true, if_false]
      have e1 : (f.ClientID == "" && !(f.ClientAssertion != "")) = false := by
        cases ha : (f.ClientID == "") <;> cases hb : (f.ClientAssertion == "") <;> simp_all
      have e2 : ((f.ClientAssertion != "") && (f.ClientAssertionType != Const.ClientAssertionTypeJWTAssertion)) = false := by
        simpa using h2
      simp only [e1, Bool.false_eq_true, if_false]
      generalize LegacyVerifyClient now _ _ = x
      cases x with
      | error e => rfl
      | ok c => simp only []; split <;> rfl

end WireSpec

namespace WireSpec
open Go Gen Hand Flow

theorem creds_decode {w : WireReq} {f : TokForm} (hc : creds w.oracles { w := w } = .ok f) :
    f.RefreshToken = (TokForm.decode ({ w := w } : TokRequest).Form).RefreshToken ∧
    f.Scopes = (TokForm.decode ({ w := w } : TokRequest).Form).Scopes ∧
    f.Code = (TokForm.decode ({ w := w } : TokRequest).Form).Code ∧
    f.RedirectURI = (TokForm.decode ({ w := w } : TokRequest).Form).RedirectURI ∧
    f.CodeVerifier = (TokForm.decode ({ w := w } : TokRequest).Form).CodeVerifier := by
  obtain ⟨h1, h2, h3, h4, h5, _, _⟩ := withBasic_fields hc
  exact ⟨h1, h2, h3, h4, h5⟩

/-- **A refresh request, wherever its parameters travel, on either router, is the typed refresh exchange on the request read
    off the wire** (every parameter's last value in body-then-query order, Basic credentials on top): same answer, same error. -/
theorem tokenEndpoint_refresh (now : Int) (rt : Router) (p : Provider) (w : WireReq) {f : TokForm}
    (hg : grantOf { w := w } = Const.GrantTypeRefreshToken) (hc : creds w.oracles { w := w } = .ok f) :
    tokenEndpoint now rt p w = lift (refreshExchange now rt p (Hand.tokRefreshTokenRequest w.oracles f) (haOf f)) := by
  obtain ⟨d1, d2, _, _, _⟩ := creds_decode hc
  cases rt with
  | provider =>
    simp only [tokenEndpoint, exchange_refresh _ _ _ _ hg, refreshTokenExchange_eq, hc, refreshExchange,
      Hand.tokValidateRefreshTokenRequest, Hand.issueForRefresh]
    have hcur : Gen.refreshHandlerCurrent = "presented" := by decide
    by_cases hs : p.refreshSupported = true
    · simp only [hs, if_true, Bool.not_true, Bool.false_eq_true, if_false, hcur]
      cases ValidateRefreshTokenRequest now (Hand.tokRefreshTokenRequest w.oracles f) p with
      | error e => rfl
      | ok vc => obtain ⟨v, c⟩ := vc; rfl
    · simp [hs, lift]
  | legacy =>
    simp only [tokenEndpoint, tokensHandler_refresh _ _ _ _ hg, wire_withClient now p w _ hc, refreshExchange, hg]
    have hcc : Hand.tokClientCredentials w.oracles f =
        { ClientID := (Hand.tokRefreshTokenRequest w.oracles f).ClientID, ClientSecret := (Hand.tokRefreshTokenRequest w.oracles f).ClientSecret,
          ClientAssertion := (Hand.tokRefreshTokenRequest w.oracles f).ClientAssertion,
          ClientAssertionType := (Hand.tokRefreshTokenRequest w.oracles f).ClientAssertionType } := rfl
    rw [← hcc]
    cases Flow.withClient now p Const.GrantTypeRefreshToken (Hand.tokClientCredentials w.oracles f) (haOf f) with
    | error e => rfl
    | ok c =>
      simp only [refreshTokenHandler_eq, Hand.tokLegacyRefreshToken]
      have hrt : (Hand.tokRefreshTokenRequest w.oracles f).RefreshToken = (TokForm.decode ({ w := w } : TokRequest).Form).RefreshToken := d1
      rw [hrt]
      split
      · rfl
      · rw [legacyRefreshToken_data now ⟨p⟩ (Hand.tokRefreshTokenRequest w.oracles (TokForm.decode ({ w := w } : TokRequest).Form))
          (Hand.tokRefreshTokenRequest w.oracles f) c d1.symm d2.symm]

/-- the same for a code exchange -/
theorem tokenEndpoint_code (now : Int) (rt : Router) (p : Provider) (w : WireReq) {f : TokForm}
    (hg : grantOf { w := w } = Const.GrantTypeCode) (hc : creds w.oracles { w := w } = .ok f) :
    tokenEndpoint now rt p w = lift (codeExchange now rt p (Hand.tokAccessTokenRequest w.oracles f) (haOf f)) := by
  obtain ⟨_, _, d3, d4, d5⟩ := creds_decode hc
  cases rt with
  | provider =>
    simp only [tokenEndpoint, exchange_code _ _ _ _ hg, codeExchange_eq, hc, codeExchange, Hand.tokValidateAccessTokenRequest, Hand.issueForCode]
    have hcode : (Hand.tokAccessTokenRequest w.oracles f).Code = f.Code := rfl
    rw [hcode]
    split
    · rfl
    · cases ValidateAccessTokenRequest now (Hand.tokAccessTokenRequest w.oracles f) p with
      | error e => rfl
      | ok vc => obtain ⟨v, c⟩ := vc; rfl
  | legacy =>
    simp only [tokenEndpoint, tokensHandler_code _ _ _ _ hg, wire_withClient now p w _ hc, codeExchange, hg]
    have hcc : Hand.tokClientCredentials w.oracles f =
        { ClientID := (Hand.tokAccessTokenRequest w.oracles f).ClientID, ClientSecret := (Hand.tokAccessTokenRequest w.oracles f).ClientSecret,
          ClientAssertion := (Hand.tokAccessTokenRequest w.oracles f).ClientAssertion,
          ClientAssertionType := (Hand.tokAccessTokenRequest w.oracles f).ClientAssertionType } := rfl
    rw [← hcc]
    cases Flow.withClient now p Const.GrantTypeCode (Hand.tokClientCredentials w.oracles f) (haOf f) with
    | error e => rfl
    | ok c =>
      simp only [codeExchangeHandler_eq, Hand.tokLegacyCodeExchange]
      have h1 : (Hand.tokAccessTokenRequest w.oracles f).Code = (TokForm.decode ({ w := w } : TokRequest).Form).Code := d3
      have h2 : (Hand.tokAccessTokenRequest w.oracles f).RedirectURI = (TokForm.decode ({ w := w } : TokRequest).Form).RedirectURI := d4
      rw [h1, h2]
      split
      · rfl
      · split
        · rfl
        · rw [legacyCodeExchange_data now ⟨p⟩ (Hand.tokAccessTokenRequest w.oracles (TokForm.decode ({ w := w } : TokRequest).Form))
            (Hand.tokAccessTokenRequest w.oracles f) c d3.symm d4.symm d5.symm]

/-- a request whose Basic header does not decode is refused -/
theorem tokenEndpoint_badBasic (now : Int) (rt : Router) (p : Provider) (w : WireReq) {e : String}
    (hg : grantOf { w := w } = Const.GrantTypeRefreshToken ∨ grantOf { w := w } = Const.GrantTypeCode)
    (hc : creds w.oracles { w := w } = .error e) : ∃ e', tokenEndpoint now rt p w = .err e' := by
  cases rt with
  | provider =>
    rcases hg with hg | hg
    · simp only [tokenEndpoint, exchange_refresh _ _ _ _ hg, refreshTokenExchange_eq, hc]
      split <;> exact ⟨_, rfl⟩
    · simp only [tokenEndpoint, exchange_code _ _ _ _ hg, codeExchange_eq, hc]
      exact ⟨_, rfl⟩
  | legacy =>
    rcases hg with hg | hg
    · simp only [tokenEndpoint, tokensHandler_refresh _ _ _ _ hg, withClient_eq, verifyRequestClient_eq, parseClientCredentials_eq, hc]
      exact ⟨_, rfl⟩
    · simp only [tokenEndpoint, tokensHandler_code _ _ _ _ hg, withClient_eq, verifyRequestClient_eq, parseClientCredentials_eq, hc]
      exact ⟨_, rfl⟩

/-- any other grant type (as the dispatchers read it): nothing reaches `CreateTokenResponse` of the code / refresh grants -/
theorem tokenEndpoint_other (now : Int) (rt : Router) (p : Provider) (w : WireReq)
    (h1 : grantOf { w := w } ≠ Const.GrantTypeRefreshToken) (h2 : grantOf { w := w } ≠ Const.GrantTypeCode) (i : IssueFor) :
    tokenEndpoint now rt p w ≠ .issue i := by
  cases rt with
  | provider => exact exchange_other _ _ _ _ h1 h2 i
  | legacy => exact tokensHandler_other _ _ _ _ h1 h2 i

end WireSpec

/-! ## "A refresh succeeds only if the client's CURRENT registration contains the refresh grant" - any state, any request shape -/

namespace C07
open Go Gen Hand Flow FlowObs WireSpec

/-- **Both routers, every request shape.**  Whatever the storage holds and wherever the parameters of a POST to the token endpoint
    travel (body, query, both - with equal or different values): if the request ends in a refresh (`CreateTokenResponse` is
    reached for a refresh-token request) then
    * the token that is handed on for rotation (`cur`) resolves in the storage to a grant `r0`,
    * `c`, the client the tokens are issued for, is the registration the storage holds NOW for that grant's client id,
    * that registration contains the refresh_token grant, and refresh is switched on,
    * the caller authenticated as - or, for a public client, identified as - `c` with the credentials read off the wire,
    * the new grant keeps subject, audience, authentication time and its scopes are within the old ones. -/
theorem wire_refresh_needs_current_grant {now : Int} {rt : Router} {p : Provider} {w : WireReq} {r : RefreshReq} {c : OPClient} {cur : String}
    (h : tokenEndpoint now rt p w = .issue (.refresh r c cur)) :
    ∃ r0 f, creds w.oracles { w := w } = .ok f ∧ grantOf { w := w } = Const.GrantTypeRefreshToken ∧ cur = f.RefreshToken ∧ cur ≠ "" ∧
      p.store.TokenRequestByRefreshToken cur = .ok r0 ∧
      p.store.clients.find? (·.id == r0.clientID) = some c ∧
      Const.GrantTypeRefreshToken ∈ c.grants ∧ p.refreshSupported = true ∧
      AuthAs now p f.ClientID f.ClientSecret f.ClientAssertionType (w.tokenOf f.ClientAssertion) c ∧
      ValidateRefreshTokenScopes now f.Scopes r0 = .ok r := by
  by_cases hg : grantOf { w := w } = Const.GrantTypeRefreshToken
  · cases hc : creds w.oracles { w := w } with
    | error e =>
      obtain ⟨e', he⟩ := tokenEndpoint_badBasic now rt p w (Or.inl hg) hc
      rw [he] at h; cases h
    | ok f =>
      rw [tokenEndpoint_refresh now rt p w hg hc] at h
      cases hre : refreshExchange now rt p (Hand.tokRefreshTokenRequest w.oracles f) (haOf f) with
      | error e => rw [hre] at h; cases h
      | ok i =>
        rw [hre] at h
        have hi : i = .refresh r c cur := by simpa [lift] using h
        obtain ⟨r0, r1, c', hi', hsup, htok, hlook, hcid, hgrant, hvs, hauth⟩ := refreshExchange_ok hre
        rw [hi] at hi'
        cases hi'
        refine ⟨r0, f, rfl, hg, rfl, htok, hlook, ?_, hgrant, hsup, hauth, hvs⟩
        rw [← hcid]; exact (authCapable_of_authAs hauth).1
  · by_cases hg2 : grantOf { w := w } = Const.GrantTypeCode
    · cases hc : creds w.oracles { w := w } with
      | error e =>
        obtain ⟨e', he⟩ := tokenEndpoint_badBasic now rt p w (Or.inr hg2) hc
        rw [he] at h; cases h
      | ok f =>
        rw [tokenEndpoint_code now rt p w hg2 hc] at h
        cases hce : codeExchange now rt p (Hand.tokAccessTokenRequest w.oracles f) (haOf f) with
        | error e => rw [hce] at h; cases h
        | ok i =>
          rw [hce] at h
          have hi : i = .refresh r c cur := by simpa [lift] using h
          obtain ⟨a, c', hi', _⟩ := codeExchange_ok hce
          rw [hi] at hi'; cases hi'
    · exact absurd h (tokenEndpoint_other now rt p w hg hg2 _)

end C07

/-! ## The model's own reading of a request is one of the readings the monitors consider -/

namespace FlowObs
open Go Gen Hand Flow WireSpec

theorem last_mem_presented (w : WireReq) (k : String) : ({ kv := w.body ++ w.query } : FormVals).last k ∈ presentedVals w k := by
  unfold FormVals.last presentedVals WireReq.vals WireReq.formPairs
  simp only []
  cases hl : (w.body ++ w.query).filter (·.1 == k) with
  | nil => simp
  | cons x xs =>
    have hne : (x :: xs) ≠ [] := by simp
    have : ((x :: xs).getLast?.map (·.2)).getD "" = ((x :: xs).getLast hne).2 := by
      rw [List.getLast?_eq_some_getLast hne]; rfl
    rw [this]
    simp only [List.map_cons]
    exact List.mem_map.2 ⟨(x :: xs).getLast hne, List.getLast_mem hne, rfl⟩

theorem find_mem_filter (l : List (String × String)) (k : String) (x : String × String) (h : l.find? (·.1 == k) = some x) :
    x ∈ l.filter (·.1 == k) :=
  List.mem_filter.2 ⟨List.mem_of_find?_eq_some h, by have := List.find?_some h; simpa using this⟩

theorem get_mem_presented (w : WireReq) (k : String) : ({ kv := w.body ++ w.query } : FormVals).Get k ∈ presentedVals w k := by
  unfold FormVals.Get presentedVals WireReq.vals WireReq.formPairs
  simp only []
  cases hf : (w.body ++ w.query).find? (·.1 == k) with
  | none =>
    have : (w.body ++ w.query).filter (·.1 == k) = [] := by
      rw [List.filter_eq_nil_iff]
      intro x hx
      exact List.find?_eq_none.1 hf x hx
    rw [this]; simp
  | some x =>
    have hm := find_mem_filter _ k x hf
    cases hl : (w.body ++ w.query).filter (·.1 == k) with
    | nil => rw [hl] at hm; cases hm
    | cons y ys =>
      rw [hl] at hm
      simp only [List.map_cons, Option.map_some, Option.getD_some]
      exact List.mem_map.2 ⟨x, hm, rfl⟩

/-- the request as the library ends up reading it -/
def ownReading (o : TokOracles) (g : String) (f : TokForm) : Reading :=
  { grant := g, rt := f.RefreshToken, requested := f.Scopes,
    p := { clientID := f.ClientID, secret := f.ClientSecret,
           assertion := if f.ClientAssertionType == Const.ClientAssertionTypeJWTAssertion then some (o.tokenOf f.ClientAssertion) else none,
           code := f.Code, redirectURI := f.RedirectURI, verifier := f.CodeVerifier } }

theorem creds_ids {w : WireReq} {f : TokForm} (hc : creds w.oracles { w := w } = .ok f) :
    f.ClientID ∈ seenIDs w ∧ f.ClientSecret ∈ seenSecrets w := by
  unfold creds withBasic at hc
  unfold seenIDs seenSecrets WireReq.basicSeen
  cases hb : w.basic with
  | none =>
    simp only [hb] at hc
    cases hc
    exact ⟨last_mem_presented w "client_id", last_mem_presented w "client_secret"⟩
  | some up =>
    obtain ⟨u, p⟩ := up
    simp only [hb] at hc
    have ho : w.oracles.unescape = w.unescape := rfl
    rw [ho] at hc
    cases hu : w.unescape u with
    | error e => simp [hu] at hc
    | ok u' =>
      cases hp : w.unescape p with
      | error e => simp [hu, hp] at hc
      | ok p' =>
        simp only [hu, hp] at hc
        cases hc
        simp [hu, hp]

theorem ownReading_mem {w : WireReq} {f : TokForm} (hc : creds w.oracles { w := w } = .ok f) :
    ownReading w.oracles (grantOf { w := w }) f ∈ readings w := by
  obtain ⟨hid, hsec⟩ := creds_ids hc
  obtain ⟨d1, d2, d3, d4, d5, d6, d7⟩ := withBasic_fields hc
  simp only [readings, List.mem_flatMap, List.mem_map]
  refine ⟨_, get_mem_presented w "grant_type", _, hid, _, hsec, _, last_mem_presented w "code", _, last_mem_presented w "redirect_uri",
    _, last_mem_presented w "code_verifier", _, last_mem_presented w "refresh_token", _, last_mem_presented w "scope", ?_⟩
  refine ⟨if ({ kv := w.body ++ w.query } : FormVals).last "client_assertion_type" == Const.ClientAssertionTypeJWTAssertion
      then some (w.tokenOf (({ kv := w.body ++ w.query } : FormVals).last "client_assertion")) else none, ?_, ?_⟩
  · simp only [seenAssertions, List.mem_flatMap, List.mem_map]
    exact ⟨_, last_mem_presented w "client_assertion", _, last_mem_presented w "client_assertion_type", rfl⟩
  · unfold ownReading grantOf
    rw [d1, d2, d3, d4, d5, d6, d7]
    rfl

/-- the C07 judgement reads of the presented credentials only client id, secret and assertion -/
theorem c07judge_congr (m : C07.MonState) (now : Int) (p p' : C04.Presented) (rt : String) (req : List String) (obs : Option C07.Result)
    (err : String) (cr : Bool) (h1 : p.clientID = p'.clientID) (h2 : p.secret = p'.secret) (h3 : p.assertion = p'.assertion) :
    C07.judge m now p rt req obs err cr = C07.judge m now p' rt req obs err cr := by
  unfold C07.judge C04.callerIs
  simp only [h1, h2, h3]

end FlowObs

/-! ## The observer next to the extended model -/

namespace FlowObs
open Go Gen Hand Flow WireSpec

/-- the answer an onlooker sees to a token request the model served (tokens: what the response's tokens carry; for a refresh: the
    grant as the storage recorded it with the new token) -/
def answerOf (s s' : Flow.St) : Flow.OutX → Option Answer
  | .base (.issued (.code a c _) nr) =>
    some { tokens := some { subject := a.subject, client := c.id, scopes := a.scopes, nonce := a.nonce },
           minted := (recOf s' nr).map toRT, created := true }
  | .base (.issued (.refresh _ _ cur) nr) =>
    let rec' : RefreshReq := (recOf s' nr).getD {}
    some { tokens := some { subject := rec'.subject, client := rec'.clientID, scopes := rec'.scopes },
           audience := rec'.audience, idSubject := some rec'.subject, idAuthTime := some rec'.authTime,
           minted := (recOf s' nr).map toRT, handed := if nr.isSome then some cur else none, created := true }
  | .base (.error e) => some { minted := mintedIn s s', err := Flow.oauthCode e, created := s'.nextRT != s.nextRT }
  | _ => none

def eventOfX (s s' : Flow.St) : Flow.OpX → Flow.OutX → Option EventX
  | .base op, .base out => (eventOf s s' op out).map .base
  | .reregister c, _ => some (.registered c)
  | .token _ w _, out => (answerOf s s' out).map (.token w)
  | _, _ => none

def stepObsX (now : Int) (so : Flow.St × ObsState) (op : Flow.OpX) : (Flow.St × ObsState) × (Flow.OutX × Option String × Option String) :=
  let r := Flow.stepX now so.1 op
  match eventOfX so.1 r.1 op r.2 with
  | none => ((r.1, so.2), (r.2, none, none))
  | some e => let v := observeX now so.2 e; ((r.1, v.1), (r.2, v.2.1, v.2.2))

def runObsX (now : Int) (so : Flow.St × ObsState) : List Flow.OpX → (Flow.St × ObsState) × List (Flow.OutX × Option String × Option String)
  | [] => (so, [])
  | op :: rest =>
    let r := stepObsX now so op
    let rr := runObsX now r.1 rest
    (rr.1, r.2 :: rr.2)

theorem stepObsX_eq {now : Int} {s : Flow.St} {o : ObsState} {op : Flow.OpX} {s' : Flow.St} {out : Flow.OutX}
    (hs : Flow.stepX now s op = (s', out)) :
    stepObsX now (s, o) op = match eventOfX s s' op out with
      | none => ((s', o), (out, none, none))
      | some e => ((s', (observeX now o e).1), (out, (observeX now o e).2.1, (observeX now o e).2.2)) := by
  simp only [stepObsX, hs]

/-- an operation of Model/Flow.lean inside an extended history: the observer does what it did there -/
theorem stepObsX_base (now : Int) (s : Flow.St) (o : ObsState) (op : Flow.Op) :
    stepObsX now (s, o) (.base op) =
      ((stepObs now (s, o) op).1, (.base (stepObs now (s, o) op).2.1, (stepObs now (s, o) op).2.2.1, (stepObs now (s, o) op).2.2.2)) := by
  simp only [stepObsX, stepObs, Flow.stepX, eventOfX]
  cases eventOf s (Flow.step now s op).1 op (Flow.step now s op).2 <;> rfl

end FlowObs

/-! ## One token request of an extended history -/

namespace FlowObs
open Go Gen Hand Flow WireSpec

theorem wire_refresh_typed {now : Int} {rt : Router} {p : Provider} {w : WireReq} {r : RefreshReq} {c : OPClient} {cur : String}
    (h : tokenEndpoint now rt p w = .issue (.refresh r c cur)) :
    ∃ f, creds w.oracles { w := w } = .ok f ∧ grantOf { w := w } = Const.GrantTypeRefreshToken ∧
      refreshExchange now rt p (Hand.tokRefreshTokenRequest w.oracles f) (haOf f) = .ok (.refresh r c cur) := by
  obtain ⟨r0, f, hc, hg, _⟩ := C07.wire_refresh_needs_current_grant h
  refine ⟨f, hc, hg, ?_⟩
  rw [tokenEndpoint_refresh now rt p w hg hc] at h
  cases hre : refreshExchange now rt p (Hand.tokRefreshTokenRequest w.oracles f) (haOf f) with
  | error e => rw [hre] at h; cases h
  | ok i => rw [hre] at h; simp only [lift, TokResp.issue.injEq] at h; rw [h]

theorem wire_code_typed {now : Int} {rt : Router} {p : Provider} {w : WireReq} {a : AuthReq} {c : OPClient} {k : String}
    (h : tokenEndpoint now rt p w = .issue (.code a c k)) :
    ∃ f, creds w.oracles { w := w } = .ok f ∧ grantOf { w := w } = Const.GrantTypeCode ∧
      codeExchange now rt p (Hand.tokAccessTokenRequest w.oracles f) (haOf f) = .ok (.code a c k) := by
  by_cases hg : grantOf { w := w } = Const.GrantTypeRefreshToken
  · cases hc : creds w.oracles { w := w } with
    | error e =>
      obtain ⟨e', he⟩ := tokenEndpoint_badBasic now rt p w (Or.inl hg) hc
      rw [he] at h; cases h
    | ok f =>
      rw [tokenEndpoint_refresh now rt p w hg hc] at h
      cases hre : refreshExchange now rt p (Hand.tokRefreshTokenRequest w.oracles f) (haOf f) with
      | error e => rw [hre] at h; cases h
      | ok i =>
        rw [hre] at h
        simp only [lift, TokResp.issue.injEq] at h
        obtain ⟨r0, r1, c', hi', _⟩ := refreshExchange_ok hre
        rw [h] at hi'; cases hi'
  · by_cases hg2 : grantOf { w := w } = Const.GrantTypeCode
    · cases hc : creds w.oracles { w := w } with
      | error e =>
        obtain ⟨e', he⟩ := tokenEndpoint_badBasic now rt p w (Or.inr hg2) hc
        rw [he] at h; cases h
      | ok f =>
        refine ⟨f, rfl, hg2, ?_⟩
        rw [tokenEndpoint_code now rt p w hg2 hc] at h
        cases hce : codeExchange now rt p (Hand.tokAccessTokenRequest w.oracles f) (haOf f) with
        | error e => rw [hce] at h; cases h
        | ok i => rw [hce] at h; simp only [lift, TokResp.issue.injEq] at h; rw [h]
    · exact absurd h (tokenEndpoint_other now rt p w hg hg2 _)

/-- what the first accepted refresh reading of a response must look like: its token is the one the storage was handed -/
theorem ite_some_none {c : Prop} [Decidable c] {x : String} {rest : Option String} (h : (if c then some x else rest) = none) :
    ¬c ∧ rest = none := by
  split at h
  · cases h
  · exact ⟨‹_›, h⟩

/-- a success the C07 monitor accepts handed the presented token to the storage -/
theorem c07judge_handed {m : C07.MonState} {now : Int} {p : C04.Presented} {rt : String} {req : List String} {r : C07.Result}
    {err : String} {cr : Bool} (h : C07.judge m now p rt req (some r) err cr = none) : r.handedOver = true := by
  unfold C07.judge at h
  simp only [] at h
  split at h
  · cases h
  split at h
  · cases h
  obtain ⟨_, h⟩ := ite_some_none h
  obtain ⟨_, h⟩ := ite_some_none h
  obtain ⟨_, h⟩ := ite_some_none h
  obtain ⟨_, h⟩ := ite_some_none h
  obtain ⟨_, h⟩ := ite_some_none h
  obtain ⟨_, h⟩ := ite_some_none h
  obtain ⟨_, h⟩ := ite_some_none h
  obtain ⟨_, h⟩ := ite_some_none h
  obtain ⟨_, h⟩ := ite_some_none h
  obtain ⟨_, h⟩ := ite_some_none h
  obtain ⟨_, h⟩ := ite_some_none h
  obtain ⟨hh, _⟩ := ite_some_none h
  cases hv : r.handedOver
  · rw [hv] at hh; exact absurd rfl hh
  · rfl

theorem judge07_handed {o : ObsState} {now : Int} {a : Answer} {ρ : Reading} {tk : C04.Tokens} (ht : a.tokens = some tk)
    (h : judge07 o now a ρ = none) : a.handed = some ρ.rt := by
  unfold judge07 at h
  split at h
  · cases h
  · rename_i hj
    simp only [resultOf, ht, Option.map_some] at hj
    have := c07judge_handed hj
    simpa using this

/-- the result of a rotation as the storage recorded it -/
def rotated (s : Flow.St) (r1 : RefreshReq) : C07.Result :=
  { newRT := "rt" ++ toString s.nextRT, scopes := r1.scopes, client := r1.clientID, subject := r1.subject, audience := r1.audience, authTime := r1.authTime, handedOver := true }

/-- the answer of a refresh the model served: the tokens carry the grant as recorded with the new token -/
def refreshAnswer (s : Flow.St) (r1 : RefreshReq) (cur : String) : Answer :=
  { tokens := some { subject := r1.subject, client := r1.clientID, scopes := r1.scopes }, audience := r1.audience, idSubject := some r1.subject, idAuthTime := some r1.authTime, minted := some (toRT { r1 with token := "rt" ++ toString s.nextRT }), handed := some cur, created := true }

/-- **A refresh that the wire-level endpoint lets through, in any reachable state**: the monitors have nothing to object under
    the reading the library took, the state they move to is the one the storage moved to. -/
theorem goodX_token_refresh {now : Int} {s : Flow.St} {o : ObsState} (h : Inv07 s o) (rt : Router) (w : WireReq) (df : Bool)
    {r1 : RefreshReq} {c : OPClient} {cur : String} (hte : tokenEndpoint now rt s.p w = .issue (.refresh r1 c cur)) :
    Inv07 (stepObsX now (s, o) (.token rt w df)).1.1 (stepObsX now (s, o) (.token rt w df)).1.2 ∧
    (stepObsX now (s, o) (.token rt w df)).2.2.2 = none ∧ (stepObsX now (s, o) (.token rt w df)).2.2.1 = none ∧
    (stepObsX now (s, o) (.token rt w df)).1.2.m04 = o.m04 ∧ (stepObsX now (s, o) (.token rt w df)).1.2.reqs = o.reqs := by
  obtain ⟨f, hc, hg, hre⟩ := wire_refresh_typed hte
  obtain ⟨r0, r1', c', hi, hsup, htok, hlook, hcid, hgrant, hvs, hauth⟩ := refreshExchange_ok hre
  have hcur : cur = f.RefreshToken := by cases hi; rfl
  subst hcur
  -- the typed step: invariant and verdict
  have G := good07_refresh_ok h rt (Hand.tokRefreshTokenRequest w.oracles f) (haOf f) hre
  obtain ⟨m1, m2, m3⟩ := mintTokens_refresh s r1 c f.RefreshToken
  have hfilt : ∀ r ∈ s.store.refresh.filter (·.token != f.RefreshToken), r ∈ s.store.refresh := fun r hr => (List.mem_filter.1 hr).1
  have hrec : recOf (mintTokens s (.refresh r1 c f.RefreshToken)) (some ("rt" ++ toString s.nextRT))
      = some { r1 with token := "rt" ++ toString s.nextRT } := recOf_new h.fresh _ hfilt m1 rfl
  unfold Good07 at G
  rw [stepObs_eq (s' := mintTokens s (.refresh r1 c f.RefreshToken))
    (out := .issued (.refresh r1 c f.RefreshToken) (newRefresh s (.refresh r1 c f.RefreshToken)))
    (by rw [step_refresh, hre]; rfl)] at G
  have hrtk : (Hand.tokRefreshTokenRequest w.oracles f).RefreshToken = f.RefreshToken := rfl
  have hrsc : (Hand.tokRefreshTokenRequest w.oracles f).Scopes = f.Scopes := rfl
  simp only [eventOf, observe, m3, hrec, Option.getD_some, Option.isSome_some, beq_self_eq_true, Bool.and_self, hrtk, hrsc] at G
  obtain ⟨G1, G2⟩ := G
  -- the wire step
  have hstep : Flow.stepX now s (.token rt w df) =
      (mintTokens s (.refresh r1 c f.RefreshToken), .base (.issued (.refresh r1 c f.RefreshToken) (some ("rt" ++ toString s.nextRT)))) := by
    simp only [Flow.stepX, hte, m3]; rfl
  rw [stepObsX_eq hstep]
  have hans : answerOf s (mintTokens s (.refresh r1 c f.RefreshToken)) (.base (.issued (.refresh r1 c f.RefreshToken) (some ("rt" ++ toString s.nextRT))))
      = some (refreshAnswer s r1 f.RefreshToken) := by
    simp only [answerOf, hrec, Option.getD_some, Option.map_some, Option.isSome_some, if_true, refreshAnswer]
  simp only [eventOfX, hans, Option.map_some]
  generalize hA : refreshAnswer s r1 f.RefreshToken = A
  have hAt : A.tokens = some { subject := r1.subject, client := r1.clientID, scopes := r1.scopes } := by rw [← hA]; rfl
  have hAh : A.handed = some f.RefreshToken := by rw [← hA]; rfl
  have hres : resultOf A f.RefreshToken = some (rotated s r1) := by
    rw [← hA]; simp [resultOf, toRT, refreshAnswer, rotated]
  -- the library's own reading is a refresh reading the monitor accepts
  have hown := ownReading_mem hc
  rw [hg] at hown
  have hownJ : judge07 o now A (ownReading w.oracles Const.GrantTypeRefreshToken f) = none := by
    unfold judge07
    have e1 : (ownReading w.oracles Const.GrantTypeRefreshToken f).rt = f.RefreshToken := rfl
    have e2 : (ownReading w.oracles Const.GrantTypeRefreshToken f).requested = f.Scopes := rfl
    rw [e1, e2, hres]
    have hcg := c07judge_congr o.m07 now (ownReading w.oracles Const.GrantTypeRefreshToken f).p
      (presentedRefresh (Hand.tokRefreshTokenRequest w.oracles f)) f.RefreshToken f.Scopes
      (some (rotated s r1)) A.err A.created rfl rfl rfl
    rw [hcg]
    have hj : C07.judge o.m07 now (presentedRefresh (Hand.tokRefreshTokenRequest w.oracles f)) f.RefreshToken f.Scopes
        (some (rotated s r1)) A.err A.created = none := G2
    rw [hj]
    simp only [hAt]
    rw [← hA]
    simp [refreshAnswer, rotated]
  have hmemR : ownReading w.oracles Const.GrantTypeRefreshToken f ∈ (readings w).filter isRefresh :=
    List.mem_filter.2 ⟨hown, by simp [isRefresh, ownReading]⟩
  -- the reading the monitor settles on
  have hsome : (((readings w).filter isRefresh).find? (fun ρ => (judge07 o now A ρ).isNone)).isSome = true :=
    find?_mem_isSome hmemR (by rw [hownJ]; rfl)
  cases hfind : ((readings w).filter isRefresh).find? (fun ρ => (judge07 o now A ρ).isNone) with
  | none => rw [hfind] at hsome; cases hsome
  | some ρ =>
    have hρJ : judge07 o now A ρ = none := by
      have := List.find?_some hfind
      cases hj : judge07 o now A ρ with
      | none => rfl
      | some v => rw [hj] at this; cases this
    have hρrt : ρ.rt = f.RefreshToken := by
      have := judge07_handed hAt hρJ
      rw [hAh] at this
      exact (Option.some.inj this).symm
    simp only [observeX, hAt, hAh, Option.isNone_some, Bool.false_eq_true, if_false, hfind, hρrt, hres]
    exact ⟨G1, trivial, trivial, trivial, trivial⟩

end FlowObs

namespace FlowObs
open Go Gen Hand Flow WireSpec

/-- the C07 invariant looks at the C07 side of the observer only -/
theorem Inv07.of_m07 {s : Flow.St} {o o' : ObsState} (h : Inv07 s o) (e : o'.m07 = o.m07) : Inv07 s o' :=
  h.of_same rfl rfl (CfgEq.refl s) e

/-- tokens without rotation for a request that can be read as a code exchange: the C07 monitor learns the refresh token the
    storage minted and has nothing to object (the judgement is C04's) -/
theorem observeX_code_success (now : Int) (o : ObsState) (w : WireReq) (A : Answer) {tk : C04.Tokens} {ρ0 : Reading}
    (ht : A.tokens = some tk) (hh : A.handed = none) (hρ : ρ0 ∈ (readings w).filter isCode) :
    (observeX now o (.token w A)).1.m07 = (learn o A).m07 ∧ (observeX now o (.token w A)).2.2 = none := by
  simp only [observeX, ht, hh, Option.isNone_none, if_true]
  cases h4 : ((readings w).filter isCode).find? (fun ρ => (judge04 o now A ρ).isNone) with
  | some ρ => exact ⟨rfl, rfl⟩
  | none =>
    cases h7 : ((readings w).filter isRefresh).find? (fun ρ => (judge07 o now A ρ).isNone) with
    | some ρ' =>
      exfalso
      have hJ : judge07 o now A ρ' = none := by
        have := List.find?_some h7
        cases hj : judge07 o now A ρ' with
        | none => rfl
        | some v => rw [hj] at this; cases this
      have := judge07_handed ht hJ
      rw [hh] at this; cases this
    | none =>
      simp only [Option.isSome_none, Bool.false_or]
      cases hl : (readings w).filter isCode with
      | nil => rw [hl] at hρ; cases hρ
      | cons x xs => exact ⟨rfl, rfl⟩

/-- a refusal of a request that has a reading which is no refresh request: nothing to object -/
theorem observeX_refusal_notRefresh (now : Int) (o : ObsState) (w : WireReq) (A : Answer) {ρ0 : Reading}
    (ht : A.tokens = none) (hρ : ρ0 ∈ readings w) (hnr : isRefresh ρ0 = false) :
    (observeX now o (.token w A)).1 = learn o A ∧ (observeX now o (.token w A)).2.1 = none ∧ (observeX now o (.token w A)).2.2 = none := by
  simp only [observeX, ht]
  refine ⟨trivial, trivial, ?_⟩
  have : (readings w).all (fun ρ => isRefresh ρ && (judge07 o now A ρ).isSome) = false := by
    rw [List.all_eq_false]
    exact ⟨ρ0, hρ, by simp [hnr]⟩
  simp [this]

/-- a refused refresh on which nothing was created can at most trip the widening clause -/
theorem c07judge_refusal (m : C07.MonState) (now : Int) (p : C04.Presented) (rt : String) (req : List String) (err : String) :
    C07.judge m now p rt req none err false = none ∨
    C07.judge m now p rt req none err false = some "widening-not-answered-with-invalid_scope" := by
  unfold C07.judge
  simp only [Bool.false_eq_true, if_false]
  split
  · exact Or.inl rfl
  · split
    · exact Or.inl rfl
    · split
      · exact Or.inr rfl
      · exact Or.inl rfl

theorem observeX_refusal (now : Int) (o : ObsState) (w : WireReq) (A : Answer) (ht : A.tokens = none) (hc : A.created = false) :
    (observeX now o (.token w A)).1 = learn o A ∧ (observeX now o (.token w A)).2.1 = none ∧
    ((observeX now o (.token w A)).2.2 = none ∨ (observeX now o (.token w A)).2.2 = some "widening-not-answered-with-invalid_scope") := by
  simp only [observeX, ht]
  refine ⟨trivial, trivial, ?_⟩
  split
  · cases hr : (readings w).head? with
    | none => exact Or.inl rfl
    | some ρ =>
      simp only [Option.bind_some]
      unfold judge07
      have := c07judge_refusal o.m07 now ρ.p ρ.rt ρ.requested A.err
      simp only [resultOf, ht, Option.map_none, hc]
      rcases this with h | h
      · rw [h]; exact Or.inl rfl
      · rw [h]; exact Or.inr rfl
  · exact Or.inl rfl

end FlowObs

namespace FlowObs
open Go Gen Hand Flow WireSpec

/-- the typed step of an exchange-type operation and the observer's C07 side after it, for the two outputs such a step has -/
theorem exchange_obs_m07 {now : Int} {s s' : Flow.St} {o : ObsState} {op : Flow.Op} {out : Flow.Out} {req : AccessTokenRequest}
    (hop : (∃ rt ha, op = .exchange rt req ha) ∨ (∃ rt ha, op = .exchangeDeleteFails rt req ha))
    (hstep : Flow.step now s op = (s', out))
    (hout : (∃ a c k nr, out = .issued (.code a c k) nr) ∨ (∃ e, out = .error e)) :
    ∃ A, answerOf s s' (.base out) = some A ∧ A.handed = none ∧ (A.tokens = none ↔ ∃ e, out = .error e) ∧
      (stepObs now (s, o) op).1 = (s', (stepObs now (s, o) op).1.2) ∧ (stepObs now (s, o) op).1.2.m07 = (learn o A).m07 := by
  rw [stepObs_eq hstep]
  rcases hout with ⟨a, c, k, nr, rfl⟩ | ⟨e, rfl⟩
  · refine ⟨_, rfl, rfl, ⟨fun h => (by cases h), fun ⟨e, he⟩ => (by cases he)⟩, ?_⟩
    rcases hop with ⟨rt, ha, rfl⟩ | ⟨rt, ha, rfl⟩ <;> simp only [eventOf, observe, learn] <;> exact ⟨trivial, rfl⟩
  · refine ⟨_, rfl, rfl, ⟨fun _ => ⟨e, rfl⟩, fun _ => rfl⟩, ?_⟩
    rcases hop with ⟨rt, ha, rfl⟩ | ⟨rt, ha, rfl⟩ <;> simp only [eventOf, observe, learn] <;> exact ⟨trivial, rfl⟩

/-- **A code exchange that the wire-level endpoint lets through** (with or without the storage fault): the C07 monitor learns the
    refresh token the storage minted, exactly as for the typed operation, and has nothing to object. -/
theorem goodX_token_code {now : Int} {s : Flow.St} {o : ObsState} (h : Inv07 s o) (rt : Router) (w : WireReq) (df : Bool)
    {a : AuthReq} {c : OPClient} {k : String} (hte : tokenEndpoint now rt s.p w = .issue (.code a c k)) :
    Inv07 (stepObsX now (s, o) (.token rt w df)).1.1 (stepObsX now (s, o) (.token rt w df)).1.2 ∧
    (stepObsX now (s, o) (.token rt w df)).2.2.2 = none := by
  obtain ⟨f, hc, hg, hce⟩ := wire_code_typed hte
  have hown := ownReading_mem hc
  rw [hg] at hown
  have hcodeR : ownReading w.oracles Const.GrantTypeCode f ∈ (readings w).filter isCode :=
    List.mem_filter.2 ⟨hown, by simp [isCode, ownReading]⟩
  have hnotR : isRefresh (ownReading w.oracles Const.GrantTypeCode f) = false := by
    simp [isRefresh, ownReading, Const.GrantTypeCode, Const.GrantTypeRefreshToken]
  -- the typed operation with the same step
  have key : ∀ (op : Flow.Op) (s' : Flow.St) (out : Flow.Out),
      ((∃ rt ha, op = .exchange rt (Hand.tokAccessTokenRequest w.oracles f) ha) ∨ (∃ rt ha, op = .exchangeDeleteFails rt (Hand.tokAccessTokenRequest w.oracles f) ha)) →
      Flow.step now s op = (s', out) → Flow.stepX now s (.token rt w df) = (s', .base out) →
      ((∃ a c k nr, out = .issued (.code a c k) nr) ∨ (∃ e, out = .error e)) →
      Inv07 (stepObs now (s, o) op).1.1 (stepObs now (s, o) op).1.2 →
      Inv07 (stepObsX now (s, o) (.token rt w df)).1.1 (stepObsX now (s, o) (.token rt w df)).1.2 ∧
      (stepObsX now (s, o) (.token rt w df)).2.2.2 = none := by
    intro op s' out hop hstep hstepX hout hinv
    obtain ⟨A, hA, hh, htok, hst, hm⟩ := exchange_obs_m07 (o := o) hop hstep hout
    rw [hst] at hinv
    rw [stepObsX_eq hstepX]
    simp only [eventOfX, hA, Option.map_some]
    cases hAt : A.tokens with
    | none =>
      obtain ⟨e1, e2, e3⟩ := observeX_refusal_notRefresh now o w A hAt hown hnotR
      refine ⟨?_, e3⟩
      simp only [e1]
      exact hinv.of_m07 hm.symm
    | some tk =>
      obtain ⟨e1, e2⟩ := observeX_code_success now o w A hAt hh hcodeR
      refine ⟨?_, e2⟩
      exact hinv.of_m07 (by rw [e1, hm])
  cases df with
  | false =>
    exact key (.exchange rt (Hand.tokAccessTokenRequest w.oracles f) (haOf f)) _ _ (Or.inl ⟨_, _, rfl⟩)
      (by rw [step_exchange, hce]) (by simp only [Flow.stepX, hte]; rfl) (Or.inl ⟨_, _, _, _, rfl⟩)
      (good07_exchange h rt _ _).1
  | true =>
    by_cases hd : deletesAuthRequest = true
    · by_cases hfat : deleteFailureFatal = true
      · exact key (.exchangeDeleteFails rt (Hand.tokAccessTokenRequest w.oracles f) (haOf f)) _ _ (Or.inr ⟨_, _, rfl⟩)
          (by rw [step_exchangeDeleteFails, hce]) (by simp only [Flow.stepX, hte, issueDeleteFails, hd, hfat]; rfl) (Or.inr ⟨_, rfl⟩)
          (good07_exchangeDeleteFails h rt _ _).1
      · exact absurd delete_failure_fatal hfat
    · exact absurd deletes_authRequest hd

end FlowObs

namespace FlowObs
open Go Gen Hand Flow WireSpec

/-- a token request the endpoint refuses: nothing changes, nothing was created; at most the widening clause can fire -/
theorem goodX_token_err {now : Int} {s : Flow.St} {o : ObsState} (h : Inv07 s o) (rt : Router) (w : WireReq) (df : Bool)
    {e : String} (hte : tokenEndpoint now rt s.p w = .err e) :
    Inv07 (stepObsX now (s, o) (.token rt w df)).1.1 (stepObsX now (s, o) (.token rt w df)).1.2 ∧
    ((stepObsX now (s, o) (.token rt w df)).2.2.2 = none ∨ (stepObsX now (s, o) (.token rt w df)).2.2.2 = widening) ∧
    (stepObsX now (s, o) (.token rt w df)).2.1 = .base (.error e) ∧ (stepObsX now (s, o) (.token rt w df)).1.1 = s := by
  have hstep : Flow.stepX now s (.token rt w df) = (s, .base (.error e)) := by simp only [Flow.stepX, hte]
  rw [stepObsX_eq hstep]
  simp only [eventOfX, answerOf, mintedIn_self, bne_self_eq_false, Option.map_some]
  obtain ⟨e1, _, e3⟩ := observeX_refusal now o w { minted := none, err := Flow.oauthCode e, created := false } rfl rfl
  refine ⟨?_, e3, trivial, trivial⟩
  simp only [e1]
  exact h.of_m07 rfl

/-- a request that goes to the handler of another grant: the model (and the monitors) say nothing -/
theorem goodX_token_other {now : Int} {s : Flow.St} {o : ObsState} (rt : Router) (w : WireReq) (df : Bool)
    {hd : String} (hte : tokenEndpoint now rt s.p w = .other hd) :
    stepObsX now (s, o) (.token rt w df) = ((s, o), (.other hd, none, none)) := by
  have hstep : Flow.stepX now s (.token rt w df) = (s, .other hd) := by simp only [Flow.stepX, hte]
  rw [stepObsX_eq hstep]
  rfl

/-- one token request, whatever it is -/
theorem goodX_token {now : Int} {s : Flow.St} {o : ObsState} (h : Inv07 s o) (rt : Router) (w : WireReq) (df : Bool) :
    Inv07 (stepObsX now (s, o) (.token rt w df)).1.1 (stepObsX now (s, o) (.token rt w df)).1.2 ∧
    ((stepObsX now (s, o) (.token rt w df)).2.2.2 = none ∨
      ((stepObsX now (s, o) (.token rt w df)).2.2.2 = widening ∧ ∃ e, (stepObsX now (s, o) (.token rt w df)).2.1 = .base (.error e))) := by
  cases hte : tokenEndpoint now rt s.p w with
  | err e =>
    obtain ⟨h1, h2, h3, _⟩ := goodX_token_err h rt w df hte
    refine ⟨h1, ?_⟩
    rcases h2 with h2 | h2
    · exact Or.inl h2
    · exact Or.inr ⟨h2, e, h3⟩
  | other hd =>
    rw [goodX_token_other rt w df hte]
    exact ⟨h, Or.inl rfl⟩
  | issue i =>
    cases i with
    | code a c k =>
      obtain ⟨h1, h2⟩ := goodX_token_code h rt w df hte
      exact ⟨h1, Or.inl h2⟩
    | refresh r c cur =>
      obtain ⟨h1, h2, _⟩ := goodX_token_refresh h rt w df hte
      exact ⟨h1, Or.inl h2⟩

/-! ## A registration changes -/

theorem find?_map_id {l : List OPClient} {f : OPClient → OPClient} (hf : ∀ x, (f x).id = x.id) (k : String) :
    (l.map f).find? (·.id == k) = (l.find? (·.id == k)).map f := by
  induction l with
  | nil => rfl
  | cons x xs ih =>
    simp only [List.map_cons, List.find?_cons, hf]
    split
    · rfl
    · exact ih

def swapReg (c : OPClient) (x : OPClient) : OPClient := if x.id == c.id then c else x

theorem swapReg_id (c x : OPClient) : (swapReg c x).id = x.id := by
  unfold swapReg
  split
  · rename_i h; exact (beq_iff_eq.1 h).symm
  · rfl

/-- a registration is replaced by one the provider's configuration lets authenticate: storage and monitors stay in step -/
theorem goodX_reregister {now : Int} {s : Flow.St} {o : ObsState} (h : Inv07 s o) (c : OPClient) (hcap : AuthCapable s.p c) :
    Inv07 (stepObsX now (s, o) (.reregister c)).1.1 (stepObsX now (s, o) (.reregister c)).1.2 ∧
    (stepObsX now (s, o) (.reregister c)).2.2.2 = none := by
  have hstep : Flow.stepX now s (.reregister c) = (Flow.reRegister s c, .base .done) := rfl
  rw [stepObsX_eq hstep]
  simp only [eventOfX, observeX, and_true]
  obtain ⟨hcl, hiss, hmax, hoff⟩ := h.cfg
  refine ⟨⟨?_, hiss, hmax, hoff⟩, h.flag, h.live, h.fresh, ?_⟩
  · show reRegister o.m07.base.clients c = (Flow.reRegister s c).p.store.clients
    rw [hcl]; rfl
  · intro r hr
    obtain ⟨c0, hc0, hcap0⟩ := h.capable r hr
    have hmap : (Flow.reRegister s c).p.store.clients = s.p.store.clients.map (swapReg c) := rfl
    refine ⟨swapReg c c0, ?_, ?_⟩
    · rw [hmap, find?_map_id (swapReg_id c), hc0]; rfl
    · unfold swapReg
      split
      · exact hcap
      · exact hcap0

end FlowObs

/-! ## Histories -/

namespace FlowObs
open Go Gen Hand Flow WireSpec

/-- the provider's switches, which no operation changes - not even a changed registration -/
def FlagsEq (s s' : Flow.St) : Prop :=
  s'.p.postSupported = s.p.postSupported ∧ s'.p.pkjwtSupported = s.p.pkjwtSupported ∧
  s'.p.is_JWTAuthorizationGrantExchanger = s.p.is_JWTAuthorizationGrantExchanger

theorem FlagsEq.of_cfg {s s' : Flow.St} (h : CfgEq s s') : FlagsEq s s' := ⟨h.2.2.2.2.2.1, h.2.2.2.2.2.2.1, h.2.2.2.2.2.2.2⟩

theorem AuthCapable.flags {s s' : Flow.St} {c : OPClient} (h : AuthCapable s.p c) (e : FlagsEq s s') : AuthCapable s'.p c := by
  obtain ⟨e1, e2, e3⟩ := e
  unfold AuthCapable at *
  rw [e1, e2, e3]; exact h

theorem stepX_flags (now : Int) (s : Flow.St) (op : Flow.OpX) : FlagsEq s (Flow.stepX now s op).1 := by
  cases op with
  | base op => exact FlagsEq.of_cfg (step_cfg now s op)
  | reregister c => exact ⟨rfl, rfl, rfl⟩
  | token rt w df =>
    simp only [Flow.stepX]
    cases hte : tokenEndpoint now rt s.p w with
    | err e => exact ⟨rfl, rfl, rfl⟩
    | other hd => exact ⟨rfl, rfl, rfl⟩
    | issue i =>
      cases i with
      | refresh r c cur => exact FlagsEq.of_cfg (mintTokens_auth s _).2.2.2
      | code a c k =>
        cases df with
        | false => exact FlagsEq.of_cfg (applyIssue_code s a c k).2.2.2
        | true =>
          simp only [if_true, issueDeleteFails]
          split
          · exact FlagsEq.of_cfg (applyIssue_code s a c k).2.2.2
          · split
            · split
              · exact FlagsEq.of_cfg (mintTokens_auth s _).2.2.2
              · exact ⟨rfl, rfl, rfl⟩
            · exact FlagsEq.of_cfg (mintTokens_auth s _).2.2.2

theorem stepObsX_state (now : Int) (s : Flow.St) (o : ObsState) (op : Flow.OpX) : (stepObsX now (s, o) op).1.1 = (Flow.stepX now s op).1 := by
  simp only [stepObsX]; cases eventOfX s (Flow.stepX now s op).1 op (Flow.stepX now s op).2 <;> rfl

/-- one step of an extended history: the invariant is kept; the C07 monitor has nothing to object unless the step is a REFUSED
    refresh, which can at most trip the widening clause -/
theorem goodX_step (now : Int) {s : Flow.St} {o : ObsState} (h : Inv07 s o) (op : Flow.OpX)
    (hreg : ∀ c, op = .reregister c → AuthCapable s.p c) :
    Inv07 (stepObsX now (s, o) op).1.1 (stepObsX now (s, o) op).1.2 ∧
    ((stepObsX now (s, o) op).2.2.2 = none ∨
      ((stepObsX now (s, o) op).2.2.2 = widening ∧ ∃ e, (stepObsX now (s, o) op).2.1 = .base (.error e))) := by
  cases op with
  | base op =>
    rw [stepObsX_base]
    obtain ⟨h1, h2, _⟩ := good07_step now h op
    refine ⟨h1, ?_⟩
    rcases h2 with h2 | ⟨h2, e, he⟩
    · exact Or.inl h2
    · exact Or.inr ⟨h2, e, by simp only [he]⟩
  | reregister c =>
    obtain ⟨h1, h2⟩ := goodX_reregister (now := now) h c (hreg c rfl)
    exact ⟨h1, Or.inl h2⟩
  | token rt w df => exact goodX_token h rt w df

theorem inv07_runX (now : Int) {s : Flow.St} {o : ObsState} (h : Inv07 s o) (ops : List Flow.OpX)
    (hreg : ∀ c, Flow.OpX.reregister c ∈ ops → AuthCapable s.p c) :
    Inv07 (runObsX now (s, o) ops).1.1 (runObsX now (s, o) ops).1.2 ∧
    ∀ x ∈ (runObsX now (s, o) ops).2, x.2.2 = none ∨ (x.2.2 = widening ∧ ∃ e, x.1 = .base (.error e)) := by
  induction ops generalizing s o with
  | nil => exact ⟨h, by intro x hx; cases hx⟩
  | cons op rest ih =>
    obtain ⟨hinv, hv⟩ := goodX_step now h op (fun c hc => hreg c (by rw [hc]; exact List.mem_cons_self))
    have hfl : FlagsEq s (stepObsX now (s, o) op).1.1 := by rw [stepObsX_state]; exact stepX_flags now s op
    obtain ⟨i1, i2⟩ := ih hinv (fun c hc => (hreg c (List.mem_cons_of_mem _ hc)).flags hfl)
    refine ⟨i1, ?_⟩
    intro x hx
    simp only [runObsX, List.mem_cons] at hx
    rcases hx with rfl | hx
    · exact hv
    · exact i2 x hx

end FlowObs

namespace C07
open FlowObs Flow

/-- **C07 over histories whose token requests are given as they travel and in which registrations change.**  From an initial
    situation, for EVERY list of operations - the operations of `c07_history_core`, POSTs to the token endpoint of either router
    with every parameter in the body, in the query, or in both with equal or different values (with or without the storage
    fault), and registrations that are replaced (grant types removed or given back, another authentication method - one the
    provider's configuration lets the client use) - the reference monitor, which judges a request under every reading of its
    parameters and against the CURRENT registration, has nothing to object to any step that is not a refused refresh: every
    refresh that succeeds was made with a live refresh token, by the authenticated / identified client the token belongs to,
    whose registration contains the refresh grant AT THAT MOMENT, with refresh enabled, requested ⊆ granted, client / subject /
    audience / auth time kept (on the new refresh token, the access token and the ID token), the presented token handed to the
    storage and a different one returned; no refused request created tokens. -/
theorem c07_wire_history_core (now : Int) (s : Flow.St) (o : ObsState) (h0 : Init s o) (ops : List Flow.OpX)
    (hreg : ∀ c, Flow.OpX.reregister c ∈ ops → AuthCapable s.p c) :
    ∀ x ∈ (runObsX now (s, o) ops).2, x.2.2 = none ∨ (x.2.2 = widening ∧ ∃ e, x.1 = .base (.error e)) :=
  (inv07_runX now h0.inv07 ops hreg).2

/-- the observer run next to the extended model is the extended model -/
theorem runObsX_runX (now : Int) (s : Flow.St) (o : ObsState) (ops : List Flow.OpX) :
    (runObsX now (s, o) ops).1.1 = (Flow.runX now s ops).1 ∧ (runObsX now (s, o) ops).2.map (·.1) = (Flow.runX now s ops).2 := by
  induction ops generalizing s o with
  | nil => exact ⟨rfl, rfl⟩
  | cons op rest ih =>
    have h1 : (stepObsX now (s, o) op).1.1 = (Flow.stepX now s op).1 := stepObsX_state now s o op
    have h2 : (stepObsX now (s, o) op).2.1 = (Flow.stepX now s op).2 := by
      simp only [stepObsX]; cases eventOfX s (Flow.stepX now s op).1 op (Flow.stepX now s op).2 <;> rfl
    obtain ⟨i1, i2⟩ := ih (stepObsX now (s, o) op).1.1 (stepObsX now (s, o) op).1.2
    rw [h1] at i1 i2
    have hrun : Flow.runX now s (op :: rest) =
        ((Flow.runX now (Flow.stepX now s op).1 rest).1, (Flow.stepX now s op).2 :: (Flow.runX now (Flow.stepX now s op).1 rest).2) := rfl
    have hpair : (stepObsX now (s, o) op).1 = ((Flow.stepX now s op).1, (stepObsX now (s, o) op).1.2) := by rw [← h1]
    show (runObsX now (stepObsX now (s, o) op).1 rest).1.1 = _ ∧
      ((stepObsX now (s, o) op).2 :: (runObsX now (stepObsX now (s, o) op).1 rest).2).map (·.1) = _
    rw [hrun, List.map_cons, h2, hpair]
    exact ⟨i1, by rw [i2]⟩

end C07

/-! ## Non-vacuity: concrete extended histories (evaluated by the kernel) -/

namespace FlowObs
open Go Gen Hand Flow

def demoWebNoRefresh : OPClient := { demoWeb with grants := ["authorization_code"] }

/-- the code exchange of `demoOps`, on the wire: grant_type in the QUERY, the rest in the body, Basic credentials -/
def wireExchange (rt : Router) : Flow.OpX :=
  .token rt { query := [("grant_type", "authorization_code")], body := [("code", "c1"), ("redirect_uri", "https://rp.example/cb")],
              basic := some ("web", "s3cret") } false

/-- a refresh of `tok`: every parameter in the query, nothing in the body -/
def wireRefreshQ (rt : Router) (tok : String) (scope : String) : Flow.OpX :=
  .token rt { query := [("grant_type", "refresh_token"), ("refresh_token", tok), ("scope", scope)], basic := some ("web", "s3cret") } false

/-- a refresh whose parameters are presented TWICE with different values: grant_type (body: refresh_token, query: bogus),
    refresh_token (body: a rotated token, query: the live one), scope (body: a widening one, query: a narrowing one) -/
def wireRefreshDup (rt : Router) (tokBody tokQuery : String) : Flow.OpX :=
  .token rt { body := [("grant_type", "refresh_token"), ("refresh_token", tokBody), ("scope", "openid admin")],
              query := [("grant_type", "bogus"), ("refresh_token", tokQuery), ("scope", "openid")], basic := some ("web", "s3cret") } false

def showOutX : Flow.OutX → String
  | .base o => showOutShort o
  | .other h => "other:" ++ h

/-- a grant, the registration loses the refresh grant, refreshes shaped in different ways, the grant is given back -/
def demoWire (rt : Router) : List Flow.OpX :=
  [.base demoAuthorize, .base (.login "ar1" "user1" 1000), .base (.callback "ar1" "c1"), wireExchange rt,
   wireRefreshQ rt "rt1" "openid email offline_access",
   .reregister demoWebNoRefresh,
   wireRefreshQ rt "rt2" "openid email",                 -- refused: the CURRENT registration has no refresh grant
   .base (demoRefresh rt "rt2" []),                      -- the same with every parameter in the body
   .reregister demoWeb,
   wireRefreshDup rt "rt1" "rt2",                        -- body: rotated token + widening scope; query: live token + narrowing scope
   wireRefreshQ rt "rt3" "openid email"]                 -- re-widening to a scope dropped by the previous request

end FlowObs

namespace C07
open FlowObs Flow

example : ((runObsX 0 (demoState, obsOf demoState) (demoWire .provider)).2.map fun x => (showOutX x.1, x.2.1, x.2.2)) =
  [("login:ar1", none, none), ("done", none, none), ("code:c1", none, none), ("tokens:user1:web:rt1", none, none),
   ("refreshed:user1:web:openid email offline_access:rt2", none, none), ("done", none, none),
   ("error:ErrUnauthorizedClient", none, none), ("error:ErrUnauthorizedClient", none, none), ("done", none, none),
   ("refreshed:user1:web:openid:rt3", none, none), ("error:ErrInvalidScope", none, none)] := by decide

example : ((runObsX 0 (demoState, obsOf demoState) (demoWire .legacy)).2.map fun x => (showOutX x.1, x.2.1, x.2.2)) =
  [("login:ar1", none, none), ("done", none, none), ("code:c1", none, none), ("tokens:user1:web:rt1", none, none),
   ("refreshed:user1:web:openid email offline_access:rt2", none, none), ("done", none, none),
   ("error:ErrUnauthorizedClient", none, none), ("error:ErrUnauthorizedClient", none, none), ("done", none, none),
   ("refreshed:user1:web:openid:rt3", none, none), ("error:ErrInvalidScope", none, none)] := by decide

/-- the premise of `c07_wire_history_core` holds for it -/
example : Init demoState (obsOf demoState) ∧ ∀ c, Flow.OpX.reregister c ∈ demoWire .legacy → AuthCapable demoState.p c := by
  refine ⟨init_obsOf rfl rfl rfl, ?_⟩
  intro c hc
  simp only [demoWire, wireExchange, wireRefreshQ, wireRefreshDup, List.mem_cons, List.mem_nil_iff, or_false, reduceCtorEq, false_or,
    Flow.OpX.reregister.injEq] at hc
  rcases hc with rfl | rfl <;> exact Or.inr (Or.inr (Or.inl rfl))

/-- the monitor is not vacuous about the registration: had the provider answered the refresh of the client WITHOUT the refresh
    grant with tokens (what a `withClient` that looks for grant_type in the body only does when grant_type travels in the
    query), the observer flags exactly that -/
example :
    let so := (runObsX 0 (demoState, obsOf demoState) ((demoWire .legacy).take 6)).1
    (observeX 0 so.2 (.token { query := [("grant_type", "refresh_token"), ("refresh_token", "rt2")], basic := some ("web", "s3cret") }
        { tokens := some { subject := "user1", client := "web", scopes := ["openid", "email", "offline_access"] }, audience := ["web"],
          minted := some { token := "rt3", client := "web", subject := "user1", scopes := ["openid", "email", "offline_access"], audience := ["web"], authTime := 1000 },
          handed := some "rt2", created := true })).2.2 = some "grant-not-registered" := by decide

/-- ... and with the registration that HAS the grant the same response is accepted -/
example :
    let so := (runObsX 0 (demoState, obsOf demoState) ((demoWire .legacy).take 5)).1
    (observeX 0 so.2 (.token { query := [("grant_type", "refresh_token"), ("refresh_token", "rt2")], basic := some ("web", "s3cret") }
        { tokens := some { subject := "user1", client := "web", scopes := ["openid", "email", "offline_access"] }, audience := ["web"],
          minted := some { token := "rt3", client := "web", subject := "user1", scopes := ["openid", "email", "offline_access"], audience := ["web"], authTime := 1000 },
          handed := some "rt2", created := true })).2.2 = none := by decide

end C07

/-! ## What one step does to the refresh tokens of the storage, and the ORIGIN of every token

  Rotation handed to the storage, "new tokens keep the original subject / audience / authentication time" and "over any chain
  of refreshes the granted scope never grows" as statements about whole (extended) histories, by induction over the
  operations - with no hypothesis about registrations. -/

namespace FlowObs
open Go Gen Hand Flow WireSpec

/-- the output of a step is a refresh that returned a new refresh token -/
def IsRefreshIssue (out : Flow.OutX) : Prop := ∃ r c cur tok, out = .base (.issued (.refresh r c cur) (some tok))

/-- **What a step can do to the refresh tokens** - for every operation of an extended history, in any state:
    (a) nothing, and its answer is no refresh; or (b) a code exchange made the storage mint ONE fresh token for the authorization
    request it redeemed; or (c) a refresh: the answer names the presented token `cur`, which resolved to grant `r0`, exactly that
    token is gone, ONE fresh token carries grant `r1` with scopes within `r0`'s and the same client, subject, audience and
    authentication time. -/
theorem stepX_change (now : Int) (s : Flow.St) (op : Flow.OpX) :
    ((Flow.stepX now s op).1.store.refresh = s.store.refresh ∧ (Flow.stepX now s op).1.nextRT = s.nextRT ∧ ¬ IsRefreshIssue (Flow.stepX now s op).2) ∨
    (∃ a, (Flow.stepX now s op).1.store.refresh = s.store.refresh ++ [newCodeRT s a] ∧ (Flow.stepX now s op).1.nextRT = s.nextRT + 1 ∧
        ¬ IsRefreshIssue (Flow.stepX now s op).2) ∨
    (∃ r0 r1 c cur, (Flow.stepX now s op).2 = .base (.issued (.refresh r1 c cur) (some ("rt" ++ toString s.nextRT))) ∧
        s.store.refresh.find? (·.token == cur) = some r0 ∧
        (Flow.stepX now s op).1.store.refresh = s.store.refresh.filter (·.token != cur) ++ [{ r1 with token := "rt" ++ toString s.nextRT }] ∧
        (Flow.stepX now s op).1.nextRT = s.nextRT + 1 ∧
        C07.sub r1.scopes r0.scopes ∧ r1.clientID = r0.clientID ∧ r1.subject = r0.subject ∧ r1.audience = r0.audience ∧ r1.authTime = r0.authTime) := by
  have notRI_err : ∀ e, ¬ IsRefreshIssue (.base (.error e)) := by rintro e ⟨_, _, _, _, h⟩; cases h
  have notRI_code : ∀ a c k nr, ¬ IsRefreshIssue (.base (.issued (.code a c k) nr)) := by rintro a c k nr ⟨_, _, _, _, h⟩; cases h
  -- a code issue: minted or nothing
  have codeCase : ∀ (a : AuthReq) (c : OPClient) (k : String) (s' : Flow.St) (out : Flow.OutX),
      s'.store.refresh = (mintTokens s (.code a c k)).store.refresh → s'.nextRT = (mintTokens s (.code a c k)).nextRT → ¬ IsRefreshIssue out →
      (s'.store.refresh = s.store.refresh ∧ s'.nextRT = s.nextRT ∧ ¬ IsRefreshIssue out) ∨
      (∃ a, s'.store.refresh = s.store.refresh ++ [newCodeRT s a] ∧ s'.nextRT = s.nextRT + 1 ∧ ¬ IsRefreshIssue out) := by
    intro a c k s' out hR hN hout
    by_cases hw : wantsRefresh (.code a c k) = true
    · obtain ⟨m1, m2, _⟩ := mintTokens_code_yes (s := s) hw
      exact Or.inr ⟨a, by rw [hR, m1], by rw [hN, m2], hout⟩
    · have hw' : wantsRefresh (.code a c k) = false := by simpa using hw
      obtain ⟨m1, _⟩ := mintTokens_no (s := s) hw'
      exact Or.inl ⟨by rw [hR, m1], by rw [hN, m1], hout⟩
  -- a refresh issue: rotation
  have refreshCase : ∀ (rt : Router) (req : RefreshTokenRequest) (ha : Bool) (i : IssueFor), refreshExchange now rt s.p req ha = .ok i →
      ∃ r0 r1 c cur, i = .refresh r1 c cur ∧ s.store.refresh.find? (·.token == cur) = some r0 ∧
        (mintTokens s i).store.refresh = s.store.refresh.filter (·.token != cur) ++ [{ r1 with token := "rt" ++ toString s.nextRT }] ∧
        (mintTokens s i).nextRT = s.nextRT + 1 ∧ newRefresh s i = some ("rt" ++ toString s.nextRT) ∧
        C07.sub r1.scopes r0.scopes ∧ r1.clientID = r0.clientID ∧ r1.subject = r0.subject ∧ r1.audience = r0.audience ∧ r1.authTime = r0.authTime := by
    intro rt req ha i hre
    obtain ⟨r0, r1, c, hi, _, _, hlook, _, _, hvs, _⟩ := refreshExchange_ok hre
    subst hi
    obtain ⟨m1, m2, m3⟩ := mintTokens_refresh s r1 c req.RefreshToken
    obtain ⟨h1, h2, h3, h4, h5, _⟩ := C07.validateRefreshTokenScopes_ok hvs
    exact ⟨r0, r1, c, req.RefreshToken, rfl, tokenLookup hlook, m1, m2, m3, h1, h2, h3, h4, h5⟩
  cases op with
  | reregister c => exact Or.inl ⟨rfl, rfl, by rintro ⟨_, _, _, _, h⟩; cases h⟩
  | base op =>
    have hx : Flow.stepX now s (.base op) = ((Flow.step now s op).1, .base (Flow.step now s op).2) := rfl
    rw [hx]
    cases op with
    | authorize a hint =>
      rw [step_authorize]
      split
      · exact Or.inl ⟨rfl, rfl, notRI_err _⟩
      · exact Or.inl ⟨rfl, rfl, by rintro ⟨_, _, _, _, h⟩; cases h⟩
    | login a b c => exact Or.inl ⟨rfl, rfl, by rintro ⟨_, _, _, _, h⟩; cases h⟩
    | callback id code =>
      rw [step_callback]
      split
      · exact Or.inl ⟨rfl, rfl, notRI_err _⟩
      · split
        · exact Or.inl ⟨rfl, rfl, notRI_err _⟩
        · split
          · exact Or.inl ⟨rfl, rfl, notRI_err _⟩
          · exact Or.inl ⟨rfl, rfl, by rintro ⟨_, _, _, _, h⟩; cases h⟩
    | exchange rt req ha =>
      rw [step_exchange]
      cases hce : codeExchange now rt s.p req ha with
      | error e => exact Or.inl ⟨rfl, rfl, notRI_err _⟩
      | ok i =>
        obtain ⟨a, c, hi, _⟩ := codeExchange_ok hce
        subst hi
        obtain ⟨hR, hN⟩ := applyIssue_refreshPart s (.code a c req.Code)
        rcases codeCase a c req.Code _ _ hR hN (notRI_code a c req.Code (newRefresh s (.code a c req.Code))) with h | h
        · exact Or.inl h
        · exact Or.inr (Or.inl h)
    | exchangeDeleteFails rt req ha =>
      rw [step_exchangeDeleteFails]
      cases hce : codeExchange now rt s.p req ha with
      | error e => exact Or.inl ⟨rfl, rfl, notRI_err _⟩
      | ok i =>
        obtain ⟨a, c, hi, _⟩ := codeExchange_ok hce
        subst hi
        simp only []
        split
        · rcases codeCase a c req.Code _ (.base (.error "ErrServerError")) rfl rfl (notRI_err _) with h | h
          · exact Or.inl h
          · exact Or.inr (Or.inl h)
        · exact Or.inl ⟨rfl, rfl, notRI_err _⟩
    | refresh rt req ha =>
      rw [step_refresh]
      cases hre : refreshExchange now rt s.p req ha with
      | error e => exact Or.inl ⟨rfl, rfl, notRI_err _⟩
      | ok i =>
        obtain ⟨r0, r1, c, cur, hi, hf, m1, m2, m3, hrest⟩ := refreshCase rt req ha i hre
        subst hi
        refine Or.inr (Or.inr ⟨r0, r1, c, cur, ?_, hf, m1, m2, hrest⟩)
        simp only [m3]
  | token rt w df =>
    simp only [Flow.stepX]
    cases hte : tokenEndpoint now rt s.p w with
    | err e => exact Or.inl ⟨rfl, rfl, notRI_err _⟩
    | other hd => exact Or.inl ⟨rfl, rfl, by rintro ⟨_, _, _, _, h⟩; cases h⟩
    | issue i =>
      cases i with
      | refresh r1 c cur =>
        obtain ⟨f, _, _, hre⟩ := wire_refresh_typed hte
        obtain ⟨r0, r1', c', cur', hi, hf, m1, m2, m3, hrest⟩ := refreshCase rt _ _ _ hre
        cases hi
        refine Or.inr (Or.inr ⟨r0, r1, c, cur, ?_, hf, m1, m2, hrest⟩)
        simp only [m3]
      | code a c k =>
        cases df with
        | false =>
          obtain ⟨hR, hN⟩ := applyIssue_refreshPart s (.code a c k)
          rcases codeCase a c k _ _ hR hN (notRI_code a c k (newRefresh s (.code a c k))) with h | h
          · exact Or.inl h
          · exact Or.inr (Or.inl h)
        | true =>
          simp only [if_true, issueDeleteFails]
          obtain ⟨hR, hN⟩ := applyIssue_refreshPart s (.code a c k)
          split
          · rcases codeCase a c k _ _ hR hN (notRI_code a c k (newRefresh s (.code a c k))) with h | h
            · exact Or.inl h
            · exact Or.inr (Or.inl h)
          · split
            · split
              · rcases codeCase a c k _ (.base (.error "ErrServerError")) rfl rfl (notRI_err _) with h | h
                · exact Or.inl h
                · exact Or.inr (Or.inl h)
              · exact Or.inl ⟨rfl, rfl, notRI_err _⟩
            · rcases codeCase a c k _ _ rfl rfl (notRI_code a c k (newRefresh s (.code a c k))) with h | h
              · exact Or.inl h
              · exact Or.inr (Or.inl h)

end FlowObs

namespace FlowObs
open Go Gen Hand Flow WireSpec

/-- the first record the storage holds after a step and did not hold before it -/
def mintedRec (s s' : Flow.St) : Option RefreshReq :=
  s'.store.refresh.find? fun r => (s.store.refresh.find? (·.token == r.token)).isNone

/-- Ghost bookkeeping of one step: for every refresh token the storage has minted, the GRANT OF THE CODE EXCHANGE it descends
    from (as the storage recorded it then: client, subject, audience, authentication time, scopes).  A refresh that answers
    with a new token passes the origin of the presented token on; any other step that makes the storage mint a token starts an
    origin with that token's own record. -/
def originStep (now : Int) (s : Flow.St) (g : List (String × RefreshReq)) (op : Flow.OpX) : List (String × RefreshReq) :=
  match (Flow.stepX now s op).2 with
  | .base (.issued (.refresh _ _ cur) (some tok)) =>
    (match g.find? (·.1 == cur) with
     | some (_, r0) => g ++ [(tok, r0)]
     | none => g)
  | _ =>
    (match mintedRec s (Flow.stepX now s op).1 with
     | some new => g ++ [(new.token, new)]
     | none => g)

def origins (now : Int) : Flow.St → List (String × RefreshReq) → List Flow.OpX → List (String × RefreshReq)
  | _, g, [] => g
  | s, g, op :: rest => origins now (Flow.stepX now s op).1 (originStep now s g op) rest

/-- every stored refresh token has an origin and is within it -/
structure Org (s : Flow.St) (g : List (String × RefreshReq)) : Prop where
  within : ∀ r ∈ s.store.refresh, ∃ r0, g.find? (·.1 == r.token) = some (r.token, r0) ∧ C07.sub r.scopes r0.scopes ∧
      r.clientID = r0.clientID ∧ r.subject = r0.subject ∧ r.audience = r0.audience ∧ r.authTime = r0.authTime
  freshG : ∀ e ∈ g, ∃ k, k < s.nextRT ∧ e.1 = "rt" ++ toString k
  freshS : ∀ r ∈ s.store.refresh, ∃ k, k < s.nextRT ∧ r.token = "rt" ++ toString k

theorem org_not_found {s : Flow.St} {g : List (String × RefreshReq)} (h : Org s g) :
    g.find? (·.1 == "rt" ++ toString s.nextRT) = none := by
  rw [List.find?_eq_none]
  intro e he hek
  obtain ⟨k, hk, hid⟩ := h.freshG e he
  have : "rt" ++ toString k = "rt" ++ toString s.nextRT := by rw [← hid]; simpa using hek
  have := rt_inj this
  omega

theorem mintedRec_same {s s' : Flow.St} (h : s'.store.refresh = s.store.refresh) : mintedRec s s' = none := by
  unfold mintedRec
  rw [h, List.find?_eq_none]
  intro r hr
  have : (s.store.refresh.find? (·.token == r.token)).isSome = true := find?_mem_isSome hr (by simp)
  cases hf : s.store.refresh.find? (·.token == r.token) with
  | none => rw [hf] at this; simp at this
  | some _ => simp

theorem mintedRec_append {s s' : Flow.St} {new : RefreshReq} (h1 : s'.store.refresh = s.store.refresh ++ [new])
    (hnew : s.store.refresh.find? (·.token == new.token) = none) : mintedRec s s' = some new := by
  unfold mintedRec
  rw [h1, List.find?_append]
  have hfirst : s.store.refresh.find? (fun r => (s.store.refresh.find? (·.token == r.token)).isNone) = none := by
    rw [List.find?_eq_none]
    intro r hr
    have : (s.store.refresh.find? (·.token == r.token)).isSome = true := find?_mem_isSome hr (by simp)
    cases hf : s.store.refresh.find? (·.token == r.token) with
    | none => rw [hf] at this; simp at this
    | some _ => simp
  rw [hfirst]
  simp [hnew]

/-- the storage gained `new` (fresh token), the rest is a part of what it held; the origin list gained `(new.token, r0)` -/
theorem Org.mint {s s' : Flow.St} {g : List (String × RefreshReq)} (h : Org s g) {l : List RefreshReq} (hl : ∀ r ∈ l, r ∈ s.store.refresh)
    {new r0 : RefreshReq} (hnew : new.token = "rt" ++ toString s.nextRT)
    (hin : C07.sub new.scopes r0.scopes ∧ new.clientID = r0.clientID ∧ new.subject = r0.subject ∧ new.audience = r0.audience ∧ new.authTime = r0.authTime)
    (h1 : s'.store.refresh = l ++ [new]) (h2 : s'.nextRT = s.nextRT + 1) : Org s' (g ++ [(new.token, r0)]) := by
  refine ⟨?_, ?_, ?_⟩
  · intro r hr
    rw [h1] at hr
    rcases List.mem_append.1 hr with hr | hr
    · obtain ⟨r0', hf, hs⟩ := h.within r (hl r hr)
      exact ⟨r0', by rw [List.find?_append, hf]; rfl, hs⟩
    · have : r = new := by simpa using hr
      subst this
      refine ⟨r0, ?_, hin⟩
      rw [List.find?_append, hnew, org_not_found h]
      simp
  · intro e he
    rw [h2]
    rcases List.mem_append.1 he with he | he
    · obtain ⟨k, hk, hid⟩ := h.freshG e he
      exact ⟨k, by omega, hid⟩
    · have : e = (new.token, r0) := by simpa using he
      subst this
      exact ⟨s.nextRT, by omega, hnew⟩
  · intro r hr
    rw [h1] at hr; rw [h2]
    rcases List.mem_append.1 hr with hr | hr
    · obtain ⟨k, hk, hid⟩ := h.freshS r (hl r hr)
      exact ⟨k, by omega, hid⟩
    · have : r = new := by simpa using hr
      subst this
      exact ⟨s.nextRT, by omega, hnew⟩

theorem org_step (now : Int) {s : Flow.St} {g : List (String × RefreshReq)} (h : Org s g) (op : Flow.OpX) :
    Org (Flow.stepX now s op).1 (originStep now s g op) := by
  have hnf : s.store.refresh.find? (·.token == "rt" ++ toString s.nextRT) = none := by
    rw [List.find?_eq_none]
    intro r hr hrt
    obtain ⟨k, hk, hid⟩ := h.freshS r hr
    have : "rt" ++ toString k = "rt" ++ toString s.nextRT := by rw [← hid]; simpa using hrt
    have := rt_inj this
    omega
  rcases stepX_change now s op with ⟨h1, h2, hno⟩ | ⟨a, h1, h2, hno⟩ | ⟨r0, r1, c, cur, hout, hf, h1, h2, hsub, hc, hs, ha, ht⟩
  · -- nothing happened
    have hg : originStep now s g op = g := by
      unfold originStep
      split
      · rename_i r c cur tok heq; exact absurd ⟨r, c, cur, tok, heq⟩ hno
      · rw [mintedRec_same h1]
    rw [hg]
    exact ⟨by rw [h1]; exact h.within, by rw [h2]; exact h.freshG, by rw [h1, h2]; exact h.freshS⟩
  · -- a code exchange minted
    have hg : originStep now s g op = g ++ [((newCodeRT s a).token, newCodeRT s a)] := by
      unfold originStep
      split
      · rename_i r c cur tok heq; exact absurd ⟨r, c, cur, tok, heq⟩ hno
      · rw [mintedRec_append h1 hnf]
    rw [hg]
    exact h.mint (l := s.store.refresh) (fun r hr => hr) rfl ⟨fun _ hx => hx, rfl, rfl, rfl, rfl⟩ h1 h2
  · -- a rotation
    have hr0mem := List.mem_of_find?_eq_some hf
    have hr0tok : r0.token = cur := by simpa using List.find?_some hf
    obtain ⟨r00, hg0, hsub0, hc0, hs0, ha0, ht0⟩ := h.within r0 hr0mem
    rw [hr0tok] at hg0
    have hg : originStep now s g op = g ++ [("rt" ++ toString s.nextRT, r00)] := by
      unfold originStep
      rw [hout]
      simp only [hg0]
    rw [hg]
    exact h.mint (l := s.store.refresh.filter (·.token != cur)) (fun r hr => (List.mem_filter.1 hr).1)
      (new := { r1 with token := "rt" ++ toString s.nextRT }) rfl
      ⟨fun x hx => hsub0 x (hsub x hx), hc.trans hc0, hs.trans hs0, ha.trans ha0, ht.trans ht0⟩ h1 h2

theorem org_run (now : Int) {s : Flow.St} {g : List (String × RefreshReq)} (h : Org s g) (ops : List Flow.OpX) :
    Org (Flow.runX now s ops).1 (origins now s g ops) := by
  induction ops generalizing s g with
  | nil => exact h
  | cons op rest ih => exact ih (org_step now h op)

end FlowObs

namespace C07
open FlowObs Flow

/-- **Origin of every refresh token, over extended histories.**  Along ANY history - code exchanges, refreshes and token
    requests of every shape on either router, storage faults, registrations that change in whatever way - from a storage that
    holds no refresh tokens: every refresh token the storage holds at the end descends, through the chain of rotations, from the
    grant `r0` the storage recorded at ONE code exchange, and it still carries that grant's client, SUBJECT, AUDIENCE and
    AUTHENTICATION TIME, with scopes WITHIN the scopes granted then - however many refreshes, by whomever, with whatever scope
    parameters, wherever the parameters travelled. -/
theorem c07_wire_origin (now : Int) (s : Flow.St) (hrt : s.store.refresh = []) (ops : List Flow.OpX) :
    ∀ r ∈ (Flow.runX now s ops).1.store.refresh,
      ∃ r0, (origins now s [] ops).find? (·.1 == r.token) = some (r.token, r0) ∧ sub r.scopes r0.scopes ∧
        r.clientID = r0.clientID ∧ r.subject = r0.subject ∧ r.audience = r0.audience ∧ r.authTime = r0.authTime := by
  have horg : Org s [] := ⟨(by rw [hrt]; intro r hr; cases hr), (by intro e he; cases he), (by rw [hrt]; intro r hr; cases hr)⟩
  exact (org_run now horg ops).within

/-- **Rotation over extended histories**: a refresh that answers with a new token, in ANY state, removes exactly the presented
    token from the storage and adds exactly one fresh token; every other step leaves the stored tokens alone or (a code
    exchange) adds one.  (`FlowObs.stepX_change`, restated for the token that was presented.) -/
theorem c07_wire_rotation (now : Int) (s : Flow.St) (op : Flow.OpX) {r1 : RefreshReq} {c : OPClient} {cur tok : String}
    (hout : (Flow.stepX now s op).2 = .base (.issued (.refresh r1 c cur) (some tok))) :
    tok = "rt" ++ toString s.nextRT ∧
    (Flow.stepX now s op).1.store.refresh = s.store.refresh.filter (·.token != cur) ++ [{ r1 with token := tok }] ∧
    ∃ r0, s.store.refresh.find? (·.token == cur) = some r0 ∧ sub r1.scopes r0.scopes ∧ r1.clientID = r0.clientID ∧
      r1.subject = r0.subject ∧ r1.audience = r0.audience ∧ r1.authTime = r0.authTime := by
  rcases stepX_change now s op with ⟨_, _, hno⟩ | ⟨_, _, _, hno⟩ | ⟨r0, r1', c', cur', hout', hf, h1, _, hrest⟩
  · exact absurd ⟨r1, c, cur, tok, hout⟩ hno
  · exact absurd ⟨r1, c, cur, tok, hout⟩ hno
  · rw [hout'] at hout
    cases hout
    exact ⟨rfl, h1, r0, hf, hrest⟩

end C07

namespace C07
open FlowObs Flow

/-- the origins along `demoWire`: three tokens, all descending from the grant of the one code exchange; the last one narrowed -/
example : ((origins 0 demoState [] (demoWire .legacy)).map fun e => (e.1, e.2.token, e.2.subject, e.2.scopes)) =
    [("rt1", "rt1", "user1", ["openid", "email", "offline_access"]), ("rt2", "rt1", "user1", ["openid", "email", "offline_access"]),
     ("rt3", "rt1", "user1", ["openid", "email", "offline_access"])] ∧
    ((Flow.runX 0 demoState (demoWire .legacy)).1.store.refresh.map fun r => (r.token, r.subject, r.scopes)) = [("rt3", "user1", ["openid"])] := by
  decide

end C07

/-! ## The clause "a request that fails only because of its scope is answered invalid_scope", over extended histories -/

namespace FlowObs
open Go Gen Hand Flow WireSpec

/-- side conditions of a token request on the wire under which the widening clause can be demanded of it (the wire-level reading
    of `OpOK`): the Basic header, if any, decodes; a `client_assertion` is sent iff the assertion type is the JWT one; an
    assertion is not judged at a rounding-boundary instant -/
def WireOK (now : Int) (p : Provider) (w : WireReq) : Prop :=
  ∃ f, creds w.oracles { w := w } = .ok f ∧ haOf f = (f.ClientAssertionType == Const.ClientAssertionTypeJWTAssertion) ∧
    (f.ClientAssertionType = Const.ClientAssertionTypeJWTAssertion → Decisive now p (w.tokenOf f.ClientAssertion))

def StepOKX (now : Int) (s : Flow.St) : Flow.OpX → Prop
  | .base op => OpOK now s.p op
  | .reregister c => AuthCapable s.p c
  | .token _ w _ => WireOK now s.p w

/-- the side conditions hold for every operation, in the state it is applied to -/
def RunOKX (now : Int) : Flow.St → List Flow.OpX → Prop
  | _, [] => True
  | s, op :: rest => StepOKX now s op ∧ RunOKX now (Flow.stepX now s op).1 rest

theorem clientsOK_stepX (now : Int) (s : Flow.St) (op : Flow.OpX) (h : ClientsOK s.p) : ClientsOK (Flow.stepX now s op).1.p := by
  have ofCfg : ∀ {s' : Flow.St}, CfgEq s s' → ClientsOK s'.p := fun e => h.trans e
  cases op with
  | base op => exact ofCfg (step_cfg now s op)
  | reregister c =>
    intro c' hc'
    have hm : c' ∈ s.p.store.clients.map (swapReg c) := hc'
    obtain ⟨x, hx, rfl⟩ := List.mem_map.1 hm
    rw [swapReg_id]
    exact h x hx
  | token rt w df =>
    simp only [Flow.stepX]
    cases hte : tokenEndpoint now rt s.p w with
    | err e => exact h
    | other hd => exact h
    | issue i =>
      cases i with
      | refresh r c cur => exact ofCfg (mintTokens_auth s _).2.2.2
      | code a c k =>
        cases df with
        | false => exact ofCfg (applyIssue_code s a c k).2.2.2
        | true =>
          simp only [if_true, issueDeleteFails]
          split
          · exact ofCfg (applyIssue_code s a c k).2.2.2
          · split
            · split
              · exact ofCfg (mintTokens_auth s _).2.2.2
              · exact h
            · exact ofCfg (mintTokens_auth s _).2.2.2

/-- a refused token request under the side conditions: the widening clause does not fire -/
theorem goodX_token_err_ok {now : Int} {s : Flow.St} {o : ObsState} (h : Inv07 s o) (rt : Router) (w : WireReq) (df : Bool)
    {e : String} (hte : tokenEndpoint now rt s.p w = .err e) (hw : WireOK now s.p w) (hcl : ClientsOK s.p) :
    (stepObsX now (s, o) (.token rt w df)).2.2.2 = none := by
  obtain ⟨f, hc, hha, hdec⟩ := hw
  have hstep : Flow.stepX now s (.token rt w df) = (s, .base (.error e)) := by simp only [Flow.stepX, hte]
  rw [stepObsX_eq hstep]
  simp only [eventOfX, answerOf, mintedIn_self, bne_self_eq_false, Option.map_some, observeX]
  split
  · rename_i hall
    exfalso
    have hown := ownReading_mem hc
    have hρ := List.all_eq_true.1 hall _ hown
    simp only [Bool.and_eq_true] at hρ
    obtain ⟨hisR, hsome⟩ := hρ
    have hg : grantOf { w := w } = Const.GrantTypeRefreshToken := by simpa [isRefresh, ownReading] using hisR
    -- the typed refresh was refused with the same error
    have hre : refreshExchange now rt s.p (Hand.tokRefreshTokenRequest w.oracles f) (haOf f) = .error e := by
      have := tokenEndpoint_refresh now rt s.p w hg hc
      rw [hte] at this
      cases hx : refreshExchange now rt s.p (Hand.tokRefreshTokenRequest w.oracles f) (haOf f) with
      | ok i => rw [hx] at this; cases this
      | error e' => rw [hx] at this; simp only [lift, TokResp.err.injEq] at this; rw [this]
    have hop : OpOK now s.p (.refresh rt (Hand.tokRefreshTokenRequest w.oracles f) (haOf f)) := ⟨hha, hdec⟩
    obtain ⟨_, _, h3⟩ := good07_refresh_err h rt (Hand.tokRefreshTokenRequest w.oracles f) (haOf f) hre
    have hnone := h3 hop hcl
    rw [stepObs_eq (s' := s) (out := .error e) (by rw [step_refresh, hre])] at hnone
    simp only [eventOf, observe, bne_self_eq_false] at hnone
    -- the same judgement for the library's own reading
    have hcg := c07judge_congr o.m07 now (ownReading w.oracles (grantOf { w := w }) f).p
      (presentedRefresh (Hand.tokRefreshTokenRequest w.oracles f)) f.RefreshToken f.Scopes none (Flow.oauthCode e) false rfl rfl rfl
    have hj : judge07 o now { minted := none, err := Flow.oauthCode e, created := false } (ownReading w.oracles (grantOf { w := w }) f) = none := by
      unfold judge07
      simp only [resultOf, Option.map_none]
      have e1 : (ownReading w.oracles (grantOf { w := w }) f).rt = f.RefreshToken := rfl
      have e2 : (ownReading w.oracles (grantOf { w := w }) f).requested = f.Scopes := rfl
      rw [e1, e2, hcg]
      have : C07.judge o.m07 now (presentedRefresh (Hand.tokRefreshTokenRequest w.oracles f)) f.RefreshToken f.Scopes none (Flow.oauthCode e) false = none := hnone
      rw [this]
    rw [hj] at hsome
    cases hsome
  · rfl

/-- one step of an extended history under the side conditions: nothing to object at all -/
theorem goodX_step_ok (now : Int) {s : Flow.St} {o : ObsState} (h : Inv07 s o) (op : Flow.OpX) (hok : StepOKX now s op) (hcl : ClientsOK s.p) :
    (stepObsX now (s, o) op).2.2.2 = none := by
  cases op with
  | base op =>
    rw [stepObsX_base]
    exact (good07_step now h op).2.2 hok hcl
  | reregister c => exact (goodX_reregister (now := now) h c hok).2
  | token rt w df =>
    cases hte : tokenEndpoint now rt s.p w with
    | err e => exact goodX_token_err_ok h rt w df hte hok hcl
    | other hd => rw [goodX_token_other rt w df hte]
    | issue i =>
      cases i with
      | code a c k => exact (goodX_token_code h rt w df hte).2
      | refresh r c cur => exact (goodX_token_refresh h rt w df hte).2.1

theorem inv07_runX_ok (now : Int) {s : Flow.St} {o : ObsState} (h : Inv07 s o) (ops : List Flow.OpX)
    (hok : RunOKX now s ops) (hcl : ClientsOK s.p) :
    ∀ x ∈ (runObsX now (s, o) ops).2, x.2.2 = none := by
  induction ops generalizing s o with
  | nil => intro x hx; cases hx
  | cons op rest ih =>
    obtain ⟨hop, hrest⟩ := hok
    have hv := goodX_step_ok now h op hop hcl
    have hinv := (goodX_step now h op (fun c hc => by subst hc; exact hop)).1
    have hst := stepObsX_state now s o op
    have hcl' : ClientsOK (stepObsX now (s, o) op).1.1.p := by rw [hst]; exact clientsOK_stepX now s op hcl
    have hrest' : RunOKX now (stepObsX now (s, o) op).1.1 rest := by rw [hst]; exact hrest
    intro x hx
    simp only [runObsX, List.mem_cons] at hx
    rcases hx with rfl | hx
    · exact hv
    · exact ih hinv hrest' hcl' x hx

end FlowObs

namespace C07
open FlowObs Flow

/-- **C07 over extended histories, every clause.**  ... and the monitor has nothing at all to object - including "a request that
    fails only because of its scope is answered invalid_scope", for requests of every shape and under registrations that change -
    when registered client ids are not empty and every operation, in the state it is applied to, meets its side condition: the
    operations of `c07_history` theirs (`OpOK`); a token request on the wire: its Basic header decodes, a client_assertion is
    sent iff the assertion type is the JWT one, no assertion is judged at a rounding-boundary instant (`WireOK`); a
    re-registration: the new registration can authenticate under the provider's configuration. -/
theorem c07_wire_history (now : Int) (s : Flow.St) (o : ObsState) (h0 : Init s o) (ops : List Flow.OpX)
    (hok : RunOKX now s ops) (hcl : ClientsOK s.p) :
    ∀ x ∈ (runObsX now (s, o) ops).2, x.2.2 = none :=
  inv07_runX_ok now h0.inv07 ops hok hcl

end C07

namespace C07
open FlowObs Flow

/-- the premises of `c07_wire_history` hold for `demoWire` (all side conditions, in the states the operations are applied to) -/
example : Init demoState (obsOf demoState) ∧ ClientsOK demoState.p ∧ RunOKX 0 demoState (demoWire .legacy) := by
  refine ⟨init_obsOf rfl rfl rfl, ?_, ?_⟩
  · intro c hc
    simp only [demoState, List.mem_cons, List.mem_nil_iff, or_false] at hc
    rcases hc with rfl | rfl <;> decide
  · refine ⟨trivial, trivial, trivial, ?_, ?_, ?_, ?_, ?_, ?_, ?_, ?_, trivial⟩
    all_goals first
      | exact ⟨_, rfl, by decide, fun h => absurd h (by decide)⟩
      | exact Or.inr (Or.inr (Or.inl rfl))
      | exact ⟨rfl, fun h => absurd h (by decide)⟩

end C07

namespace FlowObs
open Flow
def wStateNoPost : Flow.St := { demoState with p := { demoState.p with postSupported := false } }
def wOpsRereg : List Flow.OpX :=
  [.base demoAuthorize, .base (.login "ar1" "user1" 1000), .base (.callback "ar1" "c1"), wireExchange .legacy,
   .reregister { demoWeb with auth := "client_secret_post" },
   .token .legacy { body := [("grant_type", "refresh_token"), ("refresh_token", "rt1"), ("scope", "openid admin"),
                             ("client_id", "web"), ("client_secret", "s3cret")] } false]
end FlowObs

namespace C07
open FlowObs Flow

/-- the side condition of a re-registration is needed for the widening clause: a client that holds a refresh token is moved to
    client_secret_post although the provider has that method switched off; its widening refresh is answered invalid_client (it
    cannot authenticate at all), where the monitor - which sees a matching secret - asks for invalid_scope -/
theorem c07_wire_widening_needs_capable_registration :
    ((runObsX 0 (wStateNoPost, obsOf wStateNoPost) wOpsRereg).2.map fun x => (showOutX x.1, x.2.2)) =
      [("login:ar1", none), ("done", none), ("code:c1", none), ("tokens:user1:web:rt1", none), ("done", none),
       ("error:ErrInvalidClient", some "widening-not-answered-with-invalid_scope")] := by decide

end C07
