/-
  C16, layer 1: ONE characterisation lemma per regenerated function of Generated/Device.lean (and of the two functions of
  Generated/TokenEndpoint.lean the device handlers reach through `withClient`).  Each lemma is an EQUATION between the regenerated
  definition and a hand-written, readable spec function, proved with the shape-independent tactics `go_eq` / `go_leaf`
  (GoTacEq.lean / GoTac.lean).  These are the only places where a regenerated definition is unfolded: every theorem of
  Proofs/C16.lean, Proofs/C16History.lean, … rewrites with these equations and reasons about the spec functions, whose shape
  does not depend on how the Go text is written (local variable for a getter, inverted `if`, early return instead of `else`,
  merged / split guards, extracted helpers).
-/
import OidcModel.Spec.C16
import OidcModel.Model.DeviceFlow
import OidcModel.GoTacEq

set_option linter.unusedSimpArgs false

namespace C16
open Go Gen Hand

-- ---------------------------------------------------------------- pkg/op/storage.go assertDeviceStorage

def assertDeviceStorageSpec (s : DevStore) : Go.R DevStore :=
  if s.is_DeviceAuthorizationStorage = true then .ok s else .error "ErrUnsupportedGrantType"

theorem assertDeviceStorage_eq {now : Int} {s : DevStore} : assertDeviceStorage now s = assertDeviceStorageSpec s := by
  unfold assertDeviceStorage assertDeviceStorageSpec
  go_eq []

-- ---------------------------------------------------------------- pkg/op/device.go CheckDeviceAuthorizationState

/-- the ordering the property anchors: no device storage ↦ unsupported_grant_type; time-out ↦ slow_down, any other storage
    error ↦ access_denied; then denied ≻ approved ≻ expired ≻ pending -/
def checkStateSpec (now : Int) (clientID code : String) (p : DevProvider) : Go.R DeviceAuthorizationState :=
  if p.deviceCap = false then .error "ErrUnsupportedGrantType" else
  match p.Storage.GetDeviceAuthorizatonState clientID code with
  | .error e => if e = Const.DeadlineExceeded then .error "ErrSlowDown" else .error "ErrAccessDenied"
  | .ok st =>
    if st.Denied = true then .error "ErrAccessDenied"
    else if st.Done = true then .ok st
    else if now > st.Expires then .error "ErrExpiredDeviceCode"
    else .error "ErrAuthorizationPending"

theorem storage_cap (p : DevProvider) : p.Storage.is_DeviceAuthorizationStorage = p.deviceCap := rfl

theorem checkState_eq {now : Int} {clientID code : String} {p : DevProvider} :
    CheckDeviceAuthorizationState now clientID code p = checkStateSpec now clientID code p := by
  unfold CheckDeviceAuthorizationState checkStateSpec
  simp only [assertDeviceStorage_eq, assertDeviceStorageSpec, storage_cap, Go.errorsIs, Go.tAfter]
  by_cases hcap : p.deviceCap = true
  · simp only [hcap, if_true, if_false, Bool.true_eq_false]; go_eq []
  · have hf : p.deviceCap = false := by simpa using hcap
    simp only [hf, if_true, if_false, Bool.false_eq_true]

-- ---------------------------------------------------------------- pkg/op/device.go ParseDeviceAccessTokenRequest

theorem parseDeviceAccessTokenRequest_eq {now : Int} {r : DevHttpRequest} {p : DevProvider} :
    ParseDeviceAccessTokenRequest now r p = .ok r.PostForm := by
  unfold ParseDeviceAccessTokenRequest
  simp only [DevDecoder.Decode, DevHttpRequest.WithContext]
  go_eq []

-- ---------------------------------------------------------------- pkg/op/token_request.go ValidateGrantType

theorem validateGrantType_iff {now : Int} {c : OPClient} {g : String} : ValidateGrantType now c g = true ↔ g ∈ c.grants := by
  unfold ValidateGrantType
  simp only [Go.any, OPClient.GrantTypes, Go.isNil]
  go_leaf [Nilable.isNil]

theorem validateGrantType_eq {now : Int} {c : OPClient} {g : String} : ValidateGrantType now c g = decide (g ∈ c.grants) := by
  have h := validateGrantType_iff (now := now) (c := c) (g := g)
  cases hv : ValidateGrantType now c g <;> simp_all

-- ---------------------------------------------------------------- pkg/op/device.go deviceAccessToken (Provider router)

/-- who is asking (ClientIDFromRequest) → the state of that client's device code → the registered client → a client that has
    credentials must have authenticated → tokens for the state -/
def deviceAccessTokenSpec (now : Int) (r : DevHttpRequest) (p : DevProvider) : Go.R DevIssue :=
  match Hand.ClientIDFromRequest now r p with
  | .error e => .error e
  | .ok (clientID, authenticated) =>
    match CheckDeviceAuthorizationState now clientID r.PostForm.DeviceCode p with
    | .error e => .error e
    | .ok st =>
      match p.p.store.GetClientByClientID clientID with
      | .error e => .error e
      | .ok client =>
        if authenticated = false ∧ client.auth ≠ Const.AuthMethodNone then .error "ErrInvalidClient"
        else Hand.issueForDevice now st p client

theorem storage_getClient (p : DevProvider) (id : String) : p.Storage.GetClientByClientID id = p.p.store.GetClientByClientID id := rfl

theorem issueForDevice_ok (now : Int) (st : DeviceAuthorizationState) (p : DevProvider) (c : OPClient) :
    ∃ i, Hand.issueForDevice now st p c = .ok i := ⟨_, rfl⟩

theorem deviceAccessToken_eq {now : Int} {r : DevHttpRequest} {p : DevProvider} :
    deviceAccessToken now r p = deviceAccessTokenSpec now r p := by
  unfold deviceAccessToken deviceAccessTokenSpec
  simp only [parseDeviceAccessTokenRequest_eq, storage_getClient, OPClient.AuthMethod, DevHttpRequest.WithContext]
  go_eq [Hand.issueForDevice]

-- ---------------------------------------------------------------- pkg/op/server_legacy.go LegacyServer.DeviceToken

/-- the Server router's handler: the client was verified by `withClient`; the state check decides -/
def legacyDeviceTokenSpec (now : Int) (s : DevLegacyServer) (r : ClientRequest DevFormData) : Go.R DevIssue :=
  if s.provider.deviceCap = false then .error (Hand.unimplementedGrantError Const.GrantTypeDeviceCode) else
  match CheckDeviceAuthorizationState now r.Client.id r.Data.DeviceCode s.provider with
  | .error e => .error e
  | .ok st => Hand.issueForDevice now st s.provider r.Client

theorem legacyDeviceToken_eq {now : Int} {s : DevLegacyServer} {r : ClientRequest DevFormData} :
    LegacyDeviceToken now s r = legacyDeviceTokenSpec now s r := by
  unfold LegacyDeviceToken legacyDeviceTokenSpec
  simp only [DevProvider.GrantTypeDeviceCodeSupported, OPClient.GetID, Hand.NewResponse]
  by_cases hcap : s.provider.deviceCap = true
  · simp only [hcap, if_true, if_false, Bool.true_eq_false, Bool.not_true, Bool.false_eq_true]; go_eq [Hand.issueForDevice]
  · have hf : s.provider.deviceCap = false := by simpa using hcap
    simp only [hf, if_true, if_false, Bool.not_false]

-- ---------------------------------------------------------------- pkg/op/device.go ParseDeviceCodeRequest

/-- the device authorization request of the Provider router: the client id is the one ClientIDFromRequest established (whatever the
    form says), the client must be registered and registered for the device grant -/
def parseDeviceCodeRequestSpec (now : Int) (r : DevHttpRequest) (o : DevProvider) : Go.R DevFormData :=
  match Hand.ClientIDFromRequest now r o with
  | .error e => .error e
  | .ok (clientID, _) =>
    match o.p.store.GetClientByClientID clientID with
    | .error e => .error e
    | .ok client =>
      if Const.GrantTypeDeviceCode ∈ client.grants then .ok { r.Form with ClientID := clientID }
      else .error "ErrUnauthorizedClient"

theorem parseDeviceCodeRequest_eq {now : Int} {r : DevHttpRequest} {o : DevProvider} :
    ParseDeviceCodeRequest now r o = parseDeviceCodeRequestSpec now r o := by
  unfold ParseDeviceCodeRequest parseDeviceCodeRequestSpec
  simp only [storage_getClient, validateGrantType_eq, DevProvider.Decoder, DevDecoder.Decode, DevHttpRequest.WithContext]
  go_eq []

-- ---------------------------------------------------------------- pkg/op/device.go DeviceAuthorization

def deviceAuthorizationSpec (now : Int) (r : DevHttpRequest) (o : DevProvider) : Go.R DeviceAuthorizationResponse :=
  match parseDeviceCodeRequestSpec now r o with
  | .error e => .error e
  | .ok req => Hand.createDeviceAuthorization now req req.ClientID o

theorem deviceAuthorization_eq {now : Int} {r : DevHttpRequest} {o : DevProvider} :
    Gen.DeviceAuthorization now r o = deviceAuthorizationSpec now r o := by
  unfold Gen.DeviceAuthorization deviceAuthorizationSpec
  simp only [parseDeviceCodeRequest_eq, DevHttpRequest.WithContext]
  go_eq []

-- ---------------------------------------------------------------- pkg/op/server_legacy.go LegacyServer.DeviceAuthorization

/-- the Server router's handler: the flow is started for the client `withClient` authenticated (never for what the form names) -/
def legacyDeviceAuthorizationSpec (now : Int) (s : DevLegacyServer) (r : ClientRequest DevFormData) : Go.R DeviceAuthorizationResponse :=
  if Const.GrantTypeDeviceCode ∈ r.Client.grants then Hand.createDeviceAuthorization now r.Data r.Client.id s.provider
  else .error "ErrUnauthorizedClient"

theorem legacyDeviceAuthorization_eq {now : Int} {s : DevLegacyServer} {r : ClientRequest DevFormData} :
    LegacyDeviceAuthorization now s r = legacyDeviceAuthorizationSpec now s r := by
  unfold LegacyDeviceAuthorization legacyDeviceAuthorizationSpec
  simp only [validateGrantType_eq, OPClient.GetID, Hand.asStatusError, Hand.NewResponse]
  go_eq []

end C16
