/-
  C11, error responses under interleaving.  AuthRequestError / TryErrorRedirect complete and encode an object ALLOCATED IN THE
  CALL (`errCopy := *e; e = &errCopy`; read from the source on every run: `GenErr.authRequestErrorProgram`,
  `GenErr.tryErrorRedirectProgram`, `c11_error_answer_object_is_own`).  Hence, whatever error values the handlers were handed —
  also one and the same `*oidc.Error` for all of them, a sentinel error of the storage — under EVERY schedule each response
  carries the state / session_state of its own request, and no handed-in error object is ever written.
  (Before the repair of F-C11e the functions wrote into the handed-in object: `ErrPar.handedProgram`, kept as the witness
  that the condition on the statement list is what the theorem needs.)
-/
import OidcModel.Model.ErrPar
import OidcModel.Proofs.C11

namespace C11
open ErrPar

/-- **regenerated fact: the object that AuthRequestError / TryErrorRedirect write to and encode is allocated in the call** —
    every `e.<field> = …` and the `AuthResponseURL(…, e, …)` of both functions address the call's own copy, never the object found
    in the error that was handed in, and State and SessionState are both assigned before the object is encoded.
    FALSE when the copy is removed (the statement lists then are `ErrPar.handedProgram`). -/
theorem c11_error_answer_object_is_own :
    progOK GenErr.authRequestErrorProgram = true ∧ progOK GenErr.tryErrorRedirectProgram = true := by decide

/-- what holds for one response, whatever the others do and whatever object it was handed; `a` / `b` / `e` are the flags of
    `ErrPar.okFrom` (State assigned / SessionState assigned / answer encoded) -/
def ThreadOK (t : Thread) (st ss : Bytes) : Prop :=
  t.state = st ∧ t.session = ss ∧
  ∃ a b e, okFrom a b e t.prog = true
    ∧ (a = true → t.own.1 = st) ∧ (b = true → t.own.2 = ss) ∧ (e = true → t.sent = some (st, ss))

theorem setField_fst (f : String) (o : Obj) (st ss : Bytes) (a : Bool) (h : a = true → o.1 = st) :
    (a || f == "State") = true → (setField f o st ss).1 = st := by
  intro hh
  unfold setField
  by_cases hf : f = "State"
  · simp [hf]
  · have : a = true := by simpa [hf] using hh
    by_cases hg : f = "SessionState" <;> simp [hf, hg, h this]

theorem setField_snd (f : String) (o : Obj) (st ss : Bytes) (b : Bool) (h : b = true → o.2 = ss) :
    (b || f == "SessionState") = true → (setField f o st ss).2 = ss := by
  intro hh
  unfold setField
  by_cases hf : f = "State"
  · have hne : ¬ (f = "SessionState") := by rw [hf]; decide
    have : b = true := by simpa [hne] using hh
    simp [hf, h this]
  · by_cases hg : f = "SessionState"
    · simp [hg]
    · have : b = true := by simpa [hg] using hh
      simp [hf, hg, h this]

/-- one step of a handler whose remaining statements address only its own object: the handed-in objects are untouched and the
    handler's invariant is kept -/
theorem stepT_own (h : Heap) (t : Thread) (st ss : Bytes) (hok : ThreadOK t st ss) :
    (stepT h t).1 = h ∧ ThreadOK (stepT h t).2 st ss := by
  obtain ⟨hs, hss, a, b, e, hprog, ha, hb, he⟩ := hok
  unfold stepT
  match hp : t.prog with
  | [] => exact ⟨rfl, hs, hss, a, b, e, by rw [hp] at hprog; simpa [hp] using hprog, ha, hb, he⟩
  | .copy :: rest =>
    rw [hp] at hprog
    exact ⟨rfl, hs, hss, false, false, e, by simpa [okFrom] using hprog, by simp, by simp, he⟩
  | .fresh :: rest =>
    rw [hp] at hprog
    exact ⟨rfl, hs, hss, false, false, e, by simpa [okFrom] using hprog, by simp, by simp, he⟩
  | .set .own f :: rest =>
    rw [hp] at hprog
    refine ⟨rfl, hs, hss, (a || f == "State"), (b || f == "SessionState"), e, by simpa [okFrom] using hprog, ?_, ?_, he⟩
    · intro hh; show (setField f t.own t.state t.session).1 = st
      rw [hs, hss]; exact setField_fst f t.own st ss a ha hh
    · intro hh; show (setField f t.own t.state t.session).2 = ss
      rw [hs, hss]; exact setField_snd f t.own st ss b hb hh
  | .set .handed f :: rest => rw [hp] at hprog; simp [okFrom] at hprog
  | .encode .own :: rest =>
    rw [hp] at hprog
    simp only [okFrom, Bool.and_eq_true] at hprog
    obtain ⟨⟨ha', hb'⟩, hrest⟩ := hprog
    refine ⟨rfl, hs, hss, a, b, true, hrest, ha, hb, ?_⟩
    intro _
    show some t.own = some (st, ss)
    rw [← ha ha', ← hb hb']
  | .encode .handed :: rest => rw [hp] at hprog; simp [okFrom] at hprog
  | .unsupported s :: rest => rw [hp] at hprog; simp [okFrom] at hprog

/-- a step of ANY handler keeps every handler's invariant and leaves the handed-in objects as they were — no hypothesis on which
    objects the handlers were handed (they may all be the same one) -/
theorem step_preserves (h : Heap) (ts : Nat → Thread) (st ss : Nat → Bytes)
    (hok : ∀ j, ThreadOK (ts j) (st j) (ss j)) (i : Nat) :
    (step h ts i).1 = h ∧ ∀ j, ThreadOK ((step h ts i).2 j) (st j) (ss j) := by
  have hi := stepT_own h (ts i) (st i) (ss i) (hok i)
  refine ⟨hi.1, ?_⟩
  intro j
  by_cases hj : j = i
  · subst hj; simpa [step] using hi.2
  · simpa [step, hj] using hok j

theorem run_preserves (sched : List Nat) (h : Heap) (ts : Nat → Thread) (st ss : Nat → Bytes)
    (hok : ∀ j, ThreadOK (ts j) (st j) (ss j)) :
    (ErrPar.run sched h ts).1 = h ∧ ∀ j, ThreadOK ((ErrPar.run sched h ts).2 j) (st j) (ss j) := by
  induction sched generalizing h ts with
  | nil => exact ⟨rfl, hok⟩
  | cons i is ih =>
    obtain ⟨hh, hok'⟩ := step_preserves h ts st ss hok i
    have := ih (step h ts i).1 (step h ts i).2 hok'
    simp only [ErrPar.run]
    rw [hh] at this ⊢
    exact this

theorem threadOK_start (t : Thread) (hp : progOK t.prog = true) : ThreadOK t t.state t.session :=
  ⟨rfl, rfl, false, false, false, hp, by simp, by simp, by simp⟩

/-- the flags of a handler that has executed all its statements: it has encoded its answer -/
theorem okFrom_nil (a b e : Bool) (h : okFrom a b e [] = true) : e = true := by simpa [okFrom] using h

/-- **C11, error responses under interleaving (every schedule, every assignment of handed-in error objects)**: any number of
    error responses in flight, each completing and encoding an object of its own (`progOK`), handed ANY error objects — also one
    shared by all of them: whatever the order in which the handlers take their steps, a response that has been sent carries the
    state and the session_state of ITS OWN request — a function of that request alone. -/
theorem c11_error_interleaving (sched : List Nat) (h : Heap) (ts : Nat → Thread)
    (hprog : ∀ j, progOK (ts j).prog = true) :
    ∀ j, ((ErrPar.run sched h ts).2 j).prog = [] →
      ((ErrPar.run sched h ts).2 j).sent = some ((ts j).state, (ts j).session) := by
  intro j hdone
  obtain ⟨_, _, a, b, e, hk, _, _, he⟩ :=
    (run_preserves sched h ts (fun j => (ts j).state) (fun j => (ts j).session) (fun j => threadOK_start (ts j) (hprog j))).2 j
  rw [hdone] at hk
  exact he (okFrom_nil a b e hk)

/-- **no handed-in error object is ever written**: after any schedule of any number of error responses every `*oidc.Error` the
    handlers were handed has the State / SessionState it had before (the sentinel error of a storage stays what it was) -/
theorem c11_handed_errors_never_written (sched : List Nat) (h : Heap) (ts : Nat → Thread)
    (hprog : ∀ j, progOK (ts j).prog = true) : (ErrPar.run sched h ts).1 = h :=
  (run_preserves sched h ts (fun j => (ts j).state) (fun j => (ts j).session) (fun j => threadOK_start (ts j) (hprog j))).1

/-- the same two statements for the handlers as they are in the source: every response is an `AuthRequestError` or a
    `TryErrorRedirect` (regenerated statement lists); no hypothesis is left -/
theorem c11_error_interleaving_source (sched : List Nat) (h : Heap) (ts : Nat → Thread)
    (hsrc : ∀ j, (ts j).prog = GenErr.authRequestErrorProgram ∨ (ts j).prog = GenErr.tryErrorRedirectProgram) :
    (ErrPar.run sched h ts).1 = h ∧
    ∀ j, ((ErrPar.run sched h ts).2 j).prog = [] →
      ((ErrPar.run sched h ts).2 j).sent = some ((ts j).state, (ts j).session) := by
  have hprog : ∀ j, progOK (ts j).prog = true := by
    intro j
    rcases hsrc j with e | e <;> rw [e]
    · exact c11_error_answer_object_is_own.1
    · exact c11_error_answer_object_is_own.2
  exact ⟨c11_handed_errors_never_written sched h ts hprog, c11_error_interleaving sched h ts hprog⟩

/-! ### the model before the repair (not reachable from the source any more) -/

/-- two responses that were handed ONE error object (a sentinel error of the storage, a package-level error value), first one
    parked between filling in and encoding while the second is answered completely -/
def sharedThreads (prog : List Op) : Nat → Thread := fun j =>
  if j = 0 then { cell := 7, state := [0x41], session := [0x61], prog := prog }
  else { cell := 7, state := [0x42], session := [0x62], prog := prog }

/-- **the statement list before the repair (writes into the handed-in object) under the schedule of F-C11e / seeded C11-N: the first
    client receives the SECOND client's state and session_state, and the shared object keeps them** — `progOK` is what
    `c11_error_interleaving` needs -/
theorem c11_handed_write_crosstalk :
    progOK handedProgram = false
    ∧ ((ErrPar.run (schedOf true [handedProgram, handedProgram]) (fun _ => ([], [])) (sharedThreads handedProgram)).2 0).sent = some ([0x42], [0x62])
    ∧ (ErrPar.run (schedOf true [handedProgram, handedProgram]) (fun _ => ([], [])) (sharedThreads handedProgram)).1 7 = ([0x42], [0x62]) := by decide

/-- the same two requests, the same shared object, the same schedule on the statement list of the source: each gets its own values
    back and the shared object is untouched (instance of the theorems, evaluated) -/
example :
    let r := ErrPar.run (schedOf true [GenErr.authRequestErrorProgram, GenErr.authRequestErrorProgram]) (fun _ => ([], []))
      (sharedThreads GenErr.authRequestErrorProgram)
    (r.2 0).sent = some ([0x41], [0x61]) ∧ (r.2 1).sent = some ([0x42], [0x62]) ∧ r.1 7 = ([], []) ∧ (r.2 0).prog = [] ∧ (r.2 1).prog = [] := by decide

/-- a rewrite that keeps the copy but completes a separate local value (`c := *e; c.State = …; AuthResponseURL(…, &c, …)`) or assigns the
    two fields in the other order is accepted by the same condition -/
example : progOK [.copy, .set .own "SessionState", .set .own "State", .encode .own] = true := by decide
/-- encoding before both fields are assigned, or encoding the handed-in object after completing a copy, is not -/
example : progOK [.copy, .set .own "State", .encode .own] = false ∧ progOK [.copy, .set .own "State", .set .own "SessionState", .encode .handed] = false := by decide

end C11
