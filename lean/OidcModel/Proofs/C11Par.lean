/-
  C11, error responses under interleaving.  If every response works on an error object of its own (created by the call that
  hands it to AuthRequestError — the regenerated facts: pkg/op and pkg/oidc declare no package-level *oidc.Error, the handlers'
  constant errors are built per call; `DefaultToServerError` makes a `new(Error)` for everything that is no *oidc.Error), then
  under EVERY schedule each response carries the state / session_state of its own request.  With a shared object it does not
  (witness: the schedule of seeded change C11-N).
-/
import OidcModel.Model.ErrPar
import OidcModel.Proofs.C11

namespace C11
open ErrPar

/-- **regenerated fact: no `*oidc.Error` value lives at package level in pkg/op or pkg/oidc** — none that two requests could share -/
theorem c11_no_shared_error_values : GenErr.sharedErrorValues = [] := by decide

/-- … and no call site of AuthRequestError / TryErrorRedirect hands over a package-level value; the constant errors are built by the call -/
theorem c11_error_args_not_shared : GenErr.errorArgSites.all (fun s => s.2 == "fresh" || s.2 == "variable") = true := by decide

/-- what holds for one response, whatever the others do -/
def ThreadOK (h : Heap) (t : Thread) (st ss : Bytes) : Prop :=
  t.state = st ∧ t.session = ss ∧ t.pc ≤ 3
  ∧ (t.pc = 1 ∨ t.pc = 2 → (h t.cell).1 = st)
  ∧ (t.pc = 2 → (h t.cell).2 = ss)
  ∧ (t.pc = 3 → t.sent = (st, ss))

theorem step_preserves (h : Heap) (ts : Nat → Thread) (cell : Nat → Nat) (st ss : Nat → Bytes)
    (hinj : ∀ i j, cell i = cell j → i = j) (hcell : ∀ j, (ts j).cell = cell j)
    (hok : ∀ j, ThreadOK h (ts j) (st j) (ss j)) (i : Nat) :
    (∀ j, ((step h ts i).2 j).cell = cell j) ∧ ∀ j, ThreadOK (step h ts i).1 ((step h ts i).2 j) (st j) (ss j) := by
  have hi := hok i
  obtain ⟨hs, hss, hpc, h12, h2, h3⟩ := hi
  constructor
  · intro j
    by_cases hj : j = i
    · subst hj
      simp only [step, stepT, if_true]
      (repeat' split) <;> simp [hcell]
    · simp [step, hj, hcell]
  · intro j
    by_cases hj : j = i
    · subst hj
      simp only [step, if_true]
      unfold stepT
      by_cases p0 : (ts j).pc = 0
      · simp only [p0, if_true]
        refine ⟨hs, hss, by simp, ?_, by simp, by simp⟩
        intro _; simp [hs]
      · by_cases p1 : (ts j).pc = 1
        · simp only [p1, if_true, if_false, Nat.one_ne_zero]
          refine ⟨hs, hss, by simp, ?_, ?_, by simp⟩
          · intro _; simpa using h12 (Or.inl p1)
          · intro _; simp [hss]
        · by_cases p2 : (ts j).pc = 2
          · simp only [p2, if_true, if_false]
            refine ⟨hs, hss, by simp, by simp, by simp, ?_⟩
            intro _
            show (h (ts j).cell) = (st j, ss j)
            have a := h12 (Or.inr p2)
            have b := h2 p2
            exact Prod.ext a b
          · simp only [p0, p1, p2, if_false]
            exact ⟨hs, hss, hpc, h12, h2, h3⟩
    · -- another thread: its own object is not touched
      have hne : (ts j).cell ≠ (ts i).cell := by
        rw [hcell j, hcell i]; exact fun e => hj (hinj j i e)
      obtain ⟨js, jss, jpc, j12, j2, j3⟩ := hok j
      have hheap : (step h ts i).1 (ts j).cell = h (ts j).cell := by
        simp only [step, stepT]
        (repeat' split) <;> simp [hne]
      simp only [step, hj, if_false] at hheap ⊢
      refine ⟨js, jss, jpc, ?_, ?_, j3⟩
      · intro hp; rw [hheap]; exact j12 hp
      · intro hp; rw [hheap]; exact j2 hp

/-- **C11, error responses under interleaving (every schedule)** — partial: it needs every response to work on an error object
    of its own, which the library guarantees for its OWN errors (regenerated facts above) but not for a `*oidc.Error` value a
    Storage returns (F-C11e, witness `c11_shared_error_witness`).  Any number of error responses in flight, each on an error
    object of its own: whatever the order in which the handlers take their steps, a response that has been sent carries the
    state and the session_state of ITS OWN request — a function of that request alone. -/
theorem c11_error_interleaving_partial (sched : List Nat) (h : Heap) (ts : Nat → Thread)
    (hinj : ∀ i j, (ts i).cell = (ts j).cell → i = j) (hstart : ∀ j, (ts j).pc = 0) :
    ∀ j, ((ErrPar.run sched h ts).2 j).pc = 3 → ((ErrPar.run sched h ts).2 j).sent = ((ts j).state, (ts j).session) := by
  have gen : ∀ (sched : List Nat) (h : Heap) (cur : Nat → Thread),
      (∀ j, (cur j).cell = (ts j).cell) → (∀ j, ThreadOK h (cur j) (ts j).state (ts j).session) →
      ∀ j, ThreadOK (ErrPar.run sched h cur).1 ((ErrPar.run sched h cur).2 j) (ts j).state (ts j).session := by
    intro sched
    induction sched with
    | nil => intro h cur _ hok j; exact hok j
    | cons i is ih =>
      intro h cur hcell hok j
      obtain ⟨hc', hok'⟩ := step_preserves h cur (fun j => (ts j).cell) (fun j => (ts j).state) (fun j => (ts j).session) hinj hcell hok i
      exact ih _ _ hc' hok' j
  intro j hp
  have := gen sched h ts (fun _ => rfl) (fun j => ⟨rfl, rfl, by simp [hstart j], by simp [hstart j], by simp [hstart j], by simp [hstart j]⟩) j
  exact this.2.2.2.2.2 hp

/-- two responses that share ONE error object (what a package-level error value is), first one parked between filling in and
    encoding while the second is answered completely -/
def sharedThreads : Nat → Thread := fun j =>
  if j = 0 then { cell := 7, state := [0x41], session := [0x61] } else { cell := 7, state := [0x42], session := [0x62] }

/-- **witness (the schedule of seeded change C11-N): the first client receives the SECOND client's state and session_state** -/
theorem c11_shared_error_witness :
    ((ErrPar.run [0, 0, 1, 1, 1, 0] (fun _ => ([], [])) sharedThreads).2 0).sent = ([0x42], [0x62]) := by decide

/-- the same two requests on objects of their own: each gets its own values back (instance of the theorem, evaluated) -/
example :
    let ts : Nat → Thread := fun j => if j = 0 then { cell := 0, state := [0x41], session := [0x61] } else { cell := j, state := [0x42], session := [0x62] }
    ((ErrPar.run [0, 0, 1, 1, 1, 0] (fun _ => ([], [])) ts).2 0).sent = ([0x41], [0x61])
      ∧ ((ErrPar.run [0, 0, 1, 1, 1, 0] (fun _ => ([], [])) ts).2 1).sent = ([0x42], [0x62]) := by decide

end C11
