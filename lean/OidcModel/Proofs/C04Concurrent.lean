/-
  deep3-C04: two code exchanges served CONCURRENTLY (Model/FlowC04X.lean `stepConc`): the two handlers' storage-relevant steps
  (lookup = the whole validation; token creation; `DeleteAuthRequest` - in the order regenerated from `CreateTokenResponse`)
  interleaved by an arbitrary schedule.

  What the library relies on.  It reads the authorization request (`AuthRequestByCode`), creates the tokens and deletes the
  request in three separate storage calls and never learns whether ITS deletion removed anything.  Therefore:
    * `c04_concurrent_at_most_one` - if the storage's `DeleteAuthRequest` is an atomic consume (it FAILS when the request is not
      stored any more: `strict`), then under EVERY schedule two concurrent exchanges that both end in tokens consumed two
      DIFFERENT authorization requests: one authorization request - whichever of its codes is presented - yields tokens at most
      once.  (Uses the regenerated facts: the request is deleted, a failing deletion is fatal.)
    * `c04_concurrent_idempotent_witness` - if deleting what is not there succeeds (the repo's example storage; refstore), the
      schedule lookup₁ lookup₂ … lets BOTH handlers answer with tokens for one code, and the reference monitor objects
      (`code-replayed`): the property's single-use clause then holds for sequential histories only (`c04_single_use`).
    * `c04_concurrent_sequential` - a schedule that runs one handler to its end before the other starts is the sequential
      history: at most one succeeds under either contract.
    * the loser of a strict race has created tokens the storage keeps (orphans): `c04_concurrent_orphan` (example).
-/
import OidcModel.Proofs.C04Faults

namespace FlowX
open Go Gen Hand Flow FlowObs

/-- the request IS deleted (regenerated fact), in one of the two possible orders -/
theorem program_cases : program = [.mint, .delete] ∨ program = [.delete, .mint] := by
  unfold program
  simp only [deletes_authRequest, Bool.not_true, Bool.false_eq_true, if_false]
  cases tokensBeforeDelete <;> simp

def ids (s : St) : List String := s.store.authReqs.map (·.id)

theorem mem_ids_iff (s : St) (id : String) : id ∈ ids s ↔ s.store.authReqs.any (·.id == id) = true := by
  simp [ids, List.any_eq_true]

theorem ids_mint (s : St) (i : IssueFor) : ids (mintTokens s i) = ids s := by
  unfold ids; rw [(mintTokens_auth s i).1]

theorem ids_delete_sub (s : St) (id x : String) (h : x ∈ ids (deleteAuthRequest s id)) : x ∈ ids s := by
  simp only [ids, deleteAuthRequest, St.store, St.setStore, List.mem_map, List.mem_filter] at h ⊢
  obtain ⟨a, ⟨ha, _⟩, rfl⟩ := h
  exact ⟨a, ha, rfl⟩

theorem ids_delete_not (s : St) (id : String) : id ∉ ids (deleteAuthRequest s id) := by
  simp only [ids, deleteAuthRequest, St.store, St.setStore, List.mem_map, List.mem_filter, not_exists, not_and]
  intro a ⟨_, hne⟩ heq
  simp [heq] at hne

/-- a handler that answered with tokens for request `a` -/
def Won (h : H) (a : AuthReq) : Prop := ∃ c k nr, h = .fin (.issued (.code a c k) nr)

/-- a handler whose `DeleteAuthRequest` for request `a` has succeeded: it answered with tokens, or (deletion before token
    creation) is about to create them -/
def Past (h : H) (a : AuthReq) : Prop := Won h a ∨ ∃ c k nr, h = .run (.code a c k) [.mint] nr

theorem Won.past {h : H} {a : AuthReq} (w : Won h a) : Past h a := Or.inl w

/-- the states a handler passes through, for either order of the program -/
inductive WF : H → Prop
  | idle (req ha) : WF (.idle req ha)
  | todo2 (a c k nr p) : p = [Act.mint, .delete] ∨ p = [Act.delete, .mint] → WF (.run (.code a c k) p nr)
  | todoDelete (a c k nr) : WF (.run (.code a c k) [.delete] nr)
  | todoMint (a c k nr) : WF (.run (.code a c k) [.mint] nr)
  | fin (o) : WF (.fin o)

/-- one step of one handler under the STRICT contract: the stored requests only shrink; a handler that is now past its deletion
    of `a` either was so before, or has just deleted `a` - which was still stored - itself -/
theorem hstep_strict (now : Int) (rt : Router) (s : St) (h : H) (hwf : WF h) :
    WF (hstep now rt true s h).2 ∧ (∀ x, x ∈ ids (hstep now rt true s h).1 → x ∈ ids s) ∧
    ∀ a, Past (hstep now rt true s h).2 a → Past h a ∨ (a.id ∈ ids s ∧ a.id ∉ ids (hstep now rt true s h).1) := by
  have noPast : ∀ (a' : AuthReq) (c' : OPClient) (k' : String) (p : List Act) (nr' : Option String), p ≠ [.mint] →
      ∀ a, ¬ Past (.run (.code a' c' k') p nr') a := by
    intro a' c' k' p nr' hp a hpast
    rcases hpast with ⟨c, k, nr, hw⟩ | ⟨c, k, nr, hw⟩
    · cases hw
    · cases hw; exact hp rfl
  cases hwf with
  | idle req ha =>
    simp only [hstep]
    cases hce : codeExchange now rt s.p req ha with
    | error e =>
      refine ⟨.fin _, fun _ hx => hx, ?_⟩
      rintro a (⟨c, k, nr, hw⟩ | ⟨c, k, nr, hw⟩) <;> cases hw
    | ok i =>
      obtain ⟨a, c, hi, _⟩ := codeExchange_ok hce
      subst hi
      rcases program_cases with hp | hp <;> simp only [hp, List.isEmpty_cons, Bool.false_eq_true, if_false]
      · exact ⟨.todo2 _ _ _ _ _ (Or.inl rfl), fun _ hx => hx, fun a' hp' => absurd hp' (noPast _ _ _ _ _ (by decide) a')⟩
      · exact ⟨.todo2 _ _ _ _ _ (Or.inr rfl), fun _ hx => hx, fun a' hp' => absurd hp' (noPast _ _ _ _ _ (by decide) a')⟩
  | todo2 a c k nr p hp =>
    rcases hp with rfl | rfl
    · simp only [hstep, List.isEmpty_cons, Bool.false_eq_true, if_false]
      exact ⟨.todoDelete _ _ _ _, fun x hx => by rwa [ids_mint] at hx, fun a' hp' => absurd hp' (noPast _ _ _ _ _ (by decide) a')⟩
    · simp only [hstep, deleteStep, Bool.true_and, List.isEmpty_cons, Bool.false_eq_true, if_false]
      by_cases hin : s.store.authReqs.any (·.id == a.id) = true
      · simp only [hin, Bool.not_true, Bool.false_eq_true, if_false]
        refine ⟨.todoMint _ _ _ _, fun x hx => ids_delete_sub s a.id x hx, ?_⟩
        rintro a' (⟨c', k', nr', hw⟩ | ⟨c', k', nr', hw⟩)
        · cases hw
        · cases hw
          exact Or.inr ⟨(mem_ids_iff s a.id).2 hin, ids_delete_not s a.id⟩
      · simp only [hin, Bool.not_false, if_true, delete_failure_fatal]
        refine ⟨.fin _, fun _ hx => hx, ?_⟩
        rintro a' (⟨c', k', nr', hw⟩ | ⟨c', k', nr', hw⟩) <;> cases hw
  | todoDelete a c k nr =>
    simp only [hstep, deleteStep, Bool.true_and, List.isEmpty_nil, if_true]
    by_cases hin : s.store.authReqs.any (·.id == a.id) = true
    · simp only [hin, Bool.not_true, Bool.false_eq_true, if_false]
      refine ⟨.fin _, fun x hx => ids_delete_sub s a.id x hx, ?_⟩
      rintro a' (⟨c', k', nr', hw⟩ | ⟨c', k', nr', hw⟩)
      · cases hw
        exact Or.inr ⟨(mem_ids_iff s a.id).2 hin, ids_delete_not s a.id⟩
      · cases hw
    · simp only [hin, Bool.not_false, if_true, delete_failure_fatal]
      refine ⟨.fin _, fun _ hx => hx, ?_⟩
      rintro a' (⟨c', k', nr', hw⟩ | ⟨c', k', nr', hw⟩) <;> cases hw
  | todoMint a c k nr =>
    simp only [hstep, List.isEmpty_nil, if_true]
    refine ⟨.fin _, fun x hx => by rwa [ids_mint] at hx, ?_⟩
    rintro a' (⟨c', k', nr', hw⟩ | ⟨c', k', nr', hw⟩)
    · cases hw
      exact Or.inl (Or.inr ⟨c, k, nr, rfl⟩)
    · cases hw
  | fin o =>
    simp only [hstep]
    exact ⟨.fin _, fun _ hx => hx, fun a hw => Or.inl hw⟩

/-- the invariant of a strict race: a handler past its deletion has removed its request, and two such handlers consumed
    different requests -/
structure CInv (c : Conc) : Prop where
  wf1 : WF c.h1
  wf2 : WF c.h2
  gone1 : ∀ a, Past c.h1 a → a.id ∉ ids c.s
  gone2 : ∀ a, Past c.h2 a → a.id ∉ ids c.s
  distinct : ∀ a1 a2, Past c.h1 a1 → Past c.h2 a2 → a1.id ≠ a2.id

theorem cinv_step (now : Int) (rt : Router) (c : Conc) (h : CInv c) (b : Bool) : CInv (c.step now rt true b) := by
  cases b with
  | true =>
    obtain ⟨w, sub, won⟩ := hstep_strict now rt c.s c.h1 h.wf1
    simp only [Conc.step, if_true]
    refine ⟨w, h.wf2, ?_, ?_, ?_⟩
    · intro a hw
      rcases won a hw with hold | ⟨_, hnot⟩
      · exact fun hx => h.gone1 a hold (sub _ hx)
      · exact hnot
    · intro a hw hx
      exact h.gone2 a hw (sub _ hx)
    · intro a1 a2 hw1 hw2
      rcases won a1 hw1 with hold | ⟨hin, _⟩
      · exact h.distinct a1 a2 hold hw2
      · intro heq
        exact h.gone2 a2 hw2 (heq ▸ hin)
  | false =>
    obtain ⟨w, sub, won⟩ := hstep_strict now rt c.s c.h2 h.wf2
    simp only [Conc.step, Bool.false_eq_true, if_false]
    refine ⟨h.wf1, w, ?_, ?_, ?_⟩
    · intro a hw hx
      exact h.gone1 a hw (sub _ hx)
    · intro a hw
      rcases won a hw with hold | ⟨_, hnot⟩
      · exact fun hx => h.gone2 a hold (sub _ hx)
      · exact hnot
    · intro a1 a2 hw1 hw2
      rcases won a2 hw2 with hold | ⟨hin, _⟩
      · exact h.distinct a1 a2 hw1 hold
      · intro heq
        exact h.gone1 a1 hw1 (heq ▸ hin)

theorem cinv_run (now : Int) (rt : Router) (c : Conc) (h : CInv c) (sched : List Bool) : CInv (Conc.run now rt true c sched) := by
  induction sched generalizing c with
  | nil => exact h
  | cons b rest ih => exact ih _ (cinv_step now rt c h b)

theorem won_of_out {h : H} {a : AuthReq} {c : OPClient} {k : String} {nr : Option String} (ho : outOf h = .issued (.code a c k) nr) : Won h a := by
  cases h with
  | fin o => simp only [outOf] at ho; exact ⟨c, k, nr, by rw [ho]⟩
  | idle _ _ => simp [outOf] at ho
  | run _ _ _ => simp [outOf] at ho

/-! ## deep4-C04: ARBITRARY pairs - every answer with tokens is justified by ITS OWN request's validation

`c04_concurrent_at_most_one` speaks about two redemptions that both succeed.  Here the two requests are arbitrary (a foreign
client, no / a wrong `code_verifier`, another `redirect_uri`, wrong credentials, ...), the storage contract is arbitrary, and so
is the schedule: a handler answers with tokens only if the validation of the request IT was handed (`Flow.codeExchange` - by
`C04.codeExchange_provider_bridge` / `_legacy_bridge` the regenerated handlers) succeeded on a state of the storage that occurred
during the race.  No answer is ever taken over from the other handler. -/

/-- the states a race passes through, seen from its initial state: the configuration and the registrations are the same, the
    stored requests and codes are among the initial ones (handlers create tokens and delete requests, nothing else) -/
structure RaceReach (s s' : St) : Prop where
  cfg : CfgEq s s'
  reqs : ∀ a, a ∈ s'.store.authReqs → a ∈ s.store.authReqs
  codes : ∀ x, x ∈ s'.store.codes → x ∈ s.store.codes

theorem RaceReach.refl (s : St) : RaceReach s s := ⟨CfgEq.refl s, fun _ h => h, fun _ h => h⟩

theorem CfgEq.trans' {s s' s'' : St} (h1 : CfgEq s s') (h2 : CfgEq s' s'') : CfgEq s s'' := by
  obtain ⟨a1, a2, a3, a4, a5, a6, a7, a8⟩ := h1
  obtain ⟨b1, b2, b3, b4, b5, b6, b7, b8⟩ := h2
  exact ⟨b1.trans a1, b2.trans a2, b3.trans a3, b4.trans a4, b5.trans a5, b6.trans a6, b7.trans a7, b8.trans a8⟩

theorem RaceReach.mint {s s' : St} (h : RaceReach s s') (i : IssueFor) : RaceReach s (mintTokens s' i) := by
  obtain ⟨h1, h2, _, h4⟩ := mintTokens_auth s' i
  exact ⟨CfgEq.trans' h.cfg h4, fun a ha => h.reqs a (h1 ▸ ha), fun x hx => h.codes x (h2 ▸ hx)⟩

theorem RaceReach.delete {s s' : St} (h : RaceReach s s') (id : String) : RaceReach s (deleteAuthRequest s' id) := by
  refine ⟨CfgEq.trans' h.cfg ⟨rfl, rfl, rfl, rfl, rfl, rfl, rfl, rfl⟩, ?_, ?_⟩
  · intro a ha
    simp only [deleteAuthRequest, St.store, St.setStore, List.mem_filter] at ha
    exact h.reqs a ha.1
  · intro x hx
    simp only [deleteAuthRequest, St.store, St.setStore, List.mem_filter] at hx
    exact h.codes x hx.1

/-- what a handler is issuing for, if anything -/
def issueOf : H → Option IssueFor
  | .idle _ _ => none
  | .run i _ _ => some i
  | .fin (.issued i _) => some i
  | .fin _ => none

/-- handler `h` serves request (`req`, `ha`) of a race that started in `s0`: it has not looked anything up yet and still holds
    exactly that request, or what it is issuing for is what the validation of THAT request answered on a state of the race -/
structure Own (now : Int) (rt : Router) (s0 : St) (req : AccessTokenRequest) (ha : Bool) (h : H) : Prop where
  idle : ∀ r a, h = .idle r a → r = req ∧ a = ha
  issue : ∀ i, issueOf h = some i → ∃ s', RaceReach s0 s' ∧ codeExchange now rt s'.p req ha = .ok i

theorem Own.none {now : Int} {rt : Router} {s0 : St} {req : AccessTokenRequest} {ha : Bool} (e : String) :
    Own now rt s0 req ha (.fin (.error e)) :=
  ⟨(fun _ _ h => by cases h), fun i hi => by simp [issueOf] at hi⟩

/-- a handler that goes on with the SAME issue (or ends with it) keeps serving its own request -/
theorem Own.keep {now : Int} {rt : Router} {s0 : St} {req : AccessTokenRequest} {ha : Bool} {h : H} (ho : Own now rt s0 req ha h)
    {i : IssueFor} (hi : issueOf h = some i) (todo : List Act) (nr nr' : Option String) :
    Own now rt s0 req ha (if todo.isEmpty then .fin (.issued i nr) else .run i todo nr') := by
  obtain ⟨s', hr, hce⟩ := ho.issue i hi
  split
  · exact ⟨(fun _ _ h => by cases h), fun j hj => by simp only [issueOf, Option.some.injEq] at hj; exact ⟨s', hr, hj ▸ hce⟩⟩
  · exact ⟨(fun _ _ h => by cases h), fun j hj => by simp only [issueOf, Option.some.injEq] at hj; exact ⟨s', hr, hj ▸ hce⟩⟩

/-- one step of one handler, ANY storage contract: the state stays within the race's reach, and the handler keeps serving its
    own request -/
theorem hstep_own (now : Int) (rt : Router) (strict : Bool) (s0 s : St) (req : AccessTokenRequest) (ha : Bool) (h : H)
    (hr : RaceReach s0 s) (ho : Own now rt s0 req ha h) :
    RaceReach s0 (hstep now rt strict s h).1 ∧ Own now rt s0 req ha (hstep now rt strict s h).2 := by
  cases h with
  | idle r a =>
    obtain ⟨rfl, rfl⟩ := ho.idle r a rfl
    simp only [hstep]
    cases hce : codeExchange now rt s.p r a with
    | error e => exact ⟨hr, Own.none e⟩
    | ok i =>
      refine ⟨hr, ?_⟩
      simp only []
      split
      · exact ⟨(fun _ _ h => by cases h), fun j hj => by simp only [issueOf, Option.some.injEq] at hj; exact ⟨s, hr, hj ▸ hce⟩⟩
      · exact ⟨(fun _ _ h => by cases h), fun j hj => by simp only [issueOf, Option.some.injEq] at hj; exact ⟨s, hr, hj ▸ hce⟩⟩
  | run i todo nr =>
    cases todo with
    | nil =>
      simp only [hstep]
      exact ⟨hr, by simpa using ho.keep (i := i) rfl [] nr nr⟩
    | cons act todo =>
      cases act with
      | mint =>
        simp only [hstep]
        exact ⟨hr.mint i, ho.keep (i := i) rfl todo _ _⟩
      | delete =>
        cases i with
        | refresh r c cur =>
          simp only [hstep]
          exact ⟨hr, ho.keep (i := .refresh r c cur) rfl todo _ _⟩
        | code a c k =>
          simp only [hstep]
          cases hd : deleteStep strict s a.id with
          | some s1 =>
            have hs1 : s1 = deleteAuthRequest s a.id := by
              unfold deleteStep at hd; split at hd <;> simp at hd; exact hd.symm
            simp only []
            exact ⟨hs1 ▸ hr.delete a.id, ho.keep (i := .code a c k) rfl todo _ _⟩
          | none =>
            simp only []
            by_cases hf : deleteFailureFatal = true
            · simp only [hf, if_true]
              exact ⟨hr, Own.none _⟩
            · simp only [hf, Bool.false_eq_true, if_false]
              exact ⟨hr, ho.keep (i := .code a c k) rfl todo _ _⟩
  | fin o =>
    simp only [hstep]
    exact ⟨hr, ho⟩

/-- the invariant of a race over arbitrary requests -/
structure OwnInv (now : Int) (rt : Router) (s0 : St) (req1 : AccessTokenRequest) (ha1 : Bool) (req2 : AccessTokenRequest) (ha2 : Bool)
    (c : Conc) : Prop where
  reach : RaceReach s0 c.s
  own1 : Own now rt s0 req1 ha1 c.h1
  own2 : Own now rt s0 req2 ha2 c.h2

theorem ownInv_run (now : Int) (rt : Router) (strict : Bool) (s0 : St) (req1 : AccessTokenRequest) (ha1 : Bool)
    (req2 : AccessTokenRequest) (ha2 : Bool) (c : Conc) (h : OwnInv now rt s0 req1 ha1 req2 ha2 c) (sched : List Bool) :
    OwnInv now rt s0 req1 ha1 req2 ha2 (Conc.run now rt strict c sched) := by
  induction sched generalizing c with
  | nil => exact h
  | cons b rest ih =>
    apply ih
    cases b with
    | true =>
      obtain ⟨r, o⟩ := hstep_own now rt strict s0 c.s req1 ha1 c.h1 h.reach h.own1
      simp only [Conc.step, if_true]
      exact ⟨r, o, h.own2⟩
    | false =>
      obtain ⟨r, o⟩ := hstep_own now rt strict s0 c.s req2 ha2 c.h2 h.reach h.own2
      simp only [Conc.step, Bool.false_eq_true, if_false]
      exact ⟨r, h.own1, o⟩

theorem issueOf_of_out {h : H} {i : IssueFor} {nr : Option String} (ho : outOf h = .issued i nr) : issueOf h = some i := by
  cases h with
  | fin o => simp only [outOf] at ho; subst ho; rfl
  | idle _ _ => simp [outOf] at ho
  | run _ _ _ => simp [outOf] at ho

end FlowX

namespace C04
open FlowObs Flow FlowX

/-- **Concurrent double redemption, strict storage.**  Whatever the state, the router, the two requests (the same code, two codes
    of one request, codes of different requests, any credentials) and the schedule: if the storage's `DeleteAuthRequest` fails
    for a request that is not stored any more, two concurrent exchanges that BOTH end in tokens consumed two different
    authorization requests.  One authorization request yields tokens at most once. -/
theorem c04_concurrent_at_most_one (now : Int) (s : Flow.St) (rt : Router) (req1 req2 : AccessTokenRequest) (ha1 ha2 : Bool) (sched : List Bool)
    (a1 a2 : AuthReq) (c1 c2 : OPClient) (k1 k2 : String) (n1 n2 : Option String)
    (h1 : (stepConc now s rt true req1 ha1 req2 ha2 sched).2.1 = .issued (.code a1 c1 k1) n1)
    (h2 : (stepConc now s rt true req1 ha1 req2 ha2 sched).2.2.1 = .issued (.code a2 c2 k2) n2) :
    a1.id ≠ a2.id := by
  have hinit : CInv { s := s, h1 := .idle req1 ha1, h2 := .idle req2 ha2 } := by
    refine ⟨.idle _ _, .idle _ _, ?_, ?_, ?_⟩
    · rintro a (⟨c, k, nr, hw⟩ | ⟨c, k, nr, hw⟩) <;> cases hw
    · rintro a (⟨c, k, nr, hw⟩ | ⟨c, k, nr, hw⟩) <;> cases hw
    · rintro a1 a2 (⟨c, k, nr, hw⟩ | ⟨c, k, nr, hw⟩) <;> cases hw
  have hfin := cinv_run now rt _ hinit (sched ++ drain)
  exact hfin.distinct a1 a2 (won_of_out h1).past (won_of_out h2).past

/-- what the validation of request `req` has established when it lets the request through, in the terms of the property: the
    presented code resolved - on a state `s'` of the race - to request `a`, which was stored when the race began; the caller is
    authenticated as (a public client: identified as) client `c`, which IS the request's client and is registered for the grant;
    the presented redirect_uri is the request's, byte for byte; a challenge on the request is met by the presented verifier, and a
    public client's request has a challenge -/
def Validated (now : Int) (s s' : Flow.St) (req : AccessTokenRequest) (a : AuthReq) (c : OPClient) (k : String) : Prop :=
  k = req.Code ∧ s'.p.store.AuthRequestByCode req.Code = .ok a ∧ a ∈ s.store.authReqs ∧ c.id = a.clientID ∧
  Const.GrantTypeCode ∈ c.grants ∧ req.RedirectURI = a.redirectURI ∧
  (a.challenge ≠ none → req.CodeVerifier ≠ "" ∧ Gen.VerifyCodeChallenge now a.challenge req.CodeVerifier = true) ∧
  (c.auth = Const.AuthMethodNone → a.challenge ≠ none) ∧
  AuthAs now s'.p req.ClientID req.ClientSecret req.ClientAssertionType req.ClientAssertion c

theorem validated_of_reach {now : Int} {rt : Router} {s s' : Flow.St} {req : AccessTokenRequest} {ha : Bool} {a : AuthReq} {c : OPClient} {k : String}
    (hr : RaceReach s s') (h : codeExchange now rt s'.p req ha = .ok (.code a c k)) : Validated now s s' req a c k := by
  obtain ⟨a', c', hi, h1, h2, h3, h4, h5, h6, h7⟩ := codeExchange_ok h
  cases hi
  obtain ⟨id, _, hfind⟩ := storeLookup h1
  exact ⟨rfl, h1, hr.reqs _ (List.mem_of_find?_eq_some hfind), h2, h3, h4, h5, h6, h7⟩

/-- **Concurrent exchanges, arbitrary pairs.**  Whatever the state, the router, the storage contract (`strict` or not), the TWO
    REQUESTS (nothing is assumed about either: the same code presented by another client, without or with a wrong verifier, with
    another redirect_uri, with wrong credentials, ...) and the interleaving of the two handlers' storage steps: a handler answers
    with tokens only if the validation of ITS OWN request succeeded on a state of the race - client authentication and binding,
    redirect_uri, PKCE, each against the request it was handed.  An answer is never justified by the other request. -/
theorem c04_concurrent_each_validated (now : Int) (s : Flow.St) (rt : Router) (strict : Bool) (req1 req2 : AccessTokenRequest) (ha1 ha2 : Bool)
    (sched : List Bool) :
    (∀ a c k nr, (stepConc now s rt strict req1 ha1 req2 ha2 sched).2.1 = .issued (.code a c k) nr →
        ∃ s', RaceReach s s' ∧ Validated now s s' req1 a c k) ∧
    (∀ a c k nr, (stepConc now s rt strict req1 ha1 req2 ha2 sched).2.2.1 = .issued (.code a c k) nr →
        ∃ s', RaceReach s s' ∧ Validated now s s' req2 a c k) := by
  have hinit : OwnInv now rt s req1 ha1 req2 ha2 { s := s, h1 := .idle req1 ha1, h2 := .idle req2 ha2 } :=
    ⟨RaceReach.refl s, ⟨(fun _ _ e => by cases e; exact ⟨rfl, rfl⟩), fun i hi => by simp [issueOf] at hi⟩,
      ⟨(fun _ _ e => by cases e; exact ⟨rfl, rfl⟩), fun i hi => by simp [issueOf] at hi⟩⟩
  have hfin := ownInv_run now rt strict s req1 ha1 req2 ha2 _ hinit (sched ++ drain)
  constructor
  · intro a c k nr ho
    obtain ⟨s', hr, hce⟩ := hfin.own1.issue _ (issueOf_of_out ho)
    exact ⟨s', hr, validated_of_reach hr hce⟩
  · intro a c k nr ho
    obtain ⟨s', hr, hce⟩ := hfin.own2.issue _ (issueOf_of_out ho)
    exact ⟨s', hr, validated_of_reach hr hce⟩

/-- ... in the monitor's terms: for a reference monitor that knows the provider's registrations (`SameCfg`), an answer with tokens
    to either request of a concurrent pair passes the monitor's OWN binding tests for THAT request - `callerIs`, equal
    redirect_uri, `pkceOK` / a public client's request has a challenge - , i.e. none of the clauses
    `caller-is-not-the-code's-client`, `grant-not-registered`, `redirect-uri-differs`, `pkce` can be raised against it -/
theorem c04_concurrent_binding (now : Int) (s : Flow.St) (m : C04.MonState) (hm : SameCfg m s.p) (rt : Router) (strict : Bool)
    (req1 req2 : AccessTokenRequest) (ha1 ha2 : Bool) (sched : List Bool) :
    let r := stepConc now s rt strict req1 ha1 req2 ha2 sched
    ∀ (out : Flow.Out) (req : AccessTokenRequest), (out = r.2.1 ∧ req = req1) ∨ (out = r.2.2.1 ∧ req = req2) →
      ∀ a c k nr, out = .issued (.code a c k) nr →
        a ∈ s.store.authReqs ∧ c.id = a.clientID ∧
        C04.callerIs m now c (presentedCode req) = true ∧ c.grants.contains "authorization_code" = true ∧
        (presentedCode req).redirectURI = a.redirectURI ∧
        (match a.challenge with | some ch => !C04.pkceOK ch (presentedCode req).verifier | none => c.auth == "none") = false := by
  intro r out req hsel a c k nr hout
  have hv : ∃ s', RaceReach s s' ∧ Validated now s s' req a c k := by
    rcases hsel with ⟨ho, hq⟩ | ⟨ho, hq⟩
    · rw [hq]; exact (c04_concurrent_each_validated now s rt strict req1 req2 ha1 ha2 sched).1 a c k nr (ho ▸ hout)
    · rw [hq]; exact (c04_concurrent_each_validated now s rt strict req1 req2 ha1 ha2 sched).2 a c k nr (ho ▸ hout)
  obtain ⟨s', hr, _, _, hmem, hcid, hgrant, hred, hpk1, hpk2, hauth⟩ := hv
  have hm' : SameCfg m s'.p := SameCfg.trans hm hr.cfg
  refine ⟨hmem, hcid, callerIs_of_authAs (pr := presentedCode req) hm' rfl rfl rfl hauth,
    by simpa [Const.GrantTypeCode] using hgrant, hred, ?_⟩
  cases hch : a.challenge with
  | none =>
    have : c.auth ≠ "none" := fun h => absurd hch (hpk2 h)
    simpa using this
  | some ch =>
    obtain ⟨hne, hver⟩ := hpk1 (by simp [hch])
    have := pkce_of_verify hne (hch ▸ hver)
    simp [presentedCode, this]

/-! Concrete races over the demo history (authorize, login, callback c1; `web` redeems c1 twice at once). -/
def demoPre : List Flow.Op := [demoAuthorize, .login "ar1" "user1" 1000, .callback "ar1" "c1"]
def demoRace (rt : Router) (strict : Bool) (sched : List Bool) :=
  stepConc 0 (Flow.run 0 demoState demoPre).1 rt strict demoReq false demoReq false sched

/-- the 20 interleavings of (lookup, create, delete) of the first handler with those of the second -/
def interleavings : List (List Bool) :=
  [[true,true,true,false,false,false], [true,true,false,true,false,false], [true,true,false,false,true,false], [true,true,false,false,false,true],
   [true,false,true,true,false,false], [true,false,true,false,true,false], [true,false,true,false,false,true], [true,false,false,true,true,false],
   [true,false,false,true,false,true], [true,false,false,false,true,true], [false,true,true,true,false,false], [false,true,true,false,true,false],
   [false,true,true,false,false,true], [false,true,false,true,true,false], [false,true,false,true,false,true], [false,true,false,false,true,true],
   [false,false,true,true,true,false], [false,false,true,true,false,true], [false,false,true,false,true,true], [false,false,false,true,true,true]]

def nTokens (r : Flow.St × Flow.Out × Flow.Out × List Bool) : Nat :=
  (if outKind r.2.1 == "tokens" then 1 else 0) + (if outKind r.2.2.1 == "tokens" then 1 else 0)

/-- strict storage: under each of the 20 interleavings exactly ONE handler answers with tokens, on both routers -/
example : ∀ rt : Router, interleavings.all (fun sch => nTokens (demoRace rt true sch) == 1) = true := by
  intro rt; cases rt <;> decide

/-- **Idempotent storage: the witness.**  `DeleteAuthRequest` of a request that is already gone succeeds (example storage,
    refstore): when both lookups happen before the first deletion, BOTH handlers answer with tokens for the one code - on
    both routers - ... -/
theorem c04_concurrent_idempotent_witness : ∀ rt : Router,
    nTokens (demoRace rt false [true, false, true, true, false, false]) = 2 := by
  intro rt; cases rt <;> decide

/-- ... under 18 of the 20 interleavings (all but the two sequential ones, in which one handler's deletion precedes the other's lookup) -/
example : ∀ rt : Router, tokensBeforeDelete = true → (interleavings.filter (fun sch => nTokens (demoRace rt false sch) == 2)).length = 18 := by
  intro rt; cases rt <;> decide

/-- and the reference monitor objects to the second response: the clause "the same code never yields tokens again" -/
example :
    let s0 := (runObs 0 (demoState, obsOf demoState) demoPre).1
    let r := demoRace .provider false [true, false, true, true, false, false]
    let tk : C04.Tokens := { subject := "user1", client := "web", scopes := ["openid", "email", "offline_access"], nonce := "n-1" }
    let o1 := observe 0 s0.2 (.exchange (presentedCode demoReq) (some tk) none)
    nTokens r = 2 ∧ o1.2.1 = none ∧ (observe 0 o1.1 (.exchange (presentedCode demoReq) (some tk) none)).2.1 = some "code-replayed" := by decide

/-- **Sequential schedules** (one handler runs to its end before the other starts) are the sequential history: one success,
    under either contract -/
theorem c04_concurrent_sequential : ∀ rt : Router, ∀ strict : Bool,
    nTokens (demoRace rt strict [true, true, true, false, false, false]) = 1 ∧ nTokens (demoRace rt strict [false, false, false, true, true, true]) = 1 := by
  intro rt strict; cases rt <;> cases strict <;> decide

/-- the loser of a strict race created tokens before its deletion failed: they stay in the storage (two refresh tokens exist,
    one was delivered) -/
theorem c04_concurrent_orphan :
    let r := demoRace .provider true [true, false, true, false, true, false]
    nTokens r = 1 ∧ (tokensBeforeDelete = true → r.1.store.refresh.map (·.token) = ["rt1", "rt2"]) := by decide

/-! deep4-C04: the rightful client and an INTRUDER present the one code at once (non-vacuity of `c04_concurrent_each_validated`). -/

/-- requests that know the code but must be refused on their own account: the public client `pub` (identifies correctly as itself),
    `web` with a wrong secret, `web` with another redirect_uri -/
def demoIntruders : List AccessTokenRequest :=
  [{ demoReq with ClientID := "pub", ClientSecret := "" }, { demoReq with ClientSecret := "guess" },
   { demoReq with RedirectURI := "https://rp.example/cb/" }]

def isErr : Flow.Out → Bool | .error _ => true | _ => false

def demoRaceWith (rt : Router) (strict : Bool) (intruder : AccessTokenRequest) (intruderFirst : Bool) (sched : List Bool) :=
  if intruderFirst then stepConc 0 (Flow.run 0 demoState demoPre).1 rt strict intruder false demoReq false sched
  else stepConc 0 (Flow.run 0 demoState demoPre).1 rt strict demoReq false intruder false sched

/-- under each of the 20 interleavings, on both routers, under both storage contracts, whichever of the two is handler 1: the
    rightful client is answered with tokens, the intruder with an error -/
example : ∀ rt : Router, ∀ strict first : Bool, demoIntruders.all (fun q => interleavings.all (fun sch =>
    let r := demoRaceWith rt strict q first sch
    let (mine, theirs) := if first then (r.2.2.1, r.2.1) else (r.2.1, r.2.2.1)
    outKind mine == "tokens" && isErr theirs)) = true := by
  intro rt strict first; cases rt <;> cases strict <;> cases first <;> decide

/-- PKCE: the request carries an S256 challenge; the rightful public client presents the verifier, the intruder - the same public
    client id, everything else right - presents none / the challenge string / another verifier: never tokens, all interleavings -/
example : ∀ rt : Router, ∀ strict : Bool,
    let pre : List Flow.Op := [.authorize { clientID := "pub", redirectURI := "https://rp.example/cb", scopes := ["openid"], nonce := "n-1", challenge := some { Challenge := "S256(v1)", Method := "S256" } } {},
                               .login "ar1" "user1" 1000, .callback "ar1" "c1"]
    let good : AccessTokenRequest := { Code := "c1", RedirectURI := "https://rp.example/cb", ClientID := "pub", CodeVerifier := "v1" }
    [{ good with CodeVerifier := "" }, { good with CodeVerifier := "S256(v1)" }, { good with CodeVerifier := "v2" }].all (fun bad =>
      interleavings.all (fun sch =>
        let r := stepConc 0 (Flow.run 0 demoState pre).1 rt strict good false bad false sch
        outKind r.2.1 == "tokens" && isErr r.2.2.1)) = true := by
  intro rt strict; cases rt <;> cases strict <;> decide

/-- two DIFFERENT requests redeemed concurrently both succeed (the theorem does not forbid too much) -/
example :
    let pre : List Flow.Op := demoPre ++ [demoAuthorize, .login "ar2" "user2" 1000, .callback "ar2" "c2"]
    let r := stepConc 0 (Flow.run 0 demoState pre).1 .legacy true demoReq false { demoReq with Code := "c2" } false [true, false, true, false, true, false]
    nTokens r = 2 := by decide

end C04
