/-
  deep3-C04: two code exchanges served CONCURRENTLY (Model/FlowC04X.lean `stepConc`): the two handlers' storage-relevant steps
  (lookup = the whole validation; token creation; `DeleteAuthRequest` - in the order regenerated from `CreateTokenResponse`)
  interleaved by an arbitrary schedule.

  What the library relies on.  It reads the authorization request (`AuthRequestByCode`), creates the tokens and deletes the
  request in three separate storage calls and never learns whether ITS deletion removed anything.  Therefore:
    * `c04_concurrent_at_most_one` - if the storage's `DeleteAuthRequest` is an atomic consume (it FAILS when the request is not
      stored any more: `strict`), then under EVERY schedule two concurrent exchanges that both end in tokens consumed two
      DIFFERENT authorization requests: one authorization request - whichever of its codes is presented - yields tokens at most
      once.  (Uses the regenerated facts: the request is deleted, a failing deletion is fatal.)
    * `c04_concurrent_idempotent_witness` - if deleting what is not there succeeds (the repo's example storage; refstore), the
      schedule lookup₁ lookup₂ … lets BOTH handlers answer with tokens for one code, and the reference monitor objects
      (`code-replayed`): the property's single-use clause then holds for sequential histories only (`c04_single_use`).
    * `c04_concurrent_sequential` - a schedule that runs one handler to its end before the other starts is the sequential
      history: at most one succeeds under either contract.
    * the loser of a strict race has created tokens the storage keeps (orphans): `c04_concurrent_orphan` (example).
-/
import OidcModel.Proofs.C04Faults

namespace FlowX
open Go Gen Hand Flow FlowObs

/-- the request IS deleted (regenerated fact), in one of the two possible orders -/
theorem program_cases : program = [.mint, .delete] ∨ program = [.delete, .mint] := by
  unfold program
  simp only [deletes_authRequest, Bool.not_true, Bool.false_eq_true, if_false]
  cases tokensBeforeDelete <;> simp

def ids (s : St) : List String := s.store.authReqs.map (·.id)

theorem mem_ids_iff (s : St) (id : String) : id ∈ ids s ↔ s.store.authReqs.any (·.id == id) = true := by
  simp [ids, List.any_eq_true]

theorem ids_mint (s : St) (i : IssueFor) : ids (mintTokens s i) = ids s := by
  unfold ids; rw [(mintTokens_auth s i).1]

theorem ids_delete_sub (s : St) (id x : String) (h : x ∈ ids (deleteAuthRequest s id)) : x ∈ ids s := by
  simp only [ids, deleteAuthRequest, St.store, St.setStore, List.mem_map, List.mem_filter] at h ⊢
  obtain ⟨a, ⟨ha, _⟩, rfl⟩ := h
  exact ⟨a, ha, rfl⟩

theorem ids_delete_not (s : St) (id : String) : id ∉ ids (deleteAuthRequest s id) := by
  simp only [ids, deleteAuthRequest, St.store, St.setStore, List.mem_map, List.mem_filter, not_exists, not_and]
  intro a ⟨_, hne⟩ heq
  simp [heq] at hne

/-- a handler that answered with tokens for request `a` -/
def Won (h : H) (a : AuthReq) : Prop := ∃ c k nr, h = .fin (.issued (.code a c k) nr)

/-- a handler whose `DeleteAuthRequest` for request `a` has succeeded: it answered with tokens, or (deletion before token
    creation) is about to create them -/
def Past (h : H) (a : AuthReq) : Prop := Won h a ∨ ∃ c k nr, h = .run (.code a c k) [.mint] nr

theorem Won.past {h : H} {a : AuthReq} (w : Won h a) : Past h a := Or.inl w

/-- the states a handler passes through, for either order of the program -/
inductive WF : H → Prop
  | idle (req ha) : WF (.idle req ha)
  | todo2 (a c k nr p) : p = [Act.mint, .delete] ∨ p = [Act.delete, .mint] → WF (.run (.code a c k) p nr)
  | todoDelete (a c k nr) : WF (.run (.code a c k) [.delete] nr)
  | todoMint (a c k nr) : WF (.run (.code a c k) [.mint] nr)
  | fin (o) : WF (.fin o)

/-- one step of one handler under the STRICT contract: the stored requests only shrink; a handler that is now past its deletion
    of `a` either was so before, or has just deleted `a` - which was still stored - itself -/
theorem hstep_strict (now : Int) (rt : Router) (s : St) (h : H) (hwf : WF h) :
    WF (hstep now rt true s h).2 ∧ (∀ x, x ∈ ids (hstep now rt true s h).1 → x ∈ ids s) ∧
    ∀ a, Past (hstep now rt true s h).2 a → Past h a ∨ (a.id ∈ ids s ∧ a.id ∉ ids (hstep now rt true s h).1) := by
  have noPast : ∀ (a' : AuthReq) (c' : OPClient) (k' : String) (p : List Act) (nr' : Option String), p ≠ [.mint] →
      ∀ a, ¬ Past (.run (.code a' c' k') p nr') a := by
    intro a' c' k' p nr' hp a hpast
    rcases hpast with ⟨c, k, nr, hw⟩ | ⟨c, k, nr, hw⟩
    · cases hw
    · cases hw; exact hp rfl
  cases hwf with
  | idle req ha =>
    simp only [hstep]
    cases hce : codeExchange now rt s.p req ha with
    | error e =>
      refine ⟨.fin _, fun _ hx => hx, ?_⟩
      rintro a (⟨c, k, nr, hw⟩ | ⟨c, k, nr, hw⟩) <;> cases hw
    | ok i =>
      obtain ⟨a, c, hi, _⟩ := codeExchange_ok hce
      subst hi
      rcases program_cases with hp | hp <;> simp only [hp, List.isEmpty_cons, Bool.false_eq_true, if_false]
      · exact ⟨.todo2 _ _ _ _ _ (Or.inl rfl), fun _ hx => hx, fun a' hp' => absurd hp' (noPast _ _ _ _ _ (by decide) a')⟩
      · exact ⟨.todo2 _ _ _ _ _ (Or.inr rfl), fun _ hx => hx, fun a' hp' => absurd hp' (noPast _ _ _ _ _ (by decide) a')⟩
  | todo2 a c k nr p hp =>
    rcases hp with rfl | rfl
    · simp only [hstep, List.isEmpty_cons, Bool.false_eq_true, if_false]
      exact ⟨.todoDelete _ _ _ _, fun x hx => by rwa [ids_mint] at hx, fun a' hp' => absurd hp' (noPast _ _ _ _ _ (by decide) a')⟩
    · simp only [hstep, deleteStep, Bool.true_and, List.isEmpty_cons, Bool.false_eq_true, if_false]
      by_cases hin : s.store.authReqs.any (·.id == a.id) = true
      · simp only [hin, Bool.not_true, Bool.false_eq_true, if_false]
        refine ⟨.todoMint _ _ _ _, fun x hx => ids_delete_sub s a.id x hx, ?_⟩
        rintro a' (⟨c', k', nr', hw⟩ | ⟨c', k', nr', hw⟩)
        · cases hw
        · cases hw
          exact Or.inr ⟨(mem_ids_iff s a.id).2 hin, ids_delete_not s a.id⟩
      · simp only [hin, Bool.not_false, if_true, delete_failure_fatal]
        refine ⟨.fin _, fun _ hx => hx, ?_⟩
        rintro a' (⟨c', k', nr', hw⟩ | ⟨c', k', nr', hw⟩) <;> cases hw
  | todoDelete a c k nr =>
    simp only [hstep, deleteStep, Bool.true_and, List.isEmpty_nil, if_true]
    by_cases hin : s.store.authReqs.any (·.id == a.id) = true
    · simp only [hin, Bool.not_true, Bool.false_eq_true, if_false]
      refine ⟨.fin _, fun x hx => ids_delete_sub s a.id x hx, ?_⟩
      rintro a' (⟨c', k', nr', hw⟩ | ⟨c', k', nr', hw⟩)
      · cases hw
        exact Or.inr ⟨(mem_ids_iff s a.id).2 hin, ids_delete_not s a.id⟩
      · cases hw
    · simp only [hin, Bool.not_false, if_true, delete_failure_fatal]
      refine ⟨.fin _, fun _ hx => hx, ?_⟩
      rintro a' (⟨c', k', nr', hw⟩ | ⟨c', k', nr', hw⟩) <;> cases hw
  | todoMint a c k nr =>
    simp only [hstep, List.isEmpty_nil, if_true]
    refine ⟨.fin _, fun x hx => by rwa [ids_mint] at hx, ?_⟩
    rintro a' (⟨c', k', nr', hw⟩ | ⟨c', k', nr', hw⟩)
    · cases hw
      exact Or.inl (Or.inr ⟨c, k, nr, rfl⟩)
    · cases hw
  | fin o =>
    simp only [hstep]
    exact ⟨.fin _, fun _ hx => hx, fun a hw => Or.inl hw⟩

/-- the invariant of a strict race: a handler past its deletion has removed its request, and two such handlers consumed
    different requests -/
structure CInv (c : Conc) : Prop where
  wf1 : WF c.h1
  wf2 : WF c.h2
  gone1 : ∀ a, Past c.h1 a → a.id ∉ ids c.s
  gone2 : ∀ a, Past c.h2 a → a.id ∉ ids c.s
  distinct : ∀ a1 a2, Past c.h1 a1 → Past c.h2 a2 → a1.id ≠ a2.id

theorem cinv_step (now : Int) (rt : Router) (c : Conc) (h : CInv c) (b : Bool) : CInv (c.step now rt true b) := by
  cases b with
  | true =>
    obtain ⟨w, sub, won⟩ := hstep_strict now rt c.s c.h1 h.wf1
    simp only [Conc.step, if_true]
    refine ⟨w, h.wf2, ?_, ?_, ?_⟩
    · intro a hw
      rcases won a hw with hold | ⟨_, hnot⟩
      · exact fun hx => h.gone1 a hold (sub _ hx)
      · exact hnot
    · intro a hw hx
      exact h.gone2 a hw (sub _ hx)
    · intro a1 a2 hw1 hw2
      rcases won a1 hw1 with hold | ⟨hin, _⟩
      · exact h.distinct a1 a2 hold hw2
      · intro heq
        exact h.gone2 a2 hw2 (heq ▸ hin)
  | false =>
    obtain ⟨w, sub, won⟩ := hstep_strict now rt c.s c.h2 h.wf2
    simp only [Conc.step, Bool.false_eq_true, if_false]
    refine ⟨h.wf1, w, ?_, ?_, ?_⟩
    · intro a hw hx
      exact h.gone1 a hw (sub _ hx)
    · intro a hw
      rcases won a hw with hold | ⟨_, hnot⟩
      · exact fun hx => h.gone2 a hold (sub _ hx)
      · exact hnot
    · intro a1 a2 hw1 hw2
      rcases won a2 hw2 with hold | ⟨hin, _⟩
      · exact h.distinct a1 a2 hw1 hold
      · intro heq
        exact h.gone1 a1 hw1 (heq ▸ hin)

theorem cinv_run (now : Int) (rt : Router) (c : Conc) (h : CInv c) (sched : List Bool) : CInv (Conc.run now rt true c sched) := by
  induction sched generalizing c with
  | nil => exact h
  | cons b rest ih => exact ih _ (cinv_step now rt c h b)

theorem won_of_out {h : H} {a : AuthReq} {c : OPClient} {k : String} {nr : Option String} (ho : outOf h = .issued (.code a c k) nr) : Won h a := by
  cases h with
  | fin o => simp only [outOf] at ho; exact ⟨c, k, nr, by rw [ho]⟩
  | idle _ _ => simp [outOf] at ho
  | run _ _ _ => simp [outOf] at ho

end FlowX

namespace C04
open FlowObs Flow FlowX

/-- **Concurrent double redemption, strict storage.**  Whatever the state, the router, the two requests (the same code, two codes
    of one request, codes of different requests, any credentials) and the schedule: if the storage's `DeleteAuthRequest` fails
    for a request that is not stored any more, two concurrent exchanges that BOTH end in tokens consumed two different
    authorization requests.  One authorization request yields tokens at most once. -/
theorem c04_concurrent_at_most_one (now : Int) (s : Flow.St) (rt : Router) (req1 req2 : AccessTokenRequest) (ha1 ha2 : Bool) (sched : List Bool)
    (a1 a2 : AuthReq) (c1 c2 : OPClient) (k1 k2 : String) (n1 n2 : Option String)
    (h1 : (stepConc now s rt true req1 ha1 req2 ha2 sched).2.1 = .issued (.code a1 c1 k1) n1)
    (h2 : (stepConc now s rt true req1 ha1 req2 ha2 sched).2.2.1 = .issued (.code a2 c2 k2) n2) :
    a1.id ≠ a2.id := by
  have hinit : CInv { s := s, h1 := .idle req1 ha1, h2 := .idle req2 ha2 } := by
    refine ⟨.idle _ _, .idle _ _, ?_, ?_, ?_⟩
    · rintro a (⟨c, k, nr, hw⟩ | ⟨c, k, nr, hw⟩) <;> cases hw
    · rintro a (⟨c, k, nr, hw⟩ | ⟨c, k, nr, hw⟩) <;> cases hw
    · rintro a1 a2 (⟨c, k, nr, hw⟩ | ⟨c, k, nr, hw⟩) <;> cases hw
  have hfin := cinv_run now rt _ hinit (sched ++ drain)
  exact hfin.distinct a1 a2 (won_of_out h1).past (won_of_out h2).past

/-! Concrete races over the demo history (authorize, login, callback c1; `web` redeems c1 twice at once). -/
def demoPre : List Flow.Op := [demoAuthorize, .login "ar1" "user1" 1000, .callback "ar1" "c1"]
def demoRace (rt : Router) (strict : Bool) (sched : List Bool) :=
  stepConc 0 (Flow.run 0 demoState demoPre).1 rt strict demoReq false demoReq false sched

/-- the 20 interleavings of (lookup, create, delete) of the first handler with those of the second -/
def interleavings : List (List Bool) :=
  [[true,true,true,false,false,false], [true,true,false,true,false,false], [true,true,false,false,true,false], [true,true,false,false,false,true],
   [true,false,true,true,false,false], [true,false,true,false,true,false], [true,false,true,false,false,true], [true,false,false,true,true,false],
   [true,false,false,true,false,true], [true,false,false,false,true,true], [false,true,true,true,false,false], [false,true,true,false,true,false],
   [false,true,true,false,false,true], [false,true,false,true,true,false], [false,true,false,true,false,true], [false,true,false,false,true,true],
   [false,false,true,true,true,false], [false,false,true,true,false,true], [false,false,true,false,true,true], [false,false,false,true,true,true]]

def nTokens (r : Flow.St × Flow.Out × Flow.Out × List Bool) : Nat :=
  (if outKind r.2.1 == "tokens" then 1 else 0) + (if outKind r.2.2.1 == "tokens" then 1 else 0)

/-- strict storage: under each of the 20 interleavings exactly ONE handler answers with tokens, on both routers -/
example : ∀ rt : Router, interleavings.all (fun sch => nTokens (demoRace rt true sch) == 1) = true := by
  intro rt; cases rt <;> decide

/-- **Idempotent storage: the witness.**  `DeleteAuthRequest` of a request that is already gone succeeds (example storage,
    refstore): when both lookups happen before the first deletion, BOTH handlers answer with tokens for the one code - on
    both routers - ... -/
theorem c04_concurrent_idempotent_witness : ∀ rt : Router,
    nTokens (demoRace rt false [true, false, true, true, false, false]) = 2 := by
  intro rt; cases rt <;> decide

/-- ... under 18 of the 20 interleavings (all but the two sequential ones, in which one handler's deletion precedes the other's lookup) -/
example : ∀ rt : Router, tokensBeforeDelete = true → (interleavings.filter (fun sch => nTokens (demoRace rt false sch) == 2)).length = 18 := by
  intro rt; cases rt <;> decide

/-- and the reference monitor objects to the second response: the clause "the same code never yields tokens again" -/
example :
    let s0 := (runObs 0 (demoState, obsOf demoState) demoPre).1
    let r := demoRace .provider false [true, false, true, true, false, false]
    let tk : C04.Tokens := { subject := "user1", client := "web", scopes := ["openid", "email", "offline_access"], nonce := "n-1" }
    let o1 := observe 0 s0.2 (.exchange (presentedCode demoReq) (some tk) none)
    nTokens r = 2 ∧ o1.2.1 = none ∧ (observe 0 o1.1 (.exchange (presentedCode demoReq) (some tk) none)).2.1 = some "code-replayed" := by decide

/-- **Sequential schedules** (one handler runs to its end before the other starts) are the sequential history: one success,
    under either contract -/
theorem c04_concurrent_sequential : ∀ rt : Router, ∀ strict : Bool,
    nTokens (demoRace rt strict [true, true, true, false, false, false]) = 1 ∧ nTokens (demoRace rt strict [false, false, false, true, true, true]) = 1 := by
  intro rt strict; cases rt <;> cases strict <;> decide

/-- the loser of a strict race created tokens before its deletion failed: they stay in the storage (two refresh tokens exist,
    one was delivered) -/
theorem c04_concurrent_orphan :
    let r := demoRace .provider true [true, false, true, false, true, false]
    nTokens r = 1 ∧ (tokensBeforeDelete = true → r.1.store.refresh.map (·.token) = ["rt1", "rt2"]) := by decide

/-- two DIFFERENT requests redeemed concurrently both succeed (the theorem does not forbid too much) -/
example :
    let pre : List Flow.Op := demoPre ++ [demoAuthorize, .login "ar2" "user2" 1000, .callback "ar2" "c2"]
    let r := stepConc 0 (Flow.run 0 demoState pre).1 .legacy true demoReq false { demoReq with Code := "c2" } false [true, false, true, false, true, false]
    nTokens r = 2 := by decide

end C04
