/-
  C17 request isolation, property level: the slice-level theorem of Proofs/C17Iso.lean (every interleaving, regenerated
  aliasing fact) combined with the regenerated handlers' functions (`CheckCookie`, the option tables, `Hand.CodeExchange`,
  `Hand.AuthURL`) and the theorems of Proofs/C17.lean.
-/
import OidcModel.Proofs.C17Iso
import OidcModel.Proofs.C17

namespace C17Iso
open RPAlias

/-! ### what this means for the PKCE clause of the property -/

theorem sentOf_append (acc : List Opt) (d t : List Op) :
    sentOf acc (d ++ t) = sentOf acc d ++ sentOf (logicalOf acc d) t := by
  induction d generalizing acc with
  | nil => rfl
  | cons o r ih => cases o <;> simp [sentOf, logicalOf, ih]

open Gen Hand RPBrowser C17 in
/-- the slice operations of one callback on its way through the regenerated `CodeExchangeHandler` (PKCE): the verifier
    option built from the request's OWN pkce cookie, the client assertion when a signer is configured (`a`), the call of
    `CodeExchange`; a request whose cookie does not verify never reaches them -/
def cbPath (now : Int) (ch : CookieHandler) (r : HttpReq) (a : Option String) : List Op :=
  match CheckCookie now ch r pkceCode with
  | .error _ => []
  | .ok v =>
    match a with
    | none => [.append (WithCodeVerifier now v), .use]
    | some a => [.append (WithCodeVerifier now v), .append (WithClientAssertionJWT now a), .use]

open Gen Hand RPBrowser C17 in
/-- REQUEST ISOLATION (property level).  Any number of callbacks are served by the ONE `CodeExchangeHandler` (slice
    origin: the regenerated fact), interleaved step by step in ANY order, `append` growing arrays in any way: whenever
    a request's `CodeExchange` sends a token request, its `code_verifier` is the content of the pkce cookie in THAT
    request's jar that the RP signed - never another request's. -/
theorem c17_request_isolation (now : Int) (rp : RP) (ch : CookieHandler) (urlParam : List UrlOpt)
    (rs : Nat → HttpReq) (assertion : Nat → Option String) (grow : Nat → Nat) (u : Nat) (sched : List Nat) (i : Nat)
    (opts : List Opt) (code : String) (w : World)
    (hsent : opts ∈ ((run GenAlias.CodeExchangeHandler_optsOrigin urlParam grow u
        (init urlParam fun j => cbPath now ch (rs j) (assertion j)) sched).reqs i).sent)
    (q : TokenReq) (hq : (Hand.CodeExchange now w code rp opts).1 = w ++ [.tokenRequest q]) :
    signedValue (cfgOf rp ch) (rs i).cookies "pkce" = some (getParam q.params "code_verifier") := by
  obtain ⟨hprog, hs⟩ := c17_exchange_isolated urlParam (fun j => cbPath now ch (rs j) (assertion j)) grow u sched i
  generalize (run GenAlias.CodeExchangeHandler_optsOrigin urlParam grow u
        (init urlParam fun j => cbPath now ch (rs j) (assertion j)) sched).reqs i = r at hprog hs hsent
  -- what was read is among what the whole path reads
  have hmem : opts ∈ sentOf urlParam (cbPath now ch (rs i) (assertion i)) := by
    have : sentOf urlParam (r.done ++ r.todo) = sentOf urlParam r.done ++ sentOf (logicalOf urlParam r.done) r.todo :=
      sentOf_append _ _ _
    rw [hprog] at this
    rw [this, ← hs]
    exact List.mem_append_left _ hsent
  have hspec := (checkCookie_spec now rp ch (rs i) "pkce").symm
  have hqp : q.params = setParams ([("grant_type", "authorization_code"), ("code", code)]
      ++ (if rp.oauthConfig.RedirectURL != "" then [("redirect_uri", rp.oauthConfig.RedirectURL)] else [])) opts.flatten := by
    simp only [Hand.CodeExchange, List.append_cancel_left_eq, List.cons.injEq, Eff.tokenRequest.injEq, and_true] at hq
    rw [← hq]
  unfold cbPath at hmem
  simp only [pkceCode] at hmem
  cases hc : CheckCookie now ch (rs i) "pkce" with
  | error e => simp [hc, sentOf] at hmem
  | ok v =>
    rw [hc] at hspec
    simp only [toOpt] at hspec
    rw [hspec, hqp]
    cases ha : assertion i with
    | none =>
      simp only [hc, ha, sentOf, List.mem_singleton] at hmem
      rw [hmem]
      have := verifier_param1 ([("grant_type", "authorization_code"), ("code", code)]
        ++ (if rp.oauthConfig.RedirectURL != "" then [("redirect_uri", rp.oauthConfig.RedirectURL)] else [])) urlParam now v
      simp only [Go.append, Go.mapList, List.map_id'] at this
      rw [this]
    | some a =>
      simp only [hc, ha, sentOf, List.mem_singleton] at hmem
      rw [hmem]
      have := verifier_param2 ([("grant_type", "authorization_code"), ("code", code)]
        ++ (if rp.oauthConfig.RedirectURL != "" then [("redirect_uri", rp.oauthConfig.RedirectURL)] else [])) urlParam now v a
      simp only [Go.append, Go.mapList, List.map_id'] at this
      rw [this]

open Gen Hand RPBrowser C17 in
/-- the same for login requests through the ONE `AuthURLHandler`: under every interleaving the `code_challenge` of a
    request's authorization URL is the S256 of the verifier (`rawURLEncode (rnd i)`) that request stored in its own
    pkce cookie (seeded C20-H / C17-B break the fact this rests on) -/
theorem c17_authurl_challenge_isolation (now : Int) (rp : RP) (urlParam : List UrlOpt)
    (state : Nat → String) (rnd : Nat → String) (grow : Nat → Nat) (u : Nat) (sched : List Nat) (i : Nat) (opts : List Opt)
    (hsent : opts ∈ ((run GenAlias.AuthURLHandler_optsOrigin urlParam grow u
        (init urlParam fun j => [.append (WithCodeChallenge now (NewSHACodeChallenge now (rawURLEncode (rnd j)))), .use]) sched).reqs i).sent) :
    getParam (AuthURL now (state i) rp opts).params "code_challenge" = s256 (rawURLEncode (rnd i)) := by
  obtain ⟨hprog, hs⟩ := c17_authurl_isolated urlParam
    (fun j => [.append (WithCodeChallenge now (NewSHACodeChallenge now (rawURLEncode (rnd j)))), .use]) grow u sched i
  generalize (run GenAlias.AuthURLHandler_optsOrigin urlParam grow u
        (init urlParam fun j => [.append (WithCodeChallenge now (NewSHACodeChallenge now (rawURLEncode (rnd j)))), .use]) sched).reqs i = r
    at hprog hs hsent
  have hmem : opts ∈ sentOf urlParam [.append (WithCodeChallenge now (NewSHACodeChallenge now (rawURLEncode (rnd i)))), .use] := by
    have : sentOf urlParam (r.done ++ r.todo) = sentOf urlParam r.done ++ sentOf (logicalOf urlParam r.done) r.todo :=
      sentOf_append _ _ _
    rw [hprog] at this
    rw [this, ← hs]
    exact List.mem_append_left _ hsent
  simp only [sentOf, List.mem_singleton] at hmem
  rw [hmem]
  have := authURL_challenge now (state i) (NewSHACodeChallenge now (rawURLEncode (rnd i))) rp urlParam
  simp only [Go.append, Go.mapList, List.map_id'] at this
  rw [this]
  rfl

end C17Iso
