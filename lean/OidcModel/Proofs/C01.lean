/-
  C01 proofs: the REGENERATED `Gen.VerifyIDToken` / `Gen.VerifyTokens` satisfy the monitor of
  Spec/C01 for every token, configuration and instant.
-/
import OidcModel.Spec.C01
import OidcModel.Generated.RPVerifier
import OidcModel.GoTac

namespace C01
open Go Gen Hand

/-! ### time lemmas -/

theorem tRound_second_bounds (t : Int) :
    tRound t second - t ≤ halfSecond ∧ t - tRound t second < halfSecond + 1 ∧ tRound t second % second = 0 := by
  unfold tRound second halfSecond zeroTime
  simp only []
  split
  · omega
  · split <;> omega

/-! ### one lemma per translated check: what `= .ok` means -/

theorem checkSubject_ok {now c} : CheckSubject now c = .ok () ↔ c.sub ≠ "" := by
  go_char CheckSubject Claims.GetSubject Go.ok

theorem checkIssuer_ok {now c i} : CheckIssuer now c i = .ok () ↔ c.iss = i := by
  go_char CheckIssuer Claims.GetIssuer Go.ok

theorem checkAudience_ok {now c cid} : CheckAudience now c cid = .ok () ↔ cid ∈ c.aud := by
  go_char CheckAudience Claims.GetAudience Go.ok Go.contains

theorem checkAuthorizedParty_ok {now c cid} :
    CheckAuthorizedParty now c cid = .ok () ↔ ((c.azp = "" ∨ c.azp = cid) ∧ (c.aud.length ≤ 1 ∨ c.azp ≠ "")) := by
  go_char CheckAuthorizedParty Claims.GetAudience Claims.GetAuthorizedParty Go.ok Go.len HasLen.len instHasLenList

theorem checkNonce_ok {now c n} : CheckNonce now c n = .ok () ↔ c.nonce = n := by
  go_char CheckNonce Claims.GetNonce Go.ok


theorem checkExpiration_ok {now c off} : CheckExpiration now c off = .ok () ↔ now + off < ns c.exp := by
  go_char CheckExpiration Claims.GetExpiration Go.ok tBefore tAfter tAdd

theorem checkACR_ok {now c acr} :
    CheckAuthorizationContextClassReference now c acr = .ok () ↔ (∀ f, acr = some f → f c.acr = .ok ()) := by
  unfold CheckAuthorizationContextClassReference Claims.GetAuthenticationContextClassReference Go.ok Go.notNil
    Nilable.isNil instNilableOption Go.callOpt
  cases acr with
  | none => simp
  | some f =>
    simp only [Option.isNone_some, Bool.not_false, if_true]
    split <;> simp_all

/-- what acceptance by `CheckIssuedAt` means, exactly (in terms of the rounded instants) -/
theorem checkIssuedAt_ok {now c maxIAT off} :
    CheckIssuedAt now c maxIAT off = .ok () ↔
      (ns c.iat ≠ zeroTime ∧ ns c.iat ≤ tRound (now + off) second ∧
        (maxIAT = 0 ∨ ns c.iat ≥ tRound (now - maxIAT) second)) := by
  unfold CheckIssuedAt
  go_unfold Claims.GetIssuedAt Go.ok tBefore tAfter tAdd tIsZero
  simp only [ns, Int.sub_eq_add_neg]
  go_leaf

theorem checkAuthTime_ok {now c maxAge} :
    CheckAuthTime now c maxAge = .ok () ↔
      (maxAge = 0 ∨ (ns c.authTime ≠ zeroTime ∧ ns c.authTime ≥ tRound (now - maxAge) second)) := by
  unfold CheckAuthTime
  go_unfold Claims.GetAuthTime Go.ok tBefore tAfter tAdd tIsZero
  simp only [ns, Int.sub_eq_add_neg]
  go_leaf

theorem checkSignature_ok {now t p c algs ks c'} (h : CheckSignature now t p c algs ks = .ok c') :
    ∃ j s, joseParseSigned t (toJoseSignatureAlgorithms algs) = .ok j ∧ j.Signatures = [s] ∧
      ∃ p', ks.VerifySignature j = .ok p' ∧ p'.bytes = p.bytes ∧ c' = c.SetSignatureAlgorithm s.Header.Algorithm := by
  unfold CheckSignature at h
  simp only [] at h
  repeat' (split at h <;> try (simp at h))
  rename_i _ j hj hlen0 hlen1 _ p' hv hb
  subst h
  refine ⟨j, Go.index j.Signatures 0, hj, ?_, p', hv, ?_, rfl⟩
  · simp only [Go.len, HasLen.len] at hlen0 hlen1
    match hj : j.Signatures with
    | [] => simp [hj] at hlen0
    | [s] => simp [Go.index]
    | _ :: _ :: _ => simp [hj] at hlen1; omega
  · simpa [Go.bytesEqual] using hb

theorem parseToken_ok {now t p c} (h : ParseToken now t = .ok (p, c)) :
    t.segs = 3 ∧ t.middle = some p ∧ p.claims = some c := by
  unfold ParseToken at h
  split at h; · simp at h
  split at h; · simp at h
  split at h; · simp at h
  simp at h; simp_all

theorem verifyIDToken_ok {now t v c'} (h : VerifyIDToken now t v = .ok c') :
    ∃ p c, ParseToken now t = .ok (p, c) ∧ CheckSubject now c = .ok () ∧ CheckIssuer now c v.Issuer = .ok ()
      ∧ CheckAudience now c v.ClientID = .ok () ∧ CheckAuthorizedParty now c v.ClientID = .ok ()
      ∧ CheckSignature now t p c v.SupportedSignAlgs v.KeySet = .ok c'
      ∧ CheckExpiration now c' v.Offset = .ok () ∧ CheckIssuedAt now c' v.MaxAgeIAT v.Offset = .ok ()
      ∧ (∀ n, v.Nonce = some n → CheckNonce now c' n = .ok ())
      ∧ CheckAuthorizationContextClassReference now c' v.ACR = .ok ()
      ∧ CheckAuthTime now c' v.MaxAge = .ok () := by
  unfold VerifyIDToken DecryptToken at h
  simp only [] at h
  repeat' (split at h <;> try (simp at h))
  all_goals
    subst h
    exact ⟨_, _, by assumption, by assumption, by assumption, by assumption, by assumption, by assumption,
      by assumption, by assumption,
      by (intro n hn; simp_all [Go.notNil, Nilable.isNil, Go.getOpt]),
      by assumption, by assumption⟩

theorem c01_sound {now t v c} (h : VerifyIDToken now t v = .ok c) :
    ∃ pc alg, payloadClaims t = some pc ∧ c = pc.SetSignatureAlgorithm alg ∧ idTokenOK v pc now = true := by
  obtain ⟨p, pc, hp, hsub, hiss, haud, hazp, hsig, hexp, hiat, hnonce, hacr, hauth⟩ := verifyIDToken_ok h
  obtain ⟨_, hmid, hpc⟩ := parseToken_ok hp
  obtain ⟨j, s, _, _, p', _, _, hc⟩ := checkSignature_ok hsig
  refine ⟨pc, s.Header.Algorithm, by simp [payloadClaims, hmid, hpc], hc, ?_⟩
  subst hc
  rw [checkSubject_ok] at hsub
  rw [checkIssuer_ok] at hiss
  rw [checkAudience_ok] at haud
  rw [checkAuthorizedParty_ok] at hazp
  rw [checkExpiration_ok] at hexp
  rw [checkIssuedAt_ok] at hiat
  rw [checkACR_ok] at hacr
  rw [checkAuthTime_ok] at hauth
  simp only [checkNonce_ok] at hnonce
  simp only [Claims.SetSignatureAlgorithm] at *
  have r1 := tRound_second_bounds (now + v.Offset)
  have r2 := tRound_second_bounds (now - v.MaxAgeIAT)
  have r3 := tRound_second_bounds (now - v.MaxAge)
  simp only [idTokenOK, clauses, List.all_cons, List.all_nil, Bool.and_true, Bool.and_eq_true, decide_eq_true_eq,
    Bool.or_eq_true, beq_iff_eq, bne_iff_ne, ne_eq]
  refine ⟨hiss, hsub, by simpa using haud, hazp.1, hazp.2, ?_, ?_, ?_, ?_, ?_, ?_, ?_⟩
  all_goals (try (simp only [ns, halfSecond, second] at *))
  · omega
  · exact hiat.1
  · omega
  · rcases hiat.2.2 with h | h
    · left; exact h
    · right; omega
  · unfold nonceOK; cases hn : v.Nonce with
    | none => rfl
    | some n => simpa using hnonce n hn
  · unfold acrOK; cases ha : v.ACR with
    | none => rfl
    | some f => simp [hacr f ha, Except.toBool]
  · rcases hauth with h | ⟨h1, h2⟩
    · left; exact h
    · right; exact ⟨h1, by omega⟩

theorem correctlySigned_spec {v t pc alg} (h : correctlySigned v t = some (pc, alg)) :
    ∃ p j s p', t.segs = 3 ∧ t.middle = some p ∧ p.claims = some pc ∧ t.jws = some j ∧ j.Signatures = [s] ∧
      s.Header.Algorithm = alg ∧ (toJoseSignatureAlgorithms v.SupportedSignAlgs).contains alg = true ∧
      v.KeySet.VerifySignature j = .ok p' ∧ p'.bytes = p.bytes := by
  unfold correctlySigned at h
  repeat' (split at h <;> try (simp at h))
  rename_i hsegs _ _ p j hmid hjws _ _ c s hc hs _ p' hv
  obtain ⟨hin, hb, hcpc, halg⟩ := h
  subst hcpc halg
  exact ⟨p, j, s, p', by simpa using hsegs, hmid, hc, hjws, hs, rfl, by simpa using hin, hv, hb⟩

theorem c01_complete_margin {now t v pc alg} (hs : correctlySigned v t = some (pc, alg))
    (hm : idTokenOKMargin v pc now = true) :
    VerifyIDToken now t v = .ok (pc.SetSignatureAlgorithm alg) := by
  obtain ⟨p, j, s, p', hsegs, hmid, hpc, hjws, hsig, halg, hin, hv, hb⟩ := correctlySigned_spec hs
  simp only [idTokenOKMargin, clauses, List.all_cons, List.all_nil, Bool.and_true, Bool.and_eq_true, decide_eq_true_eq,
    Bool.or_eq_true, beq_iff_eq, bne_iff_ne, ne_eq] at hm
  obtain ⟨hiss, hsub, haud, hazp1, hazp2, hexp, hiatp, hiatf, hiato, hnonce, hacr, hauth⟩ := hm
  have r1 := tRound_second_bounds (now + v.Offset)
  have r2 := tRound_second_bounds (now - v.MaxAgeIAT)
  have r3 := tRound_second_bounds (now - v.MaxAge)
  simp only [ns, halfSecond, second] at *
  have e1 : ParseToken now t = .ok (p, pc) := by
    unfold ParseToken; simp [hsegs, hmid, hpc]
  have e2 : CheckSubject now pc = .ok () := checkSubject_ok.2 hsub
  have e3 : CheckIssuer now pc v.Issuer = .ok () := checkIssuer_ok.2 hiss
  have e4 : CheckAudience now pc v.ClientID = .ok () := checkAudience_ok.2 (by simpa using haud)
  have e5 : CheckAuthorizedParty now pc v.ClientID = .ok () := checkAuthorizedParty_ok.2 ⟨hazp1, hazp2⟩
  let c' := pc.SetSignatureAlgorithm alg
  have e6 : CheckSignature now t p pc v.SupportedSignAlgs v.KeySet = .ok c' := by
    unfold CheckSignature
    have hall : joseParseSigned t (toJoseSignatureAlgorithms v.SupportedSignAlgs) = .ok j := by
      unfold joseParseSigned; simp [hjws, hsig, halg]; simpa using hin
    simp [hall, hsig, Go.len, HasLen.len, Go.index, hv, Go.bytesEqual, hb, halg, c']
  have e7 : CheckExpiration now c' v.Offset = .ok () := checkExpiration_ok.2 (by simp [c', Claims.SetSignatureAlgorithm, ns]; omega)
  have e8 : CheckIssuedAt now c' v.MaxAgeIAT v.Offset = .ok () := by
    rw [checkIssuedAt_ok]; simp only [c', Claims.SetSignatureAlgorithm, ns, second]
    refine ⟨hiatp, by omega, ?_⟩
    · rcases hiato with h | h
      · left; exact h
      · right; omega
  have e9 : ∀ n, v.Nonce = some n → CheckNonce now c' n = .ok () := by
    intro n hn; rw [checkNonce_ok]; simp [nonceOK, hn] at hnonce; exact hnonce
  have e10 : CheckAuthorizationContextClassReference now c' v.ACR = .ok () := by
    rw [checkACR_ok]; intro f hf; simp only [acrOK, hf] at hacr
    cases hfa : f pc.acr with
    | ok u => simpa [c', Claims.SetSignatureAlgorithm] using hfa
    | error e => simp [hfa, Except.toBool] at hacr
  have e11 : CheckAuthTime now c' v.MaxAge = .ok () := by
    rw [checkAuthTime_ok]; simp only [c', Claims.SetSignatureAlgorithm, ns, second]
    rcases hauth with h | ⟨h1, h2⟩
    · left; exact h
    · right; exact ⟨h1, by omega⟩
  unfold VerifyIDToken DecryptToken
  simp only [e1, e2, e3, e4, e5, e6, e7, e8, e10, e11]
  cases hn : v.Nonce with
  | none => simp [Go.notNil, Nilable.isNil, c']
  | some n => simp [Go.notNil, Nilable.isNil, Go.getOpt, e9 n hn, c']

theorem getHashAlgorithm_eq (now : Int) (alg : String) :
    GetHashAlgorithm now alg = (match hashOf alg with | some h => .ok h | none => .error "ErrUnsupportedAlgorithm") := by
  unfold GetHashAlgorithm hashOf
  simp only [Const.RS256, Const.ES256, Const.PS256, Const.RS384, Const.ES384, Const.PS384, Const.RS512, Const.ES512,
    Const.PS512, Const.EdDSA, List.contains_cons, List.contains_nil, Bool.or_false]
  by_cases h1 : alg = "RS256" ∨ alg = "ES256" ∨ alg = "PS256"
  · rcases h1 with h | h | h <;> simp [h]
  by_cases h2 : alg = "RS384" ∨ alg = "ES384" ∨ alg = "PS384"
  · rcases h2 with h | h | h <;> simp [h]
  by_cases h3 : alg = "RS512" ∨ alg = "ES512" ∨ alg = "PS512" ∨ alg = "EdDSA"
  · rcases h3 with h | h | h | h <;> simp [h]
  · simp only [not_or] at h1 h2 h3
    simp [h1, h2, h3]

theorem rpVerifyAccessToken_ok {now atk c alg} :
    RPVerifyAccessToken now atk c.atHash alg = .ok () ↔ atHashOK atk c alg = true := by
  unfold RPVerifyAccessToken ClaimHash atHashOK
  rw [getHashAlgorithm_eq]
  cases hashOf alg with
  | none => simp [Go.ok]
  | some h =>
    simp [Go.ok, HashString, Hand.leftHalfHash]
    constructor
    · intro hh; by_cases h0 : c.atHash = ""
      · left; exact h0
      · right; exact (hh h0).symm
    · rintro (h0 | h0) h1
      · exact absurd h0 h1
      · exact h0.symm

/-- what the (regenerated) model answers -/
def run (v : Verifier) (t : Token) (withAT : Option String) (now : Int) : Go.R Claims :=
  match withAT with
  | none => VerifyIDToken now t v
  | some atk => VerifyTokens now atk t v

theorem verifyTokens_ok {now atk t v c} :
    VerifyTokens now atk t v = .ok c ↔ (VerifyIDToken now t v = .ok c ∧ RPVerifyAccessToken now atk c.atHash c.sigAlg = .ok ()) := by
  unfold VerifyTokens Claims.GetAccessTokenHash Claims.GetSignatureAlgorithm
  cases h1 : VerifyIDToken now t v with
  | error e => simp
  | ok c1 =>
    simp only []
    cases h2 : RPVerifyAccessToken now atk c1.atHash c1.sigAlg with
    | error e => simp; intro h; subst h; simp [h2]
    | ok u => simp; intro h; subst h; exact h2

/-- C01, soundness: whatever is accepted satisfies every condition of the statement, the returned
    claims are the payload's claims, and a present at_hash binds the access token. -/
theorem c01_sound_all (v : Verifier) (t : Token) (withAT : Option String) (now : Int) (c : Claims)
    (h : run v t withAT now = .ok c) : monitor v t withAT now (some c) = none := by
  have hid : VerifyIDToken now t v = .ok c := by
    cases withAT with
    | none => exact h
    | some atk => exact (verifyTokens_ok.1 h).1
  obtain ⟨pc, alg, hpc, hc, hok⟩ := c01_sound hid
  unfold monitor
  simp only [hpc]
  have hne : ({ c with sigAlg := "" } != { pc with sigAlg := "" }) = false := by
    subst hc; simp [Claims.SetSignatureAlgorithm]
  simp only [hne]
  have hff : firstFailing (clauses v pc now (-halfSecond)) = none := by
    unfold firstFailing
    simp only [idTokenOK, List.all_eq_true] at hok
    rw [List.find?_eq_none.2 (fun x hx => by simp [hok x hx])]; rfl
  simp only [hff]
  cases withAT with
  | none => simp
  | some atk =>
    have h2 := (verifyTokens_ok.1 h).2
    have : c.atHash = pc.atHash := by subst hc; rfl
    rw [this, rpVerifyAccessToken_ok] at h2
    simp [h2]

/-- C01, completeness: a correctly signed token meeting every condition with more than rounding
    margin (and a matching at_hash, when verified together with an access token) is never rejected. -/
theorem c01_complete_all (v : Verifier) (t : Token) (withAT : Option String) (now : Int) (e : String)
    (h : run v t withAT now = .error e) : monitor v t withAT now none = none := by
  unfold monitor
  simp only []
  cases hs : correctlySigned v t with
  | none => rfl
  | some pa =>
    obtain ⟨pc, alg⟩ := pa
    cases withAT with
    | none =>
      simp only [Bool.and_true]
      by_cases hm : idTokenOKMargin v pc now = true
      · have hid := c01_complete_margin (now := now) hs hm
        simp [run, hid] at h
      · simp [hm]
    | some atk =>
      simp only []
      by_cases hm : (idTokenOKMargin v pc now && atHashOK atk pc alg) = true
      · simp only [Bool.and_eq_true] at hm
        have hid := c01_complete_margin (now := now) hs hm.1
        have h2 : RPVerifyAccessToken now atk (pc.SetSignatureAlgorithm alg).atHash (pc.SetSignatureAlgorithm alg).sigAlg = .ok () :=
          (rpVerifyAccessToken_ok (c := pc)).2 hm.2
        have := verifyTokens_ok.2 ⟨hid, h2⟩
        simp [run, this] at h
      · simp [hm]

/-- C01: for every verifier configuration, token, access token and instant, the answer of the
    regenerated verifier satisfies the monitor. -/
theorem c01_holds (v : Verifier) (t : Token) (withAT : Option String) (now : Int) :
    monitor v t withAT now (run v t withAT now).toOption = none := by
  cases h : run v t withAT now with
  | ok c => exact c01_sound_all v t withAT now c h
  | error e => exact c01_complete_all v t withAT now e h



/-! ### non-vacuity: a concrete token that is accepted, and one that is rejected for each reason -/
section examples
def exKey : JWK := { KeyID := "k1", Use := "sig", kty := .rsa, keyNo := 7 }
def exClaims : Claims := { iss := "https://op", sub := "u1", aud := ["rp", "other"], azp := "rp", exp := 2000000600, iat := 2000000000, authTime := 1999999990, nonce := "n0", acr := "gold" }
def exPayload : Payload := { bytes := 1, claims := some exClaims }
def exHdr : JHeader := { Algorithm := "RS256", KeyID := "k1" }
def exSig : JSig := { Header := exHdr, signer := some 7, signedAlg := "RS256", signedBytes := 1, signedHdr := exHdr }
def exTok : Token := { segs := 3, middle := some exPayload, jws := some { Signatures := [exSig], payload := exPayload } }
def exV : Verifier := { Issuer := "https://op", ClientID := "rp", Offset := second, MaxAgeIAT := 3600 * second, MaxAge := 7200 * second, Nonce := some "n0", KeySet := { kind := .published, keys := [exKey] } }
def exNow : Int := 2000000100 * second + 123456789

example : (run exV exTok none exNow).toOption = some (exClaims.SetSignatureAlgorithm "RS256") := by decide
example : correctlySigned exV exTok = some (exClaims, "RS256") ∧ idTokenOKMargin exV exClaims exNow = true := by decide
example : (run exV exTok none (exNow + 600 * second)).toOption = none := by decide
example : (run { exV with ClientID := "rp2" } exTok none exNow).toOption = none := by decide
end examples

end C01
