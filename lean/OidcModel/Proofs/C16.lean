/-
  C16 proofs.
  1. `c16_order`: the REGENERATED CheckDeviceAuthorizationState is exactly the ordering denied ≻ approved ≻ expired ≻ pending,
     time-out ↦ slow_down, any other storage error ↦ access_denied (for all states, instants, providers).
  2. `userCode_wellformed`, `userCode_length`: NewUserCode as a function of the drawn indices has the configured format, for
     every alphabet, amount, dash interval and index list in range.
  3. `deviceCode_wellformed`: NewDeviceCode of n bytes is an unpadded base64url string of ⌈4n/3⌉ characters.
  4. `formDecode_escape`, `c16_uris`: the form decoder inverts url.QueryEscape on every byte string; the complete verification
     URI of the model's response carries the user code to a user agent, for every URI and every user code (any alphabet).
  5. `c16_state_machine`: for ALL histories of device_authorization / approve / deny / expire / poll on both routers the
     reference monitor accepts every response of the model (regenerated handlers + stateful shell).
-/
import OidcModel.Spec.C16
import OidcModel.Model.DeviceFlow
import OidcModel.Proofs.Base64
import OidcModel.Proofs.Query
import OidcModel.Proofs.C16Char

namespace C16
open Go Gen Hand

-- ================================================================ 1. the state answers

/-- the regenerated function, spelled out -/
theorem c16_order (now : Int) (clientID code : String) (p : DevProvider) :
    CheckDeviceAuthorizationState now clientID code p =
      if p.deviceCap = false then .error "ErrUnsupportedGrantType" else
      match p.Storage.GetDeviceAuthorizatonState clientID code with
      | .error e => if e = Const.DeadlineExceeded then .error "ErrSlowDown" else .error "ErrAccessDenied"
      | .ok st =>
        if st.Denied = true then .error "ErrAccessDenied"
        else if st.Done = true then .ok st
        else if now > st.Expires then .error "ErrExpiredDeviceCode"
        else .error "ErrAuthorizationPending" := by
  rw [checkState_eq]; rfl

/-- tokens can only follow from a stored state that is approved and not denied -/
theorem checkState_ok {now clientID code p st} (h : CheckDeviceAuthorizationState now clientID code p = .ok st) :
    p.deviceCap = true ∧ p.Storage.GetDeviceAuthorizatonState clientID code = .ok st ∧ st.Denied = false ∧ st.Done = true := by
  rw [c16_order] at h
  split at h; · simp at h
  split at h
  · split at h <;> simp at h
  · rename_i st' hst
    split at h; · simp at h
    split at h
    · simp at h; subst h; simp_all
    · split at h <;> simp at h

/-- a denial wins over everything the user did before or after (approved, expired or not) -/
theorem denied_wins {now clientID code p st} (hcap : p.deviceCap = true)
    (h : p.Storage.GetDeviceAuthorizatonState clientID code = .ok st) (hd : st.Denied = true) :
    CheckDeviceAuthorizationState now clientID code p = .error "ErrAccessDenied" := by
  rw [c16_order]; simp [hcap, h, hd]

/-- an approval wins over expiry -/
theorem approved_wins_over_expiry {now clientID code p st} (hcap : p.deviceCap = true)
    (h : p.Storage.GetDeviceAuthorizatonState clientID code = .ok st) (hd : st.Denied = false) (ha : st.Done = true) :
    CheckDeviceAuthorizationState now clientID code p = .ok st := by
  rw [c16_order]; simp [hcap, h, hd, ha]

theorem timeout_is_slow_down {now clientID code p} (hcap : p.deviceCap = true) (h : p.fault = some Const.DeadlineExceeded) :
    CheckDeviceAuthorizationState now clientID code p = .error "ErrSlowDown" := by
  rw [c16_order]; simp [hcap, DevProvider.Storage, DevStore.GetDeviceAuthorizatonState, h]

example : CheckDeviceAuthorizationState 10 "tv" "dc" { devices := [{ deviceCode := "dc", state := { ClientID := "tv", Done := true, Denied := true, Expires := 5 } }] }
    = .error "ErrAccessDenied" := by rfl
example : CheckDeviceAuthorizationState 10 "tv" "dc" { devices := [{ deviceCode := "dc", state := { ClientID := "tv", Done := true, Expires := 5 } }] }
    = .ok { ClientID := "tv", Done := true, Expires := 5 } := by rfl
example : CheckDeviceAuthorizationState 10 "tv" "dc" { devices := [{ deviceCode := "dc", state := { ClientID := "tv", Expires := 5 } }] }
    = .error "ErrExpiredDeviceCode" := by rfl
example : CheckDeviceAuthorizationState 10 "other" "dc" { devices := [{ deviceCode := "dc", state := { ClientID := "tv", Done := true, Expires := 50 } }] }
    = .error "ErrAccessDenied" := by rfl

-- ================================================================ 2. user codes

/-- the counter of the recogniser and the loop index of the generator agree about where a dash belongs -/
def Sync (d i g : Nat) : Prop := d = 0 ∨ (i = 0 ∧ g = 0) ∨ (i ≠ 0 ∧ 0 < g ∧ g ≤ d ∧ i % d = g % d)

theorem getElem?_contains {cs : List Char} {k : Nat} {c : Char} (h : cs[k]? = some c) : cs.contains c = true := by
  simp only [List.contains_iff_mem]
  exact List.mem_of_getElem? h

theorem userCodeFrom_wf (cs : List Char) (d : Nat) :
    ∀ (ks : List Nat) (i g : Nat), (∀ k ∈ ks, k < cs.length) → Sync d i g →
      ∃ s, userCodeFrom cs d i ks = some s ∧ userCodeWF cs d ks.length g s = true := by
  intro ks
  induction ks with
  | nil => intro i g _ _; exact ⟨[], rfl, by simp [userCodeWF]⟩
  | cons k ks ih =>
    intro i g hk hs
    have hklt : k < cs.length := hk k (by simp)
    have hks : ∀ k' ∈ ks, k' < cs.length := fun k' h => hk k' (by simp [h])
    obtain ⟨c, hc⟩ : ∃ c, cs[k]? = some c := ⟨cs[k], by simp [hklt]⟩
    have hcc := getElem?_contains hc
    have hcm : c ∈ cs := List.mem_of_getElem? hc
    -- does a dash belong here?
    by_cases hdash : (d != 0 && i != 0 && i % d == 0) = true
    · -- yes: the group is full
      have hd0 : d ≠ 0 := by simp at hdash; exact hdash.1.1
      have hi0 : i ≠ 0 := by simp at hdash; exact hdash.1.2
      have him : i % d = 0 := by simp at hdash; exact hdash.2
      have hg : g = d := by
        rcases hs with h | h | ⟨_, hg0, hgd, hm⟩
        · exact absurd h hd0
        · exact absurd h.1 hi0
        · rw [him] at hm
          rcases Nat.lt_or_ge g d with hlt | hge
          · rw [Nat.mod_eq_of_lt hlt] at hm; omega
          · omega
      have hs' : Sync d (i + 1) 1 := by
        right; right
        refine ⟨by omega, by omega, by omega, ?_⟩
        rw [Nat.add_mod, him]; simp
      obtain ⟨rest, hr, hw⟩ := ih (i + 1) 1 hks hs'
      refine ⟨'-' :: c :: rest, ?_, ?_⟩
      · simp [userCodeFrom, hc, hr, hdash]
      · simp only [List.length_cons, userCodeWF]
        have : (d != 0 && g == d) = true := by simp [hd0, hg]
        simp [this, hcm, hw]
    · -- no dash
      have hnd : ¬ (d ≠ 0 ∧ g = d) := by
        intro ⟨hd0, hgd⟩
        rcases hs with h | h | ⟨hi0, hg0, _, hm⟩
        · exact hd0 h
        · omega
        · apply hdash
          rw [hgd, Nat.mod_self] at hm
          simp [hd0, hi0, hm]
      have hs' : Sync d (i + 1) (g + 1) := by
        rcases hs with h | h | ⟨hi0, hg0, hgd, hm⟩
        · exact Or.inl h
        · by_cases hd0 : d = 0
          · exact Or.inl hd0
          · right; right; refine ⟨by omega, by omega, by omega, ?_⟩; simp [h.1, h.2]
        · by_cases hd0 : d = 0
          · exact Or.inl hd0
          · right; right
            have hlt : g < d := by
              rcases Nat.lt_or_ge g d with h | h
              · exact h
              · exact absurd ⟨hd0, by omega⟩ hnd
            refine ⟨by omega, by omega, by omega, ?_⟩
            rw [Nat.add_mod i 1 d, Nat.add_mod g 1 d, hm]
      obtain ⟨rest, hr, hw⟩ := ih (i + 1) (g + 1) hks hs'
      refine ⟨c :: rest, ?_, ?_⟩
      · simp only [userCodeFrom, hc, hr]
        simp [hdash]
      · simp only [List.length_cons, userCodeWF]
        have : (d != 0 && g == d) = false := by
          cases hb : (d != 0 && g == d) with
          | false => rfl
          | true => exact absurd (by simpa using hb) hnd
        simp [this, hcm, hw]

/-- number of dashes: `len + ⌊(i-1)/d⌋ = n + ⌊(i+n-1)/d⌋` -/
theorem userCodeFrom_length (cs : List Char) (d : Nat) :
    ∀ (ks : List Nat) (i : Nat) (s : List Char), userCodeFrom cs d i ks = some s →
      s.length + (i - 1) / d = ks.length + (i + ks.length - 1) / d := by
  intro ks
  induction ks with
  | nil => intro i s h; simp [userCodeFrom] at h; subst h; simp
  | cons k ks ih =>
    intro i s h
    simp only [userCodeFrom] at h
    split at h
    · rename_i c rest hc hr
      simp only [Option.some.injEq] at h
      subst h
      have ih' := ih (i + 1) rest hr
      have e1 : i + 1 - 1 = i := by omega
      have e2 : i + 1 + ks.length - 1 = i + ks.length := by omega
      have e3 : i + (ks.length + 1) - 1 = i + ks.length := by omega
      rw [e1, e2] at ih'
      have hstep : (if (d != 0 && i != 0 && i % d == 0) = true then 1 else 0) + (i - 1) / d = i / d := by
        cases i with
        | zero => simp
        | succ j =>
          simp only [Nat.add_sub_cancel]
          rw [Nat.succ_div]
          by_cases hd0 : d = 0
          · subst hd0; simp
          · by_cases hdvd : d ∣ j + 1
            · have : (j + 1) % d = 0 := Nat.mod_eq_zero_of_dvd hdvd
              simp [hd0, this, hdvd]; omega
            · have : (j + 1) % d ≠ 0 := fun h => hdvd (Nat.dvd_of_mod_eq_zero h)
              simp [hd0, this, hdvd]
      have hl : ((if (d != 0 && i != 0 && i % d == 0) = true then ['-'] else ([] : List Char)) ++ c :: rest).length
          = (if (d != 0 && i != 0 && i % d == 0) = true then 1 else 0) + 1 + rest.length := by
        split <;> simp <;> omega
      rw [hl, List.length_cons, e3]
      omega
    · simp at h

/-- NewUserCode yields a string of the configured format: for every alphabet, amount, dash interval and drawn indices in range -/
theorem userCode_wellformed (cs : List Char) (amount dash : Nat) (idx : List Nat)
    (hlen : idx.length = amount) (hrange : ∀ k ∈ idx, k < cs.length) :
    ∃ s, NewUserCode cs amount dash idx = some s ∧ userCodeOK cs amount dash s = true := by
  obtain ⟨s, hs, hw⟩ := userCodeFrom_wf cs dash idx 0 0 hrange (Or.inr (Or.inl ⟨rfl, rfl⟩))
  refine ⟨s, by simp [NewUserCode, hlen, hs], ?_⟩
  have hl := userCodeFrom_length cs dash idx 0 s hs
  simp only [Nat.zero_sub, Nat.zero_div, Nat.add_zero, Nat.zero_add] at hl
  unfold userCodeOK
  rw [← hlen, hw, hl]
  by_cases hd : dash = 0
  · subst hd; simp
  · simp [hd]

/-- an index outside the alphabet is the only way to fail (a Go index panic; crypto/rand.Int stays below its bound) -/
theorem userCode_length (cs : List Char) (amount dash : Nat) (idx : List Nat) (s : List Char)
    (h : NewUserCode cs amount dash idx = some s) : s.length = amount + (amount - 1) / dash := by
  unfold NewUserCode at h
  split at h; · simp at h
  rename_i hl
  have := userCodeFrom_length cs dash idx 0 s h
  simp at hl
  simp only [Nat.zero_sub, Nat.zero_div, Nat.add_zero, Nat.zero_add] at this
  rw [← hl]; exact this

example : NewUserCode "BCDFGHJKLMNPQRSTVWXZ".toList 8 4 [0, 1, 2, 3, 19, 18, 17, 16] = some "BCDF-ZXWV".toList := by decide
example : userCodeOK "BCDFGHJKLMNPQRSTVWXZ".toList 8 4 "BCDF-ZXWV".toList = true := by decide
example : userCodeOK "BCDFGHJKLMNPQRSTVWXZ".toList 8 4 "BCDFZ-XWV".toList = false := by decide
example : userCodeOK "BCDFGHJKLMNPQRSTVWXZ".toList 8 4 "BCDF-ZXWA".toList = false := by decide
example : NewUserCode "AB".toList 2 0 [0, 2] = none := by decide

-- ================================================================ 3. device codes

set_option maxRecDepth 20000 in
theorem enc6_lt (m : Fin 64) : B64.alphabet.contains (B64.enc6 m.val) = true := by
  revert m; decide

theorem enc6_in_alphabet (n : Nat) : B64.alphabet.contains (B64.enc6 n) = true := by
  by_cases h : n < 64
  · exact enc6_lt ⟨n, h⟩
  · have hlen : B64.alphabet.length = 64 := by decide
    have : B64.enc6 n = 'A' := by
      unfold B64.enc6
      rw [List.getD_eq_getElem?_getD, List.getElem?_eq_none (by omega)]
      rfl
    rw [this]; decide

theorem enc6_mem (n : Nat) : B64.enc6 n ∈ B64.alphabet := by
  have := enc6_in_alphabet n
  simpa using this

theorem deviceCode_wellformed : ∀ bytes : List UInt8, deviceCodeOK bytes.length (B64.encode bytes) = true
  | [] => by decide
  | [a] => by simp [deviceCodeOK, B64.encode, enc6_mem]
  | [a, b] => by simp [deviceCodeOK, B64.encode, enc6_mem]
  | a :: b :: c :: rest => by
    have ih := deviceCode_wellformed rest
    simp only [deviceCodeOK, Bool.and_eq_true, beq_iff_eq, List.all_eq_true] at ih ⊢
    simp only [B64.encode, List.length_cons]
    refine ⟨by omega, ?_⟩
    intro x hx
    simp only [List.mem_cons] at hx
    rcases hx with rfl | rfl | rfl | rfl | hx
    · exact enc6_in_alphabet _
    · exact enc6_in_alphabet _
    · exact enc6_in_alphabet _
    · exact enc6_in_alphabet _
    · exact ih.2 x hx

/-- the 16 bytes of op.RecommendedDeviceCodeBytes give 22 characters -/
example (bytes : List UInt8) (h : bytes.length = 16) : (B64.encode bytes).length = 22 := by
  have := deviceCode_wellformed bytes
  simp [deviceCodeOK, h] at this
  exact this.1

-- ================================================================ 4. verification URIs

theorem stripPrefix_append (a b : List Char) : stripPrefix a (a ++ b) = some b := by
  induction a with
  | nil => cases b <;> rfl
  | cons x xs ih => simp [stripPrefix, ih]

theorem splitFirst_absent (sep : Char) (s : List Char) (h : ∀ c ∈ s, c ≠ sep) : splitFirst sep s = (s, none) := by
  induction s with
  | nil => rfl
  | cons c cs ih =>
    have hc : (c == sep) = false := by simpa using h c (by simp)
    have := ih (fun c' hc' => h c' (by simp [hc']))
    simp [splitFirst, hc, this]

theorem splitFirst_append (sep : Char) (a t : List Char) (h : ∀ c ∈ a, c ≠ sep) : splitFirst sep (a ++ sep :: t) = (a, some t) := by
  induction a with
  | nil => simp [splitFirst]
  | cons c cs ih =>
    have hc : (c == sep) = false := by simpa using h c (by simp)
    have := ih (fun c' hc' => h c' (by simp [hc']))
    simp [splitFirst, hc, this]

-- ---------------------------------------------------------------- text as bytes

/-- `ByteArray.toList` reads the bytes back in order -/
theorem byteArray_loop (bs : ByteArray) : ∀ (n i : Nat) (r : List UInt8), bs.size - i = n →
    ByteArray.toList.loop bs i r = r.reverse ++ bs.data.toList.drop i := by
  have hsz : bs.size = bs.data.toList.length := by cases bs; simp [ByteArray.size]
  intro n
  induction n with
  | zero =>
    intro i r h
    rw [ByteArray.toList.loop.eq_def]
    have : ¬ i < bs.size := by omega
    have hd : bs.data.toList.drop i = [] := List.drop_eq_nil_of_le (by omega)
    simp [this, hd]
  | succ n ih =>
    intro i r h
    rw [ByteArray.toList.loop.eq_def]
    have hlt : i < bs.size := by omega
    have hlt' : i < bs.data.toList.length := by omega
    simp only [hlt, ↓reduceIte]
    rw [ih (i + 1) _ (by omega)]
    have hg : bs.get! i = bs.data.toList[i] := by
      cases bs with
      | mk d =>
        have : i < d.size := by simpa using hlt'
        simp [ByteArray.get!, this]
    rw [List.drop_eq_getElem_cons hlt', hg]
    simp

theorem byteArray_toList (l : List UInt8) : l.toByteArray.toList = l := by
  unfold ByteArray.toList
  rw [byteArray_loop _ _ 0 [] rfl]
  simp

/-- the monitor's bytes of a character are its UTF-8 encoding -/
theorem charBytes_eq (c : Char) : charBytes c = String.utf8EncodeChar c := by
  simp [charBytes, String.toUTF8, List.utf8Encode, byteArray_toList]

/-- the bytes of a Go string, as the model takes them, are what the monitor calls the UTF-8 of the text -/
theorem toUTF8_ofList (s : List Char) : (String.ofList s).toUTF8.toList = utf8 s := by
  have : utf8 s = s.flatMap String.utf8EncodeChar := by
    unfold utf8; congr 1; funext c; exact charBytes_eq c
  rw [this]
  simp [String.toUTF8, String.toByteArray_ofList, List.utf8Encode, byteArray_toList]

-- ---------------------------------------------------------------- url.QueryEscape, read by the form decoder

/-- every byte `url.QueryEscape` emits is unreserved (letters, digits incl. the hex digits, `- _ . ~`), `+` or `%` -/
theorem escape_bytes (bs : List UInt8) : ∀ x ∈ Query.escape bs, Query.unreserved x = true ∨ x = 43 ∨ x = 37 := by
  have hhex : ∀ m : Fin 16, Query.unreserved (Query.hexDigit m.val) = true := by decide
  induction bs with
  | nil => simp [Query.escape]
  | cons b r ih =>
    have hd : b.toNat / 16 < 16 := by have := b.toNat_lt; omega
    have hm : b.toNat % 16 < 16 := Nat.mod_lt _ (by decide)
    simp only [Query.escape]
    split
    · rename_i hu
      intro x hx
      simp only [List.mem_cons] at hx
      rcases hx with rfl | hx
      · exact Or.inl hu
      · exact ih x hx
    · split
      · intro x hx
        simp only [List.mem_cons] at hx
        rcases hx with rfl | hx
        · exact Or.inr (Or.inl rfl)
        · exact ih x hx
      · intro x hx
        simp only [List.mem_cons] at hx
        rcases hx with rfl | rfl | rfl | hx
        · exact Or.inr (Or.inr rfl)
        · exact Or.inl (hhex ⟨_, hd⟩)
        · exact Or.inl (hhex ⟨_, hm⟩)
        · exact ih x hx

/-- an unreserved byte, as a character: one byte of UTF-8, and none of the characters with a meaning in a query string -/
def plainChar (b : UInt8) : Bool :=
  String.utf8EncodeChar (devAsciiChar b) == [b] &&
    devAsciiChar b != '%' && devAsciiChar b != '+' && devAsciiChar b != '#' && devAsciiChar b != '&' && devAsciiChar b != '='

set_option maxRecDepth 100000 in
theorem unreserved_plainChar_fin : ∀ n : Fin 256, (fun b => !Query.unreserved b || plainChar b) (UInt8.ofNat n.val) = true := by decide

theorem unreserved_plainChar {b : UInt8} (h : Query.unreserved b = true) : plainChar b = true := by
  have := unreserved_plainChar_fin ⟨b.toNat, b.toNat_lt⟩
  simpa [h] using this

theorem hexVal_hexDigit (n : Nat) (hn : n < 16) : hexVal (devAsciiChar (Query.hexDigit n)) = some n := by
  have h : ∀ m : Fin 16, hexVal (devAsciiChar (Query.hexDigit m.val)) = some m.val := by decide
  exact h ⟨n, hn⟩

theorem ofNat_nibbles (b : UInt8) : 16 * UInt8.ofNat (b.toNat / 16) + UInt8.ofNat (b.toNat % 16) = b := by
  rw [UInt8.mul_comm]; exact Query.ofNat_nibbles b

theorem formDecode_plainChar {b : UInt8} (r : List Char) (h : plainChar b = true) :
    formDecode (devAsciiChar b :: r) = (formDecode r).map (b :: ·) := by
  simp only [plainChar, Bool.and_eq_true, beq_iff_eq, bne_iff_ne, ne_eq] at h
  obtain ⟨⟨⟨⟨⟨hb, h1⟩, h2⟩, _⟩, _⟩, _⟩ := h
  rw [formDecode.eq_def]
  simp [h1, h2, charBytes_eq, hb]

/-- **the form decoder inverts url.QueryEscape** on every byte string (the escaped text taken as characters) -/
theorem formDecode_escape (bs : List UInt8) : formDecode ((Query.escape bs).map devAsciiChar) = some bs := by
  induction bs with
  | nil => rfl
  | cons b r ih =>
    simp only [Query.escape]
    split
    · rename_i hu
      rw [List.map_cons, formDecode_plainChar _ (unreserved_plainChar hu), ih]; rfl
    · split
      · rename_i h32
        have : b = 32 := by simpa using h32
        subst this
        have hplus : devAsciiChar 43 = '+' := by decide
        rw [List.map_cons, hplus, formDecode.eq_def]
        simp [ih]
      · have hd : b.toNat / 16 < 16 := by have := b.toNat_lt; omega
        have hm : b.toNat % 16 < 16 := Nat.mod_lt _ (by decide)
        have hpct : devAsciiChar 37 = '%' := by decide
        simp only [List.map_cons]
        rw [hpct, formDecode.eq_def]
        simp [hexVal_hexDigit _ hd, hexVal_hexDigit _ hm, ih, ofNat_nibbles]

/-- escaped text contains none of `# & =` -/
theorem escape_nodelim (bs : List UInt8) : ∀ c ∈ (Query.escape bs).map devAsciiChar, c ≠ '#' ∧ c ≠ '&' ∧ c ≠ '=' := by
  intro c hc
  obtain ⟨x, hx, rfl⟩ := List.mem_map.1 hc
  rcases escape_bytes bs x hx with hu | rfl | rfl
  · have := unreserved_plainChar hu
    simp only [plainChar, Bool.and_eq_true, beq_iff_eq, bne_iff_ne, ne_eq] at this
    exact ⟨this.1.1.2, this.1.2, this.2⟩
  · decide
  · decide

theorem devQueryEscape_toList (s : List Char) :
    (devQueryEscape (String.ofList s)).toList = (Query.escape (utf8 s)).map devAsciiChar := by
  rw [devQueryEscape, String.toList_ofList, toUTF8_ofList]

/-- the key `user_code` consists of unreserved characters: url.Values.Encode leaves it as it is -/
theorem devQueryEscape_key : (devQueryEscape "user_code").toList = "user_code".toList := by
  have hk : "user_code" = String.ofList ['u', 's', 'e', 'r', '_', 'c', 'o', 'd', 'e'] := by rfl
  have hl : "user_code".toList = ['u', 's', 'e', 'r', '_', 'c', 'o', 'd', 'e'] := by rfl
  rw [hl, hk, devQueryEscape_toList]
  have : utf8 ['u', 's', 'e', 'r', '_', 'c', 'o', 'd', 'e'] = [117, 115, 101, 114, 95, 99, 111, 100, 101] := by
    simp only [utf8, List.flatMap_cons, List.flatMap_nil, charBytes_eq]; decide
  rw [this]; decide

/-- what the model puts behind the `?` of the complete verification URI -/
theorem devEncodeQuery_toList (uc : List Char) :
    (devEncodeQuery "user_code" (String.ofList uc)).toList =
      "user_code".toList ++ '=' :: (Query.escape (utf8 uc)).map devAsciiChar := by
  have heq : "=".toList = ['='] := by rfl
  simp only [devEncodeQuery, String.toList_append, devQueryEscape_key, devQueryEscape_toList, heq]
  simp

/-- **C16, verification URIs.** The complete verification URI the model builds (`uri?` + `url.Values{"user_code": {code}}.Encode()`)
    carries the user code to a user agent - one parameter `user_code` whose form-decoded value is the UTF-8 of the code - for
    EVERY URI and EVERY user code, whatever its alphabet (`% + & # =`, blanks, non-ASCII text included) -/
theorem c16_uris (uri uc : List Char) :
    uriCompleteOK uri (uri ++ '?' :: (devEncodeQuery "user_code" (String.ofList uc)).toList) uc = true := by
  have hkeyc : ∀ c ∈ "user_code".toList, c ≠ '#' ∧ c ≠ '&' ∧ c ≠ '=' ∧ c ≠ '%' ∧ c ≠ '+' := by decide
  have hesc := escape_nodelim (utf8 uc)
  have hq : ∀ c ∈ "user_code".toList ++ '=' :: (Query.escape (utf8 uc)).map devAsciiChar, c ≠ '#' ∧ c ≠ '&' := by
    intro c hc
    simp only [List.mem_append, List.mem_cons] at hc
    rcases hc with hc | rfl | hc
    · exact ⟨(hkeyc c hc).1, (hkeyc c hc).2.1⟩
    · decide
    · exact ⟨(hesc c hc).1, (hesc c hc).2.1⟩
  unfold uriCompleteOK
  rw [stripPrefix_append, devEncodeQuery_toList]
  simp only
  rw [splitFirst_absent '#' _ (fun c hc => (hq c hc).1)]
  simp only
  rw [splitFirst_absent '&' _ (fun c hc => (hq c hc).2)]
  simp only
  rw [splitFirst_append '=' _ _ (fun c hc => (hkeyc c hc).2.2.1)]
  simp only
  have hkey : formDecode "user_code".toList = some (utf8 "user_code".toList) := by
    have := formDecode_escape (utf8 "user_code".toList)
    rw [← devQueryEscape_toList, String.ofList_toList, devQueryEscape_key] at this
    exact this
  rw [hkey, formDecode_escape]
  simp

/-- the same for the text the provider sends -/
theorem c16_uris_string (uri uc : String) :
    uriCompleteOK uri.toList (uri ++ "?" ++ devEncodeQuery "user_code" uc).toList uc.toList = true := by
  have hq : "?".toList = ['?'] := by rfl
  have := c16_uris uri.toList uc.toList
  rw [String.ofList_toList] at this
  simpa [String.toList_append, hq] using this

/-- non-vacuity: reserved characters are escaped, and the unescaped form (what string concatenation would build) is refused -/
example : (devEncodeQuery "user_code" (String.ofList "A&B+C%D#E=F G".toList)).toList = "user_code=A%26B%2BC%25D%23E%3DF+G".toList := by
  rw [devEncodeQuery_toList]
  have h1 : "A&B+C%D#E=F G".toList = ['A', '&', 'B', '+', 'C', '%', 'D', '#', 'E', '=', 'F', ' ', 'G'] := by rfl
  have : utf8 "A&B+C%D#E=F G".toList = [65, 38, 66, 43, 67, 37, 68, 35, 69, 61, 70, 32, 71] := by
    rw [h1]; simp only [utf8, List.flatMap_cons, List.flatMap_nil, charBytes_eq]; decide
  rw [this]; decide
example : uriCompleteOK "https://op.example/device".toList "https://op.example/device?user_code=A&B".toList "A&B".toList = false := by decide

-- ================================================================ 5. histories

open DevFlow

-- ---------------------------------------------------------------- what an observer sees of the model

def presentedOf (r : DevHttpRequest) : Presented :=
  { kind := r.authKind, clientID := r.clientID, secret := if r.authKind == "basic" || r.authKind == "post" then r.clientSecret else "" }

def faultOf : Option String → Fault
  | none => .none
  | some e => if e = Const.DeadlineExceeded then .timeout else .other

/-- the tokens of an issue: the access token (record) is created from the state's subject, client id and scopes, the
    audience is the client (`GetAudience`), the ID token names the client as azp -/
def tokensOf (i : DevIssue) : Tokens :=
  { subject := i.state.Subject, client := i.state.ClientID, scopes := i.state.Scopes, audience := [i.state.ClientID],
    idToken := i.idTokenSubject.map fun s => (s, i.state.ClientID) }

def authRespOf (r : DeviceAuthorizationResponse) : AuthResp :=
  { deviceCode := r.DeviceCode, userCode := r.UserCode, uri := r.VerificationURI, uriComplete := r.VerificationURIComplete,
    expiresIn := r.ExpiresIn, interval := r.Interval, storedExpires := r.expires }

/-- every error is answered with an error status (RequestError / WriteError: 400, 401 or 500; sampled by the stream) -/
def eventOf : Op → Out → Event
  | .auth now r _, .authOk resp => .auth now (presentedOf r) r.Form.Scopes (.ok (authRespOf resp))
  | .auth now r _, .error e => .auth now (presentedOf r) r.Form.Scopes (if e = "panic" then .panic else .error (oauthCode e) 400)
  | .auth now r _, _ => .auth now (presentedOf r) r.Form.Scopes .panic
  | .approve code subject _, _ => .approve code subject
  | .deny code, _ => .deny code
  | .expire code expires, _ => .expire code expires
  | .poll now r f, .issued i => .poll now (presentedOf r) r.PostForm.DeviceCode (faultOf f) (.tokens (tokensOf i))
  | .poll now r f, .error e => .poll now (presentedOf r) r.PostForm.DeviceCode (faultOf f) (.error (oauthCode e) 400)
  | .poll now r f, _ => .poll now (presentedOf r) r.PostForm.DeviceCode (faultOf f) .panic

def absDev (e : DeviceEntry) : Dev :=
  { code := e.deviceCode, userCode := e.userCode, client := e.state.ClientID, scopes := e.state.Scopes, expires := e.state.Expires,
    approvedBy := if e.state.Done then some e.state.Subject else none, denied := e.state.Denied }

def absCfg (p : DevProvider) : Cfg :=
  { issuer := p.p.issuer, formPath := p.cfg.UserFormPath, lifetime := p.cfg.Lifetime / Go.second, interval := p.cfg.PollInterval / Go.second,
    charset := p.cfg.UserCode.CharSet, amount := p.cfg.UserCode.CharAmount, dash := p.cfg.UserCode.DashInterval,
    deviceEnabled := p.deviceCap, deviceCodeBytes := 16 }

/-- the monitor state an observer has built up when the model is in state `s` -/
def abs (s : St) : MonState :=
  { cfg := absCfg s.prov, clients := s.prov.p.store.clients, devs := s.prov.devices.map absDev }

/-- the observed history of a run of the model -/
def trace (s : St) : List Op → List Event
  | [] => []
  | op :: rest => eventOf op (step s op).2 :: trace (step s op).1 rest

-- ---------------------------------------------------------------- hypotheses

/-- configuration in the domain of the statement -/
structure GoodCfg (p : DevProvider) : Prop where
  /-- lifetime is a whole number of seconds (expires_in tells the client the exact lifetime) -/
  lifetime : p.cfg.Lifetime % Go.second = 0

/-- what crypto/rand guarantees for one device_authorization request: 16 bytes, one index per character, below the alphabet size;
    and the device code does not collide with a stored one (entropy: the part of the property that is NOT proved) -/
def GoodOp (s : St) : Op → Prop
  | .auth _ _ rnd =>
    rnd.bytes.length = 16 ∧ rnd.indices.length = s.prov.cfg.UserCode.CharAmount ∧
      (∀ k ∈ rnd.indices, k < s.prov.cfg.UserCode.CharSet.length) ∧
      ∀ e ∈ s.prov.devices, e.deviceCode ≠ NewDeviceCode rnd.bytes
  | _ => True

def Good (s : St) : List Op → Prop
  | [] => True
  | op :: rest => GoodOp s op ∧ Good (step s op).1 rest

theorem find_id {cs : List OPClient} {id : String} {c : OPClient} (h : cs.find? (·.id == id) = some c) : c.id = id := by
  have := List.find?_some h
  simpa using this

theorem getClient_ok_iff {s : Store} {id : String} {c : OPClient} :
    s.GetClientByClientID id = .ok c ↔ s.clients.find? (·.id == id) = some c := by
  unfold Store.GetClientByClientID
  split
  · rename_i c' hc; simp [hc]
  · rename_i hn; simp [hn]

theorem getClient_error {s : Store} {id : String} {e : String} (h : s.GetClientByClientID id = .error e) :
    s.clients.find? (·.id == id) = none := by
  unfold Store.GetClientByClientID at h
  split at h <;> simp_all

theorem authSecret_ok_iff {s : Store} {id sec : String} :
    s.AuthorizeClientIDSecret id sec = .ok () ↔
      ∃ c, s.clients.find? (·.id == id) = some c ∧ (c.auth = Const.AuthMethodBasic ∨ c.auth = Const.AuthMethodPost) ∧ c.secret = sec := by
  unfold Store.AuthorizeClientIDSecret
  split
  · rename_i c hc
    constructor
    · intro h
      split at h
      · rename_i hcond
        simp at hcond
        exact ⟨c, hc, hcond.1, hcond.2⟩
      · simp at h
    · rintro ⟨c', hc', ha, hs⟩
      rw [hc] at hc'; cases hc'
      rcases ha with ha | ha <;> simp [ha, hs]
  · rename_i hn
    simp [hn]

/-- ClientIDFromRequest: the id is the presented one; "authenticated" means Basic auth with the registered secret -/
theorem clientIDFromRequest_ok {now : Int} {r : DevHttpRequest} {p : DevProvider} {id : String} {a : Bool}
    (h : Hand.ClientIDFromRequest now r p = .ok (id, a)) :
    id = r.clientID ∧ (a = true → r.authKind = "basic" ∧ p.p.store.AuthorizeClientIDSecret r.clientID r.clientSecret = .ok ()) ∧
      (a = false → r.authKind ≠ "basic" ∧ r.authKind ≠ "none" ∧ r.clientID ≠ "") := by
  unfold Hand.ClientIDFromRequest at h
  split at h
  · rename_i hb
    split at h
    · rename_i u hu
      -- `checkAuthMethodPost` only refuses: every success went through AuthorizeClientIDSecret
      have hres : id = r.clientID ∧ a = true := by
        split at h
        · simp at h; exact ⟨h.1.symm, h.2⟩
        · split at h
          · simp at h
          · split at h
            · simp at h
            · simp at h; exact ⟨h.1.symm, h.2⟩
      obtain ⟨rfl, rfl⟩ := hres
      refine ⟨rfl, fun _ => ⟨by simpa using hb, ?_⟩, by simp⟩
      cases u; exact hu
    · simp at h
  · rename_i hb
    split at h
    · simp at h
    · rename_i hn
      simp at h
      obtain ⟨rfl, rfl⟩ := h
      simp at hn hb
      exact ⟨rfl, by simp, fun _ => ⟨hb, hn.1, hn.2⟩⟩

/-- the reference storage hands out a state only for the client that started the flow, and only when no fault was injected -/
theorem lookup_ok {p : DevProvider} {cid code : String} {st : DeviceAuthorizationState}
    (h : p.Storage.GetDeviceAuthorizatonState cid code = .ok st) :
    p.fault = none ∧ ∃ e, p.devices.find? (·.deviceCode == code) = some e ∧ e.state = st ∧ e.state.ClientID = cid := by
  unfold DevStore.GetDeviceAuthorizatonState DevProvider.Storage at h
  simp only at h
  split at h; · simp at h
  rename_i hf
  split at h
  · rename_i e he
    split at h
    · rename_i hc
      simp at h
      exact ⟨hf, e, he, h, by simpa using hc⟩
    · simp at h
  · simp at h

theorem find_absDev (devs : List DeviceEntry) (code : String) :
    (devs.map absDev).find? (·.code == code) = (devs.find? (·.deviceCode == code)).map absDev := by
  rw [List.find?_map]
  rfl

/-- the issue a device state leads to -/
def issueOf (p : DevProvider) (st : DeviceAuthorizationState) (c : OPClient) : DevIssue :=
  { state := st, client := c,
    idTokenSubject := if st.Scopes.contains Const.ScopeOpenID then
        some (if (if p.userinfoSubject then st.Subject else "") == "" then st.Subject else (if p.userinfoSubject then st.Subject else "")) else none }

/-- whatever the storage puts into the userinfo, the ID token names the approving user -/
theorem issueOf_idToken (p : DevProvider) (st : DeviceAuthorizationState) (c : OPClient) :
    (issueOf p st c).idTokenSubject = if st.Scopes.contains Const.ScopeOpenID then some st.Subject else none := by
  unfold issueOf
  cases p.userinfoSubject <;> by_cases h : st.Subject = "" <;> simp [h]

/-- Provider router: what a token response to a device-code poll presupposes -/
theorem deviceAccessToken_ok {now : Int} {r : DevHttpRequest} {p : DevProvider} {i : DevIssue}
    (h : deviceAccessToken now r p = .ok i) :
    ∃ a st c, Hand.ClientIDFromRequest now r p = .ok (r.clientID, a) ∧
      CheckDeviceAuthorizationState now r.clientID r.PostForm.DeviceCode p = .ok st ∧
      p.p.store.GetClientByClientID r.clientID = .ok c ∧ (a = true ∨ c.auth = Const.AuthMethodNone) ∧ i = issueOf p st c := by
  rw [deviceAccessToken_eq] at h
  unfold deviceAccessTokenSpec at h
  split at h; · simp at h
  rename_i id a hcid
  have hid := (clientIDFromRequest_ok hcid).1
  subst hid
  split at h; · simp at h
  rename_i st hst
  split at h; · simp at h
  rename_i c hc
  split at h; · simp at h
  rename_i hauth
  simp only [Hand.issueForDevice] at h
  simp only [Except.ok.injEq] at h
  refine ⟨a, st, c, hcid, hst, hc, ?_, h.symm⟩
  cases a <;> simp_all

/-- Server router: `withClient` for a request without client assertion and a grant other than client_credentials:
    the client is the registered one of that id, the named grant is registered, and a client with credentials presented its secret -/
theorem withClient_ok {now : Int} {p : Provider} {g : String} {cc : ClientCredentials} {c : OPClient}
    (hg : g ≠ Const.GrantTypeClientCredentials) (hat : cc.ClientAssertionType = "")
    (h : Flow.withClient now p g cc false = .ok c) :
    cc.ClientID ≠ "" ∧ p.store.GetClientByClientID cc.ClientID = .ok c ∧ (g ≠ "" → g ∈ c.grants) ∧
      (c.auth ≠ Const.AuthMethodNone → p.store.AuthorizeClientIDSecret cc.ClientID cc.ClientSecret = .ok ()) := by
  unfold Flow.withClient Flow.parseCC at h
  simp only [hat] at h
  split at h; · simp at h
  rename_i hparse
  split at hparse; · simp at hparse
  rename_i hid
  simp at hid
  split at h; · simp at h
  rename_i client hvc
  have hgrant : g ≠ "" → g ∈ c.grants := by
    intro hne
    split at h
    · simp at h
    · rename_i hcond
      simp at h; subst h
      simp [hne] at hcond
      exact validateGrantType_iff.1 hcond
  have hc : client = c := by
    split at h
    · simp at h
    · simpa using h
  subst hc
  have hne : ¬ (Const.ClientAssertionTypeJWTAssertion = "") := by decide
  unfold LegacyVerifyClient Gen.AuthorizeClientIDSecret at hvc
  simp only [FormVals.Get, Provider.Storage, hat, OPClient.AuthMethod, Provider.AuthMethodPostSupported] at hvc
  simp [hg] at hvc
  simp only [hne, if_false] at hvc
  split at hvc; · simp at hvc
  rename_i c' hc'
  have inner : ∀ {x : Go.R OPClient},
      (match (match p.store.AuthorizeClientIDSecret cc.ClientID cc.ClientSecret with
              | Except.error _ => (Except.error "ErrInvalidClient" : Go.R Unit)
              | Except.ok _ => Go.ok) with
       | Except.error err => Except.error err
       | Except.ok _ => Except.ok c') = x → x = .ok client →
      c' = client ∧ p.store.AuthorizeClientIDSecret cc.ClientID cc.ClientSecret = .ok () := by
    intro x hx hxe
    subst hxe
    cases hs : p.store.AuthorizeClientIDSecret cc.ClientID cc.ClientSecret with
    | error e => simp [hs] at hx
    | ok u => cases u; simp [hs, Go.ok] at hx; exact ⟨hx, rfl⟩
  split at hvc
  · rename_i hnone
    simp at hvc; subst hvc
    exact ⟨hid, hc', hgrant, fun hh => absurd hnone hh⟩
  · split at hvc; · simp at hvc
    split at hvc
    · split at hvc; · simp at hvc
      obtain ⟨rfl, hsec⟩ := inner hvc rfl
      exact ⟨hid, hc', hgrant, fun _ => hsec⟩
    · obtain ⟨rfl, hsec⟩ := inner hvc rfl
      exact ⟨hid, hc', hgrant, fun _ => hsec⟩

theorem legacyDeviceToken_ok {now : Int} {s : DevLegacyServer} {r : ClientRequest DevFormData} {i : DevIssue}
    (h : LegacyDeviceToken now s r = .ok i) :
    ∃ st, CheckDeviceAuthorizationState now r.Client.id r.Data.DeviceCode s.provider = .ok st ∧ i = issueOf s.provider st r.Client := by
  rw [legacyDeviceToken_eq] at h
  unfold legacyDeviceTokenSpec at h
  simp only [Hand.issueForDevice] at h
  split at h; · simp at h
  split at h; · simp at h
  rename_i st hst
  simp only [Except.ok.injEq] at h
  exact ⟨st, hst, h.symm⟩

theorem ccOf_assertionType (r : DevHttpRequest) : (ccOf r).ClientAssertionType = "" := by
  unfold ccOf; split <;> (try split) <;> rfl

theorem ccOf_id {r : DevHttpRequest} (h : (ccOf r).ClientID ≠ "") : (ccOf r).ClientID = r.clientID := by
  unfold ccOf at h ⊢
  by_cases hn : (r.authKind == "none") = true
  · simp [hn] at h
  · simp only [hn]
    by_cases hb : (r.authKind == "basic" || r.authKind == "post") = true <;> simp [hb]

theorem ccOf_secret (r : DevHttpRequest) : (ccOf r).ClientSecret = (presentedOf r).secret ∨ (ccOf r).ClientID = "" := by
  unfold ccOf presentedOf
  split
  · right; rfl
  · split
    · left; simp_all
    · left; simp_all

/-- both routers: a token response to a device-code poll presupposes an approved, not denied state that the storage reports
    for exactly the presented client id and device code, and - for a client with credentials - the client's secret -/
theorem deviceToken_ok {now : Int} {rt : Flow.Router} {p : DevProvider} {r : DevHttpRequest} {i : DevIssue}
    (h : deviceToken now rt p r = .ok i) :
    ∃ st c, CheckDeviceAuthorizationState now r.clientID r.PostForm.DeviceCode p = .ok st ∧
      p.p.store.clients.find? (·.id == r.clientID) = some c ∧
      (c.auth ≠ Const.AuthMethodNone → c.secret = (presentedOf r).secret) ∧ i = issueOf p st c := by
  cases rt with
  | provider =>
    simp only [deviceToken] at h
    split at h; · simp at h
    obtain ⟨a, st, c, hcid, hst, hc, hauth, hi⟩ := deviceAccessToken_ok h
    refine ⟨st, c, hst, getClient_ok_iff.1 hc, ?_, hi⟩
    intro hne
    rcases hauth with ha | ha
    · obtain ⟨hk, hsec⟩ := (clientIDFromRequest_ok hcid).2.1 ha
      obtain ⟨c', hc', _, hs⟩ := authSecret_ok_iff.1 hsec
      rw [getClient_ok_iff.1 hc] at hc'; cases hc'
      simp [presentedOf, hk, hs]
    · exact absurd ha hne
  | legacy =>
    simp only [deviceToken] at h
    split at h; · simp at h
    rename_i c hwc
    split at h; · simp at h
    obtain ⟨hid, hc, _, hsec⟩ := withClient_ok (by decide) (ccOf_assertionType r) hwc
    have hcid := ccOf_id hid
    rw [hcid] at hc
    obtain ⟨st, hst, hi⟩ := legacyDeviceToken_ok h
    have hfind := getClient_ok_iff.1 hc
    have hcidc : c.id = r.clientID := find_id hfind
    simp only at hst
    rw [hcidc] at hst
    refine ⟨st, c, hst, hfind, ?_, hi⟩
    intro hne
    obtain ⟨c', hc', _, hs⟩ := authSecret_ok_iff.1 (hsec hne)
    rw [hcid, hfind] at hc'; cases hc'
    rcases ccOf_secret r with h1 | h1
    · rw [← h1, hs]
    · exact absurd h1 hid

/-- soundness of every token response of the model (both routers, any state of the storage, any request) -/
theorem poll_tokens_sound {now : Int} {s : St} {r : DevHttpRequest} {f : Option String} {i : DevIssue}
    (h : deviceToken now s.router { s.prov with fault := f } r = .ok i) :
    judgePoll (abs s) now (presentedOf r) r.PostForm.DeviceCode (faultOf f) (.tokens (tokensOf i)) = none := by
  obtain ⟨st, c, hst, hfind, hsec, hi⟩ := deviceToken_ok h
  obtain ⟨_, hlook, hden, hdone⟩ := checkState_ok hst
  obtain ⟨hf, e, he, hes, hecl⟩ := lookup_ok hlook
  simp only at hf he hfind
  subst hf
  have hd : (abs s).devs.find? (·.code == r.PostForm.DeviceCode) = some (absDev e) := by
    simp only [abs]; rw [find_absDev, he]; rfl
  have hcid : c.id = r.clientID := find_id hfind
  unfold judgePoll
  simp only [hd, faultOf]
  have h1 : (absDev e).client = (presentedOf r).clientID := by simp [absDev, presentedOf, hecl]
  have h2 : (abs s).clients.find? (·.id == (absDev e).client) = some c := by
    simp only [abs, absDev, hecl]; exact hfind
  simp only [h1] at h2 ⊢
  simp only [h2]
  have h3 : (hasCredentials c && !authenticated c (presentedOf r)) = false := by
    by_cases hn : c.auth = Const.AuthMethodNone
    · simp [hasCredentials, hn, Const.AuthMethodNone]
    · have := hsec hn
      simp [authenticated, this, presentedOf, hcid]
  have h4 : (absDev e).denied = false := by simp [absDev, hes, hden]
  have h5 : (absDev e).approvedBy = some st.Subject := by simp [absDev, hes, hdone]
  subst hi
  have h6 : (absDev e).scopes = st.Scopes := by simp [absDev, hes]
  have h7 : (absDev e).client = st.ClientID := by simp [absDev, hes]
  have h8 : st.ClientID = (presentedOf r).clientID := by rw [← hes, hecl]; rfl
  have h9 := issueOf_idToken { s.prov with fault := none } st c
  have h10 : (issueOf { s.prov with fault := none } st c).state = st := rfl
  simp only [h3, h4, h5, Bool.false_eq_true, ↓reduceIte, tokensOf, h9, h10, h6, h7, h8, bne_self_eq_false,
    List.contains_cons, beq_self_eq_true, Bool.true_or, Bool.not_true]
  cases (st.Scopes.contains Const.ScopeOpenID) <;> simp

/-- the two canonical presentations -/
theorem properlyPresented_cases {c : OPClient} {r : DevHttpRequest} (h : properlyPresented c (presentedOf r) = true) :
    (c.auth = Const.AuthMethodNone ∧ r.authKind = "id-only") ∨
    (c.auth = Const.AuthMethodBasic ∧ r.authKind = "basic" ∧ r.clientSecret = c.secret) := by
  unfold properlyPresented presentedOf at h
  simp only [Bool.and_eq_true] at h
  obtain ⟨_, h⟩ := h
  split at h
  · rename_i hn
    left; exact ⟨by simpa [Const.AuthMethodNone] using hn, by simpa using h⟩
  · simp only [Bool.and_eq_true, beq_iff_eq] at h
    obtain ⟨⟨ha, hk⟩, hs⟩ := h
    right
    refine ⟨ha, hk, ?_⟩
    simp [hk] at hs
    exact hs

/-- Server router: a registered client in its canonical presentation passes `withClient` for a registered grant -/
theorem withClient_legit {now : Int} {p : Provider} {g : String} {r : DevHttpRequest} {c : OPClient}
    (hg : g ≠ Const.GrantTypeClientCredentials)
    (hfind : p.store.clients.find? (·.id == r.clientID) = some c) (hgrant : g = "" ∨ g ∈ c.grants)
    (hpp : properlyPresented c (presentedOf r) = true) (hid : r.clientID ≠ "") :
    Flow.withClient now p g (ccOf r) false = .ok c := by
  have hne : ¬ (Const.ClientAssertionTypeJWTAssertion = "") := by decide
  have hgc := getClient_ok_iff.2 hfind
  have hvg : g ≠ "" → ValidateGrantType now c g = true := fun h => validateGrantType_iff.2 (hgrant.resolve_left h)
  rcases properlyPresented_cases hpp with ⟨ha, hk⟩ | ⟨ha, hk, hs⟩
  · have hcc : ccOf r = { ClientID := r.clientID } := by simp [ccOf, hk]
    unfold Flow.withClient Flow.parseCC LegacyVerifyClient
    simp only [hcc, FormVals.Get, Provider.Storage, OPClient.AuthMethod]
    simp [hid, hg, hne, hgc, ha]
    intro h1
    exact hvg h1
  · have hcc : ccOf r = { ClientID := r.clientID, ClientSecret := r.clientSecret } := by simp [ccOf, hk]
    have hsec : p.store.AuthorizeClientIDSecret r.clientID r.clientSecret = .ok () :=
      authSecret_ok_iff.2 ⟨c, hfind, Or.inl ha, hs.symm⟩
    unfold Flow.withClient Flow.parseCC LegacyVerifyClient Gen.AuthorizeClientIDSecret
    simp only [hcc, FormVals.Get, Provider.Storage, OPClient.AuthMethod]
    simp [hid, hg, hne, hgc, ha, hsec, Const.AuthMethodBasic, Const.AuthMethodNone, Const.AuthMethodPrivateKeyJWT, Const.AuthMethodPost, Go.ok]
    intro h1
    exact hvg h1

/-- both routers: for the initiating client in its canonical presentation the answer is decided by the state check alone -/
theorem deviceToken_legit {now : Int} {rt : Flow.Router} {p : DevProvider} {r : DevHttpRequest} {c : OPClient}
    (hcap : p.deviceCap = true) (hfind : p.p.store.clients.find? (·.id == r.clientID) = some c)
    (hgrant : Const.GrantTypeDeviceCode ∈ c.grants) (hpp : properlyPresented c (presentedOf r) = true)
    (hid : r.clientID ≠ "") (hcode : r.PostForm.DeviceCode ≠ "") :
    deviceToken now rt p r =
      match CheckDeviceAuthorizationState now r.clientID r.PostForm.DeviceCode p with
      | .error e => .error e
      | .ok st => .ok (issueOf p st c) := by
  have hgc := getClient_ok_iff.2 hfind
  cases rt with
  | provider =>
    have hcid : ∃ a, Hand.ClientIDFromRequest now r p = .ok (r.clientID, a) ∧ (a = true ∨ c.auth = Const.AuthMethodNone) := by
      rcases properlyPresented_cases hpp with ⟨ha, hk⟩ | ⟨ha, hk, hs⟩
      · exact ⟨false, by simp [Hand.ClientIDFromRequest, hk, hid], Or.inr ha⟩
      · have hsec : p.p.store.AuthorizeClientIDSecret r.clientID r.clientSecret = .ok () :=
          authSecret_ok_iff.2 ⟨c, hfind, Or.inl ha, hs.symm⟩
        have hnp : (c.auth == Const.AuthMethodPost) = false := by rw [ha]; decide
        exact ⟨true, by
          have hgc' : p.p.store.GetClientByClientID r.clientID = .ok c := hgc
          cases hps : p.p.postSupported <;> simp [Hand.ClientIDFromRequest, hk, hsec, hps, hgc', hnp], Or.inl rfl⟩
    obtain ⟨a, hcid, hauth⟩ := hcid
    simp only [deviceToken, DevProvider.GrantTypeDeviceCodeSupported, hcap]
    rw [deviceAccessToken_eq]
    unfold deviceAccessTokenSpec
    simp only [hcid, Hand.issueForDevice]
    cases hst : CheckDeviceAuthorizationState now r.clientID r.PostForm.DeviceCode p with
    | error e => simp
    | ok st =>
      have : p.p.store.GetClientByClientID r.clientID = .ok c := hgc
      simp only [this]
      rcases hauth with rfl | hn
      · simp [issueOf]
      · simp [hn, issueOf]
  | legacy =>
    have hwc := withClient_legit (now := now) (p := p.p) (g := Const.GrantTypeDeviceCode) (by decide) hfind (Or.inr hgrant) hpp hid
    simp only [deviceToken, hwc]
    simp only [hcode, bne_iff_ne, ne_eq, beq_iff_eq, if_false]
    rw [legacyDeviceToken_eq]
    unfold legacyDeviceTokenSpec
    simp only [hcap, find_id hfind, Hand.issueForDevice]
    cases hst : CheckDeviceAuthorizationState now r.clientID r.PostForm.DeviceCode p with
    | error e => simp
    | ok st => simp [issueOf]

theorem legit_facts {s : St} {r : DevHttpRequest} (h : legit (abs s) (presentedOf r) = true) :
    s.prov.deviceCap = true ∧ r.clientID ≠ "" ∧ ∃ c, s.prov.p.store.clients.find? (·.id == r.clientID) = some c ∧
      Const.GrantTypeDeviceCode ∈ c.grants ∧ properlyPresented c (presentedOf r) = true := by
  unfold legit at h
  simp only [Bool.and_eq_true, abs, absCfg, presentedOf, bne_iff_ne, ne_eq] at h
  obtain ⟨⟨hcap, hid⟩, hm⟩ := h
  split at hm
  · rename_i c hc
    simp only [Bool.and_eq_true, List.contains_iff_mem] at hm
    exact ⟨hcap, hid, c, hc, hm.1, hm.2⟩
  · simp at hm

/-- every error answer of the model to a device-code poll is the one the property names (both routers, all states) -/
theorem poll_error_ok {now : Int} {s : St} {r : DevHttpRequest} {f : Option String} {e : String}
    (h : deviceToken now s.router { s.prov with fault := f } r = .error e) :
    judgePoll (abs s) now (presentedOf r) r.PostForm.DeviceCode (faultOf f) (.error (oauthCode e) 400) = none := by
  unfold judgePoll
  simp only [show ¬ (400 < 400) by decide, ↓reduceIte]
  by_cases hl : (!legit (abs s) (presentedOf r) || r.PostForm.DeviceCode == "") = true
  · simp [hl]
  · simp only [hl, Bool.false_eq_true, ↓reduceIte]
    simp only [Bool.or_eq_true, Bool.not_eq_true', beq_iff_eq, not_or, Bool.not_eq_false] at hl
    obtain ⟨hleg, hcode⟩ := hl
    obtain ⟨hcap, hid, c, hfind, hgrant, hpp⟩ := legit_facts hleg
    have hlegit := deviceToken_legit (now := now) (rt := s.router) (p := { s.prov with fault := f }) (r := r) (c := c)
      hcap hfind hgrant hpp hid hcode
    rw [hlegit, c16_order] at h
    simp only [hcap] at h
    simp only [Bool.true_eq_false, ↓reduceIte, DevProvider.Storage, DevStore.GetDeviceAuthorizatonState] at h
    cases f with
    | some fe =>
      simp only at h
      by_cases hde : fe = Const.DeadlineExceeded
      · simp [hde] at h
        subst h
        simp [faultOf, hde, oauthCode]
      · simp [hde] at h
        simp [faultOf, hde]
    | none =>
      simp only [faultOf]
      simp only [show (Fault.none == Fault.timeout) = false by decide, show (Fault.none == Fault.other) = false by decide,
        Bool.false_eq_true, ↓reduceIte]
      have hd : (abs s).devs.find? (·.code == r.PostForm.DeviceCode) =
          (s.prov.devices.find? (·.deviceCode == r.PostForm.DeviceCode)).map absDev := by
        simp only [abs]; rw [find_absDev]
      rw [hd]
      cases hfd : s.prov.devices.find? (·.deviceCode == r.PostForm.DeviceCode) with
      | none => simp
      | some en =>
        simp only [hfd] at h
        simp only [Option.map_some]
        by_cases hown : en.state.ClientID = r.clientID
        · simp only [hown, beq_self_eq_true, ↓reduceIte] at h
          have hcl : ((absDev en).client != (presentedOf r).clientID) = false := by simp [absDev, presentedOf, hown]
          simp only [hcl, Bool.false_eq_true, ↓reduceIte]
          by_cases hden : en.state.Denied = true
          · simp [hden] at h; subst h
            simp [absDev, hden, oauthCode]
          · simp only [hden, Bool.false_eq_true, ↓reduceIte] at h
            by_cases hdone : en.state.Done = true
            · simp [hdone] at h
            · simp only [hdone, Bool.false_eq_true, ↓reduceIte] at h
              have h1 : (absDev en).denied = false := by simpa [absDev] using hden
              have h2 : (absDev en).approvedBy = none := by simp [absDev, hdone]
              have h3 : (absDev en).expires = en.state.Expires := rfl
              simp only [h1, h2, h3, Bool.false_eq_true, ↓reduceIte, Option.isSome_none]
              by_cases hexp : now > en.state.Expires
              · simp [hexp] at h; subst h; simp [hexp, oauthCode]
              · simp [hexp] at h; subst h; simp [hexp, oauthCode]
        · have hcl : ((absDev en).client != (presentedOf r).clientID) = true := by simp [absDev, presentedOf, hown]
          simp [hcl]

/-- what a successful createDeviceAuthorization returns and presupposes -/
theorem create_ok {now : Int} {req : DevFormData} {cid : String} {o : DevProvider} {resp : DeviceAuthorizationResponse}
    (h : Hand.createDeviceAuthorization now req cid o = .ok resp) :
    ∃ uc, NewUserCode o.cfg.UserCode.CharSet o.cfg.UserCode.CharAmount o.cfg.UserCode.DashInterval o.rnd.indices = some uc ∧
      (o.devices.any (·.userCode == String.ofList uc)) = false ∧
      resp = { DeviceCode := NewDeviceCode o.rnd.bytes, UserCode := String.ofList uc,
               VerificationURI := o.p.issuer ++ o.cfg.UserFormPath,
               VerificationURIComplete := o.p.issuer ++ o.cfg.UserFormPath ++ "?" ++ devEncodeQuery "user_code" (String.ofList uc),
               ExpiresIn := o.cfg.Lifetime / Go.second, Interval := o.cfg.PollInterval / Go.second,
               clientID := cid, scopes := req.Scopes, expires := now + o.cfg.Lifetime } := by
  unfold Hand.createDeviceAuthorization at h
  split at h; · simp at h
  simp only at h
  split at h; · simp at h
  rename_i uc huc
  split at h; · simp at h
  split at h; · simp at h
  rename_i hdup
  simp only [Except.ok.injEq] at h
  exact ⟨uc, huc, by simpa using hdup, h.symm⟩

/-- the only way createDeviceAuthorization "panics" is an index outside the alphabet (or a wrong number of draws) -/
theorem create_panic {now : Int} {req : DevFormData} {cid : String} {o : DevProvider}
    (h : Hand.createDeviceAuthorization now req cid o = .error "panic") :
    NewUserCode o.cfg.UserCode.CharSet o.cfg.UserCode.CharAmount o.cfg.UserCode.DashInterval o.rnd.indices = none := by
  unfold Hand.createDeviceAuthorization at h
  split at h; · simp at h
  simp only at h
  split at h
  · assumption
  · split at h; · simp at h
    split at h <;> simp at h

theorem withClient_error_ne_panic {now : Int} {p : Provider} {g : String} {cc : ClientCredentials} {e : String}
    (hg : g ≠ Const.GrantTypeClientCredentials) (hat : cc.ClientAssertionType = "")
    (h : Flow.withClient now p g cc false = .error e) : e ≠ "panic" := by
  have hne : ¬ (Const.ClientAssertionTypeJWTAssertion = "") := by decide
  unfold Flow.withClient Flow.parseCC at h
  simp only [hat] at h
  split at h
  · rename_i e' hp
    simp at h; subst h
    split at hp
    · simp at hp; subst hp; decide
    · split at hp
      · simp at hp; subst hp; decide
      · simp at hp
  · split at h
    · rename_i e' hvc
      simp at h; subst h
      unfold LegacyVerifyClient Gen.AuthorizeClientIDSecret at hvc
      simp only [FormVals.Get, Provider.Storage, hat, OPClient.AuthMethod, Provider.AuthMethodPostSupported] at hvc
      simp [hg] at hvc
      simp only [hne, if_false] at hvc
      have inner : ∀ {c' : OPClient} {x : Go.R OPClient},
          (match (match p.store.AuthorizeClientIDSecret cc.ClientID cc.ClientSecret with
                  | Except.error _ => (Except.error "ErrInvalidClient" : Go.R Unit)
                  | Except.ok _ => Go.ok) with
           | Except.error err => Except.error err
           | Except.ok _ => Except.ok c') = x → x = .error e' → e' ≠ "panic" := by
        intro c' x hx hxe
        subst hxe
        cases hs : p.store.AuthorizeClientIDSecret cc.ClientID cc.ClientSecret with
        | error e2 => simp [hs] at hx; subst hx; decide
        | ok u => simp [hs, Go.ok] at hx
      split at hvc
      · simp at hvc; subst hvc; decide
      · split at hvc; · simp at hvc
        split at hvc; · simp at hvc; subst hvc; decide
        split at hvc
        · split at hvc
          · simp at hvc; subst hvc; decide
          · exact inner hvc rfl
        · exact inner hvc rfl
    · split at h
      · simp at h; subst h; decide
      · simp at h

/-- the device-authorization endpoint of both routers: success and "panic" come from createDeviceAuthorization for the presented client id -/
theorem deviceAuthorization_cases {now : Int} {rt : Flow.Router} {p : DevProvider} {r : DevHttpRequest} :
    (∀ resp, deviceAuthorization now rt p r = .ok resp →
        ∃ req, req.Scopes = r.Form.Scopes ∧ Hand.createDeviceAuthorization now req r.clientID p = .ok resp) ∧
    (deviceAuthorization now rt p r = .error "panic" →
        ∃ req, Hand.createDeviceAuthorization now req r.clientID p = .error "panic") := by
  cases rt with
  | provider =>
    simp only [deviceAuthorization]
    rw [deviceAuthorization_eq]
    unfold deviceAuthorizationSpec parseDeviceCodeRequestSpec
    cases hcid : Hand.ClientIDFromRequest now r p with
    | error e =>
      have : e ≠ "panic" := by
        unfold Hand.ClientIDFromRequest at hcid
        repeat' (split at hcid)
        all_goals first
          | (simp at hcid; done)
          | (simp at hcid; subst hcid; decide)
      simp [this]
    | ok v =>
      obtain ⟨id, a⟩ := v
      have hid := (clientIDFromRequest_ok hcid).1
      subst hid
      simp only
      cases hgc : p.p.store.GetClientByClientID r.clientID with
      | error e =>
        have : e ≠ "panic" := by
          simp only [Store.GetClientByClientID] at hgc
          split at hgc <;> simp at hgc
          subst hgc; decide
        simp [this]
      | ok c =>
        simp only
        by_cases hvg : Const.GrantTypeDeviceCode ∈ c.grants
        · simp only [hvg, if_true]
          exact ⟨fun resp h => ⟨{ r.Form with ClientID := r.clientID }, rfl, h⟩, fun h => ⟨{ r.Form with ClientID := r.clientID }, h⟩⟩
        · simp [hvg]
  | legacy =>
    simp only [deviceAuthorization]
    cases hwc : Flow.withClient now p.p "" (ccOf r) false with
    | error e =>
      have := withClient_error_ne_panic (by decide) (ccOf_assertionType r) hwc
      simp [this]
    | ok c =>
      obtain ⟨hid, hc, _, _⟩ := withClient_ok (by decide) (ccOf_assertionType r) hwc
      have hcid : c.id = r.clientID := by
        rw [← ccOf_id hid]; exact find_id (getClient_ok_iff.1 hc)
      simp only
      rw [legacyDeviceAuthorization_eq]
      unfold legacyDeviceAuthorizationSpec
      simp only [hcid]
      by_cases hvg : Const.GrantTypeDeviceCode ∈ c.grants
      · simp only [hvg, if_true]
        exact ⟨fun resp h => ⟨r.Form, rfl, h⟩, fun h => ⟨r.Form, h⟩⟩
      · simp [hvg]

/-- the response of the model to an accepted device_authorization request satisfies the monitor: formats, URIs, lifetime -/
theorem auth_response_ok {now : Int} {s : St} {req : DevFormData} {cid : String} {rnd : DevRandom} {resp : DeviceAuthorizationResponse}
    (hcfg : GoodCfg s.prov)
    (hb : rnd.bytes.length = 16) (hr : ∀ k ∈ rnd.indices, k < s.prov.cfg.UserCode.CharSet.length)
    (hfresh : ∀ e ∈ s.prov.devices, e.deviceCode ≠ NewDeviceCode rnd.bytes)
    (h : Hand.createDeviceAuthorization now req cid { s.prov with rnd := rnd, fault := none } = .ok resp) :
    judgeAuth (abs s) now (.ok (authRespOf resp)) = none := by
  obtain ⟨uc, huc, _, hresp⟩ := create_ok h
  simp only at huc hresp
  have hlen : rnd.indices.length = s.prov.cfg.UserCode.CharAmount := by
    unfold NewUserCode at huc
    split at huc
    · simp at huc
    · rename_i hl; simpa using hl
  obtain ⟨uc', huc', hok⟩ := userCode_wellformed s.prov.cfg.UserCode.CharSet s.prov.cfg.UserCode.CharAmount
    s.prov.cfg.UserCode.DashInterval rnd.indices hlen hr
  rw [huc] at huc'; cases huc'
  subst hresp
  unfold judgeAuth
  simp only [authRespOf, abs, absCfg]
  have h1 : deviceCodeOK 16 (NewDeviceCode rnd.bytes).toList = true := by
    have := deviceCode_wellformed rnd.bytes
    rw [hb] at this
    simpa [NewDeviceCode] using this
  have h2 : (List.map absDev s.prov.devices).any (fun d => d.code == NewDeviceCode rnd.bytes) = false := by
    rw [List.any_eq_false]
    intro d hd
    obtain ⟨e, he, rfl⟩ := List.mem_map.1 hd
    simpa [absDev] using hfresh e he
  have h3 : userCodeOK s.prov.cfg.UserCode.CharSet s.prov.cfg.UserCode.CharAmount s.prov.cfg.UserCode.DashInterval
      (String.ofList uc).toList = true := by simpa using hok
  have h4 : uriCompleteOK (s.prov.p.issuer ++ s.prov.cfg.UserFormPath).toList
      (s.prov.p.issuer ++ s.prov.cfg.UserFormPath ++ "?" ++ devEncodeQuery "user_code" (String.ofList uc)).toList
      (String.ofList uc).toList = true :=
    c16_uris_string (s.prov.p.issuer ++ s.prov.cfg.UserFormPath) (String.ofList uc)
  have hsec : s.prov.cfg.Lifetime / Go.second * Go.second = s.prov.cfg.Lifetime :=
    Int.ediv_mul_cancel (Int.dvd_of_emod_eq_zero hcfg.lifetime)
  have h5 : (now + s.prov.cfg.Lifetime - (now + s.prov.cfg.Lifetime / Go.second * Go.second)).natAbs = 0 := by
    rw [hsec]; simp
  simp only [h1, h2, h3, h4, h5, Bool.not_true, Bool.false_eq_true, ↓reduceIte, bne_self_eq_false]
  decide

/-- a step changes nothing but the stored device authorizations -/
theorem step_frame (s : St) (op : Op) :
    (step s op).1.router = s.router ∧ (step s op).1.prov.p = s.prov.p ∧ (step s op).1.prov.cfg = s.prov.cfg ∧
      (step s op).1.prov.deviceCap = s.prov.deviceCap ∧ (step s op).1.prov.userinfoSubject = s.prov.userinfoSubject := by
  cases op with
  | auth now r rnd =>
    simp only [step]
    split <;> simp [addDevice]
  | approve code subject authTime => simp [step, mapDevice]
  | deny code => simp [step, mapDevice]
  | expire code expires => simp [step, mapDevice]
  | poll now r f =>
    simp only [step]
    split <;> simp

theorem goodCfg_step {s : St} (op : Op) (h : GoodCfg s.prov) : GoodCfg (step s op).1.prov := by
  obtain ⟨_, _, hc, _, hu⟩ := step_frame s op
  exact ⟨by rw [hc]; exact h.lifetime⟩

theorem abs_mapDevice (s : St) (code : String) (f : DeviceAuthorizationState → DeviceAuthorizationState) (g : Dev → Dev)
    (hfg : ∀ e : DeviceEntry, absDev { e with state := f e.state } = g (absDev e)) :
    abs { s with prov := mapDevice s.prov code f } =
      { abs s with devs := (abs s).devs.map fun d => if d.code == code then g d else d } := by
  simp only [abs, mapDevice, absCfg, List.map_map]
  congr 1
  apply List.map_congr_left
  intro e _
  simp only [Function.comp]
  by_cases h : e.deviceCode == code
  · have hc : (absDev e).code = e.deviceCode := rfl
    simp only [h, ↓reduceIte, hc]
    exact hfg e
  · have hc : (absDev e).code = e.deviceCode := rfl
    simp only [h, hc]
    rfl

/-- the observer's bookkeeping follows the model's storage -/
theorem abs_step {s : St} (op : Op) (hcfg : GoodCfg s.prov) :
    abs (step s op).1 = update (abs s) (eventOf op (step s op).2) := by
  cases op with
  | auth now r rnd =>
    simp only [step]
    cases hda : deviceAuthorization now s.router { s.prov with rnd := rnd, fault := none } r with
    | error e =>
      simp only [eventOf]
      split <;> simp [update]
    | ok resp =>
      obtain ⟨req, hreq, hc⟩ := (deviceAuthorization_cases (now := now) (rt := s.router) (p := { s.prov with rnd := rnd, fault := none }) (r := r)).1 resp hda
      obtain ⟨uc, _, _, hresp⟩ := create_ok hc
      simp only at hresp
      have hsec : s.prov.cfg.Lifetime / Go.second * Go.second = s.prov.cfg.Lifetime :=
        Int.ediv_mul_cancel (Int.dvd_of_emod_eq_zero hcfg.lifetime)
      simp only [eventOf, update, abs, addDevice, absCfg, List.map_append, List.map_cons, List.map_nil, authRespOf, presentedOf]
      subst hresp
      simp [absDev, hreq, hsec]
  | approve code subject authTime =>
    simp only [step, eventOf, update]
    exact abs_mapDevice s code _ (fun d => { d with approvedBy := some subject }) (fun e => by simp [absDev])
  | deny code =>
    simp only [step, eventOf, update]
    exact abs_mapDevice s code _ (fun d => { d with denied := true }) (fun e => by simp [absDev])
  | expire code expires =>
    simp only [step, eventOf, update]
    exact abs_mapDevice s code _ (fun d => { d with expires := expires }) (fun e => by simp [absDev])
  | poll now r f =>
    simp only [step]
    split <;> simp [eventOf, update]

/-- one step: the monitor accepts the model's response in every state -/
theorem judge_step {s : St} (op : Op) (hcfg : GoodCfg s.prov) (hop : GoodOp s op) :
    judge (abs s) (eventOf op (step s op).2) = none := by
  cases op with
  | auth now r rnd =>
    obtain ⟨hb, hl, hr, hfresh⟩ := hop
    simp only [step]
    cases hda : deviceAuthorization now s.router { s.prov with rnd := rnd, fault := none } r with
    | error e =>
      simp only [eventOf, judge]
      by_cases hp : e = "panic"
      · subst hp
        obtain ⟨req, hc⟩ := (deviceAuthorization_cases (now := now) (rt := s.router) (p := { s.prov with rnd := rnd, fault := none }) (r := r)).2 hda
        have hnone := create_panic hc
        simp only at hnone
        obtain ⟨uc, huc, _⟩ := userCode_wellformed s.prov.cfg.UserCode.CharSet s.prov.cfg.UserCode.CharAmount
          s.prov.cfg.UserCode.DashInterval rnd.indices hl hr
        rw [hnone] at huc; cases huc
      · simp [hp, judgeAuth]
    | ok resp =>
      obtain ⟨req, _, hc⟩ := (deviceAuthorization_cases (now := now) (rt := s.router) (p := { s.prov with rnd := rnd, fault := none }) (r := r)).1 resp hda
      simp only [eventOf, judge]
      exact auth_response_ok hcfg hb hr hfresh hc
  | approve code subject authTime => rfl
  | deny code => rfl
  | expire code expires => rfl
  | poll now r f =>
    simp only [step]
    cases hdt : deviceToken now s.router { s.prov with fault := f } r with
    | error e => simp only [eventOf, judge]; exact poll_error_ok hdt
    | ok i => simp only [eventOf, judge]; exact poll_tokens_sound hdt

/-- **C16, history level.** For every history of device_authorization / approve / deny / expire / poll operations by any clients
    with any presentations, on both routers, for EVERY user-code configuration (any alphabet - reserved URL characters and non-ASCII
    text included -, amount, dash interval): the reference monitor accepts every response of the model.
    (Hypotheses: `GoodCfg` - whole-second lifetime; `Good` - what crypto/rand delivers, incl. non-colliding device codes.) -/
theorem c16_state_machine (ops : List Op) : ∀ (s : St), GoodCfg s.prov → Good s ops →
    ∀ v ∈ judgeAll (abs s) (trace s ops), v = none := by
  induction ops with
  | nil => intro s _ _ v hv; simp [trace, judgeAll] at hv
  | cons op rest ih =>
    intro s hcfg hgood v hv
    simp only [trace, judgeAll, List.mem_cons] at hv
    rcases hv with rfl | hv
    · exact judge_step op hcfg hgood.1
    · rw [← abs_step op hcfg] at hv
      exact ih (step s op).1 (goodCfg_step op hcfg) hgood.2 v hv

/-- non-vacuity: a history in which a confidential client gets its tokens after approval, is refused after a denial, and a
    public client cannot redeem the confidential client's code -/
def demoClients : List OPClient :=
  [{ id := "tv", secret := "s3cret", app := 0, auth := "client_secret_basic", grants := [Const.GrantTypeDeviceCode] },
   { id := "cli", app := 2, auth := "none", grants := [Const.GrantTypeDeviceCode] }]
def demoState (rt : Flow.Router) : St :=
  { router := rt,
    prov := { p := { store := { clients := demoClients }, issuer := "https://op.example" },
              cfg := { UserCode := { CharSet := "AB".toList, CharAmount := 2, DashInterval := 1 } } } }
def tvReq (code : String) : DevHttpRequest :=
  { authKind := "basic", clientID := "tv", clientSecret := "s3cret", Form := { Scopes := ["openid"] }, PostForm := { DeviceCode := code } }
def cliReq (code : String) : DevHttpRequest :=
  { authKind := "id-only", clientID := "cli", Form := { ClientID := "cli" }, PostForm := { ClientID := "cli", DeviceCode := code } }
def demoOps : List Op :=
  [.auth 1000 (tvReq "") { bytes := List.replicate 16 0, indices := [0, 1] },
   .poll 2000 (tvReq "AAAAAAAAAAAAAAAAAAAAAA") none,
   .poll 2500 (cliReq "AAAAAAAAAAAAAAAAAAAAAA") none,
   .approve "AAAAAAAAAAAAAAAAAAAAAA" "user1" 3,
   .poll 3000 (tvReq "AAAAAAAAAAAAAAAAAAAAAA") none,
   .deny "AAAAAAAAAAAAAAAAAAAAAA",
   .poll 4000 (tvReq "AAAAAAAAAAAAAAAAAAAAAA") none]

/-- the demo history is in the domain of `c16_state_machine` (both routers) -/
example (rt : Flow.Router) : GoodCfg (demoState rt).prov := by
  cases rt <;> exact ⟨by decide⟩
example (rt : Flow.Router) : Good (demoState rt) demoOps := by
  cases rt <;> exact ⟨⟨by decide, by decide, by decide, by decide⟩, trivial, trivial, trivial, trivial, trivial, trivial, trivial⟩

/-- an alphabet of reserved URL characters is in the domain as well: the response to the device_authorization request is accepted -/
def demoReserved (rt : Flow.Router) : St :=
  { demoState rt with prov := { (demoState rt).prov with cfg := { UserCode := { CharSet := "&%+# =".toList, CharAmount := 3, DashInterval := 0 } } } }
def demoReservedOps : List Op := [.auth 1000 (tvReq "") { bytes := List.replicate 16 0, indices := [0, 1, 3] }]
example (rt : Flow.Router) : ∀ v ∈ judgeAll (abs (demoReserved rt)) (trace (demoReserved rt) demoReservedOps), v = none :=
  c16_state_machine demoReservedOps (demoReserved rt) (by cases rt <;> exact ⟨by decide⟩)
    (by cases rt <;> exact ⟨⟨by decide, by decide, by decide, by decide⟩, trivial⟩)

/-- a state with one stored device authorization of the confidential client `tv` -/
def demoDevice : DeviceEntry := { deviceCode := "dc1", userCode := "A-B", state := { ClientID := "tv", Scopes := ["openid"], Expires := 9000 } }
def demoStored (rt : Flow.Router) (uis : Bool) : St :=
  { demoState rt with prov := { (demoState rt).prov with userinfoSubject := uis, devices := [demoDevice] } }

def tag : Out → String
  | .authOk _ => "authOk"
  | .done => "done"
  | .issued i => i.state.Subject
  | .error e => e

/-- ... and that response is a success on both routers -/
example : ((run (demoReserved .provider) demoReservedOps).2.map tag) = ["authOk"] := by decide
example : ((run (demoReserved .legacy) demoReservedOps).2.map tag) = ["authOk"] := by decide

def storedOps : List Op :=
  [.poll 2000 (tvReq "dc1") none, .poll 2500 (cliReq "dc1") none, .poll 2600 (tvReq "dc1") (some Const.DeadlineExceeded),
   .approve "dc1" "user1" 3, .poll 3000 (tvReq "dc1") none, .poll 9500 (tvReq "dc1") none,
   .deny "dc1", .poll 4000 (tvReq "dc1") none]

/-- pending, another client, time-out, tokens after approval (also after expiry), refusal after denial - on both routers -/
example : (run (demoStored .provider true) storedOps).2.map tag =
    ["ErrAuthorizationPending", "ErrAccessDenied", "ErrSlowDown", "done", "user1", "user1", "done", "ErrAccessDenied"] := by decide
example : (run (demoStored .legacy true) storedOps).2.map tag =
    ["ErrAuthorizationPending", "ErrAccessDenied", "ErrSlowDown", "done", "user1", "user1", "done", "ErrAccessDenied"] := by decide

/-- the monitor is not trivially satisfied: tokens before approval are flagged -/
example : judgePoll (abs (demoStored .provider true)) 2000 { kind := "basic", clientID := "tv", secret := "s3cret" }
    "dc1" .none (.tokens { subject := "user1", client := "tv", scopes := ["openid"], audience := ["tv"] })
    = some "tokens-before-approval" := by decide

/-- also where the storage leaves `userinfo.Subject` empty (SetUserinfoFromScopes "should have an empty implementation", no
    CanSetUserinfoFromRequest) the ID token of the device grant names the approving user -/
example : judgeAll (abs (demoStored .provider false)) (trace (demoStored .provider false) [.approve "dc1" "user1" 3, .poll 3000 (tvReq "dc1") none])
      = [none, none] := by decide

end C16
