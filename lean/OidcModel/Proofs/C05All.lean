/-
  C05 - the proof modules of the slice (the check builds and audits this module):
    Proofs/C05ShapeTok.lean, C05Shape.lean   layer 1: one characterisation lemma (`…_eq`, shape independent) per regenerated function
    Proofs/C05.lean, C05Endpoint.lean        layer 2: the endpoint decision of both routers satisfies the monitor
    Proofs/C05History.lean                   layer 2: histories with changing registrations (induction over operation lists)
    Proofs/C05Wire.lean                      layer 2: the credentials read off the wire
-/
import OidcModel.Proofs.C05Endpoint
import OidcModel.Proofs.C05History
import OidcModel.Proofs.C05Wire
