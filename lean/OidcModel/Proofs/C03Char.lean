/-
  C03, layer 1: ONE characterisation lemma per translated function of the authorization endpoint (Generated/Authorize.lean,
  Generated/AuthorizeShell.lean): `Gen.f args = <hand-readable spec>` or `Gen.f args = .ok x ↔ <what it means>`, proved with the
  shape-independent `go_char` (GoTac.lean).  These are the only proofs in which the shape of the Go text matters; Proofs/C03.lean
  (layer 2) uses the lemmas and the spec functions below and never unfolds a regenerated definition.
-/
import OidcModel.Spec.C03
import OidcModel.Model.AuthzFlow
import OidcModel.GoTac

namespace C03
open Go Gen Hand Authz

/-! ### small helpers -/


theorem containsResponseType_eq (now : Int) (ts : List String) (t : String) : ContainsResponseType now ts t = ts.contains t := by
  go_char ContainsResponseType

theorem isConfidentialType_eq (now : Int) (c : OPClient) : IsConfidentialType now c = confidential c := by
  go_char IsConfidentialType confidential OPClient.ApplicationType

theorem equalURI_eq (now : Int) (a b : URL) : equalURI now a b = (a.Path == b.Path && a.RawQuery == b.RawQuery) := by
  go_char equalURI

def loopSpec (o : UriOracle) (u : String) : URL × Bool :=
  match o.urlParse u with
  | .error _ => (Go.nil, false)
  | .ok p =>
    if p.Scheme == "http" || p.Scheme == "https" then (p, p.Hostname == "localhost" || (o.parseIP p.Hostname).IsLoopback)
    else (Go.nil, false)

theorem loopback_eq (now : Int) (o : UriOracle) (u : String) : HTTPLoopbackOrLocalhost now o u = loopSpec o u := by
  unfold loopSpec
  go_char HTTPLoopbackOrLocalhost

def respFrag (rt mode : String) : Bool :=
  if mode == Const.ResponseModeQuery then false
  else if mode == Const.ResponseModeFragment then true
  else rt == Const.ResponseTypeIDToken || rt == Const.ResponseTypeIDTokenOnly

theorem authResponseURL_iff {now : Int} {o : UriOracle} {uri rt mode : String} {p : RespParams} {enc : Encoder} {u : OutURL} :
    AuthResponseURL now o uri rt mode p enc = .ok u ↔
      ∃ pu, o.urlParse uri = .ok pu ∧ enc.encodeFails = false ∧ u = .response pu.raw (respFrag rt mode) p := by
  unfold respFrag
  go_char AuthResponseURL URLEncodeParams mergeQueryParams setFragment

/-! ### redirect-URI validation -/


def E : String := "ErrInvalidRequestRedirectURI"

/-- `checkURIAgainstRedirects`: literal membership, else the first opted-in glob that matches (a malformed pattern ends the search) -/
def checkSpec (o : UriOracle) (c : OPClient) (uri : String) : Go.R Unit :=
  if c.redirectURIs.contains uri then .ok ()
  else
    match c.globs with
    | none => .error E
    | some gs =>
      match Go.forRange gs (fun g => match o.globMatch g uri with
          | .error _ => some (.error E)
          | .ok m => if m then some (.ok ()) else none) with
      | some r => r
      | none => .error E

theorem checkURI_eq (now : Int) (o : UriOracle) (c : OPClient) (uri : String) :
    checkURIAgainstRedirects now o c uri = checkSpec o c uri := by
  unfold checkSpec E
  cases hg : c.globs <;>
  go_char checkURIAgainstRedirects OPClient.RedirectURIs OPClient.RedirectURIGlobs OPClient.is_HasRedirectGlobs Go.contains Go.ok Go.forRange

/-- the native branch -/
def nativeSpec (now : Int) (o : UriOracle) (c : OPClient) (uri : String) : Go.R Unit :=
  match checkURIAgainstRedirects now o c uri with
  | .ok _ =>
    if c.devMode || (HTTPLoopbackOrLocalhost now o uri).2 || Go.hasPrefix uri "https://" || !Go.hasPrefix uri "http://" then .ok () else .error E
  | .error _ =>
    if !(HTTPLoopbackOrLocalhost now o uri).2 then .error E
    else
      match Go.forRange c.redirectURIs (fun reg =>
          if (HTTPLoopbackOrLocalhost now o reg).2 && equalURI now (HTTPLoopbackOrLocalhost now o uri).1 (HTTPLoopbackOrLocalhost now o reg).1
          then some (.ok ()) else none) with
      | some r => r
      | none => .error E

theorem native_eq (now : Int) (o : UriOracle) (c : OPClient) (uri : String) :
    validateAuthReqRedirectURINative now o c uri = nativeSpec now o c uri := by
  unfold nativeSpec E
  go_char validateAuthReqRedirectURINative OPClient.RedirectURIs OPClient.DevMode Go.ok



def validateURISpec (now : Int) (o : UriOracle) (c : OPClient) (uri rt : String) : Go.R Unit :=
  if uri == "" then .error E
  else if isNative c then validateAuthReqRedirectURINative now o c uri
  else
    match checkURIAgainstRedirects now o c uri with
    | .error e => .error e
    | .ok _ =>
      if Go.hasPrefix uri "https://" then .ok ()
      else if Go.hasPrefix uri "http://" then
        (if c.devMode || (rt == Const.ResponseTypeCode && IsConfidentialType now c) then .ok () else .error E)
      else .error E

theorem validateRedirectURI_eq (now : Int) (o : UriOracle) (c : OPClient) (uri rt : String) :
    ValidateAuthReqRedirectURI now o c uri rt = validateURISpec now o c uri rt := by
  unfold validateURISpec E isNative
  go_char ValidateAuthReqRedirectURI OPClient.ApplicationType OPClient.DevMode Go.ok

/-- `ValidateAuthRequestClient` succeeds only after the redirect URI was validated … (stated as an implication, not as an equation
    with a fixed order: the order of the guards that do NOT concern the redirect URI is free) -/
theorem validateClient_ok_char {now : Int} {o : UriOracle} {d : AuthDeps} {a : AuthRequestData} {c : OPClient} {sub : String} :
    ValidateAuthRequestClient now o d a c () = .ok sub → ValidateAuthReqRedirectURI now o c a.RedirectURI a.ResponseType = .ok () := by
  go_char ValidateAuthRequestClient

/-- … and every error it returns is either the error of the redirect-URI validation itself, or was raised after that validation
    succeeded: nothing is raised BEFORE the redirect URI has been checked -/
theorem validateClient_err_char {now : Int} {o : UriOracle} {d : AuthDeps} {a : AuthRequestData} {c : OPClient} {e : String} :
    ValidateAuthRequestClient now o d a c () = .error e →
      ValidateAuthReqRedirectURI now o c a.RedirectURI a.ResponseType = .error e ∨
      ValidateAuthReqRedirectURI now o c a.RedirectURI a.ResponseType = .ok () := by
  go_char ValidateAuthRequestClient

/-! ### error redirects -/


/-- the response mode the error paths hand to `AuthResponseURL` -/
def errMode (a : ErrReq) : String := if a.is_has_GetResponseMode then a.responseMode else ""

/-- `AuthRequestError`: a direct page, or a 302 to the URL `AuthResponseURL` builds on the request's own redirect URI -/
def errSpec (now : Int) (o : UriOracle) (a : ErrReq) (err : String) (enc : Encoder) : List Write :=
  if a.nilp then [.page 400]
  else if a.redirectURI == "" || (DefaultToServerError now err err).redirectDisabled then [.page 400]
  else
    match AuthResponseURL now o a.redirectURI a.responseType (errMode a) { kind := "error", err := (DefaultToServerError now err err).name } enc with
    | .error _ => [.page 400]
    | .ok u => [.redirect u]

theorem authRequestError_eq (now : Int) (o : UriOracle) (a : ErrReq) (err : String) (p : AzProvider) :
    AuthRequestError now o a err p = errSpec now o a err p.Encoder := by
  unfold errSpec errMode
  go_char AuthRequestError Hand.httpError Hand.httpRedirect ErrReq.GetRedirectURI ErrReq.GetResponseType ErrReq.GetResponseMode
    ErrReq.GetState ErrReq.GetSessionState OidcError.IsRedirectDisabled Go.isNil Nilable.isNil

/-- `TryErrorRedirect`: the same decision, as a value -/
def tryErrSpec (now : Int) (o : UriOracle) (a : ErrReq) (err : String) (enc : Encoder) : Go.R Redirect :=
  if a.nilp then .error (AsStatusError now (DefaultToServerError now err err) 400)
  else if a.redirectURI == "" || (DefaultToServerError now err err).redirectDisabled then .error (AsStatusError now (DefaultToServerError now err err) 400)
  else
    match AuthResponseURL now o a.redirectURI a.responseType (errMode a) { kind := "error", err := (DefaultToServerError now err err).name } enc with
    | .error e => .error (AsStatusError now e 400)
    | .ok u => .ok ⟨u⟩

theorem tryErrorRedirect_eq (now : Int) (o : UriOracle) (a : ErrReq) (err : String) (enc : Encoder) (lg : Unit) :
    TryErrorRedirect now o a err enc lg = tryErrSpec now o a err enc := by
  unfold tryErrSpec errMode
  go_char TryErrorRedirect NewRedirect ErrReq.GetRedirectURI ErrReq.GetResponseType ErrReq.GetResponseMode
    ErrReq.GetState ErrReq.GetSessionState OidcError.IsRedirectDisabled Go.isNil Nilable.isNil

/-! ### success responses and the callback -/

def formPostSpec (tm : AzFormTemplate) (uri : String) (p : RespParams) (enc : Encoder) : Go.R (List Write) :=
  if enc.formPostFails then .error "ErrServerError"
  else
    match tm.Execute ⟨uri, p⟩ with
    | .error _ => .error "ErrServerError"
    | .ok page => .ok [.formPost page.action]

theorem formPost_eq (now : Int) (tm : AzFormTemplate) (uri : String) (p : RespParams) (enc : Encoder) :
    Hand.runFormPost (AuthResponseFormPost now tm) uri p enc = formPostSpec tm uri p enc := by
  unfold formPostSpec
  go_char Hand.runFormPost AuthResponseFormPost Encoder.Encode Hand.formPostParams Hand.resWriteHeader Hand.bufWriteTo Go.ok

def respSpec (now : Int) (o : UriOracle) (d : AuthDeps) (a : AzStored) (p : AzProvider) (ps : RespParams) : List Write :=
  if a.responseMode == Const.ResponseModeFormPost then
    match Hand.runFormPost (AuthResponseFormPost now d.FormTemplate) a.redirectURI ps p.Encoder with
    | .error e => AuthRequestError now o a e p
    | .ok ws => ws
  else
    match AuthResponseURL now o a.redirectURI a.responseType a.responseMode ps p.Encoder with
    | .error e => AuthRequestError now o a e p
    | .ok u => [.redirect u]

theorem authResponseCode_eq (now : Int) (o : UriOracle) (d : AuthDeps) (a : AzStored) (p : AzProvider) :
    AuthResponseCode now o d a p =
      match d.CreateAuthRequestCode a p.Storage p.Crypto with
      | .error e => AuthRequestError now o a e p
      | .ok _ => respSpec now o d a p { kind := "code" } := by
  unfold respSpec
  go_char AuthResponseCode Hand.codeResponse Hand.httpRedirect AzStored.GetRedirectURI AzStored.GetResponseMode AzStored.GetResponseType
    AzStored.GetState AzStored.GetSessionState

theorem authResponseToken_eq (now : Int) (o : UriOracle) (d : AuthDeps) (a : AzStored) (p : AzProvider) (c : OPClient) :
    AuthResponseToken now o d a p c =
      match d.CreateTokenResponse a c p (a.responseType != Const.ResponseTypeIDTokenOnly) "" "" with
      | .error e => AuthRequestError now o a e p
      | .ok resp => respSpec now o d a p resp := by
  unfold respSpec
  go_char AuthResponseToken Hand.tokenResponse Hand.httpRedirect AzStored.GetRedirectURI AzStored.GetResponseMode AzStored.GetResponseType
    AzStored.GetState AzStored.GetSessionState

theorem authResponse_eq (now : Int) (o : UriOracle) (d : AuthDeps) (a : AzStored) (p : AzProvider) :
    AuthResponse now o d a p =
      match p.Storage.GetClientByClientID a.clientID with
      | .error e => AuthRequestError now o a e p
      | .ok c => if a.responseType == Const.ResponseTypeCode then AuthResponseCode now o d a p else AuthResponseToken now o d a p c := by
  go_char AuthResponse AzStored.GetClientID AzStored.GetResponseType

theorem parseCallback_iff {now : Int} {r : AzHttpReq} {id : String} :
    ParseAuthorizeCallbackRequest now r = .ok id ↔ (∃ u, r.ParseForm = .ok u) ∧ id = r.Form.Get "id" ∧ id ≠ "" := by
  go_char ParseAuthorizeCallbackRequest

theorem authorizeCallback_eq (now : Int) (o : UriOracle) (d : AuthDeps) (r : AzHttpReq) (p : AzProvider) :
    AuthorizeCallback now o d r p =
      match ParseAuthorizeCallbackRequest now r with
      | .error e => AuthRequestError now o Go.nil e p
      | .ok id =>
        match p.Storage.AuthRequestByID id with
        | .error e => AuthRequestError now o Go.nil e p
        | .ok a => if a.done then AuthResponse now o d a p else AuthRequestError now o a "ErrInteractionRequired" p := by
  go_char AuthorizeCallback AzStored.Done

theorem redirectToLogin_eq (now : Int) (a : AzStored) (c : OPClient) : RedirectToLogin now a c = [.redirect (.login c.id a)] := by
  go_char RedirectToLogin Hand.httpRedirect OPClient.LoginURL

/-! ### the Server router, request parsing, request objects -/


/-- the request after request-object processing (same condition on both routers) -/
def effective (requestObjects : Bool) (d : AuthDeps) (stg : AzStorage) (a : AuthRequestData) : AuthRequestData :=
  if a.RequestParam != "" && requestObjects then
    match d.ParseRequestObject a stg "" with
    | .ok a' => a'
    | .error _ => a
  else a

/-- `LegacyServer.VerifyAuthRequest`: request object (when present and supported), then the client lookup -/
def verifySpec (now : Int) (d : AuthDeps) (s : AzLegacyServer) (a : AuthRequestData) : Go.R (ClientRequest AuthRequestData) :=
  if a.RequestParam != "" && !s.provider.RequestObjectSupported then .error "ErrRequestNotSupported"
  else
    match (if a.RequestParam != "" then d.ParseRequestObject a s.provider.Storage "" else .ok a) with
    | .error e => .error e
    | .ok a' =>
      if a'.ClientID == "" then .error "ErrInvalidRequest"
      else
        match s.provider.Storage.GetClientByClientID a'.ClientID with
        | .error e => .error (DefaultToServerError now e "unable to retrieve client by id").name
        | .ok c => .ok { Data := a', Client := c }

theorem legacyVerify_eq (now : Int) (d : AuthDeps) (s : AzLegacyServer) (form : FormVals) (a : AuthRequestData) :
    LegacyVerifyAuthRequest now d s { Form := form, Data := a } = verifySpec now d s a := by
  unfold verifySpec
  go_char LegacyVerifyAuthRequest Hand.mkClientRequest

def legacyAuthorizeSpec (now : Int) (o : UriOracle) (d : AuthDeps) (s : AzLegacyServer) (cr : ClientRequest AuthRequestData) : Go.R Redirect :=
  match d.ValidateAuthReqIDTokenHint cr.Data.IDTokenHint s.provider.IDTokenHintVerifier with
  | .error e => .error e
  | .ok u =>
    match s.provider.Storage.CreateAuthRequest cr.Data u with
    | .error e => TryErrorRedirect now o cr.Data (DefaultToServerError now e "unable to save auth request").name s.provider.Encoder s.provider.Logger
    | .ok req => .ok ⟨.login cr.Client.id req⟩

theorem legacyAuthorize_eq (now : Int) (o : UriOracle) (d : AuthDeps) (s : AzLegacyServer) (cr : ClientRequest AuthRequestData) :
    LegacyAuthorize now o d s cr = legacyAuthorizeSpec now o d s cr := by
  unfold legacyAuthorizeSpec
  go_char LegacyAuthorize NewRedirect OPClient.LoginURL AzStored.GetID

/-- `webServer.authorize` returns a redirect only for a verified request whose redirect URI passed the validation, and then it is
    the redirect `LegacyServer.Authorize` built (implication: the order of the other guards is free) -/
theorem webAuthorize_ok_char {now : Int} {o : UriOracle} {d : AuthDeps} {s : AzWebServer} {r : Request AuthRequestData} {red : Redirect} :
    WebAuthorize now o d s r = .ok red →
      ∃ cr, LegacyVerifyAuthRequest now d s.server r = .ok cr ∧
        ValidateAuthReqRedirectURI now o cr.Client cr.Data.RedirectURI cr.Data.ResponseType = .ok () ∧
        LegacyAuthorize now o d s.server cr = .ok red := by
  go_char WebAuthorize

/-- what the handlers of both routers decode from the raw HTTP request -/
def decodedReq (r : AzHttpReq) (dec : AzDecoder) : Go.R AuthRequestData :=
  match r.ParseForm with
  | .error e => .error e
  | .ok _ => dec.Decode r.Form

theorem parseAuthorizeRequest_ok {now : Int} {r : AzHttpReq} {dec : AzDecoder} {a : AuthRequestData} :
    GenAz.ParseAuthorizeRequest now r dec = .ok a ↔ decodedReq r dec = .ok a := by
  unfold decodedReq
  go_char GenAz.ParseAuthorizeRequest

theorem decodeRequest_ok {now : Int} {r : AzHttpReq} {dec : AzDecoder} {a : AuthRequestData} :
    GenAz.decodeRequest now dec r false = .ok a ↔ decodedReq r dec = .ok a := by
  unfold decodedReq
  go_char GenAz.decodeRequest

theorem writeError_eq (now : Int) (e : OidcError) (code : Int) (lg : Unit) : GenAz.writeError now e code lg = [.page code] := by
  go_char GenAz.writeError Hand.marshalJSONWithStatus

/-- the status `WriteError` answers with -/
def errStatus (now : Int) (err : String) : Int :=
  if (Hand.azErrorsAs err {}).1 then (Hand.azErrorsAs err {}).2.statusCode
  else if (DefaultToServerError now err err).ErrorType == "server_error" then 500 else 400

theorem WriteError_eq (now : Int) (err : String) (lg : Unit) : GenAz.WriteError now err lg = [.page (errStatus now err)] := by
  unfold errStatus
  go_char GenAz.WriteError writeError_eq

theorem redirectWriteOut_eq (now : Int) (red : Redirect) : GenAz.RedirectWriteOut now red = [.redirect red.URL] := by
  go_char GenAz.RedirectWriteOut Hand.httpRedirect

theorem webAuthorizeHandler_eq (now : Int) (o : UriOracle) (d : AuthDeps) (s : AzWebServer) (r : AzHttpReq) :
    GenAz.WebAuthorizeHandler now o d s r =
      match GenAz.decodeRequest now s.decoder r false with
      | .error e => [.page (errStatus now e)]
      | .ok a =>
        match WebAuthorize now o d s { Form := r.Form, Data := a } with
        | .error e => [.page (errStatus now e)]
        | .ok red => [.redirect red.URL] := by
  go_char GenAz.WebAuthorizeHandler WriteError_eq redirectWriteOut_eq Hand.azNewRequest

theorem copyRequestObject_spec (now : Int) (a : AuthRequestData) (ro : AzRequestObject) :
    (GenAz.CopyRequestObjectToAuthRequest now a ro).RedirectURI = (if ro.RedirectURI != "" then ro.RedirectURI else a.RedirectURI) ∧
    (GenAz.CopyRequestObjectToAuthRequest now a ro).State = (if ro.State != "" then ro.State else a.State) ∧
    (GenAz.CopyRequestObjectToAuthRequest now a ro).ResponseMode = (if ro.ResponseMode != "" then ro.ResponseMode else a.ResponseMode) ∧
    (GenAz.CopyRequestObjectToAuthRequest now a ro).ClientID = a.ClientID ∧
    (GenAz.CopyRequestObjectToAuthRequest now a ro).ResponseType = a.ResponseType ∧
    (GenAz.CopyRequestObjectToAuthRequest now a ro).RequestParam = "" := by
  simp only [GenAz.CopyRequestObjectToAuthRequest, apply_ite AuthRequestData.RedirectURI, apply_ite AuthRequestData.State,
    apply_ite AuthRequestData.ResponseMode, apply_ite AuthRequestData.ClientID, apply_ite AuthRequestData.ResponseType]
  simp

theorem parseRequestObject_ok {now : Int} {ro : AzRoOracle} {a a' : AuthRequestData} {stg : AzStorage} {iss : String}
    (h : GenAz.ParseRequestObject now ro a stg iss = .ok a') :
    ∃ payload claims claims', ro.ParseToken a.RequestParam = .ok (payload, claims) ∧
      (claims.ClientID = "" ∨ claims.ClientID = a.ClientID) ∧ (claims.ResponseType = "" ∨ claims.ResponseType = a.ResponseType) ∧
      claims.Issuer = claims.ClientID ∧ claims.Audience.contains iss = true ∧
      ro.CheckSignature a.RequestParam payload claims [] (stg, claims.Issuer) = .ok claims' ∧
      a' = GenAz.CopyRequestObjectToAuthRequest now a claims' := by
  revert h
  go_char GenAz.ParseRequestObject Hand.azKeySet Go.contains Go.nil HasNil.nilv

/-! ### the Provider router's handler -/

/-- without a request value (`nil`) the answer is a direct page, whatever the error -/
theorem authRequestError_nil_eq (now : Int) (o : UriOracle) (err : String) (p : AzProvider) :
    AuthRequestError now o (Go.nil : ErrReq) err p = [.page 400] := by
  rw [authRequestError_eq]
  simp [errSpec, Go.nil, HasNil.nilv]

/-- `op.Authorize`, for a provider that is not a custom `AuthorizeValidator` (the library's own Provider is not): parse, request
    object, missing-parameter checks, client lookup + `ValidateAuthRequestClient` (the validation closure), `request` parameter
    left over, store, login redirect - `Authz.providerAuthorize` is the hand-readable spec -/
theorem authorize_eq (now : Int) (o : UriOracle) (d : AuthDeps) (r : AzHttpReq) (p : AzProvider) (hv : p.is_AuthorizeValidator = false) :
    GenAz.Authorize now o d r p = providerAuthorize now o d p r := by
  unfold providerAuthorize providerAuthorizeCore
  go_char GenAz.Authorize Go.isNil Nilable.isNil authRequestError_nil_eq

end C03
