/-
  C10 — soundness of the error-flow analysis (`drops`) for the path semantics (`Run`) of Model/C10Flow.lean, for ANY program:
  if the analysis reports no dropped error for any function of the program, then on every execution of every function, every
  failing storage call is followed only by a closed suffix (no success step, no further storage call, the function ends in the
  error class) - or the failure arrived at an audited tolerated site.  Induction over executions; nothing here is about a
  particular regenerated tree.
-/
import OidcModel.Model.C10Flow

namespace C10.Flow

/-! ### lists of events -/

theorem noSucc_append (a b : List Ev) : noSucc (a ++ b) = (noSucc a && noSucc b) := by simp [noSucc, List.all_append]
theorem noFail_append (a b : List Ev) : noFail (a ++ b) = (noFail a && noFail b) := by simp [noFail, List.all_append]
theorem hasResp_append (a b : List Ev) : hasResp (a ++ b) = (hasResp a || hasResp b) := by simp [hasResp, List.any_append]
theorem hasAbs_append (a b : List Ev) : hasAbs (a ++ b) = (hasAbs a || hasAbs b) := by simp [hasAbs, List.any_append]

theorem retriedAt_append (f s : Nat) (a b : List Ev) : retriedAt f s (a ++ b) = (retriedAt f s a || retriedAt f s b) := by
  simp [retriedAt, List.any_append]

theorem goodW_append {C : Ev → List Ev → Prop} (t1 t2 : List Ev) :
    GoodW C (t1 ++ t2) ↔ GoodW (fun e s => C e (s ++ t2)) t1 ∧ GoodW C t2 := by
  induction t1 with
  | nil => simp [GoodW]
  | cons e t ih =>
    simp only [List.cons_append, GoodW, ih]
    constructor
    · rintro ⟨h1, h2, h3⟩; exact ⟨⟨h1, h2⟩, h3⟩
    · rintro ⟨⟨h1, h2⟩, h3⟩; exact ⟨h1, h2, h3⟩

theorem goodW_mono {C C' : Ev → List Ev → Prop} (h : ∀ e s, C e s → C' e s) : ∀ t, GoodW C t → GoodW C' t
  | [], _ => trivial
  | _ :: t, ⟨h1, h2⟩ => ⟨fun hf => h _ _ (h1 hf), goodW_mono h t h2⟩

theorem goodW_of_noFail {C : Ev → List Ev → Prop} : ∀ t, noFail t = true → GoodW C t
  | [], _ => trivial
  | e :: t, h => by
    simp only [noFail, List.all_cons, Bool.and_eq_true, Bool.not_eq_true'] at h
    refine ⟨fun hf => ?_, goodW_of_noFail t (by simpa [noFail] using h.2)⟩
    rw [h.1] at hf; cases hf

/-- the event at position i is a failure: the events after it are closed -/
theorem goodW_get {C : Ev → List Ev → Prop} : ∀ (t : List Ev) (i : Nat) (e : Ev), GoodW C t → t[i]? = some e → e.isFail = true → C e (t.drop (i + 1))
  | [], _, _, _, h, _ => by simp at h
  | a :: t, 0, e, hg, h, hf => by
    simp at h; subst h
    simpa using hg.1 hf
  | a :: t, i + 1, e, hg, h, hf => by
    simp at h
    simpa using goodW_get t i e hg.2 h hf

/-! ### abstract environments -/

theorem AEnv.get_set (a : AEnv) (v : Nat) (x : AV) (i : Nat) : (a.set v x).get i = if i = v then x else a.get i := by
  induction a generalizing v i with
  | nil =>
    induction v generalizing i with
    | zero =>
      cases i <;> simp [AEnv.set, AEnv.get]
    | succ n ih =>
      cases i with
      | zero => simp [AEnv.set, AEnv.get]
      | succ j =>
        simpa [AEnv.set, AEnv.get] using ih j
  | cons h t ih =>
    cases v with
    | zero => cases i <;> simp [AEnv.set, AEnv.get]
    | succ n =>
      cases i with
      | zero => simp [AEnv.set, AEnv.get]
      | succ j =>
        simpa [AEnv.set, AEnv.get] using ih n j

/-- the concrete environment is described by the abstract one -/
def Sat (ρ : Env) (a : AEnv) : Prop := ∀ i, (a.get i).sat (ρ i) = true

theorem sat_nil (ρ : Env) : Sat ρ [] := by
  intro i; simp [AEnv.get, AV.sat]

theorem sat_set {ρ : Env} {a : AEnv} (h : Sat ρ a) (v : Nat) {x : AV} {c : CV} (hx : x.sat c = true) : Sat (ρ.set v c) (a.set v x) := by
  intro i
  rw [AEnv.get_set]
  unfold Env.set
  by_cases hi : i = v
  · simp [hi, hx]
  · simp [hi, h i]

theorem satU (c : CV) : AV.sat .U c = true := by cases c <;> rfl

/-! ### functions without an error result yield nil -/

theorem run_retsNil {P : List Fn} {A : Audit} {f : Nat} {sk : Sk} {ρ : Env} {tr : List Ev} {x : CV}
    (h : Run P A f sk ρ tr x) : retsNil sk = true → x = .nil := by
  induction h with
  | leafOk _ _ _ ih => intro hn; exact ih (by simpa [retsNil] using hn)
  | leafFail _ _ ih => intro hn; exact ih (by simpa [retsNil] using hn)
  | delegateOk _ ih => intro hn; exact ih (by simpa [retsNil] using hn)
  | delegateFail _ ih => intro hn; exact ih (by simpa [retsNil] using hn)
  | op _ _ _ _ _ ih2 => intro hn; exact ih2 (by simpa [retsNil] using hn)
  | kill _ ih => intro hn; exact ih (by simpa [retsNil] using hn)
  | ifErrT _ _ ih => intro hn; simp only [retsNil, Bool.and_eq_true] at hn; exact ih hn.1
  | ifErrF _ _ ih => intro hn; simp only [retsNil, Bool.and_eq_true] at hn; exact ih hn.2
  | ifIsT _ _ ih => intro hn; simp only [retsNil, Bool.and_eq_true] at hn; exact ih hn.1
  | ifIsF _ _ ih => intro hn; simp only [retsNil, Bool.and_eq_true] at hn; exact ih hn.2
  | iteL _ ih => intro hn; simp only [retsNil, Bool.and_eq_true] at hn; exact ih hn.1
  | iteR _ ih => intro hn; simp only [retsNil, Bool.and_eq_true] at hn; exact ih hn.2
  | succ _ ih => intro hn; exact ih (by simpa [retsNil] using hn)
  | resp _ ih => intro hn; exact ih (by simpa [retsNil] using hn)
  | attempt _ ih => intro hn; exact ih (by simpa [retsNil] using hn)
  | ret hv =>
    intro hn
    simp only [retsNil, beq_iff_eq] at hn
    subst hn
    cases hv; rfl

/-! ### soundness -/

/-- the program passes the analysis (with the audited tolerances) and its functions without an error result yield nil -/
structure WF (P : List Fn) (A : Audit) : Prop where
  ok : ∀ (g : Nat) (G : Fn), P[g]? = some G → fnDrops P A G = []
  retNil : ∀ (g : Nat) (G : Fn), P[g]? = some G → G.noErrResult = true → retsNil G.sk = true

/-- what the analysis guarantees for an execution (of function f) that starts in mode m -/
def ModeOK (κ : FKind) (f : Nat) (m : Mode) (tr : List Ev) (x : CV) : Prop :=
  match m with
  | .clean _ => Good κ x tr
  | .failed s ans rt => Good κ x tr ∧
      ((rt = true ∧ retriedAt f s tr = true) ∨
       (noSucc tr = true ∧ noFail tr = true ∧
        (match κ with | .void => ans = true ∨ hasResp tr = true | .val => False | _ => x.isHard = true)))

theorem append_nil_iff {α} {a b : List α} : a ++ b = [] ↔ a = [] ∧ b = [] := List.append_eq_nil_iff

/-- the failed call itself: what follows it in failed mode is closed -/
private theorem closed_of_failedOK {κ : FKind} {r : CV} {tr : List Ev} {f site : Nat} {e : EKind} {rt : Bool}
    (h : ModeOK κ f (.failed site false rt) tr r) : closedFor κ r (.sfail f site e) tr = true := by
  obtain ⟨_, h | ⟨h1, h2, h3⟩⟩ := h
  · simp [closedFor, h.2]
  · cases κ <;> simp_all [closedFor, exitOK]

private theorem good_of_failedOK {κ : FKind} {r : CV} {tr : List Ev} {f site : Nat} {ans rt : Bool}
    (h : ModeOK κ f (.failed site ans rt) tr r) : Good κ r tr := h.1

/-- a closed suffix of the callee (which handed back a hard error) stays closed when the caller goes on in failed mode -/
private theorem closed_extend_failed {κ' κ : FKind} {x r : CV} {e : Ev} {s tr2 : List Ev} {f site : Nat}
    (hs : closedFor κ' x e s = true) (h2 : ModeOK κ f (.failed site false false) tr2 r) : closedFor κ r e (s ++ tr2) = true := by
  obtain ⟨_, h | ⟨h1, h2', h3⟩⟩ := h2
  · exact absurd h.1 (by simp)
  cases e with
  | sfail g sg k =>
    simp only [closedFor, Bool.or_eq_true, Bool.and_eq_true] at hs ⊢
    rcases hs with (ha | hr) | ⟨⟨hs1, hs2⟩, _⟩
    · left; left; simp [hasAbs_append, ha]
    · left; right; simp [retriedAt_append, hr]
    · right
      refine ⟨⟨by simp [noSucc_append, hs1, h1], by simp [noFail_append, hs2, h2']⟩, ?_⟩
      cases κ <;> simp_all [exitOK, hasResp_append]
  | sok _ _ => rfl
  | succ _ => rfl
  | resp _ => rfl
  | absorbed _ _ => rfl

/-- the callee did not hand back a hard error although one of its storage calls failed: only an absorbed (or retried) failure can be behind it -/
private theorem closed_extend_absorbed {κ' κ : FKind} {x r : CV} {e : Ev} {s t : List Ev}
    (hκ : κ' = .err ∨ κ' = .bool ∨ κ' = .val) (hx : x.isHard = false ∨ κ' = .val)
    (hs : closedFor κ' x e s = true) : closedFor κ r e (s ++ t) = true := by
  cases e with
  | sfail g sg k =>
    simp only [closedFor, Bool.or_eq_true, Bool.and_eq_true] at hs ⊢
    rcases hs with (ha | hr) | ⟨_, he⟩
    · left; left; simp [hasAbs_append, ha]
    · left; right; simp [retriedAt_append, hr]
    · exfalso
      rcases hκ with h | h | h <;> subst h <;> simp [exitOK] at he
      · rcases hx with hx | hx
        · rw [hx] at he; cases he
        · cases hx
      · rcases hx with hx | hx
        · rw [hx] at he; cases he
        · cases hx
  | sok _ _ => rfl
  | succ _ => rfl
  | resp _ => rfl
  | absorbed _ _ => rfl

theorem anyErrKind_of_mem {P : List Fn} {fs : List Nat} {g : Nat} {G : Fn} (hg : g ∈ fs) (hG : P[g]? = some G)
    (hk : G.kind = .err ∨ G.kind = .bool) : anyErrKind P fs = true := by
  simp only [anyErrKind, List.any_eq_true]
  refine ⟨g, hg, ?_⟩
  rw [hG]
  rcases hk with h | h <;> simp [h]

theorem anyVoid_of_mem {P : List Fn} {fs : List Nat} {g : Nat} {G : Fn} (hg : g ∈ fs) (hG : P[g]? = some G)
    (hk : G.kind = .void) : anyVoid P fs = true := by
  simp only [anyVoid, List.any_eq_true]
  refine ⟨g, hg, ?_⟩
  rw [hG]; simp [hk]

theorem tolOf_eq {P : List Fn} {A : Audit} {f : Nat} {F : Fn} (hF : P[f]? = some F) : tolOf P A f = tolSites A F := by
  simp [tolOf, hF]

/-- a call handed back a hard error: what follows is closed (for the failure of a leaf call at this site), and good -/
private theorem hard_step {κ : FKind} {tolS : List (Nat × List String)} {f site : Nat} {e : EKind} {leaf : Bool} {tr : List Ev} {r : CV}
    (h2 : ModeOK κ f (hardMode tolS site leaf) tr r) :
    closedFor κ r (.sfail f site e) (absorbEv tolS f site (.hard e) ++ tr) = true ∧ Good κ r (absorbEv tolS f site (.hard e) ++ tr) := by
  unfold hardMode at h2
  cases ht : tolLookup tolS site with
  | some allow =>
    rw [ht] at h2
    simp only [absorbEv, CV.isHard, ht, Option.isSome_some, Bool.and_self, if_true, List.cons_append, List.nil_append]
    exact ⟨by simp [closedFor, hasAbs, Ev.isAbs], (fun hf => by cases hf), h2⟩
  | none =>
    rw [ht] at h2
    simp only [absorbEv, CV.isHard, ht, Option.isSome_none, Bool.and_false, if_false, List.nil_append, Bool.false_eq_true]
    exact ⟨closed_of_failedOK h2, good_of_failedOK h2⟩

/-- a call may be made in mode m and the trace that starts with its event is good: that is what mode m asks for -/
private theorem modeOK_of_call {κ : FKind} {f site : Nat} {leaf : Bool} {m : Mode} {r : Option (Nat × List String)} {tr : List Ev} {x : CV}
    (hcm : callMode m site leaf = some r) (hg : Good κ x tr) (hhead : leaf = true → retriedAt f site tr = true) : ModeOK κ f m tr x := by
  cases m with
  | clean r' => exact hg
  | failed s ans rt =>
    simp only [callMode] at hcm
    split at hcm
    · rename_i hc
      simp only [Bool.and_eq_true, beq_iff_eq] at hc
      obtain ⟨⟨hrt, hl⟩, hs⟩ := hc
      subst hs
      exact ⟨hg, Or.inl ⟨hrt, hhead hl⟩⟩
    · cases hcm

private theorem callMode_nonleaf_clean {m : Mode} {site : Nat} {r : Option (Nat × List String)}
    (h : callMode m site false = some r) : m = .clean r := by
  cases m with
  | clean r' => simp [callMode] at h; rw [h]
  | failed s ans rt => simp [callMode] at h

theorem drops_sound {P : List Fn} {A : Audit} (hW : WF P A) {f : Nat} {sk : Sk} {ρ : Env} {tr : List Ev} {x : CV}
    (h : Run P A f sk ρ tr x) :
    ∀ F, P[f]? = some F → ∀ a m, Sat ρ a → drops P A.benign F.sites (tolSites A F) F.kind sk a m = [] → ModeOK F.kind f m tr x := by
  induction h with
  | @leafOk f site c v k ρ tr r x hc hx _ ih =>
    intro F hF a m hs hd
    simp only [drops] at hd
    cases hcm : callMode m site c.isLeaf with
    | none =>
      rw [hcm] at hd
      cases m with
      | clean r' => simp [callMode] at hcm
      | failed s ans rt => simp [Mode.pendingSite] at hd
    | some aft =>
      rw [hcm] at hd
      have hN : drops P A.benign F.sites (tolSites A F) F.kind k (a.set v .N) (.clean aft) = [] ∧
          drops P A.benign F.sites (tolSites A F) F.kind k (a.set v .S) (.clean aft) = [] := by
        cases c with
        | delegate n => simp [Callee.isLeaf] at hc
        | op fs => simp [Callee.isLeaf] at hc
        | storage mth => simp only [append_nil_iff] at hd; exact ⟨hd.1.1.1, hd.1.1.2⟩
        | dyn n => simp only [append_nil_iff] at hd; exact ⟨hd.1.1.1, hd.1.1.2⟩
      have hg : Good F.kind r (Ev.sok f site :: tr) := by
        rcases hx with rfl | rfl
        · exact ⟨(fun hf => by cases hf), ih F hF _ (.clean aft) (sat_set hs v (by rfl)) hN.1⟩
        · exact ⟨(fun hf => by cases hf), ih F hF _ (.clean aft) (sat_set hs v (by rfl)) hN.2⟩
      exact modeOK_of_call hcm hg (fun _ => by simp [retriedAt, Ev.isCallAt])
  | @leafFail f site c v k ρ tr r e hc _ ih =>
    intro F hF a m hs hd
    simp only [drops] at hd
    cases hcm : callMode m site c.isLeaf with
    | none =>
      rw [hcm] at hd
      cases m with
      | clean r' => simp [callMode] at hcm
      | failed s ans rt => simp [Mode.pendingSite] at hd
    | some aft =>
      rw [hcm] at hd
      have hdH : drops P A.benign F.sites (tolSites A F) F.kind k (a.set v .H) (hardMode (tolSites A F) site true) = [] := by
        cases c with
        | delegate n => simp [Callee.isLeaf] at hc
        | op fs => simp [Callee.isLeaf] at hc
        | storage mth => simp only [append_nil_iff] at hd; exact hd.1.2
        | dyn n => simp only [append_nil_iff] at hd; exact hd.1.2
      rw [tolOf_eq hF]
      have h2 := ih F hF _ _ (sat_set hs v (by rfl)) hdH
      obtain ⟨hc1, hc2⟩ := hard_step (f := f) (e := e) h2
      have hg : Good F.kind r (Ev.sfail f site e :: (absorbEv (tolSites A F) f site (.hard e) ++ tr)) := ⟨fun _ => hc1, hc2⟩
      exact modeOK_of_call hcm hg (fun _ => by simp [retriedAt, Ev.isCallAt])
  | @delegateOk f site n v k ρ tr r x _ ih =>
    intro F hF a m hs hd
    simp only [drops] at hd
    cases hcm : callMode m site (Callee.delegate n).isLeaf with
    | none =>
      rw [hcm] at hd
      cases m with
      | clean r' => simp [callMode] at hcm
      | failed s ans rt => simp [Mode.pendingSite] at hd
    | some aft =>
      rw [hcm] at hd
      have hm := callMode_nonleaf_clean hcm
      subst hm
      simp only [append_nil_iff] at hd
      exact ih F hF _ (.clean aft) (sat_set hs v (satU x)) hd.1.1
  | @delegateFail f site n v k ρ tr r x e _ ih =>
    intro F hF a m hs hd
    simp only [drops] at hd
    cases hcm : callMode m site (Callee.delegate n).isLeaf with
    | none =>
      rw [hcm] at hd
      cases m with
      | clean r' => simp [callMode] at hcm
      | failed s ans rt => simp [Mode.pendingSite] at hd
    | some aft =>
      rw [hcm] at hd
      have hm := callMode_nonleaf_clean hcm
      subst hm
      simp only [append_nil_iff] at hd
      have h2 := ih F hF _ (.failed site true false) (sat_set hs v (satU x)) hd.1.2
      obtain ⟨hgood, h2 | ⟨h21, h22, h23⟩⟩ := h2
      · exact absurd h2.1 (by simp)
      simp only [ModeOK, Good, GoodW]
      refine ⟨fun _ => ?_, (fun hf => by cases hf), hgood⟩
      have : noSucc (Ev.resp n :: tr) = true := by simpa [noSucc, Ev.isSucc] using h21
      have hnf : noFail (Ev.resp n :: tr) = true := by simpa [noFail, Ev.isFail] using h22
      simp only [closedFor, Bool.or_eq_true, Bool.and_eq_true]
      right
      refine ⟨⟨this, hnf⟩, ?_⟩
      cases hk : F.kind <;> simp_all [exitOK, hasResp, Ev.isResp]
  | @op f site fs v k ρ ρ0 tr1 tr2 r x g G hg hG _ _ ih1 ih2 =>
    intro F hF a m hs hd
    simp only [drops] at hd
    cases hcm : callMode m site (Callee.op fs).isLeaf with
    | none =>
      rw [hcm] at hd
      cases m with
      | clean r' => simp [callMode] at hcm
      | failed s ans rt => simp [Mode.pendingSite] at hd
    | some aft =>
      rw [hcm] at hd
      have hm := callMode_nonleaf_clean hcm
      subst hm
      have h1 : Good G.kind x tr1 := ih1 G hG [] (.clean none) (sat_nil ρ0) (hW.ok g G hG)
      rw [tolOf_eq hF]
      simp only [append_nil_iff] at hd
      obtain ⟨⟨⟨hdN, hdE⟩, hdV⟩, _⟩ := hd
      simp only [ModeOK, Good]
      by_cases hne : G.noErrResult = true
      · -- the callee has no error result: it hands back nil
        have hx : x = .nil := run_retsNil (by assumption) (hW.retNil g G hG hne)
        subst hx
        have h2 := ih2 F hF _ (.clean aft) (sat_set hs v (by rfl)) hdN
        simp only [absorbEv, CV.isHard, Bool.false_and, if_false, Bool.false_eq_true, List.nil_append]
        rw [goodW_append]
        refine ⟨goodW_mono (fun e s hcs => ?_) tr1 h1, h2⟩
        simp only [Fn.noErrResult, Bool.or_eq_true, beq_iff_eq] at hne
        rcases hne with hv | hv
        · -- a handler: it has answered by itself; the caller must not go on building a success
          have hvoid := anyVoid_of_mem hg hG hv
          rw [if_pos hvoid] at hdV
          have h2' := ih2 F hF _ (.failed site true false) (sat_set hs v (by rfl)) hdV
          obtain ⟨_, h2' | ⟨h21, h22, h23⟩⟩ := h2'
          · exact absurd h2'.1 (by simp)
          rw [hv] at hcs
          cases e with
          | sfail ge se ke =>
            simp only [closedFor, Bool.or_eq_true, Bool.and_eq_true, exitOK] at hcs ⊢
            rcases hcs with (ha | hr) | ⟨⟨hs1, hs2⟩, hs3⟩
            · left; left; simp [hasAbs_append, ha]
            · left; right; simp [retriedAt_append, hr]
            · right
              refine ⟨⟨by simp [noSucc_append, hs1, h21], by simp [noFail_append, hs2, h22]⟩, ?_⟩
              cases hk : F.kind <;> simp_all [hasResp_append]
          | sok _ _ => rfl
          | succ _ => rfl
          | resp _ => rfl
          | absorbed _ _ => rfl
        · exact closed_extend_absorbed (Or.inr (Or.inr hv)) (Or.inr hv) hcs
      · -- the callee has an error / ok result
        have hk : G.kind = .err ∨ G.kind = .bool := by
          cases hkk : G.kind <;> simp [Fn.noErrResult, hkk] at hne ⊢
        rw [if_pos (anyErrKind_of_mem hg hG hk), append_nil_iff] at hdE
        have hk3 : G.kind = .err ∨ G.kind = .bool ∨ G.kind = .val := by rcases hk with h | h <;> simp [h]
        cases x with
        | nil =>
          have h2 := ih2 F hF _ (.clean aft) (sat_set hs v (by rfl)) hdN
          simp only [absorbEv, CV.isHard, Bool.false_and, if_false, Bool.false_eq_true, List.nil_append]
          rw [goodW_append]
          exact ⟨goodW_mono (fun e s hcs => closed_extend_absorbed hk3 (Or.inl rfl) hcs) tr1 h1, h2⟩
        | sent =>
          have h2 := ih2 F hF _ (.clean aft) (sat_set hs v (by rfl)) hdE.1
          simp only [absorbEv, CV.isHard, Bool.false_and, if_false, Bool.false_eq_true, List.nil_append]
          rw [goodW_append]
          exact ⟨goodW_mono (fun e s hcs => closed_extend_absorbed hk3 (Or.inl rfl) hcs) tr1 h1, h2⟩
        | hard e =>
          have h2 := ih2 F hF _ _ (sat_set hs v (by rfl)) hdE.2
          rw [goodW_append]
          refine ⟨goodW_mono (fun ev s hcs => ?_) tr1 h1, (hard_step (f := f) (e := e) h2).2⟩
          -- what follows the callee's closed suffix
          unfold hardMode at h2
          cases ht : tolLookup (tolSites A F) site with
          | some allow =>
            cases ev <;> simp [closedFor, absorbEv, CV.isHard, ht, hasAbs, Ev.isAbs]
          | none =>
            rw [ht] at h2
            simp only [absorbEv, CV.isHard, ht, Option.isSome_none, Bool.and_false, if_false, List.nil_append, Bool.false_eq_true]
            exact closed_extend_failed hcs h2
  | @kill f v k ρ tr r x _ ih =>
    intro F hF a m hs hd
    simp only [drops] at hd
    exact ih F hF _ m (sat_set hs v (satU x)) hd
  | @ifErrT f v sa sb ρ tr r hv _ ih =>
    intro F hF a m hs hd
    have hsv := hs v
    cases hav : a.get v <;> simp only [drops, hav, append_nil_iff] at hd
    · rw [hav] at hsv
      cases hρ : ρ v <;> simp [hρ, AV.sat] at hsv hv
    · exact ih F hF a m hs hd
    · exact ih F hF a m hs hd
    · exact ih F hF a m hs hd.1
  | @ifErrF f v sa sb ρ tr r hv _ ih =>
    intro F hF a m hs hd
    have hsv := hs v
    cases hav : a.get v <;> simp only [drops, hav, append_nil_iff] at hd
    · exact ih F hF a m hs hd
    · rw [hav, hv] at hsv; simp [AV.sat] at hsv
    · rw [hav, hv] at hsv; simp [AV.sat] at hsv
    · exact ih F hF a m hs hd.2
  | @ifIsT f v s sa sb ρ tr r hv _ ih =>
    intro F hF a m hs hd
    have hsv := hs v
    cases hav : a.get v <;> simp only [drops, hav, append_nil_iff] at hd
    · rw [hav] at hsv
      cases hρ : ρ v <;> simp [hρ, AV.sat, isMatch] at hsv hv
    · rw [hav] at hsv
      cases hρ : ρ v <;> simp [hρ, AV.sat] at hsv
      by_cases hb : A.benign.contains s = true
      · rw [hρ] at hv
        simp only [isMatch, hb, if_true] at hv
        exact absurd rfl hv
      · rw [if_neg hb, append_nil_iff] at hd
        exact ih F hF a m hs hd.1
    · exact ih F hF a m hs hd.1
    · exact ih F hF a m hs hd.1
  | @ifIsF f v s sa sb ρ tr r hv _ ih =>
    intro F hF a m hs hd
    cases hav : a.get v <;> simp only [drops, hav, append_nil_iff] at hd
    · exact ih F hF a m hs hd
    · by_cases hb : A.benign.contains s = true
      · rw [if_pos hb] at hd; exact ih F hF a m hs hd
      · rw [if_neg hb, append_nil_iff] at hd; exact ih F hF a m hs hd.2
    · exact ih F hF a m hs hd.2
    · exact ih F hF a m hs hd.2
  | @iteL f sa sb ρ tr r _ ih =>
    intro F hF a m hs hd
    simp only [drops, append_nil_iff] at hd
    exact ih F hF a m hs hd.1
  | @iteR f sa sb ρ tr r _ ih =>
    intro F hF a m hs hd
    simp only [drops, append_nil_iff] at hd
    exact ih F hF a m hs hd.2
  | @succ f n k ρ tr r _ ih =>
    intro F hF a m hs hd
    cases m with
    | failed s b rt => simp [drops] at hd
    | clean aft =>
      simp only [drops, append_nil_iff] at hd
      have h2 := ih F hF a (.clean aft) hs hd.1
      exact ⟨(fun hf => by cases hf), h2⟩
  | @resp f n k ρ tr r _ ih =>
    intro F hF a m hs hd
    cases m with
    | clean aft =>
      simp only [drops] at hd
      have h2 := ih F hF a (.clean aft) hs hd
      exact ⟨(fun hf => by cases hf), h2⟩
    | failed s b rt =>
      simp only [drops] at hd
      obtain ⟨hgood, h2⟩ := ih F hF a (.failed s true rt) hs hd
      refine ⟨⟨(fun hf => by cases hf), hgood⟩, ?_⟩
      rcases h2 with h2 | ⟨h21, h22, h23⟩
      · left; exact ⟨h2.1, by simpa [retriedAt, Ev.isCallAt] using h2.2⟩
      · right
        refine ⟨by simpa [noSucc, Ev.isSucc] using h21, by simpa [noFail, Ev.isFail] using h22, ?_⟩
        cases hk : F.kind <;> simp_all [hasResp, Ev.isResp]
  | @attempt f i n k ρ tr r _ ih =>
    intro F hF a m hs hd
    simp only [drops] at hd
    exact ih F hF a m hs hd
  | @ret f rt ρ x hv =>
    intro F hF a m hs hd
    cases m with
    | clean aft => exact trivial
    | failed s b rtr =>
      refine ⟨trivial, Or.inr ⟨rfl, rfl, ?_⟩⟩
      cases hk : F.kind <;> simp only [drops, hk] at hd ⊢
      · -- void
        left
        by_cases hb : b = true
        · exact hb
        · simp [hb] at hd
      · -- err
        by_cases hh : retHard A.benign a rt = true
        · cases hv with
          | varSent ht => simp [retHard, ht] at hh
          | @var v tags w ht =>
            simp only [retHard, ht, Bool.not_false, Bool.true_and, beq_iff_eq] at hh
            have := hs v; rw [hh] at this
            cases hρ : ρ v <;> simp [hρ, AV.sat] at this; rfl
          | freshSent ht => simp [retHard, ht] at hh
          | fresh ht => rfl
          | nil => simp [retHard] at hh
          | unk => simp [retHard] at hh
        · simp [hh] at hd
      · -- bool
        by_cases hh : retHard A.benign a rt = true
        · cases hv with
          | varSent ht => simp [retHard, ht] at hh
          | @var v tags w ht =>
            simp only [retHard, ht, Bool.not_false, Bool.true_and, beq_iff_eq] at hh
            have := hs v; rw [hh] at this
            cases hρ : ρ v <;> simp [hρ, AV.sat] at this; rfl
          | freshSent ht => simp [retHard, ht] at hh
          | fresh ht => rfl
          | nil => simp [retHard] at hh
          | unk => simp [retHard] at hh
        · simp [hh] at hd
      · -- val
        simp at hd

/-- soundness, for a whole function started in any environment: every failure is followed by a closed suffix -/
theorem fn_good {P : List Fn} {A : Audit} (hW : WF P A) {f : Nat} {F : Fn} (hF : P[f]? = some F)
    {ρ : Env} {tr : List Ev} {x : CV} (h : Run P A f F.sk ρ tr x) : Good F.kind x tr :=
  drops_sound hW h F hF [] (.clean none) (sat_nil ρ) (hW.ok f F hF)

/-! ### the executable path finder only finds executions of the semantics -/

theorem retValue_sound {benign : List String} {ρ : Env} {rt : Ret} {x : CV} (h : retValue benign ρ rt = some x) : RetVal benign ρ rt x := by
  cases rt with
  | var v tags w =>
    simp only [retValue, Option.some.injEq] at h
    by_cases hb : anyBenign benign tags = true
    · rw [if_pos hb] at h; subst h; exact .varSent hb
    · rw [if_neg hb] at h; subst h; exact .var (by simpa using hb)
  | fresh tags w =>
    simp only [retValue, Option.some.injEq] at h
    by_cases hb : anyBenign benign tags = true
    · rw [if_pos hb] at h; subst h; exact .freshSent hb
    · rw [if_neg hb] at h; subst h; exact .fresh (by simpa using hb)
  | nil => simp only [retValue, Option.some.injEq] at h; subst h; exact .nil
  | unk => simp [retValue] at h

private theorem map_some {α β : Type} {g : α → β} {o : Option α} {b : β} (h : Option.map g o = some b) : ∃ a, o = some a ∧ g a = b := by
  cases o with
  | none => simp at h
  | some a => exact ⟨a, rfl, by simpa using h⟩

theorem exec_sound {P : List Fn} {A : Audit} : ∀ (n f : Nat) (sk : Sk) (ρ : Env) (cs : List Choice) (tr : List Ev) (x : CV) (cs' : List Choice),
    exec P A n f sk ρ cs = some (tr, x, cs') → Run P A f sk ρ tr x := by
  intro n
  induction n with
  | zero => intro f sk ρ cs tr x cs' h; simp [exec] at h
  | succ n ih =>
    intro f sk ρ cs tr x cs' h
    cases sk with
    | call site c v k =>
      cases cs with
      | nil => simp [exec] at h
      | cons ch cs =>
        unfold exec at h
        split at h
        · exact .delegateOk (ih _ _ _ _ _ _ _ h)
        · obtain ⟨r, hr, he⟩ := map_some h
          obtain ⟨t, y, c2⟩ := r
          simp only [Prod.mk.injEq] at he
          obtain ⟨rfl, rfl, rfl⟩ := he
          exact .delegateFail (ih _ _ _ _ _ _ _ hr)
        · split at h
          · cases h
          · rename_i g hfind
            split at h
            · cases h
            · rename_i G hG
              split at h
              · cases h
              · rename_i tr1 y cs1 h1
                obtain ⟨r, hr, he⟩ := map_some h
                obtain ⟨t, z, c2⟩ := r
                simp only [Prod.mk.injEq] at he
                obtain ⟨rfl, rfl, rfl⟩ := he
                exact .op (List.mem_of_find?_eq_some hfind) hG (ih _ _ _ _ _ _ _ h1) (ih _ _ _ _ _ _ _ hr)
        · split at h
          · rename_i hl
            obtain ⟨r, hr, he⟩ := map_some h
            obtain ⟨t, z, c2⟩ := r
            simp only [Prod.mk.injEq] at he
            obtain ⟨rfl, rfl, rfl⟩ := he
            exact .leafOk hl (Or.inl rfl) (ih _ _ _ _ _ _ _ hr)
          · cases h
        · split at h
          · rename_i hl
            obtain ⟨r, hr, he⟩ := map_some h
            obtain ⟨t, z, c2⟩ := r
            simp only [Prod.mk.injEq] at he
            obtain ⟨rfl, rfl, rfl⟩ := he
            exact .leafOk hl (Or.inr rfl) (ih _ _ _ _ _ _ _ hr)
          · cases h
        · split at h
          · rename_i hl
            obtain ⟨r, hr, he⟩ := map_some h
            obtain ⟨t, z, c2⟩ := r
            simp only [Prod.mk.injEq] at he
            obtain ⟨rfl, rfl, rfl⟩ := he
            exact .leafFail hl (ih _ _ _ _ _ _ _ hr)
          · cases h
        · cases h
    | kill v k =>
      unfold exec at h
      split at h
      · exact .kill (ih _ _ _ _ _ _ _ h)
      · cases h
    | ifErr v a b =>
      unfold exec at h
      split at h
      · rename_i hv; exact .ifErrF hv (ih _ _ _ _ _ _ _ h)
      · rename_i hv; exact .ifErrT hv (ih _ _ _ _ _ _ _ h)
    | ifIs v s a b =>
      unfold exec at h
      split at h
      · rename_i hm; exact .ifIsT (by rw [hm]; simp) (ih _ _ _ _ _ _ _ h)
      · rename_i hm; exact .ifIsF (by rw [hm]; simp) (ih _ _ _ _ _ _ _ h)
      · rename_i hm
        split at h
        · exact .ifIsT (by rw [hm]; simp) (ih _ _ _ _ _ _ _ h)
        · exact .ifIsF (by rw [hm]; simp) (ih _ _ _ _ _ _ _ h)
        · cases h
    | ite a b =>
      unfold exec at h
      split at h
      · exact .iteL (ih _ _ _ _ _ _ _ h)
      · exact .iteR (ih _ _ _ _ _ _ _ h)
      · cases h
    | succ nm k =>
      unfold exec at h
      obtain ⟨r, hr, he⟩ := map_some h
      obtain ⟨t, z, c2⟩ := r
      simp only [Prod.mk.injEq] at he
      obtain ⟨rfl, rfl, rfl⟩ := he
      exact .succ (ih _ _ _ _ _ _ _ hr)
    | resp nm k =>
      unfold exec at h
      obtain ⟨r, hr, he⟩ := map_some h
      obtain ⟨t, z, c2⟩ := r
      simp only [Prod.mk.injEq] at he
      obtain ⟨rfl, rfl, rfl⟩ := he
      exact .resp (ih _ _ _ _ _ _ _ hr)
    | attempt i m k =>
      unfold exec at h
      exact .attempt (ih _ _ _ _ _ _ _ h)
    | ret rt =>
      unfold exec at h
      split at h
      · rename_i y hy
        simp only [Option.some.injEq, Prod.mk.injEq] at h
        obtain ⟨rfl, rfl, rfl⟩ := h
        exact .ret (retValue_sound hy)
      · rename_i hy
        split at h
        · simp only [Option.some.injEq, Prod.mk.injEq] at h
          obtain ⟨rfl, rfl, rfl⟩ := h
          cases rt <;> simp [retValue] at hy
          exact .ret .unk
        · cases h

theorem execFn_sound {P : List Fn} {A : Audit} {name : String} {script : List Choice} {tr : List Ev} {x : CV}
    (h : execFn P A name script = some (tr, x)) :
    ∃ f F, P.findIdx? (·.name == name) = some f ∧ P[f]? = some F ∧ Run P A f F.sk (fun _ => .nil) tr x := by
  unfold execFn at h
  split at h
  · cases h
  · rename_i f hf
    split at h
    · cases h
    · rename_i F hF
      obtain ⟨r, hr, he⟩ := map_some h
      obtain ⟨t, z, c2⟩ := r
      simp only [Prod.mk.injEq] at he
      obtain ⟨rfl, rfl⟩ := he
      exact ⟨f, F, hf, hF, exec_sound _ _ _ _ _ _ _ _ hr⟩

end C10.Flow
