/-
  C16: "the issued tokens carry the approving user's subject and the requested scopes" - composition of the REGENERATED state check
  (Generated/Device.lean `CheckDeviceAuthorizationState`) with the REGENERATED issuance code the C06 slice proves about
  (Generated/IssueC06.lean `CreateDeviceTokenResponse` → `CreateAccessToken` → `createTokens` / `CreateJWT` / `CreateBearerToken`,
  `CreateIDToken`), for every behaviour of the storage's token methods, of the crypto and of the signer.
  The C16 history model carries the issue as (state, client) (`Hand.issueForDevice`); this file says what the library's issuance
  makes of exactly that state.
-/
import OidcModel.Proofs.C16
import OidcModel.Proofs.C06Issue

namespace C16
open Go Gen Hand IssC06 C06

/-- `*DeviceAuthorizationState` as the `TokenRequest` / `IDTokenRequest` that CreateDeviceTokenResponse reads (the getter methods of
    pkg/op/device.go; the reference storage leaves `Audience` and `AMR` empty, so `GetAudience` is the client id alone);
    `refresh` = the verdict of `needsRefreshToken` for this state and client -/
def devIssRequest (st : DeviceAuthorizationState) (refresh : Bool) : IssRequest :=
  { GetSubject := st.Subject, GetAudience := [st.ClientID], GetScopes := st.Scopes, GetAuthTime := st.AuthTime, GetClientID := st.ClientID,
    is_IDTokenRequest := true, is_AuthRequest := false, needsRefreshToken := refresh }

/-- **C16, issued tokens.** Let the regenerated state check hand out the state `st` for the poll of client `cid` with device code
    `code` (so the storage reports it for exactly this client and code, approved and not denied), and let the regenerated
    CreateDeviceTokenResponse answer `r` for it.  Then
    * the response's `scope` is the scope list stored with the device code;
    * the storage was asked to create the access token (and refresh token) for a request whose subject is the approver's subject
      `st.Subject`, whose scopes are `st.Scopes` and whose client is the poller; an opaque access token is the encryption of
      `<token id>:<st.Subject>`, a JWT access token is `CreateJWT` of that request;
    * with scope `openid` the ID token is the provider's signature over claims whose `sub` is `st.Subject` - or a non-empty
      subject the storage's own userinfo method put there -, without `openid` there is no ID token. -/
theorem c16_issue_carries {now : Int} {cid code : String} {p : DevProvider} {st : DeviceAuthorizationState}
    (hst : CheckDeviceAuthorizationState now cid code p = .ok st)
    (refresh : Bool) (creator : IssCreator) (client : IssClient) (r : IssTokenResponse)
    (h : GenC06.CreateDeviceTokenResponse now (devIssRequest st refresh) creator client = .ok r) :
    (st.Done = true ∧ st.Denied = false ∧ st.ClientID = cid) ∧
    r.Scope = st.Scopes ∧
    (∃ id exp,
        (if refresh then creator.Storage.CreateAccessAndRefreshTokens (devIssRequest st refresh) "" = .ok (id, r.RefreshToken, exp)
         else creator.Storage.CreateAccessToken (devIssRequest st refresh) = .ok (id, exp) ∧ r.RefreshToken = "") ∧
        (client.AccessTokenType ≠ IssConst.AccessTokenTypeJWT → creator.Crypto.Encrypt (id ++ ":" ++ st.Subject) = .ok r.AccessToken) ∧
        (client.AccessTokenType = IssConst.AccessTokenTypeJWT →
          GenC06.CreateJWT now creator.IssuerFromContext (devIssRequest st refresh) exp id client creator.Storage = .ok r.AccessToken)) ∧
    (if st.Scopes.contains IssConst.ScopeOpenID then
        ∃ key c, creator.Storage.SigningKey = .ok key ∧ key.signID c = .ok r.IDToken ∧
          (c.Subject = st.Subject ∨ (c.Subject ≠ "" ∧ c.Subject = c.UserInfo.Subject))
      else r.IDToken = "") := by
  obtain ⟨_, hlook, hden, hdone⟩ := checkState_ok hst
  obtain ⟨_, e, _, hes, hecl⟩ := lookup_ok hlook
  have hcl : st.ClientID = cid := by rw [← hes]; exact hecl
  obtain ⟨hscope, _, _, ⟨validity, hat, _⟩, hid⟩ := c06_device_response now (devIssRequest st refresh) creator client r h
  obtain ⟨id, exp, hct, _, hjwt, hopaque⟩ := c06_access_token now (devIssRequest st refresh) client.AccessTokenType creator client ""
    r.AccessToken r.RefreshToken validity hat
  rw [createTokens_spec] at hct
  refine ⟨⟨hdone, hden, hcl⟩, hscope, ⟨id, exp, ?_, hopaque, hjwt⟩, ?_⟩
  · cases refresh with
    | true => simpa [devIssRequest] using hct
    | false =>
      simp only [devIssRequest, Bool.false_eq_true, if_false] at hct ⊢
      split at hct
      · simp at hct
      · rename_i id' exp' hc
        simp only [Except.ok.injEq, Prod.mk.injEq] at hct
        obtain ⟨rfl, hrt, rfl⟩ := hct
        exact ⟨hc, hrt.symm⟩
  · have hreq : (devIssRequest st refresh).is_IDTokenRequest = true := rfl
    have hsc : (devIssRequest st refresh).GetScopes = st.Scopes := rfl
    have hsub : (devIssRequest st refresh).GetSubject = st.Subject := rfl
    simp only [hreq, hsc, Bool.true_and] at hid
    by_cases ho : st.Scopes.contains IssConst.ScopeOpenID = true
    · simp only [ho, if_true] at hid ⊢
      obtain ⟨key, c, hkey, _, hsig, _, _, _, hs⟩ := c06_id_token_claims now creator.IssuerFromContext (devIssRequest st refresh)
        client.IDTokenLifetime r.AccessToken "" creator.Storage client r.IDToken hid
      exact ⟨key, c, hkey, hsig, by rw [← hsub]; exact hs⟩
    · simp only [ho] at hid ⊢
      exact hid

end C16
