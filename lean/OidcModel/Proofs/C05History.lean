/-
  C05, history level: the registrations (and the provider's flags) CHANGE between requests - a client is registered or removed, its
  secret is rotated, its authentication method is changed, a grant type is added to or removed from its registration - while
  everything else the storage holds (codes, refresh tokens, approved device authorizations: the grant MATERIAL made under the old
  registration) stays.  Every request of such a history is judged by the registration that is CURRENT when it arrives:

  * `c05_history_partial` (induction over the operation list): the monitor `C05.judge`, configured with the registrations of the
    moment, accepts every response of the regenerated endpoint layer, for every history;
  * `run_append` / `c05_history_state`: "the registrations of the moment" are the initial ones with every administrative operation
    that precedes the request applied, in order - nothing of an older registration survives in the judgement;
  * the consequences for the three kinds of change, for the request that FOLLOWS the change (from an arbitrary state, hence at
    any point of any history): `c05_rotated_secret_next_request` (the old secret no longer yields tokens),
    `c05_removed_grant_next_request` (no tokens through the removed grant, whatever material exists),
    `c05_method_changed_next_request` (after a change to private_key_jwt a secret no longer yields tokens).

  Layer 2 only: built on `c05_auth_required_partial` / `c05_tokens_only_authenticated` (Proofs/C05Endpoint.lean); no regenerated
  definition is unfolded here.
-/
import OidcModel.Proofs.C05Endpoint
namespace C05
open Go Gen Hand Flow

/-- change the registration of client `id` -/
def updClient (f : OPClient → OPClient) (id : String) (cs : List OPClient) : List OPClient :=
  cs.map fun c => if c.id == id then f c else c

/-- what can happen at a provider: administrative changes of the registrations / flags, and requests -/
inductive HOp
  | register (c : OPClient)
  | unregister (id : String)
  | rotateSecret (id secret : String)
  | setAuthMethod (id method : String)
  | addGrant (id grant : String)
  | removeGrant (id grant : String)
  | setConfig (cfg : EPConfig)
  | request (now : Int) (rt : Router) (o : EPOracles) (e : EP.Endpoint) (r : EPRequest)

/-- the provider with other registrations; codes, refresh tokens, device authorizations, keys of the storage are kept -/
def withClients (x : EPProvider) (cs : List OPClient) : EPProvider :=
  { x with storage := { x.storage with base := { x.storage.base with clients := cs } } }

/-- the effect of an operation on the provider (a request does not change registrations) -/
def admin (x : EPProvider) : HOp → EPProvider
  | .register c => withClients x (c :: x.storage.base.clients.filter (·.id != c.id))
  | .unregister id => withClients x (x.storage.base.clients.filter (·.id != id))
  | .rotateSecret id s => withClients x (updClient (fun c => { c with secret := s }) id x.storage.base.clients)
  | .setAuthMethod id m => withClients x (updClient (fun c => { c with auth := m }) id x.storage.base.clients)
  | .addGrant id g => withClients x (updClient (fun c => { c with grants := g :: c.grants }) id x.storage.base.clients)
  | .removeGrant id g => withClients x (updClient (fun c => { c with grants := c.grants.filter (· != g) }) id x.storage.base.clients)
  | .setConfig cfg => { x with config := cfg }
  | .request .. => x

/-- one answered request of a history, with the provider as it was when the request arrived -/
structure HEvent where
  x : EPProvider
  now : Int
  rt : Router
  o : EPOracles
  e : EP.Endpoint
  r : EPRequest
  resp : EPResp

/-- run a history: every request is answered by the regenerated endpoint layer on the CURRENT provider -/
def run : EPProvider → List HOp → List HEvent
  | _, [] => []
  | x, op :: ops =>
    match op with
    | .request now rt o e r => ⟨x, now, rt, o, e, r, EP.endpointDecision now rt x o e r⟩ :: run x ops
    | op => run (admin x op) ops

/-- the hypotheses of `c05_auth_required_partial` (findings F-C05e, g, h), at every request of the history, for the provider of
    that moment -/
def Assumed : EPProvider → List HOp → Prop
  | _, [] => True
  | x, op :: ops =>
    match op with
    | .request _ rt _ e r => Assumptions rt x e r ∧ Assumed x ops
    | op => Assumed (admin x op) ops

/-- the monitor's verdict on an event: judged with the registrations and flags of the provider AT THAT MOMENT -/
def HEvent.verdict (ev : HEvent) : Option String :=
  judge (cfgOf ev.x) ev.now (specEndpoint ev.e ev.r) (credsOf ev.o ev.r) (obsOf ev.resp)

/-- **C05 over histories (partial: outside the findings left on record).**  Whatever sequence of registrations, removals, secret
    rotations, method changes, grant additions / removals, flag changes and requests (both routers, all endpoints, all oracle
    answers) a provider goes through: every response is accepted by the monitor configured with the registrations CURRENT at
    that request. -/
theorem c05_history_partial (x : EPProvider) (ops : List HOp) (h : Assumed x ops) : ∀ ev ∈ run x ops, ev.verdict = none := by
  induction ops generalizing x with
  | nil => intro ev hev; simp [run] at hev
  | cons op ops ih =>
    cases op with
    | request now rt o e r =>
      obtain ⟨ha, hrest⟩ := h
      intro ev hev
      simp only [run, List.mem_cons] at hev
      rcases hev with rfl | hev
      · exact c05_auth_required_partial now rt x o e r ha
      · exact ih x hrest ev hev
    | register c => exact ih _ h
    | unregister id => exact ih _ h
    | rotateSecret id s => exact ih _ h
    | setAuthMethod id m => exact ih _ h
    | addGrant id g => exact ih _ h
    | removeGrant id g => exact ih _ h
    | setConfig cfg => exact ih _ h

/-- the provider after a list of operations -/
def after (x : EPProvider) (ops : List HOp) : EPProvider := ops.foldl admin x

theorem run_append (x : EPProvider) (pre post : List HOp) : run x (pre ++ post) = run x pre ++ run (after x pre) post := by
  induction pre generalizing x with
  | nil => simp [run, after]
  | cons op pre ih =>
    cases op <;> simp [run, after, admin, ih] <;> rfl

/-- **the judgement uses the current registration and nothing else**: a request that arrives after the operations `pre` is
    answered by, and judged with, the initial provider with exactly those operations applied in order -/
theorem c05_history_state (x : EPProvider) (pre post : List HOp) (now : Int) (rt : Router) (o : EPOracles) (e : EP.Endpoint) (r : EPRequest) :
    ∃ evs, run x (pre ++ .request now rt o e r :: post) =
      run x pre ++ ⟨after x pre, now, rt, o, e, r, EP.endpointDecision now rt (after x pre) o e r⟩ :: evs := by
  rw [run_append]
  exact ⟨run (after x pre) post, by simp [run]⟩

/-! ## what the three kinds of change mean for the NEXT request -/

theorem find_updClient {f : OPClient → OPClient} (hf : ∀ c, (f c).id = c.id) (id id' : String) (cs : List OPClient) :
    (updClient f id cs).find? (·.id == id') = (cs.find? (·.id == id')).map (fun c => if c.id == id then f c else c) := by
  induction cs with
  | nil => rfl
  | cons c cs ih =>
    have hid : (if c.id == id then f c else c).id = c.id := by split <;> simp [hf]
    simp only [updClient, List.map_cons, List.find?_cons, hid] at ih ⊢
    cases h : c.id == id' with
    | true => rfl
    | false => exact ih

/-- a credential that fits a registration with a secret method carries that registration's id and ITS (current) secret -/
theorem credsFit_secret {c : Cfg} {now : Int} {cl : OPClient} {k : Creds} (hfit : credsFit c now cl k = true)
    (hm : cl.auth = "client_secret_basic" ∨ cl.auth = "client_secret_post") :
    ∃ p, k.primary = some p ∧ p.clientID = cl.id ∧ p.secret = cl.secret := by
  have hn : (cl.auth == "none") = false := by rcases hm with h | h <;> simp [h]
  have hk : (cl.auth == "private_key_jwt") = false := by rcases hm with h | h <;> simp [h]
  unfold credsFit at hfit
  cases hkp : k.primary with
  | none => cases hka : k.assertion <;> simp [hka, hkp, credentialFits, C04.callerIs, hn, hk] at hfit
  | some p =>
    refine ⟨p, rfl, ?_⟩
    cases hka : k.assertion <;> simp [hka, hkp, credentialFits, C04.callerIs, hn, hk] at hfit <;> exact ⟨hfit.1.1, hfit.1.2⟩

/-- a credential that fits a private_key_jwt registration is an assertion that proves that client -/
theorem credsFit_pkjwt {c : Cfg} {now : Int} {cl : OPClient} {k : Creds} (hfit : credsFit c now cl k = true)
    (hm : cl.auth = "private_key_jwt") :
    ∃ t, k.assertion = some t ∧
      C14.provesClient c.base.issuer c.base.jwtMaxAgeIAT c.base.jwtOffset (C04.registry c.base.clients) t now = some cl.id := by
  have hn : (cl.auth == "none") = false := by simp [hm]
  have hk : (cl.auth == "private_key_jwt") = true := by simp [hm]
  unfold credsFit at hfit
  cases hka : k.assertion with
  | none => cases hkp : k.primary <;> simp [hka, hkp, credentialFits, C04.callerIs, hn, hk] at hfit
  | some t =>
    refine ⟨t, rfl, ?_⟩
    cases hkp : k.primary <;> simp [hka, hkp, credentialFits, C04.callerIs, hn, hk] at hfit <;> exact hfit.1

@[simp] theorem withClients_clients (x : EPProvider) (cs : List OPClient) : (withClients x cs).storage.base.clients = cs := rfl

/-- **secret rotated**: the request that follows the rotation of a secret-authenticated client's secret gets tokens for that
    client (code, refresh, token exchange, device grant; either router) only if it presents the NEW secret - codes, refresh
    tokens and device codes obtained under the old secret do not help -/
theorem c05_rotated_secret_next_request (x : EPProvider) (id snew : String) (now : Int) (rt : Router) (o : EPOracles) (r : EPRequest)
    (h : Assumptions rt (admin x (.rotateSecret id snew)) .token r)
    (hb : grantOf r ≠ Const.GrantTypeBearer) (hcc : grantOf r ≠ Const.GrantTypeClientCredentials)
    {cl : OPClient} (hreg : x.storage.base.clients.find? (·.id == id) = some cl)
    (hm : cl.auth = "client_secret_basic" ∨ cl.auth = "client_secret_post")
    (hold : ∀ p, (credsOf o r).primary = some p → p.secret ≠ snew) (g : String) :
    EP.endpointDecision now rt (admin x (.rotateSecret id snew)) o .token r ≠ .ok (.tokens g id) := by
  intro hresp
  obtain ⟨cl', hf, hfit, _, _⟩ := c05_tokens_only_authenticated now rt _ o r h hresp hb hcc
  have hid : cl.id = id := find_id hreg
  simp only [admin, withClients_clients] at hf
  rw [find_updClient (f := fun c => { c with secret := snew }) (fun _ => rfl), hreg] at hf
  simp only [Option.map_some, hid, beq_self_eq_true, if_true, Option.some.injEq] at hf
  subst hf
  obtain ⟨p, hp, _, hs⟩ := credsFit_secret hfit hm
  exact hold p hp hs

/-- **grant removed**: the request that follows the removal of grant `g` from a client's registration gets no tokens for that
    client through `g`, whatever material (code, refresh token, approved device code) exists from before -/
theorem c05_removed_grant_next_request (x : EPProvider) (id : String) (now : Int) (rt : Router) (o : EPOracles) (r : EPRequest)
    (h : Assumptions rt (admin x (.removeGrant id (grantOf r))) .token r)
    (hb : grantOf r ≠ Const.GrantTypeBearer) (hcc : grantOf r ≠ Const.GrantTypeClientCredentials) (g : String) :
    EP.endpointDecision now rt (admin x (.removeGrant id (grantOf r))) o .token r ≠ .ok (.tokens g id) := by
  intro hresp
  obtain ⟨cl', hf, _, _, hg⟩ := c05_tokens_only_authenticated now rt _ o r h hresp hb hcc
  simp only [admin, withClients_clients] at hf
  rw [find_updClient (f := fun c => { c with grants := c.grants.filter (· != grantOf r) }) (fun _ => rfl)] at hf
  cases hreg : x.storage.base.clients.find? (·.id == id) with
  | none => simp [hreg] at hf
  | some cl =>
    have hid : cl.id = id := find_id hreg
    simp only [hreg, Option.map_some, hid, beq_self_eq_true, if_true, Option.some.injEq] at hf
    subst hf
    simp at hg

/-- **authentication method changed to private_key_jwt**: the request that follows gets tokens for that client only with a
    `client_assertion` that proves it; its (still stored) secret no longer counts -/
theorem c05_method_changed_next_request (x : EPProvider) (id : String) (now : Int) (rt : Router) (o : EPOracles) (r : EPRequest)
    (h : Assumptions rt (admin x (.setAuthMethod id "private_key_jwt")) .token r)
    (hb : grantOf r ≠ Const.GrantTypeBearer) (hcc : grantOf r ≠ Const.GrantTypeClientCredentials) {g : String}
    (hresp : EP.endpointDecision now rt (admin x (.setAuthMethod id "private_key_jwt")) o .token r = .ok (.tokens g id)) :
    C14.provesClient x.issuer (3600 * Go.second) Go.second
      (C04.registry (admin x (.setAuthMethod id "private_key_jwt")).storage.base.clients) (o.tokenOf (r.Form.last "client_assertion")) now = some id := by
  obtain ⟨cl', hf, hfit, _, _⟩ := c05_tokens_only_authenticated now rt _ o r h hresp hb hcc
  have hf' := hf
  simp only [admin, withClients_clients] at hf
  rw [find_updClient (f := fun c => { c with auth := "private_key_jwt" }) (fun _ => rfl)] at hf
  cases hreg : x.storage.base.clients.find? (·.id == id) with
  | none => simp [hreg] at hf
  | some cl =>
    have hid : cl.id = id := find_id hreg
    simp only [hreg, Option.map_some, hid, beq_self_eq_true, if_true, Option.some.injEq] at hf
    subst hf
    obtain ⟨t, ht, hp⟩ := credsFit_pkjwt hfit rfl
    have : t = o.tokenOf (r.Form.last "client_assertion") := (Option.some.inj ht).symm
    subst this
    have hiss : (admin x (.setAuthMethod id "private_key_jwt")).issuer = x.issuer := rfl
    simpa [cfgOf, hid, hiss] using hp

/-! ## non-vacuity: concrete histories on the demo provider (both routers) -/

namespace Demo

/-- the responses of a history: served? / refused with an error status? -/
def outcomes (x : EPProvider) (ops : List HOp) : List (Bool × Bool) :=
  (run x ops).map fun ev => ((obsOf ev.resp).success, decide ((obsOf ev.resp).status ≥ 400))
def verdicts (x : EPProvider) (ops : List HOp) : List (Option String) := (run x ops).map HEvent.verdict

def newBasic : Option (String × String) := some ("web", "s-new")
def refreshNew := req newBasic [("grant_type", "refresh_token"), ("refresh_token", "rt1")]
def codeNew := req newBasic [("grant_type", "authorization_code"), ("code", "c1"), ("redirect_uri", "https://rp.example/cb")]

/-- refresh served; secret rotated; the old secret is refused (401 / 400) and the new one served, on both routers; all accepted by the monitor -/
def rotateHistory (rt : Router) : List HOp :=
  [.request 0 rt {} .token refreshReq, .rotateSecret "web" "s-new", .request 0 rt {} .token refreshReq, .request 0 rt {} .token refreshNew]

example : [Router.provider, Router.legacy].all (fun rt =>
    outcomes provider (rotateHistory rt) == [(true, false), (false, true), (true, false)] &&
    (verdicts provider (rotateHistory rt)).all (·.isNone)) = true := by decide

/-- the code was issued while `web` had the authorization_code grant; the grant is removed; the exchange is refused (400) -/
def removeHistory (rt : Router) : List HOp :=
  [.removeGrant "web" Const.GrantTypeCode, .request 0 rt {} .token codeReq, .addGrant "web" Const.GrantTypeCode, .request 0 rt {} .token codeReq]

example : [Router.provider, Router.legacy].all (fun rt =>
    outcomes provider (removeHistory rt) == [(false, true), (true, false)] &&
    (verdicts provider (removeHistory rt)).all (·.isNone)) = true := by decide

/-- `web` is switched to private_key_jwt: its secret is refused from then on; the client is removed: refused as well -/
def methodHistory (rt : Router) : List HOp :=
  [.setAuthMethod "web" "private_key_jwt", .request 0 rt {} .token refreshReq, .setAuthMethod "web" "client_secret_basic",
   .request 0 rt {} .token refreshReq, .unregister "web", .request 0 rt {} .token refreshReq]

example : [Router.provider, Router.legacy].all (fun rt =>
    (outcomes provider (methodHistory rt)).map (·.1) == [false, true, false] &&
    (verdicts provider (methodHistory rt)).all (·.isNone)) = true := by decide

/-- the hypotheses of the history theorem are satisfiable for these histories -/
example : Assumed provider (rotateHistory .legacy) := by
  refine ⟨⟨?_, ?_, ?_, ?_, ?_⟩, ⟨?_, ?_, ?_, ?_, ?_⟩, ⟨?_, ?_, ?_, ?_, ?_⟩, trivial⟩ <;> intro h <;> first | (cases h; done) | (intro h2; cases h2)

end Demo

/-! ## finding F-C05i (a history manifestation of F-C05h; hypothesis `compareOnly` of `c05_auth_required_partial`)

  A client is switched from client_secret_basic to private_key_jwt; its secret stays in the storage (nobody deletes a column when
  a method changes).  With a storage whose `AuthorizeClientIDSecret` only compares the stored secret, the Provider router keeps
  accepting the OLD way of authenticating at introspection / revocation / token exchange / the device_code grant: the next
  request, presenting the secret in a Basic header, is served although the CURRENT registration demands an assertion.  The Server
  router (VerifyClient switches on the registered method) and a storage that checks the method refuse it. -/

namespace Witness
def methodHistory (rt : Router) : List HOp :=
  [.request 0 rt {} .introspect Demo.tokenReq, .setAuthMethod "web" "private_key_jwt", .request 0 rt {} .introspect Demo.tokenReq]
def cmpDemo : EPProvider := { Demo.provider with storage := { Demo.provider.storage with secretCompareOnly := true } }
end Witness

open Witness in
theorem c05_method_change_compare_only_witness :
    (run cmpDemo (methodHistory .provider)).map HEvent.verdict = [none, some "secret-accepted-for-a-private_key_jwt-client"] := by
  decide

/-- the same history at the Server router's introspection endpoint (`authenticateResourceClient` asks the storage directly: the
    guard "a secret or an assertion is present" is met by the old secret - hypothesis `stray` of the partial theorem) -/
theorem c05_method_change_compare_only_witness_legacy :
    (run Witness.cmpDemo (Witness.methodHistory .legacy)).map HEvent.verdict = [none, some "secret-accepted-for-a-private_key_jwt-client"] := by
  decide

/-- judged by the current registration and REFUSED after the change: every endpoint over a storage that checks the registered
    method (both routers), and revocation / the token endpoint of the Server router (VerifyClient switches on the registered
    method) even over the comparing storage -/
example : [Router.provider, Router.legacy].all (fun rt => [EP.Endpoint.introspect, .revoke, .token].all fun e =>
      let r := if e == .token then Demo.refreshReq else Demo.tokenReq
      (run Demo.provider [.request 0 rt {} e r, .setAuthMethod "web" "private_key_jwt", .request 0 rt {} e r]).map
        (fun ev => ((obsOf ev.resp).success, ev.verdict)) == [(true, none), (false, none)]) = true ∧
    [EP.Endpoint.revoke, .token].all (fun e =>
      let r := if e == .token then Demo.refreshReq else Demo.tokenReq
      (run Witness.cmpDemo [.request 0 .legacy {} e r, .setAuthMethod "web" "private_key_jwt", .request 0 .legacy {} e r]).map
        (fun ev => ((obsOf ev.resp).success, ev.verdict)) == [(true, none), (false, none)]) = true := by
  decide

end C05
